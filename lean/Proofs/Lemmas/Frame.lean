import Model.Frame
import Model.FrameSpec
/-!
Helper lemmas for C05 (framing). Sections: variable byte integer, fixed header / `check`,
`decode1`, buffer loops.
-/
namespace VarInt
open Frame

theorem pow128 (ll : Nat) : 2 ^ (7 * ll) = 128 ^ ll := by
  rw [Nat.pow_mul]

/-- appending bytes does not change a completed length -/
theorem lengthLoop_append_ok (x : List UInt8) : ∀ (bs : List UInt8) (a ll s n l : Nat),
    lengthLoop bs a ll s = .ok n l → lengthLoop (bs ++ x) a ll s = .ok n l := by
  intro bs
  induction bs with
  | nil => intro a ll s n l h; simp [lengthLoop] at h
  | cons b bs ih =>
    intro a ll s n l h
    simp only [List.cons_append, lengthLoop] at h ⊢
    split
    · rename_i hb; rw [if_pos hb] at h; exact h
    · rename_i hb
      simp only [hb, if_false] at h
      split
      · rename_i hs; simp [hs] at h
      · rename_i hs; simp only [hs, if_false] at h; exact ih _ _ _ _ _ h

theorem lengthLoop_append_malformed (x : List UInt8) : ∀ (bs : List UInt8) (a ll s : Nat),
    lengthLoop bs a ll s = .malformed → lengthLoop (bs ++ x) a ll s = .malformed := by
  intro bs
  induction bs with
  | nil => intro a ll s h; simp [lengthLoop] at h
  | cons b bs ih =>
    intro a ll s h
    simp only [List.cons_append, lengthLoop] at h ⊢
    split
    · rename_i hb; simp [hb] at h
    · rename_i hb
      simp only [hb, if_false] at h
      split
      · rfl
      · rename_i hs; simp only [hs, if_false] at h; exact ih _ _ _ h

/-- the number of length bytes is between 1 and what is there -/
theorem lengthLoop_ok_bounds : ∀ (bs : List UInt8) (a ll s n l : Nat),
    lengthLoop bs a ll s = .ok n l → ll < n ∧ n ≤ ll + bs.length := by
  intro bs
  induction bs with
  | nil => intro a ll s n l h; simp [lengthLoop] at h
  | cons b bs ih =>
    intro a ll s n l h
    simp only [lengthLoop] at h
    split at h
    · simp at h; simp; omega
    · split at h
      · simp at h
      · have := ih _ _ _ _ _ h; simp; omega

theorem lengthLoop_insufficient : ∀ (bs : List UInt8) (a ll s n : Nat),
    lengthLoop bs a ll s = .insufficient n → n = 1 := by
  intro bs
  induction bs with
  | nil => intro a ll s n h; simp [lengthLoop] at h; omega
  | cons b bs ih =>
    intro a ll s n h
    simp only [lengthLoop] at h
    split at h
    · simp at h
    · split at h
      · simp at h
      · exact ih _ _ _ _ h

theorem contLen_nil : contLen [] = 0 := rfl
theorem contLen_cons_lt (b : UInt8) (bs : List UInt8) (h : b.toNat < 128) : contLen (b :: bs) = 0 := by
  have : ¬ 128 ≤ b.toNat := by omega
  simp [contLen, List.takeWhile, this]
theorem contLen_cons_ge (b : UInt8) (bs : List UInt8) (h : ¬ b.toNat < 128) :
    contLen (b :: bs) = contLen bs + 1 := by
  have : 128 ≤ b.toNat := by omega
  simp [contLen, List.takeWhile, this]

theorem lengthLoop_spec : ∀ (bs : List UInt8) (a ll : Nat), ll ≤ 3 →
    lengthLoop bs a ll (7 * ll) =
      if 4 ≤ ll + contLen bs then .malformed
      else if contLen bs < bs.length then
        .ok (ll + contLen bs + 1) (a + 128 ^ ll * varIntValue (bs.take (contLen bs + 1)))
      else .insufficient 1 := by
  intro bs
  induction bs with
  | nil =>
    intro a ll hll
    have : ¬ 4 ≤ ll := by omega
    simp [lengthLoop, contLen_nil, this]
  | cons b bs ih =>
    intro a ll hll
    unfold lengthLoop
    by_cases hb : b.toNat < 128
    · have h4 : ¬ 4 ≤ ll := by omega
      rw [if_pos hb, contLen_cons_lt b bs hb, pow128]
      simp [h4, varIntValue, Nat.mul_comm]
    · rw [if_neg hb, contLen_cons_ge b bs hb]
      by_cases h3 : ll = 3
      · subst h3
        have : 4 ≤ 3 + (contLen bs + 1) := by omega
        simp [this]
      · have hs : ¬ 7 * ll + 7 > 21 := by omega
        rw [if_neg hs]
        have e : 7 * ll + 7 = 7 * (ll + 1) := by omega
        rw [e, ih _ (ll + 1) (by omega)]
        have e2 : ll + 1 + contLen bs = ll + (contLen bs + 1) := by omega
        rw [e2]
        by_cases h4 : 4 ≤ ll + (contLen bs + 1)
        · simp [h4]
        · simp only [h4, if_false, List.length_cons, Nat.add_lt_add_iff_right]
          by_cases hl : contLen bs < bs.length
          · simp only [hl, if_true, List.take_succ_cons, varIntValue, pow128]
            congr 1
            rw [Nat.pow_succ]
            generalize 128 ^ ll = P
            generalize varIntValue (List.take (contLen bs + 1) bs) = V
            generalize b.toNat % 128 = d
            rw [Nat.mul_add, Nat.add_assoc, Nat.mul_comm d P, Nat.mul_assoc]
          · simp [hl]
theorem length_eq_spec (bs : List UInt8) : length bs = lengthSpec bs := by
  have := lengthLoop_spec bs 0 0 (by omega)
  simp only [Nat.mul_zero, Nat.zero_add, Nat.pow_zero, Nat.one_mul] at this
  exact this

/-! encoder -/
theorem toNat_ofNat_lt (n : Nat) (h : n < 256) : (UInt8.ofNat n).toNat = n := by
  simp [UInt8.toNat_ofNat']; omega

theorem encodeDigits_1 (n : Nat) (h : n < 128) : encodeDigits n = [UInt8.ofNat n] := by
  have h0 : n / 128 = 0 := by omega
  have h1 : n % 128 = n := by omega
  simp [encodeDigits, encodeFuel, h0, h1]

theorem encodeDigits_2 (n : Nat) (h1 : 128 ≤ n) (h2 : n < 16384) :
    encodeDigits n = [UInt8.ofNat (n % 128 + 128), UInt8.ofNat (n / 128)] := by
  have a0 : n / 128 > 0 := by omega
  have a1 : n / 128 / 128 = 0 := by omega
  have a2 : n / 128 % 128 = n / 128 := by omega
  simp [encodeDigits, encodeFuel, a0, a1, a2]

theorem encodeDigits_3 (n : Nat) (h1 : 16384 ≤ n) (h2 : n < 2097152) :
    encodeDigits n = [UInt8.ofNat (n % 128 + 128), UInt8.ofNat (n / 128 % 128 + 128),
      UInt8.ofNat (n / 128 / 128)] := by
  have a0 : n / 128 > 0 := by omega
  have a1 : n / 128 / 128 > 0 := by omega
  have a2 : n / 128 / 128 / 128 = 0 := by omega
  have a3 : n / 128 / 128 % 128 = n / 128 / 128 := by omega
  simp [encodeDigits, encodeFuel, a0, a1, a2, a3]

theorem encodeDigits_4 (n : Nat) (h1 : 2097152 ≤ n) (h2 : n < 268435456) :
    encodeDigits n = [UInt8.ofNat (n % 128 + 128), UInt8.ofNat (n / 128 % 128 + 128),
      UInt8.ofNat (n / 128 / 128 % 128 + 128), UInt8.ofNat (n / 128 / 128 / 128)] := by
  have a0 : n / 128 > 0 := by omega
  have a1 : n / 128 / 128 > 0 := by omega
  have a2 : n / 128 / 128 / 128 > 0 := by omega
  have a3 : n / 128 / 128 / 128 / 128 = 0 := by omega
  have a4 : n / 128 / 128 / 128 % 128 = n / 128 / 128 / 128 := by omega
  simp [encodeDigits, encodeFuel, a0, a1, a2, a3, a4]

/-- five or more bytes beyond the 4-byte range (the encoder itself is not bounded) -/
theorem encodeDigits_5 (n : Nat) (h1 : 268435456 ≤ n) : 5 ≤ (encodeDigits n).length := by
  have a0 : n / 128 > 0 := by omega
  have a1 : n / 128 / 128 > 0 := by omega
  have a2 : n / 128 / 128 / 128 > 0 := by omega
  have a3 : n / 128 / 128 / 128 / 128 > 0 := by omega
  simp only [encodeDigits, encodeFuel, a0, a1, a2, a3, if_true]
  split <;> simp <;> omega

theorem length_1 (b : UInt8) (r : List UInt8) (h : b.toNat < 128) :
    length (b :: r) = .ok 1 b.toNat := by
  simp [length, lengthLoop, h]

theorem length_2 (b1 b2 : UInt8) (r : List UInt8) (h1 : 128 ≤ b1.toNat) (h2 : b2.toNat < 128) :
    length (b1 :: b2 :: r) = .ok 2 (b1.toNat % 128 + b2.toNat * 128) := by
  have x1 : ¬ b1.toNat < 128 := by omega
  simp [length, lengthLoop, x1, h2]; omega

theorem length_3 (b1 b2 b3 : UInt8) (r : List UInt8) (h1 : 128 ≤ b1.toNat) (h2 : 128 ≤ b2.toNat)
    (h3 : b3.toNat < 128) :
    length (b1 :: b2 :: b3 :: r) = .ok 3 (b1.toNat % 128 + b2.toNat % 128 * 128 + b3.toNat * 16384) := by
  have x1 : ¬ b1.toNat < 128 := by omega
  have x2 : ¬ b2.toNat < 128 := by omega
  simp [length, lengthLoop, x1, x2, h3]; omega

theorem length_4 (b1 b2 b3 b4 : UInt8) (r : List UInt8) (h1 : 128 ≤ b1.toNat) (h2 : 128 ≤ b2.toNat)
    (h3 : 128 ≤ b3.toNat) (h4 : b4.toNat < 128) :
    length (b1 :: b2 :: b3 :: b4 :: r) =
      .ok 4 (b1.toNat % 128 + b2.toNat % 128 * 128 + b3.toNat % 128 * 16384 + b4.toNat * 2097152) := by
  have x1 : ¬ b1.toNat < 128 := by omega
  have x2 : ¬ b2.toNat < 128 := by omega
  have x3 : ¬ b3.toNat < 128 := by omega
  simp [length, lengthLoop, x1, x2, x3, h4]; omega

/-- four continuation bytes are rejected whatever follows -/
theorem length_5 (b1 b2 b3 b4 : UInt8) (r : List UInt8) (h1 : 128 ≤ b1.toNat) (h2 : 128 ≤ b2.toNat)
    (h3 : 128 ≤ b3.toNat) (h4 : 128 ≤ b4.toNat) :
    length (b1 :: b2 :: b3 :: b4 :: r) = .malformed := by
  have x1 : ¬ b1.toNat < 128 := by omega
  have x2 : ¬ b2.toNat < 128 := by omega
  have x3 : ¬ b3.toNat < 128 := by omega
  have x4 : ¬ b4.toNat < 128 := by omega
  simp [length, lengthLoop, x1, x2, x3, x4]

theorem roundtrip (n : Nat) (h : n < 268435456) (r : List UInt8) :
    length (encodeDigits n ++ r) = .ok (encodeDigits n).length n := by
  by_cases c1 : n < 128
  · rw [encodeDigits_1 n c1]
    have e1 := toNat_ofNat_lt n (by omega)
    simp only [List.cons_append, List.nil_append, List.length_cons, List.length_nil]
    rw [length_1 _ _ (by rw [e1]; omega), e1]
  · by_cases c2 : n < 16384
    · rw [encodeDigits_2 n (by omega) c2]
      have e1 := toNat_ofNat_lt (n % 128 + 128) (by omega)
      have e2 := toNat_ofNat_lt (n / 128) (by omega)
      simp only [List.cons_append, List.nil_append, List.length_cons, List.length_nil]
      rw [length_2 _ _ _ (by rw [e1]; omega) (by rw [e2]; omega), e1, e2]
      congr 1; omega
    · by_cases c3 : n < 2097152
      · rw [encodeDigits_3 n (by omega) c3]
        have e1 := toNat_ofNat_lt (n % 128 + 128) (by omega)
        have e2 := toNat_ofNat_lt (n / 128 % 128 + 128) (by omega)
        have e3 := toNat_ofNat_lt (n / 128 / 128) (by omega)
        simp only [List.cons_append, List.nil_append, List.length_cons, List.length_nil]
        rw [length_3 _ _ _ _ (by rw [e1]; omega) (by rw [e2]; omega) (by rw [e3]; omega), e1, e2, e3]
        congr 1; omega
      · rw [encodeDigits_4 n (by omega) h]
        have e1 := toNat_ofNat_lt (n % 128 + 128) (by omega)
        have e2 := toNat_ofNat_lt (n / 128 % 128 + 128) (by omega)
        have e3 := toNat_ofNat_lt (n / 128 / 128 % 128 + 128) (by omega)
        have e4 := toNat_ofNat_lt (n / 128 / 128 / 128) (by omega)
        simp only [List.cons_append, List.nil_append, List.length_cons, List.length_nil]
        rw [length_4 _ _ _ _ _ (by rw [e1]; omega) (by rw [e2]; omega) (by rw [e3]; omega)
          (by rw [e4]; omega), e1, e2, e3, e4]
        congr 1; omega

theorem encodeDigits_length (n : Nat) (h : n < 268435456) :
    (encodeDigits n).length = lenLen [128, 16384, 2097152] n := by
  by_cases c1 : n < 128
  · have x1 : ¬ n ≥ 2097152 := by omega
    have x2 : ¬ n ≥ 16384 := by omega
    have x3 : ¬ n ≥ 128 := by omega
    rw [encodeDigits_1 n c1]; simp [lenLen, x1, x2, x3]
  · by_cases c2 : n < 16384
    · have x1 : ¬ n ≥ 2097152 := by omega
      have x2 : ¬ n ≥ 16384 := by omega
      have x3 : n ≥ 128 := by omega
      rw [encodeDigits_2 n (by omega) c2]; simp [lenLen, x1, x2, x3]
    · by_cases c3 : n < 2097152
      · have x1 : ¬ n ≥ 2097152 := by omega
        have x2 : n ≥ 16384 := by omega
        rw [encodeDigits_3 n (by omega) c3]; simp [lenLen, x1, x2]
      · have x1 : n ≥ 2097152 := by omega
        rw [encodeDigits_4 n (by omega) h]; simp [lenLen, x1]

end VarInt

namespace Frame
open VarInt Bytes

/-! fixed header -/

theorem parse_eq_spec (bs : ByteList) :
    parseFixedHeader bs =
      match headerStatus bs with
      | .incomplete => .insufficient (headerAsk bs)
      | .malformed => .malformedLen
      | .complete h r => .ok ⟨bs.headD 0, h, r⟩ := by
  match bs with
  | [] => simp [parseFixedHeader, headerStatus, headerAsk]
  | [b] => simp [parseFixedHeader, headerStatus, headerAsk]
  | b :: c :: r =>
    simp only [parseFixedHeader, headerStatus, headerAsk, List.length_cons]
    rw [if_neg (by omega), length_eq_spec]
    unfold lengthSpec
    by_cases h4 : 4 ≤ contLen (c :: r)
    · simp [h4]
    · by_cases hl : contLen (c :: r) < (c :: r).length
      · have hl' : contLen (c :: r) < r.length + 1 := by simpa using hl
        simp [h4, hl']
      · have hl' : ¬ contLen (c :: r) < r.length + 1 := by simpa using hl
        simp [h4, hl']

theorem parse_ok_frameLen_ge {bs : ByteList} {fh : FixedHeader}
    (h : parseFixedHeader bs = .ok fh) : 2 ≤ fh.fixedHeaderLen ∧ fh.fixedHeaderLen ≤ bs.length := by
  unfold parseFixedHeader at h
  split at h
  · simp at h
  · match bs, h with
    | b :: rest, h =>
      simp only at h
      split at h
      · rename_i ll l hl
        have := lengthLoop_ok_bounds _ _ _ _ _ _ hl
        simp at h; subst h; simp; omega
      · simp at h
      · simp at h

theorem parse_append_ok {bs : ByteList} {fh : FixedHeader} (x : ByteList)
    (h : parseFixedHeader bs = .ok fh) : parseFixedHeader (bs ++ x) = .ok fh := by
  unfold parseFixedHeader at h ⊢
  split at h
  · simp at h
  · rename_i hl
    match bs, h, hl with
    | b :: rest, h, hl =>
      simp only [List.length_cons] at hl
      simp only [List.cons_append, List.length_cons, List.length_append]
      rw [if_neg (by omega)]
      simp only at h ⊢
      split at h
      · rename_i ll l hq
        rw [show VarInt.length (rest ++ x) = .ok ll l from lengthLoop_append_ok x _ _ _ _ _ _ hq]
        exact h
      · simp at h
      · simp at h

theorem parse_append_malformed {bs : ByteList} (x : ByteList)
    (h : parseFixedHeader bs = .malformedLen) : parseFixedHeader (bs ++ x) = .malformedLen := by
  unfold parseFixedHeader at h ⊢
  split at h
  · simp at h
  · rename_i hl
    match bs, h, hl with
    | b :: rest, h, hl =>
      simp only [List.length_cons] at hl
      simp only [List.cons_append, List.length_cons, List.length_append]
      rw [if_neg (by omega)]
      simp only at h ⊢
      split at h
      · simp at h
      · simp at h
      · rename_i hq
        rw [show VarInt.length (rest ++ x) = .malformed from lengthLoop_append_malformed x _ _ _ _ hq]

/-! `check` -/

theorem check_ok_iff (max : Limit) (bs : ByteList) (fh : FixedHeader) :
    check max bs = .ok fh ↔
      parseFixedHeader bs = .ok fh ∧ exceeds max fh.remainingLen = false ∧ fh.frameLen ≤ bs.length := by
  unfold check
  cases hp : parseFixedHeader bs with
  | insufficient m => simp
  | malformedLen => simp
  | ok fh' =>
    simp only [HdrResult.ok.injEq]
    by_cases he : exceeds max fh'.remainingLen = true
    · simp only [he, if_true]
      constructor
      · intro h; simp at h
      · rintro ⟨h1, h2, _⟩; subst h1; rw [he] at h2; simp at h2
    · have he' : exceeds max fh'.remainingLen = false := by simpa using he
      simp only [he', Bool.false_eq_true, if_false]
      by_cases hl : bs.length < fh'.frameLen
      · simp only [hl, if_true]
        constructor
        · intro h; simp at h
        · rintro ⟨h1, _, h3⟩; subst h1; omega
      · simp only [hl, if_false]
        constructor
        · intro h; simp at h; subst h; exact ⟨rfl, he', by omega⟩
        · rintro ⟨h1, _, _⟩; subst h1; rfl

theorem check_insufficient_iff (max : Limit) (bs : ByteList) (n : Nat) :
    check max bs = .insufficient n ↔
      parseFixedHeader bs = .insufficient n ∨
      ∃ fh, parseFixedHeader bs = .ok fh ∧ exceeds max fh.remainingLen = false ∧
        bs.length < fh.frameLen ∧ n = fh.frameLen - bs.length := by
  unfold check
  cases hp : parseFixedHeader bs with
  | insufficient m => simp
  | malformedLen => simp
  | ok fh' =>
    simp only [HdrResult.ok.injEq, reduceCtorEq, false_or]
    by_cases he : exceeds max fh'.remainingLen = true
    · simp only [he, if_true]
      constructor
      · intro h; simp at h
      · rintro ⟨fh, h1, h2, _⟩
        subst h1; rw [he] at h2; simp at h2
    · have he' : exceeds max fh'.remainingLen = false := by simpa using he
      simp only [he', Bool.false_eq_true, if_false]
      by_cases hl : bs.length < fh'.frameLen
      · simp only [hl, if_true]
        constructor
        · intro h; simp at h; exact ⟨fh', rfl, he', hl, h.symm⟩
        · rintro ⟨fh, h1, _, _, h4⟩
          subst h1; rw [h4]
      · simp only [hl, if_false]
        constructor
        · intro h; simp at h
        · rintro ⟨fh, h1, _, h3, _⟩
          subst h1; omega

theorem check_tooLarge_iff (max : Limit) (bs : ByteList) (r : Nat) :
    check max bs = .tooLarge r ↔
      ∃ fh, parseFixedHeader bs = .ok fh ∧ exceeds max fh.remainingLen = true ∧ r = fh.remainingLen := by
  unfold check
  cases hp : parseFixedHeader bs with
  | insufficient m => simp
  | malformedLen => simp
  | ok fh' =>
    simp only [HdrResult.ok.injEq]
    by_cases he : exceeds max fh'.remainingLen = true
    · simp only [he, if_true]
      constructor
      · intro h; simp at h; exact ⟨fh', rfl, he, h.symm⟩
      · rintro ⟨fh, h1, _, h3⟩; subst h1; rw [h3]
    · have he' : exceeds max fh'.remainingLen = false := by simpa using he
      simp only [he', Bool.false_eq_true, if_false]
      constructor
      · intro h; split at h <;> simp at h
      · rintro ⟨fh, h1, h2, _⟩; subst h1; rw [he'] at h2; simp at h2

theorem check_malformed_iff (max : Limit) (bs : ByteList) :
    check max bs = .malformedLen ↔ parseFixedHeader bs = .malformedLen := by
  unfold check
  cases hp : parseFixedHeader bs with
  | insufficient m => simp
  | malformedLen => simp
  | ok fh' =>
    simp only [reduceCtorEq, iff_false]
    split
    · simp
    · split <;> simp

theorem check_ok_frameLen {max : Limit} {bs : ByteList} {fh : FixedHeader}
    (h : check max bs = .ok fh) : 2 ≤ fh.frameLen ∧ fh.frameLen ≤ bs.length := by
  have ⟨h1, _, h3⟩ := (check_ok_iff max bs fh).mp h
  have := parse_ok_frameLen_ge h1
  unfold FixedHeader.frameLen at *
  omega

theorem check_append_ok {max : Limit} {bs : ByteList} {fh : FixedHeader} (x : ByteList)
    (h : check max bs = .ok fh) : check max (bs ++ x) = .ok fh := by
  have ⟨h1, h2, h3⟩ := (check_ok_iff max bs fh).mp h
  exact (check_ok_iff max (bs ++ x) fh).mpr ⟨parse_append_ok x h1, h2, by simp; omega⟩

theorem check_append_tooLarge {max : Limit} {bs : ByteList} {r : Nat} (x : ByteList)
    (h : check max bs = .tooLarge r) : check max (bs ++ x) = .tooLarge r := by
  have ⟨fh, h1, h2, h3⟩ := (check_tooLarge_iff max bs r).mp h
  exact (check_tooLarge_iff max (bs ++ x) r).mpr ⟨fh, parse_append_ok x h1, h2, h3⟩

theorem check_append_malformed {max : Limit} {bs : ByteList} (x : ByteList)
    (h : check max bs = .malformedLen) : check max (bs ++ x) = .malformedLen :=
  (check_malformed_iff max (bs ++ x)).mpr (parse_append_malformed x ((check_malformed_iff max bs).mp h))

/-! `decode1` -/
section
variable {Pkt ε : Type}

theorem fromBody_extend (sl : Bool) (r : Except (BodyErr ε) Pkt) (rest x : ByteList) :
    fromBody sl r (rest ++ x) = (fromBody sl r rest).extend x := by
  unfold fromBody
  split <;> (try cases sl) <;> rfl

theorem deliver_extend (c : Copy) (body : FixedHeader → ByteList → Except (BodyErr ε) Pkt)
    (fh : FixedHeader) (frame rest x : ByteList) :
    deliver c body fh frame (rest ++ x) = (deliver c body fh frame rest).extend x := by
  unfold deliver
  split <;> first | rfl | exact fromBody_extend _ _ _ _

theorem deliver_ne_needMore (c : Copy) (body : FixedHeader → ByteList → Except (BodyErr ε) Pkt)
    (fh : FixedHeader) (frame rest : ByteList) (n : Nat) :
    deliver c body fh frame rest ≠ .needMore n := by
  unfold deliver fromBody
  split <;> (try split) <;> (try split) <;> simp

/-- (4) whatever `decode1` answers other than "need more" it answers again, with the extra bytes
    left in the buffer, when more bytes have arrived -/
theorem decode1_append (c : Copy) (body : FixedHeader → ByteList → Except (BodyErr ε) Pkt)
    (max : Limit) (bs x : ByteList) (h : ∀ n, decode1 c body max bs ≠ .needMore n) :
    decode1 c body max (bs ++ x) = (decode1 c body max bs).extend x := by
  unfold decode1 at h ⊢
  cases hc : check max bs with
  | insufficient n => rw [hc] at h; exact absurd rfl (h n)
  | tooLarge r => rw [check_append_tooLarge x hc]; rfl
  | malformedLen => rw [check_append_malformed x hc]; rfl
  | ok fh =>
    rw [check_append_ok x hc]
    have hl := (check_ok_frameLen hc).2
    simp only
    rw [List.take_append_of_le_length hl, List.drop_append_of_le_length hl]
    exact deliver_extend _ _ _ _ _ _

end
section
variable {Pkt ε : Type}

/-- how `decode1` relates to `check` -/
theorem decode1_cases (c : Copy) (body : FixedHeader → ByteList → Except (BodyErr ε) Pkt)
    (max : Limit) (bs : ByteList) :
    (∃ n, check max bs = .insufficient n ∧ decode1 c body max bs = .needMore n) ∨
    (∃ r, check max bs = .tooLarge r ∧ decode1 c body max bs = .tooLarge) ∨
    (check max bs = .malformedLen ∧ decode1 c body max bs = .badLength) ∨
    (∃ fh, check max bs = .ok fh ∧
      decode1 c body max bs = deliver c body fh (bs.take fh.frameLen) (bs.drop fh.frameLen)) := by
  unfold decode1
  cases hc : check max bs with
  | insufficient n => exact Or.inl ⟨n, rfl, rfl⟩
  | tooLarge r => exact Or.inr (Or.inl ⟨r, rfl, rfl⟩)
  | malformedLen => exact Or.inr (Or.inr (Or.inl ⟨rfl, rfl⟩))
  | ok fh => exact Or.inr (Or.inr (Or.inr ⟨fh, rfl, rfl⟩))

theorem fromBody_packet {sl : Bool} {r : Except (BodyErr ε) Pkt} {rest rest' : ByteList} {p : Pkt}
    (h : fromBody sl r rest = .packet p rest') : rest' = rest ∧ r = .ok p := by
  unfold fromBody at h
  split at h
  · simp at h; exact ⟨h.2.symm, by rw [h.1]⟩
  · simp at h
  · split at h <;> simp at h

theorem deliver_packet {c : Copy} {body : FixedHeader → ByteList → Except (BodyErr ε) Pkt}
    {fh : FixedHeader} {frame rest rest' : ByteList} {p : Pkt}
    (h : deliver c body fh frame rest = .packet p rest') : rest' = rest ∧ body fh frame = .ok p := by
  unfold deliver at h
  split at h
  · simp at h
  · simp at h
  · exact fromBody_packet h
  · exact fromBody_packet h

/-- (1) a packet comes from a complete frame within the limit; exactly the frame is consumed and
    the body reader saw exactly the frame -/
theorem decode1_packet {c : Copy} {body : FixedHeader → ByteList → Except (BodyErr ε) Pkt}
    {max : Limit} {bs rest : ByteList} {p : Pkt} (h : decode1 c body max bs = .packet p rest) :
    ∃ fh, check max bs = .ok fh ∧ 2 ≤ fh.frameLen ∧ fh.frameLen ≤ bs.length ∧
      rest = bs.drop fh.frameLen ∧ body fh (bs.take fh.frameLen) = .ok p := by
  rcases decode1_cases c body max bs with ⟨n, _, h2⟩ | ⟨r, _, h2⟩ | ⟨_, h2⟩ | ⟨fh, h1, h2⟩
  · rw [h2] at h; simp at h
  · rw [h2] at h; simp at h
  · rw [h2] at h; simp at h
  · rw [h2] at h
    have ⟨e1, e2⟩ := deliver_packet h
    have := check_ok_frameLen h1
    exact ⟨fh, h1, this.1, this.2, e1, e2⟩

theorem decode1_packet_rest_len {c : Copy} {body : FixedHeader → ByteList → Except (BodyErr ε) Pkt}
    {max : Limit} {bs rest : ByteList} {p : Pkt} (h : decode1 c body max bs = .packet p rest) :
    rest.length + 2 ≤ bs.length := by
  obtain ⟨fh, _, h2, h3, h4, _⟩ := decode1_packet h
  subst h4; simp; omega

theorem decode1_needMore_iff_check (c : Copy) (body : FixedHeader → ByteList → Except (BodyErr ε) Pkt)
    (max : Limit) (bs : ByteList) (n : Nat) :
    decode1 c body max bs = .needMore n ↔ check max bs = .insufficient n := by
  rcases decode1_cases c body max bs with ⟨m, h1, h2⟩ | ⟨r, h1, h2⟩ | ⟨h1, h2⟩ | ⟨fh, h1, h2⟩
  · rw [h1, h2]; simp
  · rw [h1, h2]; simp
  · rw [h1, h2]; simp
  · rw [h1, h2]; simp; exact deliver_ne_needMore _ _ _ _ _ _

theorem fromBody_not_swallowed {c : Copy} {body : FixedHeader → ByteList → Except (BodyErr ε) Pkt}
    (hg : Guarded c body) (fh : FixedHeader) (fr rest rest' : ByteList) (n : Nat) :
    fromBody (sealed c) (body fh fr) rest ≠ .swallowed n rest' := by
  unfold fromBody
  split
  · simp
  · simp
  · rename_i m hq
    rcases hg with hs | hh
    · rw [hs]; simp
    · exact absurd hq (hh _ _ _)

/-- with a sealed copy or an honest body reader a frame is never swallowed -/
theorem guarded_not_swallowed {c : Copy} {body : FixedHeader → ByteList → Except (BodyErr ε) Pkt}
    (hg : Guarded c body) (max : Limit) (bs : ByteList) (n : Nat) (rest : ByteList) :
    decode1 c body max bs ≠ .swallowed n rest := by
  rcases decode1_cases c body max bs with ⟨m, _, h2⟩ | ⟨r, _, h2⟩ | ⟨_, h2⟩ | ⟨fh, _, h2⟩
  · rw [h2]; simp
  · rw [h2]; simp
  · rw [h2]; simp
  · rw [h2]; unfold deliver
    split
    · simp
    · simp
    · exact fromBody_not_swallowed hg _ _ _ _ _
    · exact fromBody_not_swallowed hg _ _ _ _ _

/-- the number asked for is a lower bound on what is missing: fewer bytes never complete the frame -/
theorem needMore_lower_bound {c : Copy} {body : FixedHeader → ByteList → Except (BodyErr ε) Pkt}
    {max : Limit} {bs : ByteList} {n : Nat} (h : decode1 c body max bs = .needMore n)
    (x : ByteList) (hx : x.length < n) : ∃ m, decode1 c body max (bs ++ x) = .needMore m := by
  rw [decode1_needMore_iff_check] at h
  rcases (check_insufficient_iff max bs n).mp h with hp | ⟨fh, hp, he, hl, hn⟩
  · -- header incomplete
    by_cases h2 : bs.length < 2
    · have : n = 2 - bs.length := by
        unfold parseFixedHeader at hp; rw [if_pos h2] at hp; simp at hp; omega
      refine ⟨2 - (bs ++ x).length, ?_⟩
      rw [decode1_needMore_iff_check, check_insufficient_iff]
      left
      unfold parseFixedHeader
      rw [if_pos (by simp; omega)]
    · have : n = 1 := by
        unfold parseFixedHeader at hp; rw [if_neg h2] at hp
        match bs, hp with
        | b :: rest, hp =>
          simp only at hp
          split at hp
          · simp at hp
          · rename_i m hq; simp at hp; subst hp
            exact lengthLoop_insufficient _ _ _ _ _ hq
          · simp at hp
      have hx0 : x = [] := by
        cases x with
        | nil => rfl
        | cons a as => simp at hx; omega
      subst hx0
      refine ⟨n, ?_⟩
      rw [List.append_nil, decode1_needMore_iff_check]; exact h
  · refine ⟨fh.frameLen - (bs ++ x).length, ?_⟩
    rw [decode1_needMore_iff_check, check_insufficient_iff]
    right
    exact ⟨fh, parse_append_ok x hp, he, by simp; omega, rfl⟩

theorem needMore_pos {c : Copy} {body : FixedHeader → ByteList → Except (BodyErr ε) Pkt}
    {max : Limit} {bs : ByteList} {n : Nat} (h : decode1 c body max bs = .needMore n) : 1 ≤ n := by
  rw [decode1_needMore_iff_check] at h
  rcases (check_insufficient_iff max bs n).mp h with hp | ⟨fh, hp, he, hl, hn⟩
  · unfold parseFixedHeader at hp
    split at hp
    · simp at hp; omega
    · match bs, hp with
      | b :: rest, hp =>
        simp only at hp
        split at hp
        · simp at hp
        · rename_i m hq; simp at hp; subst hp
          have := lengthLoop_insufficient _ _ _ _ _ hq; omega
        · simp at hp
  · omega

end
section
variable {Pkt ε : Type}

/-! buffer loops -/

theorem drain_fuel (c : Copy) (body : FixedHeader → ByteList → Except (BodyErr ε) Pkt) (max : Limit) :
    ∀ (f g : Nat) (buf : ByteList), buf.length < f → buf.length < g →
      drain c body max f buf = drain c body max g buf := by
  intro f
  induction f with
  | zero => intro g buf h; omega
  | succ f ih =>
    intro g buf hf hg
    cases g with
    | zero => omega
    | succ g =>
      unfold drain
      cases hd : decode1 c body max buf with
      | packet p rest =>
        have := decode1_packet_rest_len hd
        simp only
        rw [ih g rest (by omega) (by omega)]
      | needMore n => rfl
      | tooLarge => rfl
      | badLength => rfl
      | malformed r => rfl
      | panic r => rfl
      | swallowed n r => rfl

theorem drain_succ_packet {c : Copy} {body : FixedHeader → ByteList → Except (BodyErr ε) Pkt}
    {max : Limit} {bs rest : ByteList} {p : Pkt} (f : Nat) (h : decode1 c body max bs = .packet p rest) :
    drain c body max (f + 1) bs = consP p (drain c body max f rest) := by
  simp [drain, h]

theorem decodeAll_packet {c : Copy} {body : FixedHeader → ByteList → Except (BodyErr ε) Pkt}
    {max : Limit} {bs rest : ByteList} {p : Pkt} (h : decode1 c body max bs = .packet p rest) :
    decodeAll c body max bs = consP p (decodeAll c body max rest) := by
  have hl := decode1_packet_rest_len h
  unfold decodeAll
  rw [drain_succ_packet _ h,
    drain_fuel c body max bs.length (rest.length + 1) rest (by omega) (by omega)]

theorem decodeAll_needMore {c : Copy} {body : FixedHeader → ByteList → Except (BodyErr ε) Pkt}
    {max : Limit} {bs : ByteList} {n : Nat} (h : decode1 c body max bs = .needMore n) :
    decodeAll c body max bs = ([], .more bs) := by
  simp [decodeAll, drain, h]

/-- error class of a step, if it is one -/
def Step.err? : Step Pkt → Option ErrKind
  | .tooLarge => some .tooLarge
  | .badLength => some .badLength
  | .malformed _ => some .malformed
  | .panic _ => some .panic
  | _ => none

theorem decodeAll_err {c : Copy} {body : FixedHeader → ByteList → Except (BodyErr ε) Pkt}
    {max : Limit} {bs : ByteList} {e : ErrKind} (h : (decode1 c body max bs).err? = some e) :
    decodeAll c body max bs = ([], .error e) := by
  unfold decodeAll
  cases hd : decode1 c body max bs <;> rw [hd] at h <;> simp [Step.err?] at h <;> simp [drain, hd, h]

theorem err_extend (s : Step Pkt) (x : ByteList) : (s.extend x).err? = s.err? := by
  cases s <;> rfl

/-- every step is a packet, a wait, an error, or (dishonest body only) a swallowed frame -/
theorem step_cases (s : Step Pkt) :
    (∃ p r, s = .packet p r) ∨ (∃ n, s = .needMore n) ∨ (∃ e, s.err? = some e) ∨
    (∃ n r, s = .swallowed n r) := by
  cases s with
  | packet p r => exact Or.inl ⟨p, r, rfl⟩
  | needMore n => exact Or.inr (Or.inl ⟨n, rfl⟩)
  | tooLarge => exact Or.inr (Or.inr (Or.inl ⟨_, rfl⟩))
  | badLength => exact Or.inr (Or.inr (Or.inl ⟨_, rfl⟩))
  | malformed r => exact Or.inr (Or.inr (Or.inl ⟨_, rfl⟩))
  | panic r => exact Or.inr (Or.inr (Or.inl ⟨_, rfl⟩))
  | swallowed n r => exact Or.inr (Or.inr (Or.inr ⟨n, r, rfl⟩))

/-- what a finished run over `bs` becomes when `x` arrives afterwards -/
def resume (c : Copy) (body : FixedHeader → ByteList → Except (BodyErr ε) Pkt) (max : Limit)
    (r : List Pkt × Tail) (x : ByteList) : List Pkt × Tail :=
  match r.2 with
  | .more buf' => (r.1 ++ (decodeAll c body max (buf' ++ x)).1, (decodeAll c body max (buf' ++ x)).2)
  | .error e => (r.1, .error e)

theorem resume_consP (c : Copy) (body : FixedHeader → ByteList → Except (BodyErr ε) Pkt) (max : Limit)
    (p : Pkt) (r : List Pkt × Tail) (x : ByteList) :
    resume c body max (consP p r) x = consP p (resume c body max r x) := by
  unfold resume consP
  cases r.2 <;> rfl

/-- key lemma: decoding `bs ++ x` = decoding `bs`, then resuming on the retained buffer with `x` -/
theorem decodeAll_append (c : Copy) (body : FixedHeader → ByteList → Except (BodyErr ε) Pkt)
    (max : Limit) (hg : Guarded c body) (x : ByteList) :
    ∀ (k : Nat) (bs : ByteList), bs.length ≤ k →
      decodeAll c body max (bs ++ x) = resume c body max (decodeAll c body max bs) x := by
  intro k
  induction k with
  | zero =>
    intro bs hk
    have : bs = [] := by cases bs with | nil => rfl | cons a as => simp at hk
    subst this
    have h0 : decode1 c body max ([] : ByteList) = .needMore 2 := by
      simp [decode1, check, parseFixedHeader]
    rw [decodeAll_needMore h0]; simp [resume]
  | succ k ih =>
    intro bs hk
    rcases step_cases (decode1 c body max bs) with ⟨p, r, h⟩ | ⟨n, h⟩ | ⟨e, h⟩ | ⟨n, r, h⟩
    · have hl := decode1_packet_rest_len h
      have hx : decode1 c body max (bs ++ x) = .packet p (r ++ x) := by
        rw [decode1_append c body max bs x (by intro n; rw [h]; simp), h]; rfl
      rw [decodeAll_packet hx, decodeAll_packet h, resume_consP, ih r (by omega)]
    · rw [decodeAll_needMore h]; simp [resume]
    · have hx : (decode1 c body max (bs ++ x)).err? = some e := by
        rw [decode1_append c body max bs x (by intro n hn; rw [hn] at h; simp [Step.err?] at h),
          err_extend, h]
      rw [decodeAll_err hx, decodeAll_err h]; simp [resume]
    · exact absurd h (guarded_not_swallowed hg max bs n r)

/-- a retained buffer is one on which the decoder waits -/
theorem decodeAll_more (c : Copy) (body : FixedHeader → ByteList → Except (BodyErr ε) Pkt)
    (max : Limit) (hg : Guarded c body) :
    ∀ (k : Nat) (bs buf : ByteList), bs.length ≤ k → (decodeAll c body max bs).2 = .more buf →
      ∃ n, decode1 c body max buf = .needMore n := by
  intro k
  induction k with
  | zero =>
    intro bs buf hk h
    have : bs = [] := by cases bs with | nil => rfl | cons a as => simp at hk
    subst this
    have h0 : decode1 c body max ([] : ByteList) = .needMore 2 := by
      simp [decode1, check, parseFixedHeader]
    rw [decodeAll_needMore h0] at h; simp at h; subst h; exact ⟨2, h0⟩
  | succ k ih =>
    intro bs buf hk h
    rcases step_cases (decode1 c body max bs) with ⟨p, r, hd⟩ | ⟨n, hd⟩ | ⟨e, hd⟩ | ⟨n, r, hd⟩
    · have hl := decode1_packet_rest_len hd
      rw [decodeAll_packet hd] at h
      exact ih r buf (by omega) h
    · rw [decodeAll_needMore hd] at h; simp at h; subst h; exact ⟨n, hd⟩
    · rw [decodeAll_err hd] at h; simp at h
    · exact absurd hd (guarded_not_swallowed hg max bs n r)

theorem feed_eq (c : Copy) (body : FixedHeader → ByteList → Except (BodyErr ε) Pkt)
    (max : Limit) (hg : Guarded c body) :
    ∀ (chunks : List ByteList) (buf : ByteList) (n : Nat), decode1 c body max buf = .needMore n →
      feed c body max buf chunks = decodeAll c body max (buf ++ chunks.flatten) := by
  intro chunks
  induction chunks with
  | nil => intro buf n h; simp [feed, decodeAll_needMore h]
  | cons ch chs ih =>
    intro buf n h
    unfold feed
    rw [List.flatten_cons, ← List.append_assoc,
      decodeAll_append c body max hg chs.flatten (buf ++ ch).length (buf ++ ch) (Nat.le_refl _)]
    unfold resume
    cases ht : (decodeAll c body max (buf ++ ch)).2 with
    | more buf' =>
      obtain ⟨m, hm⟩ := decodeAll_more c body max hg _ _ _ (Nat.le_refl _) ht
      simp only
      rw [ih buf' m hm]
    | error e => rfl

end
section
variable {Pkt ε : Type}

theorem decode1_nil (c : Copy) (body : FixedHeader → ByteList → Except (BodyErr ε) Pkt) (max : Limit) :
    decode1 c body max ([] : ByteList) = .needMore 2 := by
  simp [decode1, check, parseFixedHeader]

theorem eofDrain_needMore {c : Copy} {body : FixedHeader → ByteList → Except (BodyErr ε) Pkt}
    {max : Limit} {buf : ByteList} {n : Nat} (f : Nat) (h : decode1 c body max buf = .needMore n) :
    eofDrain c body max (f + 1) buf = ([], finish (.more buf)) := by
  simp [eofDrain, h]

/-- (5, client) the `Framed` loop over any chunking = the frames of the concatenation -/
theorem codecLoop_eq (c : Copy) (body : FixedHeader → ByteList → Except (BodyErr ε) Pkt)
    (max : Limit) (hg : Guarded c body) (chunks : List ByteList) :
    codecLoop c body max chunks = decodeStream c body max chunks.flatten := by
  unfold codecLoop decodeStream
  have hf := feed_eq c body max hg chunks [] 2 (decode1_nil c body max)
  simp only [List.nil_append] at hf
  rw [hf]
  cases ht : (decodeAll c body max chunks.flatten).2 with
  | more buf =>
    obtain ⟨m, hm⟩ := decodeAll_more c body max hg _ _ _ (Nat.le_refl _) ht
    simp only
    rw [eofDrain_needMore _ hm]; simp
  | error e => simp [finish]

/-! the broker loop -/

theorem decodeStream_packet {c : Copy} {body : FixedHeader → ByteList → Except (BodyErr ε) Pkt}
    {max : Limit} {bs rest : ByteList} {p : Pkt} (h : decode1 c body max bs = .packet p rest) :
    decodeStream c body max bs = consF p (decodeStream c body max rest) := by
  unfold decodeStream; rw [decodeAll_packet h]; rfl

theorem decodeStream_needMore {c : Copy} {body : FixedHeader → ByteList → Except (BodyErr ε) Pkt}
    {max : Limit} {bs : ByteList} {n : Nat} (h : decode1 c body max bs = .needMore n) :
    decodeStream c body max bs = ([], finish (.more bs)) := by
  unfold decodeStream; rw [decodeAll_needMore h]

theorem decodeStream_err {c : Copy} {body : FixedHeader → ByteList → Except (BodyErr ε) Pkt}
    {max : Limit} {bs : ByteList} {e : ErrKind} (h : (decode1 c body max bs).err? = some e) :
    decodeStream c body max bs = ([], .error e) := by
  unfold decodeStream; rw [decodeAll_err h]; rfl

theorem finish_more (b : ByteList) :
    finish (.more b) = if b.isEmpty then Final.eofClean else Final.eofPartial := by
  cases b <;> rfl

/-- `read_bytes`: either the socket is exhausted with fewer than `need` bytes read in total, or a
    non-empty prefix of the chunks has been appended -/
theorem pull_spec (need : Nat) : ∀ (chunks : List ByteList) (total : Nat) (buf : ByteList),
    (∀ ch ∈ chunks, ch ≠ []) →
    match pull need total buf chunks with
    | .closed b => b = buf ++ chunks.flatten ∧ (chunks = [] ∨ total + chunks.flatten.length < need)
    | .got b chs => ∃ pre, chunks = pre ++ chs ∧ pre ≠ [] ∧ b = buf ++ pre.flatten := by
  intro chunks
  induction chunks with
  | nil => intro total buf _; simp [pull]
  | cons ch chs ih =>
    intro total buf hne
    have hch : ch ≠ [] := hne ch (by simp)
    have hch' : ch.isEmpty = false := by cases ch with | nil => exact absurd rfl hch | cons _ _ => rfl
    unfold pull
    rw [hch']
    simp only [Bool.false_eq_true, if_false]
    by_cases hge : total + ch.length ≥ need
    · rw [if_pos hge]
      exact ⟨[ch], by simp, by simp, by simp⟩
    · rw [if_neg hge]
      have := ih (total + ch.length) (buf ++ ch) (fun c hc => hne c (by simp [hc]))
      cases hp : pull need (total + ch.length) (buf ++ ch) chs with
      | closed b =>
        rw [hp] at this
        simp only at this ⊢
        refine ⟨by rw [this.1]; simp, Or.inr ?_⟩
        rcases this.2 with h | h
        · subst h; simp only [List.flatten_cons, List.flatten_nil, List.append_nil, List.length_nil] at *; omega
        · simp only [List.flatten_cons, List.length_append]; omega
      | got b chs' =>
        rw [hp] at this
        simp only at this ⊢
        obtain ⟨pre, h1, _, h3⟩ := this
        exact ⟨ch :: pre, by simp [h1], by simp, by rw [h3]; simp⟩

/-- measure for `netRun` -/
def netMeasure (mode : Option Nat) (buf : ByteList) (chunks : List ByteList) : Nat :=
  2 * (buf.length + chunks.flatten.length + chunks.length) + (if mode.isSome then 1 else 0)

theorem netRun_eq (c : Copy) (body : FixedHeader → ByteList → Except (BodyErr ε) Pkt)
    (max : Limit) (k : Nat) (hg : Guarded c body) :
    ∀ (f : Nat) (mode : Option Nat) (buf : ByteList) (chunks : List ByteList),
      (∀ ch ∈ chunks, ch ≠ []) → netMeasure mode buf chunks < f →
      netRun c body max k f mode buf chunks = decodeStream c body max (buf ++ chunks.flatten) := by
  intro f
  induction f with
  | zero => intro mode buf chunks _ h; omega
  | succ f ih =>
    intro mode buf chunks hne hm
    have hstep := step_cases (decode1 c body max buf)
    -- the reference semantics of the concatenation, by what `decode1 buf` is
    rcases hstep with ⟨p, r, hd⟩ | ⟨n, hd⟩ | ⟨e, hd⟩ | ⟨n, r, hd⟩
    · -- a packet
      have hl := decode1_packet_rest_len hd
      have hx : decode1 c body max (buf ++ chunks.flatten) = .packet p (r ++ chunks.flatten) := by
        rw [decode1_append c body max buf _ (by intro n; rw [hd]; simp), hd]; rfl
      rw [decodeStream_packet hx]
      cases mode with
      | none =>
        simp only [netRun, hd]
        rw [ih (some 1) r chunks hne (by simp [netMeasure] at hm ⊢; omega)]
      | some held =>
        simp only [netRun, hd]
        by_cases hk : held + 1 ≥ k
        · rw [if_pos hk, ih none r chunks hne (by simp [netMeasure] at hm ⊢; omega)]
        · rw [if_neg hk, ih (some (held + 1)) r chunks hne (by simp [netMeasure] at hm ⊢; omega)]
    · -- wait
      cases mode with
      | some held =>
        simp only [netRun, hd]
        exact ih none buf chunks hne (by simp [netMeasure] at hm ⊢; omega)
      | none =>
        simp only [netRun, hd]
        have hp := pull_spec n chunks 0 buf hne
        cases hq : pull n 0 buf chunks with
        | closed b =>
          rw [hq] at hp
          simp only at hp ⊢
          obtain ⟨hb1, hb2⟩ := hp
          have : ∃ m, decode1 c body max (buf ++ chunks.flatten) = .needMore m := by
            rcases hb2 with h | h
            · subst h; simp; exact ⟨n, hd⟩
            · exact needMore_lower_bound hd _ (by omega)
          obtain ⟨m, hm'⟩ := this
          rw [decodeStream_needMore hm', finish_more, hb1]
        | got b chs =>
          rw [hq] at hp
          simp only at hp ⊢
          obtain ⟨pre, h1, h2, h3⟩ := hp
          have hlen : 1 ≤ pre.length := by
            cases pre with
            | nil => exact absurd rfl h2
            | cons _ _ => simp
          rw [ih none b chs (fun ch hc => hne ch (by rw [h1]; simp [hc]))
            (by subst h1 h3; simp [netMeasure] at hm ⊢; omega)]
          subst h1 h3; simp
    · -- an error
      have hx : (decode1 c body max (buf ++ chunks.flatten)).err? = some e := by
        rw [decode1_append c body max buf _ (by intro n hn; rw [hn] at hd; simp [Step.err?] at hd),
          err_extend, hd]
      rw [decodeStream_err hx]
      cases hs : decode1 c body max buf <;> rw [hs] at hd <;> simp [Step.err?] at hd <;>
        cases mode <;> simp [netRun, hs, hd]
    · exact absurd hd (guarded_not_swallowed hg max buf n r)

/-- (5, broker) `Network::read` / `readv` over any chunking, any `max_connection_buffer_len` -/
theorem netLoop_eq (c : Copy) (body : FixedHeader → ByteList → Except (BodyErr ε) Pkt)
    (max : Limit) (k : Nat) (hg : Guarded c body) (chunks : List ByteList)
    (hne : ∀ ch ∈ chunks, ch ≠ []) :
    netLoop c body max k chunks = decodeStream c body max chunks.flatten := by
  unfold netLoop
  rw [netRun_eq c body max k hg _ none [] chunks hne (by simp [netMeasure, netFuel])]
  simp

end
/-! header status (spec) ↔ `parse_fixed_header` -/

theorem parse_ok_iff_status (bs : ByteList) (fh : FixedHeader) :
    parseFixedHeader bs = .ok fh ↔
      headerStatus bs = .complete fh.fixedHeaderLen fh.remainingLen ∧ fh.byte1 = bs.headD 0 := by
  rw [parse_eq_spec]
  cases hs : headerStatus bs with
  | incomplete => simp
  | malformed => simp
  | complete h r =>
    simp only [HdrResult.ok.injEq, HeaderStatus.complete.injEq]
    constructor
    · intro e; subst e; simp
    · rintro ⟨⟨h1, h2⟩, h3⟩
      cases fh; simp only at h1 h2 h3; subst h1 h2 h3; rfl

theorem parse_insufficient_iff_status (bs : ByteList) (n : Nat) :
    parseFixedHeader bs = .insufficient n ↔ headerStatus bs = .incomplete ∧ n = headerAsk bs := by
  rw [parse_eq_spec]
  cases hs : headerStatus bs with
  | incomplete => simp; exact eq_comm
  | malformed => simp
  | complete h r => simp

theorem parse_malformed_iff_status (bs : ByteList) :
    parseFixedHeader bs = .malformedLen ↔ headerStatus bs = .malformed := by
  rw [parse_eq_spec]
  cases hs : headerStatus bs <;> simp

theorem varIntValue_lt : ∀ (ds : List UInt8), varIntValue ds < 128 ^ ds.length := by
  intro ds
  induction ds with
  | nil => simp [varIntValue]
  | cons d ds ih =>
    simp only [varIntValue, List.length_cons, Nat.pow_succ]
    have : d.toNat % 128 < 128 := Nat.mod_lt _ (by omega)
    generalize 128 ^ ds.length = P at *
    omega

/-- a decoded length has 1–4 bytes and is below 128^4 -/
theorem length_ok_bounds {bs : List UInt8} {ll l : Nat} (h : VarInt.length bs = .ok ll l) :
    1 ≤ ll ∧ ll ≤ 4 ∧ ll ≤ bs.length ∧ l < 268435456 := by
  rw [length_eq_spec] at h
  unfold lengthSpec at h
  split at h
  · simp at h
  · split at h
    · rename_i h4 hl
      simp at h
      obtain ⟨h1, h2⟩ := h
      have hv := varIntValue_lt (bs.take (contLen bs + 1))
      rw [List.length_take, Nat.min_eq_left (by omega)] at hv
      rw [h2] at hv
      have : (128:Nat) ^ (contLen bs + 1) ≤ 128 ^ 4 := Nat.pow_le_pow_right (by omega) (by omega)
      refine ⟨by omega, by omega, by omega, ?_⟩
      have e : (128:Nat) ^ 4 = 268435456 := by decide
      omega
    · simp at h

section
variable {Pkt ε : Type}

/-- no copy's dispatch reaches an `unreachable!()` arm (b5 did for types 2 / 11 before c0aab5e) -/
theorem dispatch_ne_unreachable (c : Copy) (ty fl rl : Nat) : dispatch c ty fl rl ≠ .unreachable := by
  unfold dispatch
  cases c <;> (repeat' split) <;> simp

theorem fromBody_ne_panic (sl : Bool) (r : Except (BodyErr ε) Pkt) (rest r' : ByteList) :
    fromBody sl r rest ≠ .panic r' := by
  unfold fromBody
  split <;> (try split) <;> simp

theorem deliver_ne_panic (c : Copy) (body : FixedHeader → ByteList → Except (BodyErr ε) Pkt)
    (fh : FixedHeader) (frame rest r' : ByteList) : deliver c body fh frame rest ≠ .panic r' := by
  unfold deliver
  split
  · simp
  · rename_i h; exact absurd h (dispatch_ne_unreachable _ _ _ _)
  · exact fromBody_ne_panic _ _ _ _
  · exact fromBody_ne_panic _ _ _ _

theorem fromBody_malformed_rest {sl : Bool} {r : Except (BodyErr ε) Pkt} {rest r' : ByteList}
    (h : fromBody sl r rest = .malformed r') : r' = rest := by
  unfold fromBody at h
  split at h
  · simp at h
  · simp at h; exact h.symm
  · split at h
    · simp at h; exact h.symm
    · simp at h

theorem deliver_malformed_rest {c : Copy} {body : FixedHeader → ByteList → Except (BodyErr ε) Pkt}
    {fh : FixedHeader} {frame rest r' : ByteList} (h : deliver c body fh frame rest = .malformed r') :
    r' = rest := by
  unfold deliver at h
  split at h
  · simp at h; exact h.symm
  · simp at h
  · exact fromBody_malformed_rest h
  · exact fromBody_malformed_rest h
end
section
variable {Pkt ε : Type}

/-- `readv` only ever removes whole frames from the front: what it appended, followed by the
    frames of what it left, are the frames of what it was given -/
theorem readv_spec (c : Copy) (body : FixedHeader → ByteList → Except (BodyErr ε) Pkt)
    (max : Limit) (k : Nat) (hg : Guarded c body) :
    ∀ (f held : Nat) (buf : ByteList), buf.length < f →
      (readv c body max k f held buf).2.1.length ≤ buf.length ∧
      match (readv c body max k f held buf).2.2 with
      | none => decodeAll c body max buf =
          ((readv c body max k f held buf).1 ++ (decodeAll c body max (readv c body max k f held buf).2.1).1,
           (decodeAll c body max (readv c body max k f held buf).2.1).2)
      | some e => decodeAll c body max buf = ((readv c body max k f held buf).1, .error e) := by
  intro f
  induction f with
  | zero => intro held buf h; omega
  | succ f ih =>
    intro held buf hf
    rcases step_cases (decode1 c body max buf) with ⟨p, r, hd⟩ | ⟨n, hd⟩ | ⟨e, hd⟩ | ⟨n, r, hd⟩
    · have hl := decode1_packet_rest_len hd
      simp only [readv, hd]
      by_cases hk : held + 1 ≥ k
      · rw [if_pos hk]
        simp only
        exact ⟨by omega, by rw [decodeAll_packet hd]; rfl⟩
      · rw [if_neg hk]
        have := ih (held + 1) r (by omega)
        refine ⟨by simp only; omega, ?_⟩
        simp only
        cases he : (readv c body max k f (held + 1) r).2.2 with
        | none =>
          rw [he] at this
          simp only at this ⊢
          rw [decodeAll_packet hd, this.2]; rfl
        | some e =>
          rw [he] at this
          simp only at this ⊢
          rw [decodeAll_packet hd, this.2]; rfl
    · simp only [readv, hd]
      exact ⟨Nat.le_refl _, by simp⟩
    · cases hs : decode1 c body max buf <;> rw [hs] at hd <;> simp [Step.err?] at hd <;>
        simp only [readv, hs] <;> subst hd
      · exact ⟨Nat.le_refl _, decodeAll_err (by rw [hs]; rfl)⟩
      · exact ⟨Nat.le_refl _, decodeAll_err (by rw [hs]; rfl)⟩
      · rename_i rest
        refine ⟨?_, decodeAll_err (by rw [hs]; rfl)⟩
        rcases decode1_cases c body max buf with ⟨m, _, h2⟩ | ⟨r, _, h2⟩ | ⟨_, h2⟩ | ⟨fh, _, h2⟩
        · rw [h2] at hs; simp at hs
        · rw [h2] at hs; simp at hs
        · rw [h2] at hs; simp at hs
        · rw [h2] at hs
          have := deliver_malformed_rest hs
          subst this; simp
      · rename_i rest
        rcases decode1_cases c body max buf with ⟨m, _, h2⟩ | ⟨r, _, h2⟩ | ⟨_, h2⟩ | ⟨fh, _, h2⟩
        · rw [h2] at hs; simp at hs
        · rw [h2] at hs; simp at hs
        · rw [h2] at hs; simp at hs
        · rw [h2] at hs; exact absurd hs (deliver_ne_panic _ _ _ _ _ _)
    · exact absurd hd (guarded_not_swallowed hg max buf n r)

/-- the batches the broker link forms from a buffered burst (`read`, then `readv` with its
    `max_connection_buffer_len` cut), concatenated, are the frames of the burst -/
theorem linkBatches_flatten (c : Copy) (body : FixedHeader → ByteList → Except (BodyErr ε) Pkt)
    (max : Limit) (k : Nat) (hg : Guarded c body) :
    ∀ (f : Nat) (buf : ByteList), buf.length < f →
      ((linkBatches c body max k f buf).1.flatten, (linkBatches c body max k f buf).2) =
        decodeAll c body max buf := by
  intro f
  induction f with
  | zero => intro buf h; omega
  | succ f ih =>
    intro buf hf
    rcases step_cases (decode1 c body max buf) with ⟨p, r, hd⟩ | ⟨n, hd⟩ | ⟨e, hd⟩ | ⟨n, r, hd⟩
    · have hl := decode1_packet_rest_len hd
      have hr := readv_spec c body max k hg (r.length + 1) 1 r (by omega)
      simp only [linkBatches, hd]
      cases he : (readv c body max k (r.length + 1) 1 r).2.2 with
      | none =>
        rw [he] at hr
        simp only at hr ⊢
        have := ih (readv c body max k (r.length + 1) 1 r).2.1 (by omega)
        rw [decodeAll_packet hd, hr.2, ← this]
        simp [consP]
      | some e =>
        rw [he] at hr
        simp only at hr ⊢
        rw [decodeAll_packet hd, hr.2]
        simp [consP]
    · simp only [linkBatches, hd]; rw [decodeAll_needMore hd]; simp
    · rw [decodeAll_err hd]
      cases hs : decode1 c body max buf <;> rw [hs] at hd <;> simp [Step.err?] at hd <;>
        simp [linkBatches, hs, hd]
    · exact absurd hd (guarded_not_swallowed hg max buf n r)

end
section
variable {Pkt : Type}

theorem readbBatches_flatten (m : Nat) : ∀ (f : Nat) (ready : List Pkt), ready.length < f →
    (readbBatches m f ready).flatten = ready := by
  intro f
  induction f with
  | zero => intro r h; omega
  | succ f ih =>
    intro ready hf
    cases ready with
    | nil => simp [readbBatches]
    | cons p ps =>
      simp only [readbBatches, readbTake, List.flatten_cons]
      have h1 : 1 ≤ Nat.max (m - 1) 1 := Nat.le_max_right _ _
      rw [ih _ (by simp only [List.length_drop, List.length_cons] at hf ⊢; omega)]
      exact List.take_append_drop _ _

theorem readbBatches_bound (m : Nat) : ∀ (f : Nat) (ready : List Pkt),
    ∀ b ∈ readbBatches m f ready, b.length ≤ Nat.max (m - 1) 1 := by
  intro f
  induction f with
  | zero => intro r b hb; simp [readbBatches] at hb
  | succ f ih =>
    intro ready b hb
    cases ready with
    | nil => simp [readbBatches] at hb
    | cons p ps =>
      simp only [readbBatches, readbTake, List.mem_cons] at hb
      rcases hb with h | h
      · subst h; simp only [List.length_take]; exact Nat.min_le_left _ _
      · exact ih _ b h
end
end Frame
