import Proofs.Props.C12
#print axioms C12.matches_spec
#print axioms C12.validFilter_broker_spec
#print axioms C12.validFilter_copies_agree
#print axioms C12.validFilter_client_spec
#print axioms C12.validTopic_spec
#print axioms C12.hasWildcards_spec
#print axioms C12.dollar_rule
#print axioms C12.plus_exactly_one_level
#print axioms C12.hash_matches_parent_and_below
#print axioms C12.prefix_panic_witness
