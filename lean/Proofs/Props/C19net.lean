/-
C19 (network part) — "A network connection becomes a session only if its first packet is a CONNECT
of the listener's protocol version with a non-zero keep-alive, a client id free of topic
metacharacters (non-empty unless clean-session), and, when the listener has credentials or an
authentication callback configured, credentials that the configuration accepts; otherwise it gets
no successful CONNACK and never reaches the routing core."
Model: `Model/Admission.lean` (`mqtt_connect`, `handle_auth`, `remote()` up to `RemoteLink::new`)
on top of the codec model of the listener's decoder; spec: `Model/AdmissionSpec.lean`.
The router clauses (one session per client id, connection limit) are in `Proofs/Props/C19.lean`.
-/
import Proofs.Lemmas.Admission
namespace C19net
open Admission Codec

/-- C19 clause 1 (only-if): `mqtt_connect` lets a connection proceed only if the listener's own
    decoder read a CONNECT from the first bytes, of the listener's protocol level, with a non-zero
    keep-alive, a client id that is non-empty unless clean-session, and credentials the
    configuration accepts. All byte strings, all configurations, any callback. -/
theorem admit_only_if (cfg : Config) (bytes : Bytes) (tail : Tail) (c : Connect)
    (h : admit cfg bytes tail = .proceed c) :
    (∃ rest, decodeFirst cfg bytes = .packet c.toPacket rest) ∧
    c.level = cfg.version.level ∧ c.keepAlive ≠ 0 ∧ (c.clientId ≠ [] ∨ c.clean = true) ∧
    AdmissionSpec.credentialsAccepted cfg.auth c.login c.clientId = true := by
  obtain ⟨⟨rest, hd⟩, ha, hk, hc⟩ := admit_proceed h
  refine ⟨⟨rest, hd⟩, ?_, hk, hc, handleAuth_imp_accepted _ _ _ ha⟩
  exact (decodeFirst_connect hd).2

/-- the same, against the executable rule the monitor evaluates on the implementation's answers:
    whatever `admit` lets through satisfies `AdmissionSpec.mayProceed` (this direction needs no
    assumption on the static table: `lookup u ps = some p` gives `(u, p) ∈ ps`) -/
theorem admit_meets_spec (cfg : Config) (bytes : Bytes) (tail : Tail) (c : Connect)
    (h : admit cfg bytes tail = .proceed c) : AdmissionSpec.mayProceed cfg bytes c = true := by
  obtain ⟨⟨rest, hd⟩, ha, hk', hc⟩ := admit_proceed h
  obtain ⟨hs, hl⟩ := decodeFirst_connect hd
  have hcr := handleAuth_imp_accepted _ _ _ ha
  have hc' : (!c.clientId.isEmpty || c.clean) = true := by
    rcases hc with hc | hc
    · simp [hc]
    · simp [hc]
  simp only [AdmissionSpec.mayProceed, Bool.and_eq_true]
  refine ⟨⟨⟨⟨hs, ?_⟩, ?_⟩, hc'⟩, hcr⟩
  · simpa using hl
  · simpa using hk'

/-- C19 clause 1 ("otherwise it … never reaches the routing core"): on `reject` no
    `Event::Connect` is sent — the router state is untouched, whatever follows on the stream -/
theorem reject_never_reaches_router (cfg : Config) (dyn : Bool) (assigned : String) (s : Router.RState)
    (link : Nat) (bytes : Bytes) (tail : Tail) (ck : Option ConnCode) (why : Reject)
    (h : admit cfg bytes tail = .reject ck why) :
    establish cfg dyn assigned s link bytes tail = .ok (s, .reject ck why, false) := by
  simp [establish, h]

/-- C19 clause 1 ("it gets no successful CONNACK"): the only CONNACK `mqtt_connect` ever writes is
    `ClientIdentifierNotValid`, exactly for an authenticated CONNECT with keep-alive ≠ 0 whose
    client id is empty without clean-session; every other rejection writes nothing -/
theorem reject_connack (cfg : Config) (bytes : Bytes) (tail : Tail) (ck : Option ConnCode) (why : Reject)
    (h : admit cfg bytes tail = .reject ck why) :
    (ck = none ∧ why ≠ .invalidClientId) ∨ (ck = some .ClientIdentifierNotValid ∧ why = .invalidClientId) := by
  exact admit_reject h

/-- that CONNACK is encodable by both listeners (`20 02 00 02` / `20 03 00 85 00`) -/
theorem reject_connack_bytes :
    connackBytes .v4 .ClientIdentifierNotValid = some [0x20, 0x02, 0x00, 0x02] ∧
    connackBytes .v5 .ClientIdentifierNotValid = some [0x20, 0x03, 0x00, 0x85, 0x00] := by
  constructor
  · simp [connackBytes, V4.encode, V4.encParts, V4.encConnAck, V4.connCodeByte, frame, encVarint,
      remainingLimit, encVarintLoop_lt128, boolBit]
    decide
  · simp [connackBytes, V5.encode, V5.encodeRet, V5.encParts, V5.encConnAck, V5.connCodeByte,
      V5.encProps, V5.propsLen, encVarint, remainingLimit, encVarintLoop_lt128, boolBit]
    decide

/-- a session exists only after the router accepted the client id: it has none of `+ $ # /` -/
theorem session_only_if_valid_client_id (cfg : Config) (dyn : Bool) (assigned : String)
    (s s' : Router.RState) (link : Nat) (bytes : Bytes) (tail : Tail) (o : Outcome)
    (h : establish cfg dyn assigned s link bytes tail = .ok (s', o, true)) :
    ∃ c spec, o = .proceed c ∧ admit cfg bytes tail = .proceed c ∧
      toSpec link dyn assigned c = some spec ∧ Router.validClientId spec.clientId = true := by
  unfold establish at h
  split at h
  · simp at h
  · rename_i c hc
    split at h
    · simp at h
    · rename_i spec hs
      split at h
      · simp at h
      · rename_i s'' hn
        simp only [Except.ok.injEq, Prod.mk.injEq] at h
        obtain ⟨h1, h2, h3⟩ := h
        subst h1
        refine ⟨c, spec, h2.symm, hc, hs, ?_⟩
        apply registered_of_handleNewConnection hn
        rw [toSpec_link hs]; exact h3

/-- C19 authentication, nothing configured: every login (also none) passes -/
theorem no_auth_decision (login : Option Login) (cid : Bytes) :
    handleAuth {} login cid = true := by
  simp [handleAuth, AuthConfig.configured]

/-- C19 authentication, static table only — the truth table stated outright:
    login absent → refused; user not in the table → refused; password differs → refused;
    user present with exactly the stored password → accepted. -/
theorem static_auth_decision (pairs : List (Bytes × Bytes)) (cid : Bytes) :
    handleAuth { static := some pairs } none cid = false ∧
    (∀ l : Login, lookup l.username pairs = none → handleAuth { static := some pairs } (some l) cid = false) ∧
    (∀ (l : Login) (stored : Bytes), lookup l.username pairs = some stored → stored ≠ l.password →
        handleAuth { static := some pairs } (some l) cid = false) ∧
    (∀ l : Login, lookup l.username pairs = some l.password →
        handleAuth { static := some pairs } (some l) cid = true) := by
  refine ⟨?_, ?_, ?_, ?_⟩
  · simp [handleAuth, AuthConfig.configured]
  · intro l hl; simp [handleAuth, AuthConfig.configured, hl]
  · intro l stored hl hne; simp [handleAuth, AuthConfig.configured, hl, hne]
  · intro l hl; simp [handleAuth, AuthConfig.configured, hl]

/-- C19 authentication, external callback configured (with or without a static table): login
    absent → refused; otherwise the callback's answer on (client id, user, password) decides and
    the static table is not consulted -/
theorem external_auth_decision (f : Bytes → Bytes → Bytes → Bool) (static : Option (List (Bytes × Bytes)))
    (cid : Bytes) :
    handleAuth { static := static, external := some f } none cid = false ∧
    (∀ l : Login, handleAuth { static := static, external := some f } (some l) cid
        = f cid l.username l.password) := by
  refine ⟨?_, ?_⟩
  · simp [handleAuth, AuthConfig.configured]
  · intro l; simp [handleAuth, AuthConfig.configured]

/-- `handle_auth` computes the independent rule (static tables as hash maps: distinct keys) -/
theorem auth_meets_spec (a : AuthConfig) (login : Option Login) (cid : Bytes)
    (hk : ∀ ps, a.static = some ps → (ps.map Prod.fst).Nodup) :
    handleAuth a login cid = AdmissionSpec.credentialsAccepted a login cid := by
  exact handleAuth_eq_accepted a login cid hk

/- non-vacuity: a CONNECT that is admitted, one refused for each reason -/
example : admit { version := .v4, maxPayload := 2048 }
    [0x10, 0x0d, 0, 4, 77, 81, 84, 84, 4, 2, 0, 10, 0, 1, 99] .eof
    = .proceed ⟨4, 10, [99], true, none, none, none⟩ := by decide
example : admit { version := .v4, maxPayload := 2048 }
    [0x10, 0x0d, 0, 4, 77, 81, 84, 84, 4, 2, 0, 0, 0, 1, 99] .eof = .reject none .zeroKeepAlive := by decide
example : admit { version := .v5, maxPayload := 2048 }
    [0x10, 0x0d, 0, 4, 77, 81, 84, 84, 4, 2, 0, 10, 0, 1, 99] .eof = .reject none .network := by decide
example : admit { version := .v4, maxPayload := 2048 }
    [0x10, 0x0c, 0, 4, 77, 81, 84, 84, 4, 0, 0, 10, 0, 0] .eof
    = .reject (some .ClientIdentifierNotValid) .invalidClientId := by decide
example : admit { version := .v4, auth := { static := some [([117], [112])] }, maxPayload := 2048 }
    [0x10, 0x0d, 0, 4, 77, 81, 84, 84, 4, 2, 0, 10, 0, 1, 99] .eof = .reject none .invalidAuth := by decide

end C19net
