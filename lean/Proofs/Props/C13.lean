/-
C13 — Commit log reads and retention.
Property theorems only; helper lemmas live in Proofs/Lemmas/CommitLog.lean.
The model (`Model/CommitLog.lean`) follows `rumqttd/src/segments/{mod,segment}.rs` statement by
statement with every dev-profile panic explicit; the spec (`Model/CommitLogSpec.lean`) speaks about
the whole append history `hist` (entry `i` has absolute offset `i`), the retained suffix, the
retained entries with their tags (`tagged`), issued cursors (`Issued`) and the expected read
(`expectedRead` = `take n (drop …)` of the tagged retained entries).
`readv` takes `&self`: reads never change the log, so "every sequence of appends and reads" is
"every sequence of appends, with reads at any moment" — `Reached` quantifies over all of them.
-/
import Proofs.Lemmas.CommitLog
import Proofs.Lemmas.CommitLogBridge
namespace C13
open CommitLog
variable {α : Type}

/-! ### (a), (f): the invariant of every reachable log; retention -/

/-- C13.a1 `new` with a legal configuration yields a well-formed empty log; an illegal one is the
    documented `panic!`. -/
theorem new_spec (ms mm : Nat) :
    (1024 ≤ ms ∧ 1 ≤ mm → ∃ l : Log α, Log.new ms mm = .ok l ∧ Rep l [] ∧ l.head = 0 ∧ l.tail = 0) ∧
    (¬ (1024 ≤ ms ∧ 1 ≤ mm) → (Log.new ms mm : Except Panic (Log α)) = .error .config) := by
  constructor
  · intro ⟨h1, h2⟩
    have h1' : ¬ ms < 1024 := by omega
    have h2' : ¬ mm < 1 := by omega
    have e : ∃ l : Log α, Log.new ms mm = .ok l := by simp [Log.new, h1', h2']
    obtain ⟨l, e⟩ := e
    have := new_rep e
    exact ⟨l, e, this.1, this.2.2.2.2.2.1, this.2.2.2.2.2.2⟩
  · intro h
    unfold Log.new
    by_cases h1 : ms < 1024
    · simp [h1]
    · have : mm < 1 := by omega
      simp [h1, this]

/-- C13.a2 `append` on a log that represents `hist` never panics, returns the new tail cursor
    `(tail, |hist| + 1)`, and the new log represents `hist ++ [x]` (in particular it is well-formed:
    non-empty segment list, `count = tail - head + 1 ≤ max`, contiguous offsets). Any entry size. -/
theorem append_preserves (l : Log α) (hist : List α) (h : Rep l hist) (x : α) (size : Nat) :
    ∃ l', l.append x size = .ok (l', (l'.tail, hist.length + 1)) ∧ Rep l' (hist ++ [x]) ∧
      l'.maxMemSegments = l.maxMemSegments := by
  obtain ⟨l', h1, h2, _, h4, _⟩ := append_rep l hist h x size
  exact ⟨l', h1, h2, h4⟩

/-- C13.a3 For ALL configurations accepted by `new` and ALL append sequences (any sizes): nothing
    panics and the reached log represents exactly the appended history. -/
theorem inv_reachable (ms mm : Nat) (hms : 1024 ≤ ms) (hmm : 1 ≤ mm) (xs : List (α × Nat)) :
    ∃ l, Reached ms mm xs l ∧ Rep l (xs.map (·.1)) ∧ l.maxMemSegments = mm := by
  obtain ⟨l0, h0, hr0, _, _⟩ := (new_spec (α := α) ms mm).1 ⟨hms, hmm⟩
  obtain ⟨l, h1, h2, _, h3, _⟩ := appends_rep xs l0 [] hr0
  exact ⟨l, ⟨l0, h0, h1⟩, by simpa using h2, by rw [h3]; exact (new_rep h0).2.1⟩

/-- the same, for a given reached log (`Reached` is functional) -/
theorem reached_rep {ms mm : Nat} {xs : List (α × Nat)} {l : Log α} (h : Reached ms mm xs l) :
    Rep l (xs.map (·.1)) ∧ l.maxMemSegments = mm := by
  obtain ⟨l0, h0, h1⟩ := h
  obtain ⟨hr0, hm, _⟩ := new_rep h0
  obtain ⟨l', h1', h2, _, h3, _⟩ := appends_rep xs l0 [] hr0
  rw [h1] at h1'; cases h1'
  exact ⟨by simpa using h2, by rw [h3]; exact hm⟩

/-- C13.f The log keeps at most the configured number of segments, always, and
    `segments = tail - head + 1`. -/
theorem segment_count_bounded {ms mm : Nat} {xs : List (α × Nat)} {l : Log α}
    (h : Reached ms mm xs l) :
    l.segments.length ≤ mm ∧ 1 ≤ l.segments.length ∧ l.segments.length = l.tail - l.head + 1 := by
  obtain ⟨hr, hm⟩ := reached_rep h
  have := hr.wf.bound
  have := hr.wf.count
  have := List.length_pos_iff.mpr hr.wf.ne
  omega

/-- C13.a4 Retention discards only whole oldest segments: one `append` either keeps every
    retained entry, or (only when the segment limit is reached) drops exactly the entries of the
    oldest segment — never part of a segment, never a younger one. -/
theorem retention_whole_oldest (l : Log α) (hw : WF l) (x : α) (size : Nat) :
    ∃ l' c, l.append x size = .ok (l', c) ∧
      ((l'.head = l.head ∧ retained l' = retained l ++ [x]) ∨
       (l'.head = l.head + 1 ∧ l.segments.length = l.maxMemSegments ∧
         ∃ a rest, l.segments = a :: rest ∧ retained l' = flat rest ++ [x] ∧ l'.firstAbs = a.next)) := by
  obtain ⟨l', h1, _, _, _, _, _, hc⟩ := append_spec l hw x size
  refine ⟨l', _, h1, ?_⟩
  rcases hc with ⟨a, b, _⟩ | h
  · exact Or.inl ⟨a, b⟩
  · exact Or.inr h

/-! ### (b): reads from issued cursors -/

/-- C13.b1 `readv_spec`. For a log representing `hist`, an issued cursor `c` (however old) and a
    count `n` (`|hist| + n < 2^64`): `readv` does not panic and returns exactly
    `expectedRead l c n` = the tagged retained entries from the cursor's position, at most `n`;
    the continuation is an issued, non-stale cursor standing exactly where the read stopped;
    `Done` is reported iff nothing retained remains after the read. -/
theorem readv_spec (l : Log α) (hist : List α) (h : Rep l hist) (c : Cursor) (n : Nat)
    (hi : Issued l c) (hU : hist.length + n < U64) :
    ∃ pos, l.readv c n = .ok (expectedRead l c n, pos) ∧
      pos.end_.2 = cursorAbs l c + (expectedRead l c n).length ∧
      Issued l pos.end_ ∧ l.head ≤ pos.end_.1 ∧
      (pos.isDone = true ↔ cursorAbs l c + (expectedRead l c n).length = hist.length) := by
  have hna := h.nextAbs_eq
  obtain ⟨pos, h1, _, h3, h4, h5, h6⟩ := readv_issued l h.wf c n hi (by omega)
  have hlen := expectedRead_length l h.wf c n hi
  have hb := hi.abs_bounds h.wf
  refine ⟨pos, h1, by omega, h4, h5, ?_⟩
  rw [h6]; omega

/-- C13.b2 The values read are the history from the cursor's position on, in append order, at
    most `n` of them (`take n (drop a hist)`; `a ≥` first retained offset). -/
theorem read_values (l : Log α) (hist : List α) (h : Rep l hist) (c : Cursor) (n : Nat)
    (hi : Issued l c) :
    (expectedRead l c n).map (·.1) = (hist.drop (cursorAbs l c)).take n ∧
    l.firstAbs ≤ cursorAbs l c ∧ cursorAbs l c ≤ hist.length := by
  have := hi.abs_bounds h.wf
  have := h.nextAbs_eq
  exact ⟨expectedRead_values l hist h c n hi, by omega, by omega⟩

/-- C13.b3 No gap, no repeat: the offsets of the entries read are `a, a+1, a+2, …`. -/
theorem read_offsets_consecutive (l : Log α) (hw : WF l) (c : Cursor) (n : Nat) (hi : Issued l c) :
    (expectedRead l c n).map (·.2.2) = List.range' (cursorAbs l c) (expectedRead l c n).length :=
  expectedRead_offsets l hw c n hi

/-- C13.b4 Each entry is tagged with its own (segment, offset): the segment is retained and
    holds that offset, and the offset is the entry's index in the history. -/
theorem read_tags (l : Log α) (hist : List α) (h : Rep l hist) (c : Cursor) (n : Nat)
    (e : Entry α) (he : e ∈ expectedRead l c n) :
    Holds l e.2.1 e.2.2 ∧ hist[e.2.2]? = some e.1 :=
  expectedRead_tags l hist h c n e he

/-- C13.b5 Compose: a later read from the continuation resumes exactly where this one stopped —
    the two reads together are the single read of `n + m` entries. -/
theorem readv_compose (l : Log α) (hist : List α) (h : Rep l hist) (c : Cursor) (n m : Nat)
    (hi : Issued l c) (hn : hist.length + n < U64) (hm : hist.length + m < U64)
    (es : List (Entry α)) (pos : Position) (hr : l.readv c n = .ok (es, pos)) :
    ∃ pos', l.readv pos.end_ m = .ok (expectedRead l pos.end_ m, pos') ∧
      es ++ expectedRead l pos.end_ m = expectedRead l c (n + m) := by
  obtain ⟨pos0, h1, h2, h3, h4, _⟩ := readv_spec l hist h c n hi hn
  rw [hr] at h1; cases h1
  obtain ⟨pos', h1', _⟩ := readv_spec l hist h pos.end_ m h3 hm
  refine ⟨pos', h1', ?_⟩
  have hb := hi.abs_bounds h.wf
  have hca : cursorAbs l pos.end_ = pos.end_.2 := by
    unfold cursorAbs; have : ¬ pos.end_.1 < l.head := by omega
    simp [this]
  have hlen := expectedRead_length l h.wf c n hi
  unfold expectedRead at h2 hlen ⊢
  rw [hca, h2, List.take_add]
  congr 1
  rw [hlen, List.drop_drop]
  have hsum := h.wf.first_add_length
  by_cases hk : n ≤ l.nextAbs - cursorAbs l c
  · congr 2; omega
  · have hl : (tagged l).length = (flat l.segments).length := length_tagSegs _ _
    rw [List.drop_eq_nil_of_le (by omega), List.drop_eq_nil_of_le (by omega)]

/-! ### (c): caught up -/

/-- C13.c `done_iff`: for an issued cursor the answer is `Position::Done` exactly when no
    retained entry remains after the entries just read. (What the code does precisely: the loop
    over closed segments never answers `Done`; the active segment answers `Done` iff the cursor
    is at/after its next offset or `idx + len ≥ len()`. With the invariant "every opened segment
    holds an entry" that is the English clause; no excluded corner for issued cursors.) -/
theorem done_iff (l : Log α) (hist : List α) (h : Rep l hist) (c : Cursor) (n : Nat)
    (hi : Issued l c) (hU : hist.length + n < U64)
    (es : List (Entry α)) (pos : Position) (hr : l.readv c n = .ok (es, pos)) :
    pos.isDone = true ↔ cursorAbs l c + es.length = hist.length := by
  obtain ⟨pos0, h1, _, _, _, h5⟩ := readv_spec l hist h c n hi hU
  rw [hr] at h1; cases h1
  exact h5

/-- for a cursor that was never issued the clause is not claimed — and indeed does not hold:
    a fabricated segment number beyond the tail answers `Done` while entries remain. -/
theorem done_not_claimed_for_fabricated :
    ∃ (l : Log Nat) (c : Cursor), (∃ xs, Reached 1024 1 xs l) ∧ ¬ Issued l c ∧ retained l ≠ [] ∧
      l.readv c 1 = .ok ([], .done c c) := by
  refine ⟨{ head := 0, tail := 0, maxSegmentSize := 1024, maxMemSegments := 1,
            segments := [{ data := [7], totalSize := 1, abs := 0 }] }, (5, 0), ⟨[(7, 1)], ?_⟩, ?_, ?_, ?_⟩
  · exact ⟨_, rfl, rfl⟩
  · intro h; have := h.1; simp at this
  · simp [retained, flat]
  · rfl

/-! ### (d): old cursors -/

/-- C13.d1 `issued_mono`: an issued cursor stays issued after any further append (hence after
    any number of appends and evictions). -/
theorem issued_mono (l : Log α) (hw : WF l) (c : Cursor) (hi : Issued l c) (x : α) (size : Nat)
    (l' : Log α) (c' : Cursor) (ha : l.append x size = .ok (l', c')) : Issued l' c := by
  obtain ⟨l2, h1, _, hm, _⟩ := append_spec l hw x size
  rw [ha] at h1; cases h1
  exact issued_of_segMono hm hi

/-- C13.d1' the same over any number of further appends (rolls and evictions included) -/
theorem issued_mono_appends (l : Log α) (hist : List α) (h : Rep l hist) (c : Cursor)
    (hi : Issued l c) (xs : List (α × Nat)) (l' : Log α) (ha : l.appends xs = .ok l') :
    Issued l' c := by
  obtain ⟨l2, h1, _, hm, _⟩ := appends_rep xs l hist h
  rw [ha] at h1; cases h1
  exact issued_of_segMono hm hi

/-- C13.d2 Everything the log hands out is issued: the tail (`next_offset`), the result of an
    `append`, the tag of every entry a read returns, and every continuation (b1). -/
theorem issued_origins (l : Log α) (hw : WF l) :
    (∀ c, l.nextOffset = .ok c → Issued l c) ∧
    (∀ x size l' c, l.append x size = .ok (l', c) → Issued l' c) ∧
    (∀ c n e, e ∈ expectedRead l c n → Issued l e.2) := by
  refine ⟨?_, ?_, ?_⟩
  · intro c hc
    obtain ⟨z, hz⟩ := hw.exists_last
    have : l.nextOffset = .ok (l.tail, l.nextAbs) := by
      simp [Log.nextOffset, Log.activeSegment, hz, Log.nextAbs]
    rw [this] at hc; cases hc
    exact issued_tail hw
  · intro x size l' c ha
    obtain ⟨l2, h1, hw2, _⟩ := append_spec l hw x size
    rw [ha] at h1; cases h1
    exact issued_tail hw2
  · intro c n e he
    have hm : e ∈ tagged l := List.mem_of_mem_drop (List.mem_of_mem_take he)
    exact issued_of_holds hw (holds_of_mem_tagged hm).1

/-- C13.d3 A cursor into discarded data resumes at the oldest retained entry: the read equals the
    read from `(head, first retained offset)`, and for `n > 0` its first entry is that entry. -/
theorem stale_resumes_at_oldest (l : Log α) (hist : List α) (h : Rep l hist) (c : Cursor) (n : Nat)
    (hs : c.1 < l.head) :
    expectedRead l c n = expectedRead l (l.head, l.firstAbs) n ∧
    (0 < n → ∃ x, (expectedRead l c n).head? = some (x, (l.head, l.firstAbs)) ∧
      hist[l.firstAbs]? = some x) := by
  constructor
  · simp [expectedRead, cursorAbs, hs]
  · intro hn
    obtain ⟨x, hx⟩ := stale_head l h.wf c n hs hn
    refine ⟨x, hx, ?_⟩
    have hm : (x, (l.head, l.firstAbs)) ∈ expectedRead l c n := List.mem_of_mem_head? hx
    exact (expectedRead_tags l hist h c n _ hm).2

/-! ### (e): no panic -/

/-- C13.e1 For ANY cursor value (fabricated segment, fabricated offset) `readv` does not panic
    and still returns a correct run of retained entries — those the effective issued cursor
    (`effective`) reads, or nothing — provided the count cannot overflow: `|hist| + n < 2^64`. -/
theorem readv_no_panic_partial (l : Log α) (hist : List α) (h : Rep l hist) (c : Cursor) (n : Nat)
    (hU : hist.length + n < U64) :
    ∃ pos, l.readv c n =
        .ok ((match effective l c with | none => [] | some c' => expectedRead l c' n), pos)
      ∧ (∀ c', effective l c = some c' → Issued l c') := by
  have := h.nextAbs_eq
  exact readv_any l h.wf c n (by omega)

/-- C13.e2 The unrestricted clause is false for the code: with the largest `u64` count a read from
    an issued mid-segment cursor panics (`let mut limit = idx + len` overflows in the dev
    profile; with wrapping arithmetic the slice `data[idx..limit]` panics instead). Witness: two
    appends, then `readv((0,1), u64::MAX)`. -/
theorem readv_panics_for_huge_count :
    ∃ (l : Log Nat), Reached 1024 3 [(1, 600), (2, 600)] l ∧ Issued l (0, 1) ∧
      panicOf (l.readv (0, 1) (U64 - 1)) = some .addOverflow := by
  refine ⟨{ head := 0, tail := 0, maxSegmentSize := 1024, maxMemSegments := 3,
            segments := [{ data := [1, 2], totalSize := 1200, abs := 0 }] }, ⟨_, rfl, rfl⟩, ?_, by decide⟩
  exact ⟨by decide, Or.inr ⟨_, rfl, by decide, by decide⟩⟩

theorem readv_no_panic_unrestricted_false :
    ¬ (∀ (l : Log Nat) (xs : List (Nat × Nat)) (c : Cursor) (n : Nat),
        Reached 1024 3 xs l → ∃ r, l.readv c n = .ok r) := by
  intro hall
  obtain ⟨l, hr, _, hp⟩ := readv_panics_for_huge_count
  obtain ⟨r, hr'⟩ := hall l _ (0, 1) (U64 - 1) hr
  rw [hr'] at hp; cases hp

/-! ### (g): the copy of the commit log inside the router model -/

/-- C13.g1 The totalised commit log of the router model (`namespace CLog`, no panic branches) is
    the same function as the model above on every well-formed log: `append`, `readv` (any cursor,
    `nextAbs + n < 2^64`) and `next_offset` return exactly the model's (never panicking) answers,
    and `new` agrees for every configuration the real `new` accepts. Hence (a)–(f) hold verbatim
    for the logs inside `Model/Router`. -/
theorem router_copy_agrees (l : CLog.Log α) (hw : WF (logC l)) :
    (∀ x size, (logC l).append x size = .ok (logC (l.append x size).1, (l.append x size).2)) ∧
    (∀ c n, (logC l).nextAbs + n < U64 →
      (logC l).readv c n = .ok ((l.readv c n).1, posC (l.readv c n).2)) ∧
    (logC l).nextOffset = .ok l.nextOffset ∧
    (∀ ms mm, 1024 ≤ ms → 1 ≤ mm →
      (Log.new ms mm : Except Panic (Log α)) = .ok (logC (CLog.Log.new ms mm))) :=
  ⟨fun x size => append_bridge l hw x size, fun c n h => readv_bridge l hw c n h,
   nextOffset_bridge l hw, fun ms mm h1 h2 => new_bridge ms mm h1 h2⟩

/-- C13.g2 Every log the router model can build (`CLog.Log.new` with positive limits, then any
    appends) is well-formed and represents its append history. -/
theorem router_copy_reachable (ms mm : Nat) (hms : 1 ≤ ms) (hmm : 1 ≤ mm) (xs : List (α × Nat)) :
    Rep (logC (xs.foldl (fun l p => (l.append p.1 p.2).1) (CLog.Log.new ms mm))) (xs.map (·.1)) := by
  have h0 : Rep (logC (CLog.Log.new ms mm : CLog.Log α)) [] := by
    refine ⟨⟨by simp [logC, CLog.Log.new], by simp [logC, CLog.Log.new], by simp [logC, CLog.Log.new]; omega,
      by simp [logC, CLog.Log.new]; omega, trivial, by simp [logC, CLog.Log.new],
      by simp [logC, CLog.Log.new, segC], by simp [logC, CLog.Log.new]⟩,
      by simp [Log.firstAbs, logC, CLog.Log.new, segC], by simp [retained, flat, Log.firstAbs, logC, CLog.Log.new, segC]⟩
  suffices h : ∀ (l : CLog.Log α) (hist : List α), Rep (logC l) hist →
      Rep (logC (xs.foldl (fun l p => (l.append p.1 p.2).1) l)) (hist ++ xs.map (·.1)) by
    simpa using h _ [] h0
  induction xs with
  | nil => intro l hist h; simpa using h
  | cons p ps ih =>
    intro l hist h
    obtain ⟨l', h1, h2, _⟩ := append_rep (logC l) hist h p.1 p.2
    rw [append_bridge l h.wf] at h1
    have e := (Prod.mk.inj (Except.ok.inj h1)).1
    rw [← e] at h2
    have := ih (l.append p.1 p.2).1 (hist ++ [p.1]) h2
    simpa using this

/-! ### non-vacuity -/

/-- a concrete reachable log with three segments after an eviction (segment size 1024, at most 2
    segments, five appends): a stale cursor, a boundary-crossing read, continuation, done. -/
example :
    ∃ l : Log Nat, Reached 1024 2 [(1, 600), (2, 600), (3, 1024), (4, 300), (5, 1)] l ∧
      l.head = 1 ∧ l.tail = 2 ∧ Issued l (0, 1) ∧ Issued l (1, 3) ∧
      l.readv (0, 1) 2 = .ok ([(3, (1, 2)), (4, (2, 3))], .next (1, 2) (2, 4)) ∧
      l.readv (2, 4) 5 = .ok ([(5, (2, 4))], .done (2, 4) (2, 5)) ∧
      l.readv (1, 3) 0 = .ok ([], .next (1, 3) (2, 3)) :=
  ⟨{ head := 1, tail := 2, maxSegmentSize := 1024, maxMemSegments := 2,
     segments := [{ data := [3], totalSize := 1024, abs := 2 }, { data := [4, 5], totalSize := 301, abs := 3 }] },
   ⟨_, rfl, rfl⟩, rfl, rfl, ⟨by decide, Or.inl (by decide)⟩,
   ⟨by decide, Or.inr ⟨_, rfl, by decide, by decide⟩⟩, rfl, rfl, rfl⟩

example : ∃ l : Log Nat, Log.new 1024 1 = .ok l ∧ Rep l [] := ⟨_, rfl, (new_rep (ms := 1024) (mm := 1) rfl).1⟩

end C13
