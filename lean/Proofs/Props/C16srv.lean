/-
C16 (server part) — WHEN does the per-connection task `remote()` tell the router to publish a will.
"If a client registered a will and its connection ends for any reason other than the client
sending DISCONNECT, the broker publishes the will message … exactly once; if the client sent
DISCONNECT first, the will is never published; a client without a will never causes one."

Division of labour in the code (and in the models): the SERVER emits `Event::PublishWill(client id)`
after EVERY end of an established link — it does not know about wills or DISCONNECT packets — unless
a newer connection with the same client id and clean_session = false cancels it before the will
delay (`min(session expiry, will delay)` seconds) has elapsed; the ROUTER (`Proofs/Props/C16.lean`)
publishes on that event only if a will is registered, removes the will on a DISCONNECT packet and
consumes it when it fires. Model: `Model/ServerWill.lean`. All theorems are over every sequence of
admissions (any client ids, clean flags, delays, router verdicts), link ends (any cause), task
panics and clock advances.
-/
import Proofs.Lemmas.ServerWill
namespace C16srv
open ServerWill

/-- C16 server clause, exactly-once / exactly-when: in every reachable state the number of
    `PublishWill` events task `t` has sent is 1 if its will wait was ended by `Fire` or by the
    expiry of the delay, and 0 in every other case (not established,
    still running or waiting, cancelled) — never 2. -/
theorem will_event_emitted_exactly_when (ops : List Op) (t : Nat) :
    (World.run {} ops).publishedWill t =
      match ((World.run {} ops).task? t).bind (·.resolution) with
      | some r => if publishWillDecision r then 1 else 0
      | none => 0 := by
  rw [run_publishedWill]
  cases ((World.run {} ops).task? t).bind (·.resolution) <;> rfl

/-- the will wait is over only for a task whose link was established and has ended, and such a
    task is no longer running -/
theorem resolution_only_after_link_end (ops : List Op) (t : Nat) (x : Task) (r : Resolution)
    (h : (World.run {} ops).task? t = some x) (hr : x.resolution = some r) :
    x.linked = true ∧ x.endedAt ≠ none ∧ (x.phase = .finished ∨ x.phase = .panicked) := by
  exact run_resolved h (by rw [hr]; simp)

/-- `Event::Disconnect` is sent exactly once when the link ends by anything but the router closing
    it (`Err(remote::Error::Link(_))`), never otherwise -/
theorem disconnect_event_emitted_exactly_when (ops : List Op) (t : Nat) :
    (World.run {} ops).sentDisconnect t =
      match ((World.run {} ops).task? t).bind (·.cause) with
      | some c => if c.sendDisconnect then 1 else 0
      | none => 0 := by
  rw [run_sentDisconnect]
  cases ((World.run {} ops).task? t).bind (·.cause) <;> rfl

/-- reconnect logic: a will wait is ended by a signal only because a LATER connection with the
    same client id passed the handler step; the signal is `Fire` iff that connection asked for a
    clean session, `Cancel` iff it resumed the session -/
theorem signalled_only_by_reconnect (ops : List Op) (t : Nat) (x : Task) (s : Signal)
    (h : (World.run {} ops).task? t = some x) (hr : x.resolution = some (.signalled s)) :
    ∃ t' y, t < t' ∧ (World.run {} ops).task? t' = some y ∧ y.cid = x.cid ∧
      s = (if y.clean then Signal.fire else Signal.cancel) := by
  exact run_signalled h hr

/-- will delay: the wait of a task that ended at time `e` with delay `d` seconds and no signal in
    its channel is over at once if `d = 0`, else it lasts until the clock reaches `e + 1000 d`.
    `hres` (the wait of a running task is not yet over) holds in every reachable state by
    `resolution_only_after_link_end`; the step lemma is over an arbitrary `World`, so it is stated. -/
theorem will_delay_spec (w : World) (t : Nat) (x : Task) (cause : Cause)
    (h : w.task? t = some x) (hrun : x.phase = .running) (hl : x.linked = true) (hin : x.inbox = none)
    (hres : x.resolution = none) :
    (x.delay = 0 → ∃ y, (w.endLink t cause).task? t = some y ∧
        (y.phase = .finished ∨ y.phase = .panicked)) ∧
    (x.delay ≠ 0 → ∃ y, (w.endLink t cause).task? t = some y ∧
        y.phase = .waiting (w.now + x.delay * 1000) ∧ y.resolution = none) := by
  have ht : t < w.tasks.length := lt_of_getElem?_some h
  obtain ⟨w', htasks, _, he⟩ := endLink_quiet w t x cause h hrun hl hin
  rw [he]
  constructor
  · intro hd
    rw [if_pos hd]
    obtain ⟨y, hy, _, hph⟩ := resolveTimeout_same w' t
      { x with endedAt := some w.now, cause := some cause } (htasks ▸ ht)
    exact ⟨y, hy, hph⟩
  · intro hd
    rw [if_neg hd]
    exact ⟨{ x with endedAt := some w.now, cause := some cause,
                      phase := .waiting (w.now + x.delay * 1000) },
      by simp [World.task?, htasks, ht], rfl, hres⟩

/-- a task in its will wait times out under `advance ms` exactly if the deadline is reached.
    `hres` (a waiting task is not yet resolved) holds in every reachable state by
    `resolution_only_after_link_end`; the channel content (`_hin`) plays no role in `advance`. -/
theorem timeout_exactly_at_deadline (w : World) (t : Nat) (x : Task) (d ms : Nat)
    (h : w.task? t = some x) (hw : x.phase = .waiting d) (_hin : x.inbox = none)
    (hres : x.resolution = none) :
    ∃ y, (w.advance ms).task? t = some y ∧
      (y.resolution ≠ none ↔ d ≤ w.now + ms) := by
  have ht : t < w.tasks.length := lt_of_getElem?_some h
  unfold World.advance
  simp only
  exact expire_at { w with now := w.now + ms } w.tasks.length t x d ht h hw hres

/-- liveness of the server part at full strength: in every reachable state a task has panicked only
    where the code it runs inside its link panicked (`taskPanic`, an input of this model) — the
    will bookkeeping itself never panics, whatever was refused, ended or panicked before —, so every
    will wait is ended by a signal or a genuine timeout (`Resolution` has no other case) -/
theorem every_ended_link_resolves_properly (ops : List Op) (t : Nat) (x : Task)
    (h : (World.run {} ops).task? t = some x) :
    x.phase = .panicked → Op.taskPanic t ∈ ops := by
  intro hp
  rcases run_panicked {} ops t x h hp with h1 | ⟨x0, hx0, _⟩
  · exact h1
  · simp at hx0

/-- a connection the router refuses (client id with `+ $ # /`, connection limit) leaves no will
    handler behind -/
theorem refused_link_leaves_no_handler (w : World) (cid : String) (clean : Bool) (delay : Nat) :
    Router.alookup cid (w.step (.admitted cid clean delay false)).handlers = none := by
  rw [step_admitted, wake_handlers,
    linkStep_false_handlers _ _ _ (handlerStep_task w cid clean delay) rfl]
  exact Router.alookup_aremove_same _ _

/-- a handler whose receiver is gone (its task panicked inside its link) does not stop the next
    connection with that client id: the handler step always yields a running task and registers it -/
theorem stale_handler_is_harmless (w : World) (cid : String) (clean : Bool) (delay : Nat) :
    ((w.handlerStep cid clean delay).1.task? (w.handlerStep cid clean delay).2).map (·.phase) = some .running ∧
    Router.alookup cid (w.handlerStep cid clean delay).1.handlers = some (w.handlerStep cid clean delay).2 := by
  rw [handlerStep_task]
  exact ⟨rfl, handlerStep_handlers w cid clean delay⟩

/-- regression example (the history that used to kill the listener: `vh stack` cases `stale*` /
    `poison*`): a refused CONNECT, the same client id again, another client, then the connected
    client goes away — everybody is served and the will event is sent -/
example :
    let w := World.run {}
      [.admitted "w" true 0 true, .admitted "a/b" true 0 false, .admitted "a/b" true 0 true,
       .admitted "c" true 0 true, .ended 0 .peerClosed]
    (w.task? 2).map (·.phase) = some .running ∧ (w.task? 3).map (·.phase) = some .running ∧
    (w.task? 0).bind (·.resolution) = some .timedOut ∧ w.publishedWill 0 = 1 := by
  decide

/- non-vacuity: a will delay of 5 s, cancelled by a session-resuming reconnect after 1 s … -/
example :
    let w := World.run {} [.admitted "w" false 5 true, .ended 0 .peerClosed, .advance 1000,
                           .admitted "w" false 5 true]
    w.publishedWill 0 = 0 ∧ (w.task? 0).bind (·.resolution) = some (.signalled .cancel) := by decide
/- … fired by a clean reconnect … -/
example :
    let w := World.run {} [.admitted "w" true 5 true, .ended 0 .keepAlive, .advance 1000,
                           .admitted "w" true 0 true]
    w.publishedWill 0 = 1 ∧ w.log = [.connect 0 "w", .disconnect 0, .connect 1 "w", .publishWill 0 "w"] := by
  decide
/- … or left to expire -/
example :
    let w := World.run {} [.admitted "w" true 5 true, .ended 0 .routerClosed, .advance 4999]
    w.publishedWill 0 = 0 ∧ (w.advance 1).publishedWill 0 = 1 ∧ w.sentDisconnect 0 = 0 := by decide

/- the hypotheses of `will_delay_spec` / `timeout_exactly_at_deadline` hold on reachable states -/
example :
    let w := World.run {} [.admitted "w" true 5 true]
    (w.task? 0).map (fun x => (x.phase, x.linked, x.inbox, x.resolution))
      = some (.running, true, none, none) := by decide
example :
    let w := World.run {} [.admitted "w" true 5 true, .ended 0 .peerClosed]
    (w.task? 0).map (fun x => (x.phase, x.inbox, x.resolution)) = some (.waiting 5000, none, none) := by
  decide

end C16srv
