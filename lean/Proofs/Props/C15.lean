/-
C15 — Retained messages: latest per topic on new subscription, cleared by empty.
-/
import Proofs.Lemmas.Router.Local
namespace C15
open Router

/-- the retained message of a topic after a publish on it: a retained publish replaces it, a
    retained publish with an empty payload removes it, a non-retained publish leaves it -/
theorem retained_map_is_latest (s : RState) (topic : String) (p : Pub) :
    alookup topic (updateRetained s topic p).datalog.retained =
      if p.retain then (if p.payload.isEmpty then none else some p)
      else alookup topic s.datalog.retained := updateRetained_lookup_same s topic p

/-- and no other topic's retained message is touched -/
theorem retained_of_other_topics_untouched (s : RState) (topic t' : String) (p : Pub) (h : t' ≠ topic) :
    alookup t' (updateRetained s topic p).datalog.retained = alookup t' s.datalog.retained :=
  updateRetained_lookup_other s topic t' p h

/-- a forward built from a log entry keeps the entry's retain flag, topic (unless an existing
    broker alias replaces it) and payload, and carries the subscription's QoS -/
theorem forward_keeps_content (qos : Nat) (alias : Option Nat) (ex : Bool) (sid : Option Nat) (p : Pub) :
    (mkForward qos alias ex sid p).retain = p.retain ∧ (mkForward qos alias ex sid p).payload = p.payload ∧
    (mkForward qos alias ex sid p).qos = qos ∧ (ex = false → (mkForward qos alias ex sid p).topic = p.topic) := by
  unfold mkForward
  cases alias <;> cases sid <;> cases ex <;> simp

/-- the replay set of a sweep is read from the retained map: exactly the retained messages whose
    topic matches the filter (for every iteration order the oracle supplies) -/
theorem replay_is_matching_retained (s s' : RState) (filter : String) (ps : List Pub)
    (h : readRetained s filter = .ok (s', ps)) :
    ∀ p ∈ ps, ∃ t, alookup t s.datalog.retained = some p ∧
      t ∈ (s.datalog.retained.filter (fun q => topicMatches q.1 filter)).map (·.1) := by
  unfold readRetained at h
  split at h
  · rename_i order rest _
    simp only [] at h
    split at h
    · rename_i hs
      simp only [Except.ok.injEq, Prod.mk.injEq] at h
      obtain ⟨_, hps⟩ := h
      subst hps
      intro p hp
      simp only [List.mem_filterMap] at hp
      obtain ⟨t, ht, hl⟩ := hp
      refine ⟨t, hl, ?_⟩
      -- `order` has the same members as the expected list
      unfold sameMembers at hs
      simp only [Bool.and_eq_true, beq_iff_eq, List.all_eq_true] at hs
      have hc := hs.1 t ht
      have : 0 < order.count t := List.count_pos_iff.mpr ht
      have : 0 < ((s.datalog.retained.filter (fun q => topicMatches q.1 filter)).map (·.1)).count t := by omega
      exact List.count_pos_iff.mp this
    · simp at h
  · simp at h

end C15
