/-
C15 — Retained messages: latest per topic on new subscription, cleared by empty.

Vocabulary (definitions in Proofs/Lemmas/Router/Rp2_*.lean):
* `RetainedKeysUnique s` — the retained map has at most one entry per topic;
* `RetainedFlagged s`    — every stored retained message has `retain = true` and a non-empty payload;
* `matchingRetained s f` — the stored retained messages whose topic matches filter `f`;
* `requestsOf s id`      — the data requests in the tracker of connection `id`;
* `newRequest cur idx f group` — the request `prepare_filter` creates (`forwardRetained := group.isNone`);
* `appendedEvents evs`   — the (filter index, stored copy) pairs of the `appended` events in `evs`;
* `run2 s ops` / `Reachable2 cfg s` — fold of `step` over (operation, oracle choices) pairs from `init cfg`,
                           stopping at the first error;
* `retainedStep t cur e` / `retainedSpec t cur acc` — the C15 rule for one accepted publish `e` on the retained
                           message `cur` of topic `t`, and its fold over a list of accepted publishes;
* `Notif.content n`      — for a forward: (retain flag, payload, log cursor), cursor `none` = retained replay;
* `fwdRetained`          — the replay-read step of `forward_device_data` (`forwardDeviceData_eq_rp2`
                           shows the model's function is, definitionally, built from it).
-/
import Proofs.Lemmas.Router.Rp2_Retained
import Proofs.Lemmas.Router.Rp2_Will
import Proofs.Lemmas.Router.Rp2_Examples
import Proofs.Lemmas.Router.Rp2_Reach
import Proofs.Lemmas.Router.Rp2_Replay
import Proofs.Lemmas.Router.Rp14_Retained
namespace C15
open Router

/-! ### the retained map -/

/-- the retained message of a topic after a publish on it: a retained publish replaces it, a
    retained publish with an empty payload removes it, a non-retained publish leaves it -/
theorem retained_map_is_latest (s : RState) (topic : String) (p : Pub) :
    alookup topic (updateRetained s topic p).datalog.retained =
      if p.retain then (if p.payload.isEmpty then none else some p)
      else alookup topic s.datalog.retained := updateRetained_lookup_same s topic p

/-- and no other topic's retained message is touched -/
theorem retained_of_other_topics_untouched (s : RState) (topic t' : String) (p : Pub) (h : t' ≠ topic) :
    alookup t' (updateRetained s topic p).datalog.retained = alookup t' s.datalog.retained :=
  updateRetained_lookup_other s topic t' p h

/-- the map keeps at most one message per topic, and what it stores is the publish as sent: with
    the retain flag set and a payload (both invariants hold initially and are preserved by every
    update of the map) -/
theorem retained_map_stays_wellformed (s : RState) (topic : String) (p : Pub)
    (hu : RetainedKeysUnique s) (hf : RetainedFlagged s) :
    RetainedKeysUnique (updateRetained s topic p) ∧ RetainedFlagged (updateRetained s topic p) ∧
    (∀ c, RetainedKeysUnique (init c) ∧ RetainedFlagged (init c)) :=
  ⟨updateRetained_keysUnique s topic p hu, updateRetained_flagged s topic p hf,
   fun _ => ⟨List.nodup_nil, fun _ h => absurd h (List.not_mem_nil)⟩⟩

/-! ### who gets a replay -/

/-- `replay_on_new_nonshared_subscription_only`, at `prepare_filter`: a filter that is new for
    the connection creates exactly one request, which asks for the retained replay
    (`forwardRetained = true`) exactly when the subscription is not a shared one; a repeated
    subscription creates no request at all (tracker, parked requests and ready queue untouched),
    so nothing is replayed for it -/
theorem replay_on_new_nonshared_subscription_only (s s' : RState) (id : Nat) (cursor : Cursor) (idx : Nat)
    (f : SubFilter) (group : Option String) (subId : Option Nat) (c : Conn) (hc : getConn s id = some c)
    (h : prepareFilter s id cursor idx f group subId = .ok s') :
    (c.subscriptions.contains f.path = false →
        requestsOf s' id = some (c.tracker.requests ++ [newRequest cursor idx f group]) ∧
        ((newRequest cursor idx f group).forwardRetained = true ↔ group = none)) ∧
    (c.subscriptions.contains f.path = true →
        requestsOf s' id = some c.tracker.requests ∧ s'.notifications = s.notifications ∧
        s'.datalog = s.datalog ∧ s'.readyqueue = s.readyqueue) := by
  refine ⟨fun hnew => ⟨prepareFilter_new_request hc hnew h, ?_⟩, fun hin => ?_⟩
  · cases group <;> simp [newRequest]
  · obtain ⟨a, b, c', d, _⟩ := prepareFilter_repeated_no_request hc hin h
    exact ⟨a, b, c', d⟩

/-- the same at the SUBSCRIBE packet (one acceptable filter): a request is created iff the filter
    is new for the connection, and its replay flag is set iff the filter is not `$share/…` -/
theorem subscribe_requests_replay_iff_new_and_not_shared (s s' : RState) (id : Nat) (cid : String)
    (pkid : Nat) (subId : Option Nat) (f : SubFilter) (fl fl' : Flags) (c : Conn)
    (hc : getConn s id = some c) (hv : validSubscription f.path = true) (hs : subId ≠ some 0)
    (h : handlePacket s id cid (.subscribe pkid subId [f]) fl = .ok (s', fl')) :
    (c.subscriptions.contains f.path = true → requestsOf s' id = some c.tracker.requests) ∧
    (c.subscriptions.contains f.path = false → ∃ idx cursor,
      requestsOf s' id = some (c.tracker.requests ++
        [{ filter := f.path, filterIdx := idx, qos := f.qos, cursor := cursor,
           forwardRetained := (extractGroup f.path).isNone, group := (extractGroup f.path).map (·.1) }])) :=
  subscribe_one_filter_request hc hv hs h

/-- `forward_retained_consumed_once`: whatever a sweep of the request does, the request handed
    back has its replay flag cleared — unless the sweep stopped on a full inflight window before
    reading anything (then nothing was replayed, the state is unchanged and the flag is kept for
    the next sweep) -/
theorem forward_retained_consumed_once (s s' : RState) (id : Nat) (c : Conn) (req req' : DataRequest)
    (st : ConsumeStatus) (hc : getConn s id = some c)
    (h : forwardDeviceData s id req = .ok (s', req', st)) :
    (st = .inflightFull ∧ s' = s ∧ req'.forwardRetained = req.forwardRetained) ∨
    (st ≠ .inflightFull ∧ req'.forwardRetained = false) :=
  (forwardDeviceData_spec hc h).2.2.2.2.2

/-! ### what is replayed -/

/-- the replay set of a sweep is read from the retained map: exactly the retained messages whose
    topic matches the filter (for every iteration order the oracle supplies) -/
theorem replay_is_matching_retained (s s' : RState) (filter : String) (ps : List Pub)
    (h : readRetained s filter = .ok (s', ps)) :
    ∀ p ∈ ps, ∃ t, alookup t s.datalog.retained = some p ∧
      t ∈ (s.datalog.retained.filter (fun q => topicMatches q.1 filter)).map (·.1) := by
  obtain ⟨order, rest, _, rfl, hperm, _⟩ := readRetained_spec h
  intro p hp
  simp only [List.mem_filterMap] at hp
  obtain ⟨t, ht, hl⟩ := hp
  exact ⟨t, hl, hperm.mem_iff.mp ht⟩

/-- `replay_content`: the replayed list is exactly `order.filterMap lookup` for the iteration
    order `order` the hash map produced, which is a permutation of the matching topics; hence (map
    with unique keys) it is a permutation of the matching retained messages — each exactly once,
    no other message — and every element carries the retain flag (flagged map) -/
theorem replay_content (s s' : RState) (filter : String) (ps : List Pub)
    (h : readRetained s filter = .ok (s', ps)) :
    ∃ order rest, s.oracle = .retained order :: rest ∧
      ps = order.filterMap (fun t => alookup t s.datalog.retained) ∧
      order.Perm ((s.datalog.retained.filter (fun p => topicMatches p.1 filter)).map (·.1)) ∧
      (RetainedKeysUnique s → ps.Perm (matchingRetained s filter)) ∧
      (RetainedFlagged s → ∀ p ∈ ps, p.retain = true) := by
  obtain ⟨order, rest, a, b, c, d⟩ := readRetained_spec h
  exact ⟨order, rest, a, b, c, d, readRetained_flagged h⟩

/-- the replay is read only for a request whose flag is set, is truncated to the free window
    (`slots`: the free inflight slots for QoS > 0, `max_outgoing_packet_count` for QoS 0 — the
    property's "provided those fit") and carries no log cursor; a request whose flag is clear
    replays nothing -/
theorem replay_truncated_to_window (s s1 : RState) (req : DataRequest) (slots slots' : Nat)
    (rp : List (Pub × Option Cursor)) (h : fwdRetained s req slots = .ok (s1, rp, slots')) :
    (req.forwardRetained = false ∧ rp = []) ∨
    (req.forwardRetained = true ∧ ∃ ps, readRetained s req.filter = .ok (s1, ps) ∧
        rp = (ps.take slots).map (fun p => (p, none)) ∧ rp.length ≤ slots) := by
  rcases (fwdRetained_spec h).2.2 with ⟨a, b, _⟩ | ⟨a, ps, b, c⟩
  · exact .inl ⟨a, b⟩
  · exact .inr ⟨a, ps, b, c, by rw [c]; simp; exact Nat.min_le_left _ _⟩

/-- delivery of the replay: a sweep of a request whose replay flag is set either stops on a full
    inflight window (nothing happens), or reads the matching retained messages `ps` and — unless it
    writes nothing at all to the link (nothing to send, or not this member's turn in a shared
    group) — appends to the connection's own link one forward per message: first the replay
    `ps.take slots`, each with its stored retain flag (set, in every reachable state) and payload
    and with no cursor, then the live log entries with their cursors, then at most an `Unschedule` -/
theorem replay_is_delivered_first_and_flagged (s s' : RState) (id : Nat) (c : Conn) (req req' : DataRequest)
    (st : ConsumeStatus) (hc : getConn s id = some c) (hfr : req.forwardRetained = true)
    (h : forwardDeviceData s id req = .ok (s', req', st)) :
    (st = .inflightFull ∧ s' = s) ∨
    ∃ (s1 : RState) (ps : List Pub) (slots : Nat),
      readRetained s req.filter = .ok (s1, ps) ∧ (RetainedFlagged s → ∀ p ∈ ps, p.retain = true) ∧
      ((getLink s' c.link).obuf = (getLink s c.link).obuf ∨
       ∃ (live : List (Pub × Cursor)) (ns tail : List Notif),
        (getLink s' c.link).obuf = (getLink s c.link).obuf ++ ns ++ tail ∧
        (tail = [] ∨ tail = [Notif.unschedule]) ∧
        ns.map Notif.content =
          (ps.take slots).map (fun p => some (p.retain, p.payload, none)) ++
          live.map (fun e => some (e.1.retain, e.1.payload, some e.2))) := by
  rcases forwardDeviceData_replay hc hfr h with a | ⟨s1, ps, slots, hrr, hcase⟩
  · exact .inl a
  · exact .inr ⟨s1, ps, slots, hrr, readRetained_flagged hrr, hcase⟩

/-- a forward built from a stored message keeps the message's retain flag, topic (unless an
    existing broker alias replaces it) and payload, and carries the subscription's QoS: replayed
    messages reach the subscriber flagged, live copies unflagged -/
theorem forward_keeps_content (qos : Nat) (alias : Option Nat) (ex : Bool) (sid : Option Nat) (p : Pub) :
    (mkForward qos alias ex sid p).retain = p.retain ∧ (mkForward qos alias ex sid p).payload = p.payload ∧
    (mkForward qos alias ex sid p).qos = qos ∧ (ex = false → (mkForward qos alias ex sid p).topic = p.topic) := by
  unfold mkForward
  cases alias <;> cases sid <;> cases ex <;> simp

/-! ### live copies -/

/-- `live_copies_not_flagged`, client publishes: every copy a successful `append_to_commitlog`
    appends to a filter log has `retain = false`, whatever the flag of the publish, while the
    retained map is updated with the publish as sent (flag kept: a retained non-empty publish is
    stored with `retain = true`) -/
theorem live_copies_not_flagged (s s' : RState) (id : Nat) (p : Pub)
    (h : appendToCommitlog s id p = .ok (s', none)) :
    ∃ (q : Pub) (topic : String) (evs : List Ghost),
      SamePublish p q ∧ s'.ghost = s.ghost ++ [.accepted (some id) q topic] ++ evs ∧
      (∀ e ∈ appendedEvents evs, e.2.retain = false ∧ e.2.payload = p.payload) ∧
      ((p.retain = true ∧ p.payload ≠ []) → alookup topic s'.datalog.retained = some q ∧ q.retain = true) := by
  obtain ⟨q, topic, s0, s1, idxs, evs, sp, _, hd, _, _, _, hg, ha, _, hr, _⟩ := appendToCommitlog_ok h
  refine ⟨q, topic, evs, sp, hg, ?_, ?_⟩
  · intro e he
    rw [ha] at he
    simp only [List.mem_map] at he
    obtain ⟨i, _, rfl⟩ := he
    exact ⟨rfl, sp.payload⟩
  · intro ⟨hret, hpay⟩
    have hq : q.retain = true := sp.retain.trans hret
    refine ⟨?_, hq⟩
    rw [hr]
    exact updateRetained_stores_flagged s0 topic q hq (by rw [sp.payload]; exact hpay)

/-- `live_copies_not_flagged`, will publishes: the copies `handle_last_will` appends are unflagged
    too, and the retained map is updated with the will as registered -/
theorem will_copies_not_flagged (s s' : RState) (cid : String) (w : Will) (topic : String)
    (hw : alookup cid s.lastWills = some w) (ht : utf8? w.topic = some topic)
    (h : handleLastWill s cid = .ok s') :
    ∃ evs, s'.ghost = s.ghost ++ [.willFired cid, .accepted none (willPub w) topic] ++ evs ∧
      (∀ e ∈ appendedEvents evs, e.2.retain = false ∧ e.2.payload = w.payload) ∧
      s'.datalog.retained = (updateRetained s topic (willPub w)).datalog.retained := by
  obtain ⟨_, s0, s1, idxs, evs, _, _, _, hg, ha, _, hr, _⟩ := handleLastWill_fires hw ht h
  refine ⟨evs, hg, ?_, hr⟩
  intro e he
  rw [ha] at he
  simp only [List.mem_map] at he
  obtain ⟨i, _, rfl⟩ := he
  exact ⟨rfl, rfl⟩

/-! ### every history -/

/-- in every reachable state of the router model (any sequence of operations, any oracle choices)
    the retained map has one entry per topic and every entry is flagged and non-empty -/
theorem reachable_retained_map_wellformed (cfg : Config) (s : RState) (h : Reachable2 cfg s) :
    RetainedKeysUnique s ∧ RetainedFlagged s := (reachable_histInv h).ret

/-- `retained_map_is_latest` for whole histories: in every reachable state the retained message of
    a topic `t` is the result of folding the C15 rule over all publishes accepted so far (client
    publishes and wills, in acceptance order): a retained non-empty publish on `t` replaces it, a
    retained empty one clears it, anything else leaves it (`retainedStep`) — i.e. the latest retained
    publish on `t` since the last clearing one, or nothing -/
theorem retained_map_is_latest_in_every_history (cfg : Config) (s : RState) (h : Reachable2 cfg s) (t : String) :
    alookup t s.datalog.retained = retainedSpec t none (acceptedEvents s.ghost) :=
  (reachable_histInv h).latest t

/-- hence, in every reachable state and for every iteration order the hash map may produce, a
    replay read returns a permutation of the retained messages matching the filter — each exactly
    once, nothing else — all of them flagged as retained -/
theorem replay_content_in_every_history (cfg : Config) (s s' : RState) (choices : List Choice)
    (filter : String) (ps : List Pub) (hr : Reachable2 cfg s)
    (h : readRetained { s with oracle := choices } filter = .ok (s', ps)) :
    ps.Perm (matchingRetained s filter) ∧ ∀ p ∈ ps, p.retain = true := by
  have hi := (reachable_histInv hr).ret
  obtain ⟨_, _, _, _, _, hperm⟩ := readRetained_spec h
  exact ⟨hperm hi.1, readRetained_flagged h hi.2⟩

/-- `live_copies_not_flagged` for whole histories: every copy ever appended to a filter log (the
    `appended` events of the ghost history, emitted exactly by `Data::append`) is unflagged -/
theorem live_copies_never_flagged (cfg : Config) (s : RState) (h : Reachable2 cfg s) :
    ∀ e ∈ appendedEvents s.ghost, e.2.retain = false := (reachable_histInv h).copies


/-! ### reachable states and runs (the shared `Reachable` of C01 / C03 / C08 / C14 / C17) -/

/-- every state reachable in the sense of the other properties (`Reachable`: an error-free run from
    `init cfg`) is reachable in the sense of this file (`Reachable2`), so the history invariants above
    hold for it: one retained entry per topic, each flagged and non-empty, every log copy unflagged -/
theorem reachable_retained_invariants {cfg : Config} {s : RState} (hr : Reachable cfg s) :
    Reachable2 cfg s ∧ RetainedKeysUnique s ∧ RetainedFlagged s ∧ ∀ e ∈ appendedEvents s.ghost, e.2.retain = false :=
  ⟨hr.to2, (reachable_histInv hr.to2).ret.1, (reachable_histInv hr.to2).ret.2, (reachable_histInv hr.to2).copies⟩

/-- C15 `retained_is_latest_per_topic`. In every reachable state, `datalog.retained` maps topic `t` to `p`
    EXACTLY IF `p` is the most recent accepted retained publish on `t` (client publish or will; the ghost
    `accepted` events, in acceptance order) and has a non-empty payload: the accepted publishes split as
    `pre ++ (origin, p, t) :: post` with `p.retain`, `p.payload ≠ []` and no retained publish on `t` in
    `post`. Hence a topic has NO retained message exactly if no retained publish on it was ever accepted
    or the most recent one had an empty payload (it cleared the entry). -/
theorem retained_is_latest_per_topic {cfg : Config} {s : RState} (hr : Reachable cfg s) (t : String) (p : Pub) :
    alookup t s.datalog.retained = some p ↔
      ∃ pre origin post, acceptedEvents s.ghost = pre ++ (origin, p, t) :: post ∧
        p.retain = true ∧ p.payload.isEmpty = false ∧ ∀ e ∈ post, e.2.2 = t → e.2.1.retain = false := by
  rw [(reachable_histInv hr.to2).latest t, retainedSpec_some_iff]
  constructor
  · rintro (h | ⟨h, _⟩)
    · exact h
    · cases h
  · exact fun h => .inl h

/-- C15 `first_sweep_replays_matching_retained` (reachable states). A sweep of a non-shared request whose
    replay flag is set — the request of a NEW subscription (`subscribe_requests_replay_iff_new_and_not_shared`)
    — either stops on a full inflight window before reading anything (state unchanged, flag kept: the
    replay happens in a later sweep), or clears the flag and reads `ps`: in the iteration order `order`
    the oracle supplies, a permutation of EXACTLY the retained messages whose topic matches the filter
    (each once, nothing else), all flagged retain; and unless the sweep writes nothing at all, the link
    buffer receives first the replay `ps.take window` — `window` = the free inflight slots (QoS > 0) or
    `max_outgoing_packet_count` (QoS 0) — each with retain flag and payload and without cursor, and only
    then the live log entries with their cursors. -/
theorem first_sweep_replays_matching_retained {cfg : Config} {s s' : RState} (hr : Reachable cfg s) (ch : List Choice)
    {id : Nat} {c : Conn} {req req' : DataRequest} {st : ConsumeStatus} (hc : getConn s id = some c)
    (hfr : req.forwardRetained = true) (hg : req.group = none)
    (h : forwardDeviceData { s with oracle := ch } id req = .ok (s', req', st)) :
    (st = .inflightFull ∧ s' = { s with oracle := ch } ∧ req'.forwardRetained = true) ∨
    (st ≠ .inflightFull ∧ req'.forwardRetained = false ∧
      ∃ order rest ps, ch = .retained order :: rest ∧
        ps = order.filterMap (fun t => alookup t s.datalog.retained) ∧
        ps.Perm (matchingRetained s req.filter) ∧ (∀ p ∈ ps, p.retain = true) ∧
        ((getLink s' c.link).obuf = (getLink s c.link).obuf ∨
         ∃ (live : List (Pub × Cursor)) (ns tail : List Notif),
          (getLink s' c.link).obuf = (getLink s c.link).obuf ++ ns ++ tail ∧
          (tail = [] ∨ tail = [Notif.unschedule]) ∧
          ns.map Notif.content =
            (ps.take (if req.qos ≠ 0 then c.out.freeSlots else s.config.maxOutgoingPacketCount)).map
              (fun p => some (p.retain, p.payload, none)) ++
            live.map (fun e => some (e.1.retain, e.1.payload, some e.2)))) := by
  have hc' : getConn { s with oracle := ch } id = some c := hc
  have hi := (reachable_histInv hr.to2).ret
  rcases (forwardDeviceData_spec hc' h).2.2.2.2.2 with ⟨e1, e2, e3⟩ | ⟨e1, e2⟩
  · exact .inl ⟨e1, e2, e3.trans hfr⟩
  · refine .inr ⟨e1, e2, ?_⟩
    rcases forwardDeviceData_replay_slots hc' hfr h with ⟨e, _⟩ | ⟨s1, ps, hrr, hcase⟩
    · exact absurd e e1
    · obtain ⟨order, rest, a, b, _, d⟩ := readRetained_spec hrr
      refine ⟨order, rest, ps, a, b, d hi.1, readRetained_flagged hrr hi.2, ?_⟩
      rw [fwdSlots_plain _ c req hg] at hcase
      exact hcase

/-- C15 `replay_at_most_once` (runs). Over any run with the premises of `C01.delivery_is_prefix` — the
    connection stays, sends no UNSUBSCRIBE of `f` (it MAY repeat its SUBSCRIBE of `f`: a repeated
    SUBSCRIBE tracks no new request, `replay_on_new_nonshared_subscription_only`), within the retention —
    the request of the non-shared subscription `(a, f)` is handed on from state to state (request
    conservation: it is THE request of that subscription, C03), and once its replay flag is clear — it
    is after the first sweep that read anything, `forward_retained_consumed_once` — it is clear at the end
    of the run: the retained messages are not replayed a second time on that subscription. -/
theorem replay_at_most_once {cfg : Config} (h1 : 1 ≤ cfg.maxSegmentSize) (h2 : 1 ≤ cfg.maxSegmentCount)
    (hpos : 0 < cfg.maxOutgoingPacketCount) {a : Nat} {cid f : String} (ops : List (Op × List Choice))
    {s s2 : RState} {r : DataRequest} (hr : Reachable cfg s) (hrun : run s ops = .ok s2) (hno : Rp3.NoOverflow s2)
    (hquiet : QuietRun a cid f s ops) (hown : Own s a r) (hf : r.filter = f) (hplain : r.group = none)
    (hclear : r.forwardRetained = false) :
    ∃ r2, Own s2 a r2 ∧ r2.filter = f ∧ r2.group = none ∧ r2.forwardRetained = false := by
  obtain ⟨r2, o2, f2, g2, k⟩ := run_thread_flag h1 h2 hpos ops hr hrun hno hquiet hown hf hplain
  exact ⟨r2, o2, f2, g2, k hclear⟩

/-- and a sweep of a request whose flag is clear replays nothing: what it writes to the link are live
    log entries only (each with a cursor) -/
theorem cleared_flag_replays_nothing (s s1 : RState) (req : DataRequest) (slots slots' : Nat)
    (rp : List (Pub × Option Cursor)) (hfl : req.forwardRetained = false)
    (h : fwdRetained s req slots = .ok (s1, rp, slots')) : rp = [] ∧ s1 = s := by
  rcases (fwdRetained_spec h).2.2 with ⟨_, b, c⟩ | ⟨a, _⟩
  · exact ⟨b, c⟩
  · rw [hfl] at a; cases a

/-! ### non-vacuity -/

/-- a retained publish on "t" is stored flagged, and the next replay read for filter "t" returns it -/
example : ∃ s1 fl1 s2 ps, handlePacket exState 0 "a" (.publish exPubR) {} = .ok (s1, fl1) ∧
    alookup "t" s1.datalog.retained = some exPubR ∧
    readRetained { s1 with oracle := [.retained ["t"]] } "t" = .ok (s2, ps) ∧ ps = [exPubR] :=
  ⟨_, _, _, _, rfl, rfl, rfl, rfl⟩

/-- a new non-shared subscription gets a request with the replay flag; the repeated one none -/
example : ∃ s1 fl1 s2 fl2,
    handlePacket exState 0 "a" (.subscribe 1 none [{ path := "t", qos := 1 }]) {} = .ok (s1, fl1) ∧
    (requestsOf s1 0).map (·.map (·.forwardRetained)) = some [true] ∧
    handlePacket s1 0 "a" (.subscribe 2 none [{ path := "t", qos := 1 }]) {} = .ok (s2, fl2) ∧
    (requestsOf s2 0).map (·.map (·.forwardRetained)) = some [true] :=
  ⟨_, _, _, _, rfl, rfl, rfl, rfl⟩

/-- a reachable state with a retained message: CONNECT, push a retained PUBLISH, DeviceData -/
example : ∃ s, Reachable2 exConfig s ∧ alookup "t" s.datalog.retained = some exPubR :=
  ⟨_, Reachable2.ofX [(.connect exSpecWill, []), (.push 0 (.publish exPubR), []), (.event 0 .deviceData, [.matches []])] rfl, rfl⟩

end C15
