/-
C08 — Broker persistent sessions resume without losing subscriptions or messages.
-/
import Proofs.Lemmas.Router.Frame
namespace C08
open Router

/-- when a connection ends (any cause) the graveyard keeps its session state exactly if it was
    connected with clean-session off; for a clean session only the marker without state stays -/
theorem session_saved_iff_not_clean (s s' : RState) (id : Nat) (r : Option String) (c : Conn)
    (hc : getConn s id = some c) (h : handleDisconnection s id r = .ok s') :
    (alookup c.clientId s'.graveyard).map Option.isSome = some (!c.clean) := by
  unfold handleDisconnection at h
  simp only [hc] at h
  split at h
  · rename_i hcl
    simp only [Except.ok.injEq] at h
    subst h
    have : c.clean = false := by simpa using hcl
    simp [alookup_ainsert_same, this]
  · rename_i hcl
    simp only [Except.ok.injEq] at h
    subst h
    have : c.clean = true := by simpa using hcl
    simp [alookup_ainsert_same, this]

/-- the saved session holds the connection's subscription set and its unacknowledged releases -/
theorem saved_session_keeps_subscriptions (s s' : RState) (id : Nat) (r : Option String) (c : Conn)
    (hc : getConn s id = some c) (hcl : c.clean = false) (h : handleDisconnection s id r = .ok s') :
    ∃ ss, alookup c.clientId s'.graveyard = some (some ss) ∧ ss.subscriptions = c.subscriptions ∧
      ss.unackedPubrels = c.out.unackedPubrels ∧ ss.tracker.status = .paused .busy := by
  unfold handleDisconnection at h
  simp only [hc, hcl, Bool.not_false, if_true] at h
  simp only [Except.ok.injEq] at h
  subst h
  exact ⟨_, alookup_ainsert_same _ _ _, rfl, rfl, rfl⟩

private theorem nlookup_append {β} (k : Nat) (l r : List (Nat × β)) :
    nlookup k (l ++ r) = (nlookup k l).or (nlookup k r) := by
  induction l with
  | nil => simp [nlookup]
  | cons a l ih =>
    obtain ⟨k', v'⟩ := a
    by_cases h : k' = k
    · simp [nlookup, h]
    · simp [nlookup, h, ih]

private theorem retransmissionMap_keeps (fi : Nat) (c : Cursor) : ∀ (l : List (Nat × Nat × Option Cursor))
    (acc : List (Nat × Cursor)), nlookup fi acc = some c → nlookup fi (retransmissionMap l acc) = some c
  | [], acc, h => by simpa [retransmissionMap] using h
  | (_, fi', some c') :: rest, acc, h => by
    simp only [retransmissionMap]
    split
    · exact retransmissionMap_keeps fi c rest acc h
    · apply retransmissionMap_keeps fi c rest
      simp [nlookup_append, h]
  | (_, _, none) :: rest, acc, h => by
    simp only [retransmissionMap]
    exact retransmissionMap_keeps fi c rest acc h

/-- the resume point of a filter is the cursor of its oldest forwarded and unacknowledged QoS>0
    entry: `retransmission_map` keeps the first cursor seen per filter index, whatever follows -/
theorem retransmission_map_first_wins (pk fi : Nat) (c : Cursor) (rest : List (Nat × Nat × Option Cursor))
    (acc : List (Nat × Cursor)) (h : nlookup fi acc = none) :
    nlookup fi (retransmissionMap ((pk, fi, some c) :: rest) acc) = some c := by
  simp only [retransmissionMap, h, Option.isSome_none, Bool.false_eq_true, if_false]
  apply retransmissionMap_keeps
  simp [nlookup_append, h, nlookup]

/-- retained replays (no cursor) never define a resume point -/
theorem retained_replays_are_not_resume_points (pk fi : Nat) (rest : List (Nat × Nat × Option Cursor))
    (acc : List (Nat × Cursor)) :
    retransmissionMap ((pk, fi, none) :: rest) acc = retransmissionMap rest acc := by
  simp [retransmissionMap]

end C08
