/-
C08 — Broker persistent sessions resume without losing subscriptions or messages.
-/
import Proofs.Lemmas.Router.Frame
import Proofs.Lemmas.Router.Rp3_Unique
import Proofs.Lemmas.Router.Rp1_Helpers2
import Proofs.Lemmas.Router.Rp12_Resume
import Proofs.Lemmas.Router.Rp15_Window
namespace C08
open Router Router.Rp3

/-- when a connection ends (any cause) the graveyard keeps its session state exactly if it was
    connected with clean-session off; for a clean session only the marker without state stays -/
theorem session_saved_iff_not_clean (s s' : RState) (id : Nat) (r : Option String) (c : Conn)
    (hc : getConn s id = some c) (h : handleDisconnection s id r = .ok s') :
    (alookup c.clientId s'.graveyard).map Option.isSome = some (!c.clean) := by
  rw [(handleDisconnection_spec hc h).1, alookup_ainsert_same]
  unfold savedSession
  cases c.clean <;> simp

/-- the saved session holds the connection's subscription set and its unacknowledged releases -/
theorem saved_session_keeps_subscriptions (s s' : RState) (id : Nat) (r : Option String) (c : Conn)
    (hc : getConn s id = some c) (hcl : c.clean = false) (h : handleDisconnection s id r = .ok s') :
    ∃ ss, alookup c.clientId s'.graveyard = some (some ss) ∧ ss.subscriptions = c.subscriptions ∧
      ss.unackedPubrels = c.out.unackedPubrels ∧ ss.tracker.status = .paused .busy := by
  refine ⟨savedState s id c, ?_, rfl, rfl, rfl⟩
  rw [(handleDisconnection_spec hc h).1, alookup_ainsert_same]
  unfold savedSession
  simp [hcl]

/-- the resume point of a filter LOG is the LEAST cursor (tuple order of `(segment, offset)`) among its
    forwarded and unacknowledged QoS>0 entries: `retransmission_map` keeps, per filter index, the least
    cursor of the window entries of that index that carry one — it is the cursor of one of them and
    at or below the cursor of each of them, wherever they stand in the window.
    (Restated after the repair of `retransmission_map`; formerly `retransmission_map_first_wins`.) -/
theorem retransmission_map_least_wins (fi : Nat) (w : List (Nat × Nat × Option Cursor)) (c : Cursor) :
    nlookup fi (retransmissionMap w []) = some c ↔
      (∃ e ∈ w, e.2.1 = fi ∧ e.2.2 = some c) ∧
      ∀ e ∈ w, e.2.1 = fi → ∀ c', e.2.2 = some c' → cursorLe c c' := by
  rw [retx_lookup_least]; exact leastCursor_some_iff fi c w

/-- retained replays (no cursor) never define a resume point -/
theorem retained_replays_are_not_resume_points (pk fi : Nat) (rest : List (Nat × Nat × Option Cursor))
    (acc : List (Nat × Cursor)) :
    retransmissionMap ((pk, fi, none) :: rest) acc = retransmissionMap rest acc := by
  simp [retransmissionMap]

/-! ### UNSUBSCRIBE ends the resume point of the subscription

`unsubscribe` makes the window entries of the ended subscription forget their cursor
(`Outgoing.forgetCursors`, via `unsubOut`), so that `retransmission_map` — with which
`handle_disconnection` rewinds the saved requests — has no entry for the filter any more. -/

/-- C08.3 (which filters have a resume point). `retransmission_map` has an entry for a filter
    index exactly if some window entry of that filter index still carries a cursor -/
theorem resume_point_iff (fi : Nat) (l : List (Nat × Nat × Option Cursor)) :
    nlookup fi (retransmissionMap l []) = none ↔ ∀ e ∈ l, e.2.1 = fi → e.2.2 = none := by
  rw [retx_lookup_least]; exact leastCursor_none_iff fi l


private theorem leastFrom_forget_other (fi fj : Nat) (hne : fj ≠ fi) : ∀ (l : List (Nat × Nat × Option Cursor)) (init : Option Cursor),
    leastFrom fj (l.map (fun e => if e.2.1 = fi then (e.1, e.2.1, none) else e)) init = leastFrom fj l init
  | [], _ => rfl
  | (pk, fk, cur) :: rest, init => by
    simp only [List.map_cons]
    by_cases hk : fk = fi
    · have hkj : ¬ fk = fj := fun e => hne (e ▸ hk)
      simp only [hk, if_true, leastFrom]
      rw [if_neg (fun e => hne e.symm), if_neg (fun e => hne e.symm)]
      exact leastFrom_forget_other fi fj hne rest init
    · simp only [hk, if_false, leastFrom]
      exact leastFrom_forget_other fi fj hne rest _

/-- C08.3 (an ended subscription has no resume point). `forget_cursors(fi)` — what UNSUBSCRIBE
    does to the window when the connection's last subscription reading filter log `fi` ends —
    leaves no entry for `fi` in the `retransmission_map` of the window, and does not change the
    resume point of any other filter index -/
theorem forget_cursors_ends_resume_point (o : Outgoing) (fi : Nat) :
    nlookup fi (retransmissionMap (o.forgetCursors fi).inflight []) = none ∧
    ∀ fj, fj ≠ fi → nlookup fj (retransmissionMap (o.forgetCursors fi).inflight []) =
      nlookup fj (retransmissionMap o.inflight []) := by
  refine ⟨?_, fun fj hne => ?_⟩
  · rw [resume_point_iff]; unfold Outgoing.forgetCursors
    intro e he hfi
    obtain ⟨e0, _, rfl⟩ := List.mem_map.mp he
    by_cases h0 : e0.2.1 = fi
    · simp [h0]
    · simp [h0] at hfi
  · rw [retx_leastFrom, retx_leastFrom]; unfold Outgoing.forgetCursors
    exact leastFrom_forget_other fi fj hne _ _

/-- window entries that forget their cursor never create a resume point -/
theorem forgotten_cursors_create_no_resume_point {l l' : List (Nat × Nat × Option Cursor)}
    (h : Forgets l l') (fi : Nat) (hn : nlookup fi (retransmissionMap l []) = none) :
    nlookup fi (retransmissionMap l' []) = none := by
  rw [resume_point_iff] at hn ⊢
  intro e' he' hfi
  obtain ⟨k, hk⟩ := List.getElem?_of_mem he'
  obtain ⟨e, hek, hf⟩ := h.getElem? hk
  rcases hf.2.2 with h1 | h1
  · rw [h1]; exact hn e (List.mem_of_getElem? hek) (hf.2.1 ▸ hfi)
  · exact h1

/-- C08.3 (UNSUBSCRIBE, window level). `unsubOut` is the window `unsubscribe` leaves: if none of
    the remaining subscriptions `subs` of the connection reads the log of the unsubscribed filter
    (`logPath`: a plain filter and `$share/<group>/<filter>` read the same log) and that log has
    filter index `fi`, the window has no resume point for `fi` any more -/
theorem unsub_out_ends_resume_point (d : DataLog) (subs : List String) (o : Outgoing) (f : String) (fi : Nat)
    (hlast : subs.any (fun g => logPath g == logPath f) = false)
    (hfi : d.filterIdx? (logPath f) = some fi) :
    nlookup fi (retransmissionMap (unsubOut d subs o f).inflight []) = none := by
  unfold unsubOut
  simp only [hlast, Bool.false_eq_true, if_false, hfi]
  exact (forget_cursors_ends_resume_point o fi).1

/-- C08.3 (UNSUBSCRIBE, router level: the point of the repair). Connection `id` is subscribed to
    `f`, no other subscription of it reads the same log, and that log has filter index `fi`. After
    the UNSUBSCRIBE packet (for `f`, possibly followed by more filters) was handled, the
    `retransmission_map` of the connection's window — what `handle_disconnection` rewinds the saved
    requests with — has no entry for `fi`: the still unacknowledged publishes of the ended
    subscription are no resume point. Hence a request of a LATER subscription to `f` (it gets the
    same filter index) is saved as it is, not rewound to a publish of the ended subscription. -/
theorem unsubscribe_ends_resume_point (s s' : RState) (id : Nat) (cid : String) (pkid : Nat) (f : String)
    (rest : List String) (fl fl' : Flags) (c : Conn) (ids : List Nat) (fi : Nat)
    (hc : getConn s id = some c) (hm : alookup f s.subscriptionMap = some ids) (hid : ids.contains id = true)
    (hsub : c.subscriptions.contains f = true)
    (hlast : ∀ g ∈ c.subscriptions, g ≠ f → logPath g ≠ logPath f)
    (hfi : s.datalog.filterIdx? (logPath f) = some fi)
    (h : handlePacket s id cid (.unsubscribe pkid (f :: rest)) fl = .ok (s', fl')) :
    ∃ c', getConn s' id = some c' ∧
      nlookup fi (retransmissionMap c'.out.inflight []) = none ∧
      ∀ (r : DataRequest) (sh : List (String × SharedGroup)), r.filterIdx = fi →
        rewindRequests sh (retransmissionMap c'.out.inflight []) [r] [] = (sh, [r]) := by
  have key : ∃ c', getConn s' id = some c' ∧ nlookup fi (retransmissionMap c'.out.inflight []) = none := by
    unfold handlePacket at h
    simp only [hc] at h
    split at h
    · simp at h
    · rename_i s1 reasons h1
      split at h
      · simp at h
      · rename_i s2 h2
        simp only [Except.ok.injEq, Prod.mk.injEq] at h; obtain ⟨rfl, _⟩ := h
        rw [unsubscribeFilters_cons] at h1
        simp only [hm, hid, hc, hsub, Bool.not_true, Bool.false_eq_true, if_false] at h1
        have hlast' : (c.subscriptions.filter (· ≠ f)).any (fun g => logPath g == logPath f) = false := by
          rw [List.any_eq_false]
          intro g hg
          have := List.mem_filter.mp hg
          simpa using hlast g this.1 (by simpa using this.2)
        have hc0 : getConn (ufState s id ids c f) id = some (ufConn s.datalog c f) := by
          refine (getConn_setConn_live (c := c) ?_ (ufConn s.datalog c f) id).trans (by simp)
          exact hc
        have h0 : nlookup fi (retransmissionMap (ufConn s.datalog c f).out.inflight []) = none :=
          unsub_out_ends_resume_point s.datalog _ c.out f fi hlast' hfi
        obtain ⟨c1, hc1, r1⟩ := (unsubscribeFilters_shape rest h1).live hc0
        obtain ⟨c2, hc2, r2⟩ := (commitAck_shape h2).live hc1
        refine ⟨c2, hc2, ?_⟩
        rw [r2.2.1]
        exact forgotten_cursors_create_no_resume_point r1.2.1.1 fi h0
  obtain ⟨c', hc', hn⟩ := key
  refine ⟨c', hc', hn, fun r sh hr => ?_⟩
  subst hr
  simp [rewindRequests, hn]

/-! non-vacuity of C08.3 (UNSUBSCRIBE): a hand-built window, log index and router state -/

/-- packet ids 1, 3, 4 belong to filter index 0 (4 is a retained replay), 2 to filter index 1 -/
def unsubWindow : Outgoing :=
  { inflight := [(1, 0, some (0, 0)), (2, 1, some (0, 3)), (3, 0, some (0, 1)), (4, 0, none)], lastPkid := 4 }

example : retransmissionMap unsubWindow.inflight [] = [(0, (0, 0)), (1, (0, 3))] ∧
    (unsubWindow.forgetCursors 0).inflight = [(1, 0, none), (2, 1, some (0, 3)), (3, 0, none), (4, 0, none)] ∧
    retransmissionMap (unsubWindow.forgetCursors 0).inflight [] = [(1, (0, 3))] := by decide

def unsubLog : DataLog := { filterIndexes := [("a/b", 0), ("c", 1)] }

/-- the plain and the shared form of a filter read the same log; while the connection keeps one of
    them the resume point stays -/
example : retransmissionMap (unsubOut unsubLog ["c"] unsubWindow "a/b").inflight [] = [(1, (0, 3))] ∧
    retransmissionMap (unsubOut unsubLog ["c"] unsubWindow "$share/g/a/b").inflight [] = [(1, (0, 3))] ∧
    retransmissionMap (unsubOut unsubLog ["c", "$share/g/a/b"] unsubWindow "a/b").inflight [] =
      [(0, (0, 0)), (1, (0, 3))] := by
  decide

def unsubConnEx : Conn :=
  { clientId := "a", link := 0, clean := false, dynamicFilters := false, subscriptions := ["a/b", "c"],
    out := unsubWindow, tracker := { id := "a" } }
def unsubState : RState :=
  { config := ⟨2, 1024, 2, 10, .roundRobin⟩, conns := { entries := [some unsubConnEx] }, links := [{}],
    connectionMap := [("a", 0)], subscriptionMap := [("a/b", [0]), ("c", [0])], datalog := unsubLog }

/-- the hypotheses of `unsubscribe_ends_resume_point` hold in this state … -/
example : getConn unsubState 0 = some unsubConnEx ∧ alookup "a/b" unsubState.subscriptionMap = some [0] ∧
    ([0] : List Nat).contains 0 = true ∧ unsubConnEx.subscriptions.contains "a/b" = true ∧
    (∀ g ∈ unsubConnEx.subscriptions, g ≠ "a/b" → logPath g ≠ logPath "a/b") ∧
    unsubState.datalog.filterIdx? (logPath "a/b") = some 0 :=
  ⟨rfl, rfl, rfl, rfl, by decide, by decide⟩

/-- … and the UNSUBSCRIBE packet is handled without error: filter index 0 had a resume point
    before and has none after, the resume point of filter index 1 stays -/
example : ∃ s' fl', handlePacket unsubState 0 "a" (.unsubscribe 9 ["a/b"]) {} = .ok (s', fl') ∧
    (getConn unsubState 0).map (fun c => retransmissionMap c.out.inflight []) = some [(0, (0, 0)), (1, (0, 3))] ∧
    (getConn s' 0).map (fun c => retransmissionMap c.out.inflight []) = some [(1, (0, 3))] :=
  ⟨_, _, rfl, by decide, by decide⟩

/-! ### CONNECT: session present, clean start, restoration -/

/-- C08.1 `session_present_iff`. When `handle_new_connection` registers a connection for a client
    id that has no live connection, the CONNACK committed for it (first in its ack log, followed by
    the re-sent PUBRELs) carries `session_present = ¬clean ∧ the graveyard held session state for
    this client id` (an entry with state, not the bare marker a clean session leaves). -/
theorem session_present_iff (s s' : RState) (spec : ConnectSpec) (hv : validClientId spec.clientId = true)
    (hnew : alookup spec.clientId s.connectionMap = none) (hroom : ¬ s.conns.len ≥ s.config.maxConnections)
    (h : handleNewConnection s spec = .ok s') :
    ∃ id c, alookup spec.clientId s'.connectionMap = some id ∧ getConn s' id = some c ∧
      c.clientId = spec.clientId ∧ c.clean = spec.clean ∧
      c.acks.committed =
        Ack.connack id (!spec.clean && ((alookup spec.clientId s.graveyard).bind (fun x => x)).isSome)
          :: c.out.unackedPubrels.map Ack.pubrel := by
  have ha := handleNewConnection_fresh hv hnew h
  obtain ⟨t, woke, _, _, hget, _, hcm, _⟩ := admit_spec ha hroom
  refine ⟨_, _, ?_, hget, rfl, rfl, rfl⟩
  rw [hcm]; exact alookup_ainsert_same _ _ _

/-- C08.1 (takeover). If the client id still has a live connection, that one is closed first
    (`handle_disconnection`, which saves its state iff it was not clean), so the new CONNACK
    reports `session_present = ¬clean ∧ the old connection was not clean`. -/
theorem session_present_after_takeover (s s' : RState) (spec : ConnectSpec) (old : Nat) (co : Conn)
    (hv : validClientId spec.clientId = true)
    (hold : alookup spec.clientId s.connectionMap = some old) (hco : getConn s old = some co)
    (hcid : co.clientId = spec.clientId)
    (hroom : ¬ (s.conns.remove old).len ≥ s.config.maxConnections)
    (h : handleNewConnection s spec = .ok s') :
    ∃ id c, alookup spec.clientId s'.connectionMap = some id ∧ getConn s' id = some c ∧
      c.clientId = spec.clientId ∧
      c.acks.committed.head? = some (Ack.connack id (!spec.clean && !co.clean)) := by
  obtain ⟨s1, hd, ha⟩ := handleNewConnection_takeover hv hold h
  have hco' : getConn (setLink s spec.link {}) old = some co := hco
  obtain ⟨hg, _, _, hcfg, hlen⟩ := handleDisconnection_spec hco' hd
  have hroom1 : ¬ s1.conns.len ≥ s1.config.maxConnections := by rw [hlen, hcfg]; exact hroom
  obtain ⟨t, woke, _, _, hget, _, hcm, _⟩ := admit_spec ha hroom1
  refine ⟨_, _, ?_, hget, rfl, ?_⟩
  · rw [hcm]; exact alookup_ainsert_same _ _ _
  · have : alookup spec.clientId s1.graveyard = some (savedSession (setLink s spec.link {}) old co) := by
      rw [hg, hcid]; exact alookup_ainsert_same _ _ _
    simp only [sessionPresent, this, List.cons_append, List.nil_append, List.head?_cons, Option.some.injEq,
      Ack.connack.injEq, true_and]
    unfold savedSession
    cases co.clean <;> simp

/-- C08 `clean_connect_starts_empty`. A connect with clean-session on always reports no session
    and starts with no subscriptions, no tracked requests, no pending releases, an empty inflight
    window; the graveyard entry of the client id is consumed. -/
theorem clean_connect_starts_empty (s s' : RState) (spec : ConnectSpec) (hv : validClientId spec.clientId = true)
    (hnew : alookup spec.clientId s.connectionMap = none) (hroom : ¬ s.conns.len ≥ s.config.maxConnections)
    (hclean : spec.clean = true) (h : handleNewConnection s spec = .ok s') :
    ∃ id c, alookup spec.clientId s'.connectionMap = some id ∧ getConn s' id = some c ∧
      c.acks.committed = [Ack.connack id false] ∧
      c.subscriptions = [] ∧ c.tracker.requests = [] ∧ c.out.unackedPubrels = [] ∧ c.out.inflight = [] ∧
      alookup spec.clientId s'.graveyard = none := by
  have ha := handleNewConnection_fresh hv hnew h
  obtain ⟨t, woke, htr, _, hget, hgy, hcm, _⟩ := admit_spec ha hroom
  have hrs : restoredSession (setLink s spec.link {}) spec = none := by
    unfold restoredSession; simp [hclean]
  obtain ⟨hreqs, _⟩ := tryReady_fields htr
  refine ⟨_, _, ?_, hget, ?_, ?_, ?_, ?_, ?_, ?_⟩
  · rw [hcm]; exact alookup_ainsert_same _ _ _
  · simp [newConn, hrs, sessionPresent, hclean]
  · simp [newConn, hrs]
  · rw [hreqs]; simp [newConn, hrs]
  · simp [newConn, hrs]
  · simp [newConn]
  · rw [hgy]; exact alookup_aremove_same _ _

/-- C08.2 `subscriptions_survive` (conservation across the graveyard). A connection with
    clean-session off ends — by ANY cause, all of them run `handle_disconnection` — and later the
    same client id connects again with clean-session off, nothing in between having touched this
    client's graveyard entry or reconnected it. Then the new connection holds exactly the saved
    subscription set, exactly the saved data requests — the tracked ones followed by the parked
    ones `DataLog::clean` collected, each request of a SHARED subscription first set to its group's
    cursor at the time of the disconnection (`atGroupCursor` on the groups of `s`; the identity for a
    plain subscription, `atGroupCursor_plain`), then each with its cursor rewound to the
    retransmission point of its filter (`retransmission_map_least_wins`) when one exists —, the unacknowledged PUBRELs
    (re-sent right after the CONNACK), the CONNACK says `session_present`, and the graveyard entry
    is consumed. -/
theorem subscriptions_survive (s s1 s2 s3 : RState) (id : Nat) (c : Conn) (r : Option String)
    (spec : ConnectSpec)
    (hc : getConn s id = some c) (hcl : c.clean = false) (hd : handleDisconnection s id r = .ok s1)
    (hgy : alookup c.clientId s2.graveyard = alookup c.clientId s1.graveyard)
    (hnew : alookup c.clientId s2.connectionMap = none)
    (hroom : ¬ s2.conns.len ≥ s2.config.maxConnections)
    (hid : spec.clientId = c.clientId) (hsc : spec.clean = false) (hv : validClientId spec.clientId = true)
    (hn : handleNewConnection s2 spec = .ok s3) :
    ∃ id' c', alookup c.clientId s3.connectionMap = some id' ∧ getConn s3 id' = some c' ∧
      c'.clientId = c.clientId ∧
      c'.subscriptions = c.subscriptions ∧
      c'.tracker.requests = ((c.tracker.requests ++ (datalogClean s.datalog id).2).map (atGroupCursor s.shared)).map
          (rewindOne (retransmissionMap c.out.inflight [])) ∧
      c'.out.unackedPubrels = c.out.unackedPubrels ∧
      c'.acks.committed = Ack.connack id' true :: c.out.unackedPubrels.map Ack.pubrel ∧
      alookup c.clientId s3.graveyard = none := by
  obtain ⟨hg1, _, _, _⟩ := handleDisconnection_spec hc hd
  have hsaved : alookup spec.clientId (setLink s2 spec.link {}).graveyard = some (savedSession s id c) := by
    show alookup spec.clientId s2.graveyard = _
    rw [hid, hgy, hg1]; exact alookup_ainsert_same _ _ _
  have hss : savedSession s id c = some (savedState s id c) := by
    unfold savedSession; simp [hcl]
  have ha := handleNewConnection_fresh hv (by rw [hid]; exact hnew) hn
  obtain ⟨t, woke, htr, _, hget, hgy3, hcm, _⟩ := admit_spec ha hroom
  have hrs : restoredSession (setLink s2 spec.link {}) spec = some (savedState s id c) := by
    unfold restoredSession; simp [hsc, hsaved, hss]
  obtain ⟨hreqs, _⟩ := tryReady_fields htr
  refine ⟨_, _, ?_, hget, hid, ?_, ?_, ?_, ?_, ?_⟩
  · rw [hcm, ← hid]; exact alookup_ainsert_same _ _ _
  · simp [newConn, hrs, savedState]
  · rw [hreqs]; simp [newConn, hrs, savedState, savedRequests]
  · simp [newConn, hrs, savedState]
  · simp [newConn, hrs, savedState, sessionPresent, hsc, hsaved, hss]
  · rw [hgy3, ← hid]; exact alookup_aremove_same _ _

/-- C08.2 (what a restored request is). It is the saved request with the same filter, filter
    index, QoS, group and retained-replay flag; only the cursor may differ: it is the
    retransmission point of the filter (the least cursor among the forwarded and unacknowledged QoS>0
    entry, C08.3) if there is one, else the saved cursor. -/
theorem restored_request_differs_in_cursor_only (retx : List (Nat × Cursor)) (r : DataRequest) :
    (rewindOne retx r).filter = r.filter ∧ (rewindOne retx r).filterIdx = r.filterIdx ∧
    (rewindOne retx r).qos = r.qos ∧ (rewindOne retx r).group = r.group ∧
    (rewindOne retx r).forwardRetained = r.forwardRetained ∧
    (rewindOne retx r).cursor = (match nlookup r.filterIdx retx with | some c => c | none => r.cursor) :=
  rewindOne_fields retx r

/-- C08.2 (conservation of the parked requests). The requests `DataLog::clean(id)` hands to
    `handle_disconnection` are exactly the requests connection `id` had parked on any filter (as a
    multiset: `swap_remove_back` reorders), and afterwards no filter has a waiter of `id` while
    the waiters of other connections, the filters and the logs are as before. -/
theorem parked_requests_are_collected (d : DataLog) (id : Nat) :
    (datalogClean d id).2.Perm
      ((d.native.map (fun fd => (fd.waiters.filter (fun w => w.1 == id)).map (·.2))).flatten) ∧
    (∀ (i : Nat) (fd : FilterData), d.native[i]? = some fd →
      ∃ fd', (datalogClean d id).1.native[i]? = some fd' ∧ fd'.filter = fd.filter ∧ fd'.log = fd.log ∧
        fd'.waiters.Perm (fd.waiters.filter (fun w => !(w.1 == id)))) :=
  datalogClean_collects d id

/-- C08.2 (the hypotheses on the in-between are satisfiable, and hold right after the disconnect):
    `handle_disconnection` removes the client id from the connection map and writes the graveyard
    entry, so an immediate reconnect meets them with `s2 = s1`. -/
theorem disconnected_client_can_resume (s s1 : RState) (id : Nat) (c : Conn) (r : Option String)
    (hc : getConn s id = some c) (hd : handleDisconnection s id r = .ok s1) :
    alookup c.clientId s1.connectionMap = none ∧
    (alookup c.clientId s1.graveyard).map Option.isSome = some (!c.clean) ∧
    (∀ other, other ≠ c.clientId → alookup other s1.graveyard = alookup other s.graveyard) := by
  obtain ⟨hg1, hcm, _, _⟩ := handleDisconnection_spec hc hd
  refine ⟨by rw [hcm]; exact alookup_aremove_same _ _, ?_, ?_⟩
  · rw [hg1, alookup_ainsert_same]
    unfold savedSession
    cases c.clean <;> simp
  · intro other hne
    rw [hg1]; exact alookup_ainsert_ne _ _ _ _ hne

/-- C08.2 (frame). While client `X` has no live connection, every router step other than a CONNECT
    of `X` — whatever other clients publish, subscribe, acknowledge, disconnect or take over — leaves
    `X`'s graveyard entry untouched, creates no connection for `X` and does not enter `X` into the
    connection map. -/
theorem other_clients_leave_the_session_alone (X : String) (s s' : RState) (op : Op) (o : Out)
    (hl : NoLive X s) (hop : NotConnectOf X op) (h : step s op = .ok (s', o)) :
    alookup X s'.graveyard = alookup X s.graveyard ∧ NoLive X s' ∧
    (alookup X s.connectionMap = none → alookup X s'.connectionMap = none) := by
  obtain ⟨a, b, c⟩ := step_frame hl hop h
  exact ⟨a, b, c⟩

/-- C08.2 `subscriptions_survive`, over whole runs. A connection with clean-session off ends (any
    cause); the router then runs ANY sequence of ops (any oracle choices) that contains no CONNECT
    of this client id; then the client connects again with clean-session off (and there is room).
    Provided no second live connection carried the same client id at the disconnect (one session
    per client id, C19), the new connection has exactly the saved subscriptions, the saved data
    requests (tracked + parked, shared ones at their group's cursor, rewound per retransmission map), the pending PUBRELs, and the
    CONNACK reports `session_present`. -/
theorem subscriptions_survive_any_run (s s1 s2 s3 : RState) (id : Nat) (c : Conn) (r : Option String)
    (ops : List (Op × List Choice)) (spec : ConnectSpec)
    (hc : getConn s id = some c) (hcl : c.clean = false) (hd : handleDisconnection s id r = .ok s1)
    (hone : NoLive c.clientId s1)
    (hops : ∀ oc ∈ ops, NotConnectOf c.clientId oc.1) (hrun : run s1 ops = .ok s2)
    (hroom : ¬ s2.conns.len ≥ s2.config.maxConnections)
    (hid : spec.clientId = c.clientId) (hsc : spec.clean = false) (hv : validClientId spec.clientId = true)
    (hn : handleNewConnection s2 spec = .ok s3) :
    ∃ id' c', alookup c.clientId s3.connectionMap = some id' ∧ getConn s3 id' = some c' ∧
      c'.clientId = c.clientId ∧
      c'.subscriptions = c.subscriptions ∧
      c'.tracker.requests = ((c.tracker.requests ++ (datalogClean s.datalog id).2).map (atGroupCursor s.shared)).map
          (rewindOne (retransmissionMap c.out.inflight [])) ∧
      c'.out.unackedPubrels = c.out.unackedPubrels ∧
      c'.acks.committed = Ack.connack id' true :: c.out.unackedPubrels.map Ack.pubrel ∧
      alookup c.clientId s3.graveyard = none := by
  obtain ⟨hcm, _, _⟩ := disconnected_client_can_resume s s1 id c r hc hd
  obtain ⟨fg, _, fc⟩ := run_frame ops hone hops hrun
  exact subscriptions_survive s s1 s2 s3 id c r spec hc hcl hd fg (fc hcm) hroom hid hsc hv hn

/-- C08 / C19 (one session per client id). In every reachable state the connection map knows every
    live connection under its client id (`CMOK`), so two live connections never share a client id;
    and the handling of a packet — any packet — leaves connection map, graveyard and the client
    ids of the live connections exactly as they are, so `CMOK` also holds at every state inside a
    step where a connection may be closed. -/
theorem one_session_per_client_id (cfg : Config) :
    (∀ s, Reachable cfg s → CMOK s) ∧
    (∀ s, CMOK s → ∀ i j ci cj, getConn s i = some ci → getConn s j = some cj →
        ci.clientId = cj.clientId → i = j) ∧
    (∀ s s' id cid pkt fl fl', CMOK s → handlePacket s id cid pkt fl = .ok (s', fl') → CMOK s') := by
  refine ⟨fun _ hr => reachable_cmok hr, ?_, fun _ _ _ _ _ _ _ hk h => hk.of_gkey (handlePacket_gkey h)⟩
  intro s hk i j ci cj hi hj he
  have h1 := hk i ci.clientId (cids_getConn hi)
  have h2 := hk j cj.clientId (cids_getConn hj)
  rw [he, h2] at h1
  exact (Option.some.inj h1).symm

/-- C08.2 `subscriptions_survive`, no side condition left but room and the absence of a CONNECT of
    the same id in between. In a state with a coherent connection map (every reachable state and
    every state inside a step, `one_session_per_client_id`), a connection with clean-session off
    ends by any cause; ANY run without a CONNECT of this client id follows; then the client connects
    with clean-session off. The new connection has exactly the saved subscriptions and data
    requests (tracked + parked, shared ones at their group's cursor, rewound per retransmission map), the pending PUBRELs, and the
    CONNACK says `session_present`. -/
theorem subscriptions_survive_reachable (s s1 s2 s3 : RState) (hk : CMOK s)
    (id : Nat) (c : Conn) (r : Option String) (ops : List (Op × List Choice)) (spec : ConnectSpec)
    (hc : getConn s id = some c) (hcl : c.clean = false) (hd : handleDisconnection s id r = .ok s1)
    (hops : ∀ oc ∈ ops, NotConnectOf c.clientId oc.1) (hrun : run s1 ops = .ok s2)
    (hroom : ¬ s2.conns.len ≥ s2.config.maxConnections)
    (hid : spec.clientId = c.clientId) (hsc : spec.clean = false) (hv : validClientId spec.clientId = true)
    (hn : handleNewConnection s2 spec = .ok s3) :
    ∃ id' c', alookup c.clientId s3.connectionMap = some id' ∧ getConn s3 id' = some c' ∧
      c'.clientId = c.clientId ∧
      c'.subscriptions = c.subscriptions ∧
      c'.tracker.requests = ((c.tracker.requests ++ (datalogClean s.datalog id).2).map (atGroupCursor s.shared)).map
          (rewindOne (retransmissionMap c.out.inflight [])) ∧
      c'.out.unackedPubrels = c.out.unackedPubrels ∧
      c'.acks.committed = Ack.connack id' true :: c.out.unackedPubrels.map Ack.pubrel ∧
      alookup c.clientId s3.graveyard = none := by
  have hone : NoLive c.clientId s1 := by
    obtain ⟨_, _, hcn, _⟩ := handleDisconnection_spec hc hd
    unfold NoLive; rw [hcn]
    exact hk.noLive_after_remove hc
  exact subscriptions_survive_any_run s s1 s2 s3 id c r ops spec hc hcl hd hone hops hrun hroom hid hsc hv hn

/-! ### a resumed session is registered again: `subscription_map`, shared groups, group cursor -/

/-- `id` is entered under `filter` -/
private theorem subscriptionMapAdd_self (m : List (String × List Nat)) (f : String) (id : Nat) :
    ∃ ids, alookup f (subscriptionMapAdd m f id) = some ids ∧ id ∈ ids := by
  unfold subscriptionMapAdd
  split
  · rename_i ids hl
    refine ⟨_, alookup_ainsert_same _ _ _, ?_⟩
    split
    · rename_i hc; simpa using hc
    · simp
  · rename_i hl
    refine ⟨[id], ?_, by simp⟩
    rw [alookup_append, hl]; simp [alookup]

/-- and stays entered whatever is added later -/
private theorem subscriptionMapAdd_keeps (m : List (String × List Nat)) (f g : String) (id : Nat)
    (h : ∃ ids, alookup g m = some ids ∧ id ∈ ids) :
    ∃ ids, alookup g (subscriptionMapAdd m f id) = some ids ∧ id ∈ ids := by
  by_cases hfg : g = f
  · subst hfg; exact subscriptionMapAdd_self m g id
  · obtain ⟨ids, h1, h2⟩ := h
    unfold subscriptionMapAdd
    split
    · exact ⟨ids, by rw [alookup_ainsert_ne _ _ _ _ hfg]; exact h1, h2⟩
    · exact ⟨ids, by rw [alookup_append, h1]; rfl, h2⟩

private theorem foldl_subscriptionMapAdd_mem (id : Nat) : ∀ (subs : List String) (m : List (String × List Nat)) (g : String),
    (g ∈ subs ∨ ∃ ids, alookup g m = some ids ∧ id ∈ ids) →
    ∃ ids, alookup g (subs.foldl (fun m f => subscriptionMapAdd m f id) m) = some ids ∧ id ∈ ids
  | [], m, g, h => by
    rcases h with h | h
    · simp at h
    · exact h
  | f :: rest, m, g, h => by
    simp only [List.foldl_cons]
    refine foldl_subscriptionMapAdd_mem id rest _ g ?_
    rcases h with h | h
    · rcases List.mem_cons.mp h with rfl | h
      · exact .inr (subscriptionMapAdd_self m g id)
      · exact .inl h
    · exact .inr (subscriptionMapAdd_keeps m f g id h)

private theorem rejoinGroups_mem (st : Strategy) (client : String) : ∀ (rs : List DataRequest) (sh : List (String × SharedGroup))
    (g : String), ((∃ r ∈ rs, r.group = some g) ∨ ∃ grp, alookup g sh = some grp ∧ client ∈ grp.clients) →
    ∃ grp, alookup g (rejoinGroups st client rs sh) = some grp ∧ client ∈ grp.clients
  | [], sh, g, h => by
    rcases h with ⟨r, hr, _⟩ | h
    · simp at hr
    · exact h
  | r :: rest, sh, g, h => by
    simp only [rejoinGroups]
    split
    · rename_i hg
      refine rejoinGroups_mem st client rest sh g ?_
      rcases h with ⟨q, hq, e⟩ | h
      · rcases List.mem_cons.mp hq with rfl | hq
        · rw [hg] at e; cases e
        · exact .inl ⟨q, hq, e⟩
      · exact .inr h
    · rename_i g' hg
      refine rejoinGroups_mem st client rest _ g ?_
      by_cases hgg : g = g'
      · subst hgg
        exact .inr ⟨_, alookup_ainsert_same _ _ _, by simp⟩
      · rcases h with ⟨q, hq, e⟩ | ⟨grp, h1, h2⟩
        · rcases List.mem_cons.mp hq with rfl | hq
          · rw [hg] at e; cases e; exact absurd rfl hgg
          · exact .inl ⟨q, hq, e⟩
        · exact .inr ⟨grp, by rw [alookup_ainsert_ne _ _ _ _ hgg]; exact h1, h2⟩

/-- C08.2 (a resumed session is registered again, router level). After a CONNECT that registers a
    connection (no live connection under the client id, room left): every subscription the new
    connection holds — the restored ones — is entered in `subscription_map` under the new id, and
    for every request it tracks — the restored ones — that belongs to a shared subscription, the
    client is a member of the request's group (a group that no longer existed is created again) -/
theorem resumed_session_is_registered_again (s s' : RState) (spec : ConnectSpec) (hv : validClientId spec.clientId = true)
    (hnew : alookup spec.clientId s.connectionMap = none) (hroom : ¬ s.conns.len ≥ s.config.maxConnections)
    (h : handleNewConnection s spec = .ok s') :
    ∃ id c, alookup spec.clientId s'.connectionMap = some id ∧ getConn s' id = some c ∧
      (∀ f ∈ c.subscriptions, ∃ ids, alookup f s'.subscriptionMap = some ids ∧ id ∈ ids) ∧
      (∀ r ∈ c.tracker.requests, ∀ g, r.group = some g →
        ∃ grp, alookup g s'.shared = some grp ∧ spec.clientId ∈ grp.clients) := by
  have ha := handleNewConnection_fresh hv hnew h
  obtain ⟨t, woke, htr, _, hget, _, hcm, _, hsh, _, _, hsm⟩ := admit_spec ha hroom
  obtain ⟨hreqs, _⟩ := tryReady_fields htr
  refine ⟨_, _, ?_, hget, fun f hf => ?_, fun r hr g hg => ?_⟩
  · rw [hcm]; exact alookup_ainsert_same _ _ _
  · rw [hsm]; exact foldl_subscriptionMapAdd_mem _ _ _ f (.inl hf)
  · rw [hsh]
    exact rejoinGroups_mem _ _ _ _ g (.inl ⟨r, by rw [← hreqs]; exact hr, hg⟩)

/-- C08.2 (`resumed_subscriptions_can_be_unsubscribed`). Hence an UNSUBSCRIBE for a restored
    subscription is honoured after the resume: the `subscription_map` lookup finds the new id and the
    reason is `Success` (`true`) — before the repair it was answered `NoSubscriptionExisted` and the
    subscription stayed -/
theorem resumed_subscriptions_can_be_unsubscribed (s s' : RState) (spec : ConnectSpec)
    (hv : validClientId spec.clientId = true)
    (hnew : alookup spec.clientId s.connectionMap = none) (hroom : ¬ s.conns.len ≥ s.config.maxConnections)
    (h : handleNewConnection s spec = .ok s') :
    ∃ id c, alookup spec.clientId s'.connectionMap = some id ∧ getConn s' id = some c ∧
      ∀ f ∈ c.subscriptions, ∃ s'', unsubscribeFilters s' id [f] [] = .ok (s'', [true]) := by
  obtain ⟨id, c, h1, h2, h3, _⟩ := resumed_session_is_registered_again s s' spec hv hnew hroom h
  refine ⟨id, c, h1, h2, fun f hf => ?_⟩
  obtain ⟨ids, hl, hm⟩ := h3 f hf
  rw [unsubscribeFilters_cons]
  have hc1 : ids.contains id = true := by simpa using hm
  have hc2 : c.subscriptions.contains f = true := by simpa using hf
  simp only [hl, hc1, h2, hc2, Bool.not_true, Bool.false_eq_true, if_false]
  exact ⟨ufState s' id ids c f, rfl⟩


/-- C08.2 (`resumed_session_rejoins_its_groups`): the group part of `resumed_session_is_registered_again` -/
theorem resumed_session_rejoins_its_groups (s s' : RState) (spec : ConnectSpec) (hv : validClientId spec.clientId = true)
    (hnew : alookup spec.clientId s.connectionMap = none) (hroom : ¬ s.conns.len ≥ s.config.maxConnections)
    (h : handleNewConnection s spec = .ok s') :
    ∃ id c, alookup spec.clientId s'.connectionMap = some id ∧ getConn s' id = some c ∧
      ∀ r ∈ c.tracker.requests, ∀ g, r.group = some g →
        ∃ grp, alookup g s'.shared = some grp ∧ spec.clientId ∈ grp.clients := by
  obtain ⟨id, c, h1, h2, _, h4⟩ := resumed_session_is_registered_again s s' spec hv hnew hroom h
  exact ⟨id, c, h1, h2, h4⟩

/-- C08.2 (what is saved for a shared subscription). `atGroupCursor` changes the cursor only: to the
    cursor of the request's group at the time the member leaves, if the request belongs to a group
    that exists; a request of a plain subscription is saved as it is -/
theorem saved_shared_request_continues_at_group_cursor (sh : List (String × SharedGroup)) (r : DataRequest) :
    (atGroupCursor sh r).filter = r.filter ∧ (atGroupCursor sh r).filterIdx = r.filterIdx ∧
    (atGroupCursor sh r).qos = r.qos ∧ (atGroupCursor sh r).group = r.group ∧
    (atGroupCursor sh r).forwardRetained = r.forwardRetained ∧
    (∀ g grp, r.group = some g → alookup g sh = some grp → (atGroupCursor sh r).cursor = grp.cursor) ∧
    (r.group = none → atGroupCursor sh r = r) := by
  obtain ⟨a, b, c, d, e⟩ := atGroupCursor_fields sh r
  refine ⟨a, b, c, d, e, fun g grp hg hl => ?_, atGroupCursor_plain sh r⟩
  unfold atGroupCursor; simp [hg, hl]

/-- C08.2 `subscriptions_survive` for a session without shared subscriptions: the statement as it
    was before the group-cursor repair — the restored requests are the saved ones, each rewound to its
    retransmission point -/
theorem subscriptions_survive_plain (s s1 s2 s3 : RState) (id : Nat) (c : Conn) (r : Option String)
    (spec : ConnectSpec)
    (hc : getConn s id = some c) (hcl : c.clean = false) (hd : handleDisconnection s id r = .ok s1)
    (hgy : alookup c.clientId s2.graveyard = alookup c.clientId s1.graveyard)
    (hnew : alookup c.clientId s2.connectionMap = none)
    (hroom : ¬ s2.conns.len ≥ s2.config.maxConnections)
    (hid : spec.clientId = c.clientId) (hsc : spec.clean = false) (hv : validClientId spec.clientId = true)
    (hn : handleNewConnection s2 spec = .ok s3)
    (hplain : ∀ q ∈ c.tracker.requests ++ (datalogClean s.datalog id).2, q.group = none) :
    ∃ id' c', alookup c.clientId s3.connectionMap = some id' ∧ getConn s3 id' = some c' ∧
      c'.clientId = c.clientId ∧
      c'.subscriptions = c.subscriptions ∧
      c'.tracker.requests = (c.tracker.requests ++ (datalogClean s.datalog id).2).map
          (rewindOne (retransmissionMap c.out.inflight [])) ∧
      c'.out.unackedPubrels = c.out.unackedPubrels ∧
      c'.acks.committed = Ack.connack id' true :: c.out.unackedPubrels.map Ack.pubrel ∧
      alookup c.clientId s3.graveyard = none := by
  have e : (c.tracker.requests ++ (datalogClean s.datalog id).2).map (atGroupCursor s.shared) =
      c.tracker.requests ++ (datalogClean s.datalog id).2 := by
    conv => rhs; rw [← List.map_id (c.tracker.requests ++ (datalogClean s.datalog id).2)]
    exact List.map_congr_left fun q hq => atGroupCursor_plain _ _ (hplain q hq)
  have := subscriptions_survive s s1 s2 s3 id c r spec hc hcl hd hgy hnew hroom hid hsc hv hn
  rw [e] at this
  exact this

/-! ### non-vacuity -/

/-- a valid client id exists and an empty router has room: the CONNECT hypotheses are satisfiable -/
example : validClientId "sensor-1" = true ∧ alookup "sensor-1" (init ⟨10, 1024, 2, 10, .roundRobin⟩).connectionMap = none ∧
    ¬ (init ⟨10, 1024, 2, 10, .roundRobin⟩).conns.len ≥ (init ⟨10, 1024, 2, 10, .roundRobin⟩).config.maxConnections := by
  refine ⟨by decide, rfl, by decide⟩

/-- non-vacuity on a concrete reachable run (kernel-evaluated): persistent client `a` subscribes to
    `t` (QoS 1), its link drops (`Event::Disconnect`), it connects again with clean-session off: the
    CONNACK says `session_present`, the subscription and its data request are back, the graveyard
    entry is gone. -/
example :
    (match run (init ⟨10, 1024, 2, 10, .roundRobin⟩)
        [(.connect ⟨0, "a", false, false, 0, none⟩, []), (.push 0 (.subscribe 1 none [⟨"t", 1⟩]), []),
         (.event 0 .deviceData, []), (.event 0 .disconnect, []),
         (.connect ⟨1, "a", false, false, 0, none⟩, [])] with
     | .ok s =>
       (match getConn s 0 with
        | some c =>
          decide (c.clientId = "a" ∧ c.subscriptions = ["t"] ∧ c.acks.committed = [Ack.connack 0 true] ∧
            c.tracker.requests.map (fun r => (r.filter, r.qos, r.cursor)) = [("t", 1, (0, 0))] ∧
            s.graveyard.length = 0)
        | none => false)
     | .error _ => false) = true := by rw [run_eq_runX]; decide


/-! ### the resume point, and delivery from it

`leastCursor fi window` — the LEAST cursor (tuple order `cursorLe` of `(segment, offset)`) among the entries
`(pkid, fi, some cur)` of the outgoing window; `resumeCursor groups window q` — that cursor if there is
one, else the cursor `q` is saved with (`atGroupCursor`: its own for a plain subscription, its group's
for a shared one); `savedOf groups window q` — the request saved for `q` (definitions in
Proofs/Lemmas/Router/Rp12_Resume.lean). -/

/-- what "the least window cursor of the filter index" means: it is the cursor of some window entry of the
    index, and it is at or below (tuple order) the cursor of every window entry of the index that
    carries one (retained replays carry none); there is none exactly if no window entry of the index
    carries a cursor; and it is what `retransmission_map` holds for the index.
    (Restated after the repair of `retransmission_map`; formerly `oldest_window_entry`.) -/
theorem least_window_entry (fi : Nat) (w : List (Nat × Nat × Option Cursor)) :
    (∀ cur, leastCursor fi w = some cur ↔
      (∃ e ∈ w, e.2.1 = fi ∧ e.2.2 = some cur) ∧ ∀ e ∈ w, e.2.1 = fi → ∀ c, e.2.2 = some c → cursorLe cur c) ∧
    (leastCursor fi w = none ↔ ∀ e ∈ w, e.2.1 = fi → e.2.2 = none) ∧
    nlookup fi (retransmissionMap w []) = leastCursor fi w :=
  ⟨fun cur => leastCursor_some_iff fi cur w, leastCursor_none_iff fi w, retx_lookup_least fi w⟩

/-- the resume cursor, case by case -/
theorem resume_cursor_cases (sh : List (String × SharedGroup)) (w : List (Nat × Nat × Option Cursor)) (q : DataRequest) :
    (∀ cur, leastCursor q.filterIdx w = some cur → resumeCursor sh w q = cur) ∧
    (leastCursor q.filterIdx w = none → q.group = none → resumeCursor sh w q = q.cursor) ∧
    (leastCursor q.filterIdx w = none → ∀ g grp, q.group = some g → alookup g sh = some grp →
      resumeCursor sh w q = grp.cursor) := by
  refine ⟨fun cur h => by unfold resumeCursor; rw [h], fun h hp => ?_, fun h g grp hg hl => ?_⟩
  · unfold resumeCursor; rw [h]; simp only []; rw [atGroupCursor_plain sh q hp]
  · unfold resumeCursor; rw [h]; simp only []
    exact (saved_shared_request_continues_at_group_cursor sh q).2.2.2.2.2.1 g grp hg hl

/-- C08.3 `resume_point` (what is in the graveyard). When a persistent connection ends, for every
    data request `q` it owns — tracked, or parked in a waiter list (`DataLog::clean` collects those) —
    the saved session holds a request with the same filter, filter index, QoS and group whose cursor
    is the RESUME POINT: the least cursor among the window entries `(pkid, filter_idx, Some(cursor))` of the
    request's filter index if the window has one (the lowest forwarded and not yet acknowledged QoS>0
    publish read from that log, wherever it stands in the window), else the request's own cursor (plain subscription) or the group's
    cursor at that time (shared subscription). For a connection whose subscriptions read distinct logs
    (no two of its requests have the same `filter_idx`) the window entries of index `filter_idx` are
    those forwarded through this subscription; when two subscriptions of the connection read the same
    log (`t` and `$share/g/t`) the window does not tell their entries apart — the recorded
    "rewind conflation" finding (`C17.rewind_can_skip_entries`). -/
theorem saved_request_is_at_resume_point (s s1 : RState) (id : Nat) (r : Option String) (c : Conn)
    (hc : getConn s id = some c) (hcl : c.clean = false) (hd : handleDisconnection s id r = .ok s1)
    (q : DataRequest) (hq : q ∈ c.tracker.requests ++ (datalogClean s.datalog id).2) :
    ∃ ss q', alookup c.clientId s1.graveyard = some (some ss) ∧ q' ∈ ss.tracker.requests ∧
      q'.filter = q.filter ∧ q'.filterIdx = q.filterIdx ∧ q'.qos = q.qos ∧ q'.group = q.group ∧
      q'.cursor = resumeCursor s.shared c.out.inflight q := by
  obtain ⟨hg1, _, _, _⟩ := handleDisconnection_spec hc hd
  obtain ⟨f1, f2, f3, f4, _, f6⟩ := savedOf_fields s.shared c.out.inflight q
  refine ⟨savedState s id c, savedOf s.shared c.out.inflight q, ?_, savedOf_mem hq, f1, f2, f3, f4, f6⟩
  rw [hg1, alookup_ainsert_same]
  unfold savedSession; simp [hcl]

/-- C08.3 (the resumed request is tracked and the connection is scheduled). Under the hypotheses of
    `subscriptions_survive` (a persistent connection ended; in between nothing touched the client's
    graveyard entry; the client reconnects with `clean_session = false`): the new connection tracks,
    for every request `q` the old connection owned, the saved request standing at the resume point
    (`saved_request_is_at_resume_point`), and — `reschedule(Init)` on the restored `Paused(Busy)`
    tracker — it is `Ready` and in the ready queue: a `consume` call will serve it. -/
theorem resumed_request_is_tracked_and_scheduled (s s1 s2 s3 : RState) (id : Nat) (c : Conn) (r : Option String)
    (spec : ConnectSpec)
    (hc : getConn s id = some c) (hcl : c.clean = false) (hd : handleDisconnection s id r = .ok s1)
    (hgy : alookup c.clientId s2.graveyard = alookup c.clientId s1.graveyard)
    (hnew : alookup c.clientId s2.connectionMap = none)
    (hroom : ¬ s2.conns.len ≥ s2.config.maxConnections)
    (hid : spec.clientId = c.clientId) (hsc : spec.clean = false) (hv : validClientId spec.clientId = true)
    (hn : handleNewConnection s2 spec = .ok s3) :
    ∃ id' c', alookup c.clientId s3.connectionMap = some id' ∧ getConn s3 id' = some c' ∧
      c'.clientId = c.clientId ∧ c'.tracker.status = .ready ∧ id' ∈ s3.readyqueue ∧
      ∀ q ∈ c.tracker.requests ++ (datalogClean s.datalog id).2, ∃ q' ∈ c'.tracker.requests,
        q'.filter = q.filter ∧ q'.filterIdx = q.filterIdx ∧ q'.qos = q.qos ∧ q'.group = q.group ∧
        q'.cursor = resumeCursor s.shared c.out.inflight q := by
  obtain ⟨hg1, _, _, _⟩ := handleDisconnection_spec hc hd
  have hsaved : alookup spec.clientId (setLink s2 spec.link {}).graveyard = some (savedSession s id c) := by
    show alookup spec.clientId s2.graveyard = _
    rw [hid, hgy, hg1]; exact alookup_ainsert_same _ _ _
  have hss : savedSession s id c = some (savedState s id c) := by
    unfold savedSession; simp [hcl]
  have ha := handleNewConnection_fresh hv (by rw [hid]; exact hnew) hn
  obtain ⟨t, woke, htr, _, hget, _, hcm, _⟩ := admit_spec ha hroom
  have hrs : restoredSession (setLink s2 spec.link {}) spec = some (savedState s id c) := by
    unfold restoredSession; simp [hsc, hsaved, hss]
  have hbusy : (newConn (setLink s2 spec.link {}) spec).tracker.status = .paused .busy := by
    simp [newConn, hrs, savedState]
  obtain ⟨c', hget', hst, hrq⟩ := admit_ready ha hroom hbusy
  obtain ⟨hreqs, _⟩ := tryReady_fields htr
  rw [hget] at hget'
  simp only [Option.some.injEq] at hget'
  refine ⟨_, c', ?_, by rw [← hget']; exact hget, by rw [← hget']; exact hid, hst, hrq, fun q hq => ?_⟩
  · rw [hcm, ← hid]; exact alookup_ainsert_same _ _ _
  · obtain ⟨f1, f2, f3, f4, _, f6⟩ := savedOf_fields s.shared c.out.inflight q
    refine ⟨savedOf s.shared c.out.inflight q, ?_, f1, f2, f3, f4, f6⟩
    rw [← hget']
    show savedOf s.shared c.out.inflight q ∈ t.requests
    rw [hreqs]
    have : (newConn (setLink s2 spec.link {}) spec).tracker.requests = savedRequests s id c := by
      simp [newConn, hrs, savedState]
    rw [this]; exact savedOf_mem hq

/-- C08 `resume_delivers_from_least_unacked` (with `C01.delivery_is_prefix`). A persistent connection
    `id` of a reachable broker ends; later (nothing touched the client's graveyard entry) the client
    resumes, giving the reachable state `s3` in which `id'` is its connection. Let `q` be the request
    of a NON-SHARED subscription `f` the old connection owned. Then over ANY run from `s3` during which
    the new connection stays and keeps the subscription, within the log retention (`QuietRun`), ending
    below the no-overflow bound, the log offsets forwarded to the new connection through `f`
    (`runFwd`) are EXACTLY the consecutive offsets from the resume point — the offset of the lowest
    forwarded and unacknowledged entry of the subscription's log if the old window held one
    (`least_window_entry`), else the offset the old request stood at: every unacknowledged entry is
    sent again, in order, followed without gap or repeat by everything that came after it. -/
theorem resume_delivers_from_least_unacked {cfg : Config} (h1 : 1 ≤ cfg.maxSegmentSize) (h2 : 1 ≤ cfg.maxSegmentCount)
    (hpos : 0 < cfg.maxOutgoingPacketCount)
    (s s1 s2 s3 s4 : RState) (id id' : Nat) (c : Conn) (r : Option String) (spec : ConnectSpec)
    (hc : getConn s id = some c) (hcl : c.clean = false) (hd : handleDisconnection s id r = .ok s1)
    (hgy : alookup c.clientId s2.graveyard = alookup c.clientId s1.graveyard)
    (hnew : alookup c.clientId s2.connectionMap = none)
    (hroom : ¬ s2.conns.len ≥ s2.config.maxConnections)
    (hid : spec.clientId = c.clientId) (hsc : spec.clean = false) (hv : validClientId spec.clientId = true)
    (hn : handleNewConnection s2 spec = .ok s3) (hr3 : Router.Reachable cfg s3)
    (hid' : alookup c.clientId s3.connectionMap = some id')
    (q : DataRequest) (hq : q ∈ c.tracker.requests ++ (datalogClean s.datalog id).2) (hplain : q.group = none)
    (ops : List (Op × List Choice)) (hrun : run s3 ops = .ok s4) (hno : NoOverflow s4)
    (hquiet : QuietRun id' c.clientId q.filter s3 ops) :
    runFwd id' q.filter s3 ops =
      List.range' (resumeCursor s.shared c.out.inflight q).2 (runFwd id' q.filter s3 ops).length ∧
    ∃ q2, Own s4 id' q2 ∧ q2.filter = q.filter ∧ q2.filterIdx = q.filterIdx ∧
      q2.cursor.2 = (resumeCursor s.shared c.out.inflight q).2 + (runFwd id' q.filter s3 ops).length := by
  obtain ⟨id2, c', hcm, hget, _, _, _, hall⟩ :=
    resumed_request_is_tracked_and_scheduled s s1 s2 s3 id c r spec hc hcl hd hgy hnew hroom hid hsc hv hn
  rw [hid'] at hcm; cases hcm
  obtain ⟨q', hm, f1, f2, _, f4, f6⟩ := hall q hq
  have hown : Own s3 id' q' := .inl ⟨c', hget, hm⟩
  obtain ⟨q2, o2, g1, _, g3, g4, g5⟩ :=
    run_thread h1 h2 hpos ops hr3 hrun hno hquiet hown f1 (f4.trans hplain)
  rw [f6] at g4 g5
  exact ⟨g4, q2, o2, g1, g3.trans f2, g5⟩


/-! ### the resume point is at or below every unacknowledged entry

Since the repair of `retransmission_map` (least cursor per filter index instead of the first one) this holds
by definition of the minimum, whatever the order of the window (`WindowSorted` is not an invariant:
`windowOrderOps` below). Caveat as before: per filter LOG — when two subscriptions of the connection read
the same log (`t` and `$share/g/t`) the minimum is taken over the entries of both. -/

/-- the resume point is at or below (tuple order) the cursor of every window entry of the request's log.
    (Formerly `sorted_window_resume_point_is_least`, which needed `WindowSorted`.) -/
theorem resume_point_is_least (sh : List (String × SharedGroup)) (w : List (Nat × Nat × Option Cursor))
    (q : DataRequest) :
    ∀ e ∈ w, e.2.1 = q.filterIdx → ∀ cur, e.2.2 = some cur → cursorLe (resumeCursor sh w q) cur := by
  intro e he hi cur hc
  cases ho : leastCursor q.filterIdx w with
  | none => have := (leastCursor_none_iff q.filterIdx w).mp ho e he hi; rw [hc] at this; cases this
  | some cur0 =>
    rw [(resume_cursor_cases sh w q).1 cur0 ho]
    exact least_le q.filterIdx w cur0 ho e he hi cur hc

/-- and in log offsets, for a connection of a reachable state below the no-overflow bound whose resume
    point still stands in a retained segment of the log: the window cursors are issued by the log
    (`C01.cursor_sound`), and for issued cursors the tuple order is the order of the offsets -/
theorem resume_point_offset_is_least {cfg : Config} (h1 : 1 ≤ cfg.maxSegmentSize) (h2 : 1 ≤ cfg.maxSegmentCount)
    {s : RState} (hr : Router.Reachable cfg s) (hno : NoOverflow s) {id : Nat} {c : Conn} (hc : getConn s id = some c)
    (q : DataRequest) {fd : FilterData} (hfd : s.datalog.native[q.filterIdx]? = some fd)
    (hret : (CommitLog.logC fd.log).head ≤ (resumeCursor s.shared c.out.inflight q).1) :
    ∀ e ∈ c.out.inflight, e.2.1 = q.filterIdx → ∀ cur, e.2.2 = some cur →
      (resumeCursor s.shared c.out.inflight q).2 ≤ cur.2 := by
  intro e he hi cur hcur
  have hcs := CS.reachable h1 h2 hr hno
  have hiss : ∀ e' ∈ c.out.inflight, e'.2.1 = q.filterIdx → ∀ cur', e'.2.2 = some cur' →
      CommitLog.Issued (CommitLog.logC fd.log) cur' := fun e' he' hi' cur' hc' => by
    obtain ⟨fd', hfd', hi0⟩ := hcs.win e'.2.1 cur' ⟨id, c, hc, e', he', rfl, hc'⟩
    rw [hi', hfd] at hfd'; cases hfd'; exact hi0
  obtain ⟨hist, hrep⟩ := (reachable_inv h1 h2 hr).logs fd.log (List.mem_map.mpr ⟨fd, List.mem_of_getElem? hfd, rfl⟩)
  have hle := resume_point_is_least s.shared c.out.inflight q e he hi cur hcur
  cases ho : leastCursor q.filterIdx c.out.inflight with
  | none => have := (leastCursor_none_iff q.filterIdx c.out.inflight).mp ho e he hi; rw [hcur] at this; cases this
  | some cur0 =>
    have e0 := (resume_cursor_cases s.shared c.out.inflight q).1 cur0 ho
    obtain ⟨⟨e1, he1, hi1, hc1⟩, _⟩ := (leastCursor_some_iff q.filterIdx cur0 c.out.inflight).mp ho
    rw [e0] at hle hret ⊢
    exact offset_le_of_cursorLe hrep.wf (hiss e1 he1 hi1 cur0 hc1) (hiss e he hi cur hcur) hret hle

/-- C08 `every_unacked_entry_is_resent` — no hypothesis on the order of the window any more. In the setting
    of `resume_delivers_from_least_unacked` (non-shared subscription `q.filter`, run after the resume), for a
    connection that ended in a reachable state below the no-overflow bound with its resume point still
    retained: every forwarded and unacknowledged entry of the subscription's log — every window entry
    `(pkid, filter_idx, Some(cur))` — lies at or after the resume point and is forwarded again to the new
    connection as soon as the run has forwarded that far (its offset is one of the offsets forwarded,
    which are consecutive from the resume point). (Restated: the hypothesis `WindowSorted` of the former
    version is gone; `hr`, `hnos`, `hfd`, `hret` are new.) -/
theorem every_unacked_entry_is_resent {cfg : Config} (h1 : 1 ≤ cfg.maxSegmentSize) (h2 : 1 ≤ cfg.maxSegmentCount)
    (hpos : 0 < cfg.maxOutgoingPacketCount)
    (s s1 s2 s3 s4 : RState) (id id' : Nat) (c : Conn) (r : Option String) (spec : ConnectSpec)
    (hr : Router.Reachable cfg s) (hnos : NoOverflow s)
    (hc : getConn s id = some c) (hcl : c.clean = false) (hd : handleDisconnection s id r = .ok s1)
    (hgy : alookup c.clientId s2.graveyard = alookup c.clientId s1.graveyard)
    (hnew : alookup c.clientId s2.connectionMap = none)
    (hroom : ¬ s2.conns.len ≥ s2.config.maxConnections)
    (hid : spec.clientId = c.clientId) (hsc : spec.clean = false) (hv : validClientId spec.clientId = true)
    (hn : handleNewConnection s2 spec = .ok s3) (hr3 : Router.Reachable cfg s3)
    (hid' : alookup c.clientId s3.connectionMap = some id')
    (q : DataRequest) (hq : q ∈ c.tracker.requests ++ (datalogClean s.datalog id).2) (hplain : q.group = none)
    (ops : List (Op × List Choice)) (hrun : run s3 ops = .ok s4) (hno : NoOverflow s4)
    (hquiet : QuietRun id' c.clientId q.filter s3 ops)
    (fd : FilterData) (hfd : s.datalog.native[q.filterIdx]? = some fd)
    (hret : (CommitLog.logC fd.log).head ≤ (resumeCursor s.shared c.out.inflight q).1) :
    ∀ e ∈ c.out.inflight, e.2.1 = q.filterIdx → ∀ cur, e.2.2 = some cur →
      (resumeCursor s.shared c.out.inflight q).2 ≤ cur.2 ∧
      (cur.2 < (resumeCursor s.shared c.out.inflight q).2 + (runFwd id' q.filter s3 ops).length →
        cur.2 ∈ runFwd id' q.filter s3 ops) := by
  intro e he hi cur hcur
  have hle := resume_point_offset_is_least h1 h2 hr hnos hc q hfd hret e he hi cur hcur
  obtain ⟨hfw, _⟩ := resume_delivers_from_least_unacked h1 h2 hpos s s1 s2 s3 s4 id id' c r spec hc hcl hd hgy hnew
    hroom hid hsc hv hn hr3 hid' q hq hplain ops hrun hno hquiet
  refine ⟨hle, fun hlt => ?_⟩
  rw [hfw, List.mem_range'_1]
  exact ⟨hle, hlt⟩

/-! #### regression of the repair; the window is not sorted in general (evaluated, not kernel-checked: accepting a publish needs
    `String.fromUTF8?`, which the kernel cannot reduce) -/

/-- persistent `a` and `b` share `$share/g/t` (QoS 1, round robin); three publishes `100, 101, 102` go to
    `a` (offset 0), `b` (offset 1), `a` (offset 2), nobody acknowledges; `a`'s link drops: the group's
    cursor is set back to `a`'s least unacknowledged offset 0 and `b`, now alone, is sent offsets 0, 1, 2;
    then `b`'s link drops and `b` resumes -/
def windowOrderOps : List (Op × List Choice) :=
  let pub (x : UInt8) : Op × List Choice := (.push 2 (.publish ⟨0, 0, false, false, "t".toUTF8.toList, [x], none, [], false⟩), [])
  let sweep : List (Op × List Choice) := List.replicate 6 (.consume, [])
  [(.connect ⟨0, "a", false, false, 0, none⟩, []), (.connect ⟨1, "b", false, false, 0, none⟩, []),
   (.connect ⟨2, "p", true, false, 0, none⟩, []),
   (.push 0 (.subscribe 1 none [⟨"$share/g/t", 1⟩]), []), (.event 0 .deviceData, []),
   (.push 1 (.subscribe 1 none [⟨"$share/g/t", 1⟩]), []), (.event 1 .deviceData, [])] ++ sweep ++
  [pub 100, (.event 2 .deviceData, [.matches [0]])] ++ sweep ++
  [pub 101, (.event 2 .deviceData, [.matches [0]])] ++ sweep ++
  [pub 102, (.event 2 .deviceData, [.matches [0]])] ++ sweep ++
  [(.event 0 .disconnect, [])] ++ sweep ++ [(.consume, []), (.consume, [])] ++
  [(.event 1 .disconnect, []), (.consume, []), (.consume, []),
   (.connect ⟨3, "b", false, false, 0, none⟩, [])] ++ sweep ++ [(.consume, []), (.consume, [])]

/-- what is checked: the offsets in `b`'s window (connection 1), in window order; the cursor saved for `b`
    in the graveyard; the payloads forwarded to `b`'s second link (3) after the resume -/
def windowOrderView (n : Nat) : Option (List Nat × Option (List Router.Cursor) × List (List UInt8)) :=
  match run (init ⟨10, 1024, 2, 10, .roundRobin⟩) (windowOrderOps.take n) with
  | .error _ => none
  | .ok s =>
    some (((getConn s 1).map (fun c => idxOffsets 0 c.out.inflight)).getD [],
      ((alookup "b" s.graveyard).bind (fun x => x)).map (fun ss => ss.tracker.requests.map (·.cursor)),
      (getLink s 3).obuf.filterMap (fun n => match n with | .forward p _ => some p.payload | _ => none))

-- before `a`'s disconnection `b`'s window holds offset 1
#guard windowOrderView 37 == some ([1], none, [])
-- after it `b` has been sent offsets 0, 1 (again), 2: the window is NOT sorted, its first entry is offset 1
#guard windowOrderView 46 == some ([1, 0, 1, 2], none, [])
-- `b`'s link drops: since the repair the request is saved at the LEAST window cursor, offset 0
-- (before the repair: at the first entry's cursor, offset 1 — above the unacknowledged 0)
#guard windowOrderView 47 == some ([], some [(0, 0)], [])
-- `b` resumes: 100, 101 and 102 are all sent again (before the repair 100 — sent to `a` and to `b`,
-- acknowledged by nobody — was never sent again)
#guard windowOrderView 58 == some ([0, 1, 2], none, [[100], [101], [102]])

/-! non-vacuity of the resume theorems (hand-built states) -/

def resumeReq : DataRequest := ⟨"$share/g/t", 0, 1, (0, 3), false, some "g/t"⟩
def resumeReqX : DataRequest := ⟨"x", 1, 1, (0, 0), false, none⟩

/-- client `a` has a saved session (shared subscription `$share/g/t` whose group no longer exists,
    plain subscription `x`); nobody is connected -/
def resumeState : RState :=
  { config := ⟨10, 1024, 2, 10, .roundRobin⟩,
    graveyard := [("a", some ⟨{ id := "a", requests := [resumeReq, resumeReqX] }, ["$share/g/t", "x"], []⟩)],
    datalog := { native := [{ filter := "t", log := CLog.Log.new 1024 2 }, { filter := "x", log := CLog.Log.new 1024 2 }],
                 filterIndexes := [("t", 0), ("x", 1)] } }

def resumeSpec : ConnectSpec := ⟨0, "a", false, false, 0, none⟩

/-- non-vacuity (kernel-evaluated): the resume enters both subscriptions in `subscription_map` under the
    new id 0, re-creates the group `g/t` with `a` as its member at the restored request's cursor,
    and an UNSUBSCRIBE for the restored `x` is then answered `Success` -/
example : ∃ s', handleNewConnection resumeState resumeSpec = .ok s' ∧
    s'.subscriptionMap = [("$share/g/t", [0]), ("x", [0])] ∧
    s'.shared.map (fun p => (p.1, p.2.clients, p.2.cursor)) = [("g/t", ["a"], (0, 3))] ∧
    (getConn s' 0).map (fun c => (c.subscriptions, c.tracker.requests)) =
      some (["$share/g/t", "x"], [resumeReq, resumeReqX]) ∧
    (∃ s'', unsubscribeFilters s' 0 ["x"] [] = .ok (s'', [true])) :=
  ⟨_, rfl, by decide, by decide, by decide, _, rfl⟩

def leaveReq : DataRequest := ⟨"$share/g/t", 0, 1, (0, 0), false, some "g/t"⟩

/-- persistent `a` (id 0) and `b` share `$share/g/t`; the group has advanced to `(0, 5)` while the
    request in `a`'s tracker still stands at `(0, 0)` -/
def leaveState : RState :=
  { config := ⟨10, 1024, 2, 10, .roundRobin⟩, links := [{}, {}],
    conns := ⟨[some { clientId := "a", link := 0, clean := false, dynamicFilters := false,
                      subscriptions := ["$share/g/t"], tracker := { id := "a", requests := [leaveReq, resumeReqX] } },
               some { clientId := "b", link := 1, clean := true, dynamicFilters := false,
                      subscriptions := ["$share/g/t"], tracker := { id := "b" } }], []⟩,
    connectionMap := [("a", 0), ("b", 1)],
    subscriptionMap := [("$share/g/t", [0, 1])],
    shared := [("g/t", ⟨["a", "b"], 1, (0, 5), .roundRobin⟩)],
    datalog := { native := [{ filter := "t", log := CLog.Log.new 1024 2 }, { filter := "x", log := CLog.Log.new 1024 2 }],
                 filterIndexes := [("t", 0), ("x", 1)] } }

/-- non-vacuity (evaluated on the kernel-executable form): the saved request of the shared
    subscription continues at the group's cursor `(0, 5)`, the plain one is saved as it is -/
example : ∃ s', handleDisconnection leaveState 0 none = .ok s' ∧
    ((alookup "a" s'.graveyard).bind id).map (fun ss => ss.tracker.requests.map (fun r => (r.filter, r.cursor))) =
      some [("$share/g/t", (0, 5)), ("x", (0, 0))] :=
  ⟨_, (handleDisconnection_eqX _ _ _).trans rfl, by decide⟩

/-- persistent `a` (id 0) subscribed to `x` (log 1): its request stands at `(0, 4)`, its window holds a
    retained replay (no cursor) and two unacknowledged publishes of log 1 read at `(0, 2)` and `(0, 3)` -/
def windowState : RState :=
  { config := ⟨10, 1024, 2, 10, .roundRobin⟩, links := [{}],
    conns := ⟨[some { clientId := "a", link := 0, clean := false, dynamicFilters := false,
                      subscriptions := ["x"], out := { inflight := [(1, 1, none), (2, 1, some (0, 2)), (3, 1, some (0, 3))], lastPkid := 3 },
                      tracker := { id := "a", requests := [⟨"x", 1, 1, (0, 4), false, none⟩] } }], []⟩,
    connectionMap := [("a", 0)],
    subscriptionMap := [("x", [0])],
    datalog := { native := [{ filter := "t", log := CLog.Log.new 1024 2 }, { filter := "x", log := CLog.Log.new 1024 2 }],
                 filterIndexes := [("t", 0), ("x", 1)] } }

/-- non-vacuity (kernel-evaluated): the least cursor of log 1 in that window is `(0, 2)`, and the
    request saved at the disconnection stands there -/
example : leastCursor 1 [(1, 1, none), (2, 1, some (0, 2)), (3, 1, some (0, 3))] = some (0, 2) ∧
    ∃ s', handleDisconnection windowState 0 none = .ok s' ∧
    ((alookup "a" s'.graveyard).bind id).map (fun ss => ss.tracker.requests.map (fun r => (r.filter, r.cursor))) =
      some [("x", (0, 2))] :=
  ⟨by decide, _, (handleDisconnection_eqX _ _ _).trans rfl, by decide⟩

end C08
