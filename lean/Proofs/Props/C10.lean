/-
C10 — The client answers inbound flows, reports packets in order and never panics
(state-machine part; batching in `readb` and what `poll()` yields belong to the `cloop` slice).
All broker packets of every type and id (unsolicited, repeated, above the limit), manual acks
on/off, v4 and v5 incl. reason codes, topic aliases, CONNACK properties and server DISCONNECT.
-/
import Proofs.Lemmas.ClientTheorems
namespace C10
open Client Client.Spec

/-- hostile broker: every packet type, ids 0 / in range / above the limit, repeats -/
def hostile : List LOp :=
  [.inc .connect, .inc (.connack true true none none), .inc (.publish ⟨1, 7, 1, false, none⟩),
   .inc (.publish ⟨2, 9, 2, false, none⟩), .inc (.publish ⟨2, 9, 2, false, none⟩), .inc (.pubrel 9 0), .inc (.pubrel 9 0),
   .inc (.puback 0 0), .inc (.puback 1 0), .inc (.puback 4 0), .inc (.puback 65535 0), .inc (.pubrec 1 0),
   .inc (.pubcomp 1 0), .inc (.pubcomp 65535 0), .inc .subscribe, .inc (.suback 3), .inc .unsubscribe,
   .inc (.unsuback 3), .inc .pingreq, .inc .pingresp, .inc (.disconnect 0), .user (.publish 1 5),
   .inc (.puback 1 0), .inc (.puback 1 0)]
/-- v5: PUBLISH with an empty topic and an alias nobody registered: protocol error, the DISCONNECT
    that is announced is also returned for the wire (formerly #21) -/
def runAlias : List LOp := [.inc (.publish ⟨1, 5, 9, true, some 7⟩)]
/-- v5: QoS 2 publish id 9, then its release with reason 146: answered by PUBCOMP (formerly #22) -/
def runRel : List LOp := [.inc (.publish ⟨2, 9, 1, false, none⟩), .inc (.pubrel 9 146)]
/-- v5: A(1), B(2); PUBACK 2; C parks on 1; unsolicited PUBCOMP 1: error, C untouched (formerly #13) -/
def run13 : List LOp :=
  [.user (.publish 1 1), .user (.publish 1 2), .inc (.puback 2 0), .user (.publish 1 3), .inc (.pubcomp 1 0)]

/-- C10.5a no panic (full strength, ANY history — gated or not, any requests in between): under the
    structural invariant, which `C07.structural_invariant` shows to hold after every sequence of
    calls, no incoming packet of any type or id makes `handle_incoming_packet` panic -/
theorem never_panics (s : State) (h : SInv s) (p : Incoming) : (handleIncoming s p).2 ≠ .panic :=
  handleIncoming_noPanic h p

/-- … in particular along every run of the MQTT 3.1.1 loop (full strength) -/
theorem never_panics_run_v4 (max : Nat) (m : Bool) (h1 : 1 ≤ max) (h2 : max ≤ u16Max) (ops : List LOp) :
    Along (fun _ _ o _ _ => C10.noPanic o = true) (LState.new .v4 max m) (Ghost.init .v4 max m) ops := by
  apply along_of_inv' B1 (fun l op => ¬ unsafeConnack l op) B1.step _ _ _ _ _ (B1.new .v4 max m h1 h2)
    (avoids_unsafe_v4 _ rfl ops).not_not
  intro l g op o hi _ ho _
  exact C10_noPanic_ok hi.inv0 op o ho

/-- … both versions: along runs without #17 -/
theorem never_panics_run_partial (ver : Version) (max : Nat) (m : Bool) (h1 : 1 ≤ max) (h2 : max ≤ u16Max)
    (ops : List LOp) (hn : Avoids unsafeConnack (LState.new ver max m) ops) :
    Along (fun _ _ o _ _ => C10.noPanic o = true) (LState.new ver max m) (Ghost.init ver max m) ops := by
  apply along_of_inv' B1 (fun l op => ¬ unsafeConnack l op) B1.step _ _ _ _ _ (B1.new ver max m h1 h2) hn.not_not
  intro l g op o hi _ ho _
  exact C10_noPanic_ok hi.inv0 op o ho

/-- C10.1 event_order (full strength, every state, both versions): `handle_incoming_packet` appends
    the received packet exactly once, first, followed only by `Outgoing` events -/
theorem event_order (s : State) (p : Incoming) :
    ∃ outs : List Event, (handleIncoming s p).1.events = s.events ++ .incoming p :: outs ∧
      ∀ e ∈ outs, isIncomingEv e = false := by
  obtain ⟨outs, h1, h2, _⟩ := shape_handleIncoming s p
  exact ⟨outs, h1, h2⟩

/-- … and a request appends no `Incoming` event at all -/
theorem event_order_outgoing (s : State) (r : Request) :
    ∃ outs : List Event, (handleOutgoing s r).1.events = s.events ++ outs ∧ ∀ e ∈ outs, isIncomingEv e = false :=
  (shape_handleOutgoing s r).weak

/-- C10.2–4 ack_generation (full strength, both versions): QoS 0 → nothing; QoS 1 → PUBACK(id);
    QoS 2 → PUBREC(id); with manual acks neither; MQTT 5 protocol error (empty topic, alias never
    registered) → DISCONNECT with reason 0x82, returned for the wire -/
theorem ack_generation (s : State) (q : InPub) :
    (handleIncoming s (.publish q)).2 =
      if publishAlias s q = none then .ok (some (.disconnect 130))
      else if q.qos = 0 then .ok none
      else if s.manualAcks then .ok none
      else if q.qos = 1 then .ok (some (.puback q.pkid))
      else .ok (some (.pubrec q.pkid)) := by
  have h := handlePublish_answer (s.pushEv (.incoming (.publish q))) q
  have hiff : publishAlias (s.pushEv (.incoming (.publish q))) q = none ↔ publishAlias s q = none :=
    (publishAlias_none_iff (s.pushEv (.incoming (.publish q))) q).trans (publishAlias_none_iff s q).symm
  show (handlePublish (s.pushEv (.incoming (.publish q))) q).2 = _
  rw [h]
  by_cases hp : publishAlias s q = none
  · rw [if_pos hp, if_pos (hiff.mpr hp)]
  · rw [if_neg hp, if_neg (fun h' => hp (hiff.mp h'))]; rfl

/-- `publishAlias s q = none` spelled out -/
theorem protocol_error_iff (s : State) (q : InPub) :
    publishAlias s q = none ↔
      (s.ver = .v5 ∧ ∃ a, q.alias = some a ∧ q.topicEmpty = true ∧ s.aliases.contains a = false) :=
  publishAlias_none_iff s q

/-- … the QoS 2 id is remembered whether or not acks are manual -/
theorem qos2_id_recorded (s : State) (q : InPub) (h0 : q.qos ≠ 0) (h1 : q.qos ≠ 1) (hp : publishAlias s q ≠ none) :
    q.pkid ∈ (handleIncoming s (.publish q)).1.incomingPub := by
  have := (handlePublish_incomingPub (s.pushEv (.incoming (.publish q))) q q.pkid)
  have hq : ¬ (q.qos = 0 ∨ q.qos = 1) := by omega
  have hp' : ¬ publishAlias (s.pushEv (.incoming (.publish q))) q = none :=
    fun h' => hp (((publishAlias_none_iff (s.pushEv (.incoming (.publish q))) q).trans (publishAlias_none_iff s q).symm).mp h')
  rw [if_neg hp', if_neg hq] at this
  exact this.mpr (Or.inl rfl)

/-- C10.4 (full strength, both versions) release of a known id: PUBCOMP(id), whatever the MQTT 5
    reason code of the release ([MQTT-4.3.3-11]) -/
theorem release_answered (s : State) (i r : Nat) (hk : s.incomingPub.contains i = true) :
    (handleIncoming s (.pubrel i r)).2 = .ok (some (.pubcomp i)) :=
  handlePubrel_answer (s.pushEv (.incoming (.pubrel i r))) i hk

/-- C10.5b unsolicited_is_error_not_corruption: an acknowledgement the wire never solicited (id not
    outstanding, repeated, 0, above the limit) returns `Unsolicited(id)` and leaves `inflight()`,
    the collision slot and `clean()`-of-a-clone (as a multiset) unchanged — along runs without #17 -/
theorem unsolicited_is_error_not_corruption_partial (ver : Version) (max : Nat) (m : Bool) (h1 : 1 ≤ max)
    (h2 : max ≤ u16Max) (ops : List LOp) (hn : Avoids unsafeConnack (LState.new ver max m) ops) :
    Along (fun _ g o _ _ => C10.unsolicitedErr g o = true ∧ C10.unsolicitedKeeps g o = true)
      (LState.new ver max m) (Ghost.init ver max m) ops := by
  apply along_of_inv' B1 (fun l op => ¬ unsafeConnack l op) B1.step _ _ _ _ _ (B1.new ver max m h1 h2) hn.not_not
  intro l g op o hi hok ho _
  exact C10_unsolicited_ok hi op o ho

/-- … MQTT 3.1.1: full strength -/
theorem unsolicited_is_error_not_corruption_v4 (max : Nat) (m : Bool) (h1 : 1 ≤ max) (h2 : max ≤ u16Max) (ops : List LOp) :
    Along (fun _ g o _ _ => C10.unsolicitedErr g o = true ∧ C10.unsolicitedKeeps g o = true)
      (LState.new .v4 max m) (Ghost.init .v4 max m) ops :=
  unsolicited_is_error_not_corruption_partial .v4 max m h1 h2 ops (avoids_unsafe_v4 _ rfl ops)

/-- … state form (full strength, every state, both versions): a PUBACK / PUBREC for an id under
    which nothing is stored, a PUBCOMP for an id whose release is not pending, returns
    `Unsolicited(id)` and changes nothing but the event queue -/
theorem unsolicited_state (s : State) (i r : Nat) :
    ((s.outgoingPub[i]? = none ∨ s.outgoingPub[i]? = some none) →
      (handleIncoming s (.puback i r)).2 = .err (.unsolicited i) ∧ (handleIncoming s (.puback i r)).1.core = s.core ∧
      (handleIncoming s (.pubrec i r)).2 = .err (.unsolicited i) ∧ (handleIncoming s (.pubrec i r)).1.core = s.core) ∧
    (relContains s i = false →
      (handleIncoming s (.pubcomp i r)).2 = .err (.unsolicited i) ∧ (handleIncoming s (.pubcomp i r)).1.core = s.core) := by
  constructor
  · intro h
    rw [handleIncoming_puback, handleIncoming_pubrec]
    unfold handlePuback handlePubrec
    rcases h with h | h <;> simp [h]
  · intro h
    have h' : relContains (s.pushEv (.incoming (.pubcomp i r))) i = false := h
    rw [handleIncoming_pubcomp]
    unfold handlePubcomp
    rw [if_neg (by rw [h']; simp)]
    exact ⟨rfl, rfl⟩

/-- C10.6 outgoing_notification_exact for requests (full strength, both versions): every packet
    returned is announced by exactly one `Outgoing` event of the matching kind and id, nothing
    else is announced (the `AwaitAck` marker excepted) -/
theorem outgoing_notification_exact_requests (s : State) (r : Request) : Shape s (handleOutgoing s r) :=
  shape_handleOutgoing s r

/-- … for incoming packets (full strength, every state, both versions) -/
theorem outgoing_notification_exact (s : State) (p : Incoming) : InShape s p (handleIncoming s p) :=
  shape_handleIncoming s p

/-- the executable monitor `C10.check` accepts every model trace that avoids #17 -/
theorem monitor_passes_partial (ver : Version) (max : Nat) (m : Bool) (h1 : 1 ≤ max) (h2 : max ≤ u16Max) (ops : List LOp)
    (hn : Avoids unsafeConnack (LState.new ver max m) ops) :
    C10.check (Ghost.init ver max m) (ltrace (LState.new ver max m) ops) = .ok :=
  runChecks_ok _ _ _ _ _ _ (c10_checks_along ver max m h1 h2 ops hn)

/-- MQTT 3.1.1: every trace (full strength) -/
theorem monitor_passes_v4 (max : Nat) (m : Bool) (h1 : 1 ≤ max) (h2 : max ≤ u16Max) (ops : List LOp) :
    C10.check (Ghost.init .v4 max m) (ltrace (LState.new .v4 max m) ops) = .ok :=
  monitor_passes_partial .v4 max m h1 h2 ops (avoids_unsafe_v4 _ rfl ops)

/-! regression examples: the runs on which a clause used to fail -/
example : C10.check (Ghost.init .v5 3 false) (ltrace (LState.new .v5 3 false) runAlias) = .ok := by decide
example : C10.check (Ghost.init .v5 3 false) (ltrace (LState.new .v5 3 false) runRel) = .ok := by decide
example : C10.check (Ghost.init .v5 2 false) (ltrace (LState.new .v5 2 false) run13) = .ok := by decide
example : (ltrace (LState.new .v5 3 false) runAlias).map (·.outcome) = [.ok (some (.disconnect 130))] := by decide
example : (ltrace (LState.new .v5 3 false) runRel).map (·.outcome) = [.ok (some (.pubrec 9)), .ok (some (.pubcomp 9))] := by
  decide

/-! non-vacuity -/
example : Avoids unsafeConnack (LState.new .v5 3 true) hostile := by decide
example : (ltrace (LState.new .v4 3 false) hostile).length = 24 := by decide

end C10
