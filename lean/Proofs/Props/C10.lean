/-
C10 — The client answers inbound flows, reports packets in order and never panics
(state-machine part; batching in `readb` and what `poll()` yields belong to the `cloop` slice).
All broker packets of every type and id (unsolicited, repeated, above the limit), manual acks
on/off, v4 and v5 incl. reason codes, topic aliases, CONNACK properties and server DISCONNECT.
-/
import Proofs.Lemmas.ClientTheorems
namespace C10
open Client Client.Spec

/-- hostile broker: every packet type, ids 0 / in range / above the limit, repeats -/
def hostile : List LOp :=
  [.inc .connect, .inc (.connack true true none none), .inc (.publish ⟨1, 7, 1, false, none⟩),
   .inc (.publish ⟨2, 9, 2, false, none⟩), .inc (.publish ⟨2, 9, 2, false, none⟩), .inc (.pubrel 9 0), .inc (.pubrel 9 0),
   .inc (.puback 0 0), .inc (.puback 1 0), .inc (.puback 4 0), .inc (.puback 65535 0), .inc (.pubrec 1 0),
   .inc (.pubcomp 1 0), .inc (.pubcomp 65535 0), .inc .subscribe, .inc (.suback 3), .inc .unsubscribe,
   .inc (.unsuback 3), .inc .pingreq, .inc .pingresp, .inc (.disconnect 0), .user (.publish 1 5),
   .inc (.puback 1 0), .inc (.puback 1 0)]
/-- #21 (v5): PUBLISH with an empty topic and an alias nobody registered -/
def runAlias : List LOp := [.inc (.publish ⟨1, 5, 9, true, some 7⟩)]
/-- #22 (v5): QoS 2 publish id 9, then its release with reason 146 -/
def runRel : List LOp := [.inc (.publish ⟨2, 9, 1, false, none⟩), .inc (.pubrel 9 146)]
/-- #13 (v5): A(1), B(2); PUBACK 2; C parks on 1; unsolicited PUBCOMP 1 -/
def run13 : List LOp :=
  [.user (.publish 1 1), .user (.publish 1 2), .inc (.puback 2 0), .user (.publish 1 3), .inc (.pubcomp 1 0)]

/-- C10.5a no panic (full strength, ANY history — gated or not, any requests in between): under the
    structural invariant, which `C07.structural_invariant` shows to hold after every sequence of
    calls, no incoming packet of any type or id makes `handle_incoming_packet` panic -/
theorem never_panics (s : State) (h : SInv s) (p : Incoming) : (handleIncoming s p).2 ≠ .panic :=
  handleIncoming_noPanic h p

/-- … in particular along every run of the loop (both versions; v5 without #17, after which the id
    counter can run into the u16 overflow) -/
theorem never_panics_run_partial (ver : Version) (max : Nat) (m : Bool) (h1 : 1 ≤ max) (h2 : max ≤ u16Max)
    (ops : List LOp) (hn : Avoids unsafeConnack (LState.new ver max m) ops) :
    Along (fun _ _ o _ _ => C10.noPanic o = true) (LState.new ver max m) (Ghost.init ver max m) ops := by
  apply along_of_inv' B0 (fun l op => ¬ unsafeConnack l op) B0.step _ _ _ _ _ (B0.new ver max m h1 h2) hn.not_not
  intro l g op o hi _ ho _
  exact C10_noPanic_ok hi.inv0 op o ho

/-- C10.1 event_order (full strength, every state, both versions): `handle_incoming_packet` appends
    the received packet exactly once, first, followed only by `Outgoing` events -/
theorem event_order (s : State) (p : Incoming) :
    ∃ outs : List Event, (handleIncoming s p).1.events = s.events ++ .incoming p :: outs ∧
      ∀ e ∈ outs, isIncomingEv e = false := shapeW_handleIncoming s p

/-- … and a request appends no `Incoming` event at all -/
theorem event_order_outgoing (s : State) (r : Request) :
    ∃ outs : List Event, (handleOutgoing s r).1.events = s.events ++ outs ∧ ∀ e ∈ outs, isIncomingEv e = false :=
  (shape_handleOutgoing s r).weak

/-- C10.2–4 ack_generation (full strength, both versions): QoS 0 → nothing; QoS 1 → PUBACK(id);
    QoS 2 → PUBREC(id); with manual acks neither -/
theorem ack_generation (s : State) (q : InPub) :
    (handleIncoming s (.publish q)).2 =
      if q.qos = 0 then .ok none
      else if s.manualAcks then .ok none
      else if q.qos = 1 then .ok (some (.puback q.pkid))
      else .ok (some (.pubrec q.pkid)) :=
  handlePublish_answer (s.pushEv (.incoming (.publish q))) q

/-- … the QoS 2 id is remembered whether or not acks are manual -/
theorem qos2_id_recorded (s : State) (q : InPub) (h0 : q.qos ≠ 0) (h1 : q.qos ≠ 1) :
    q.pkid ∈ (handleIncoming s (.publish q)).1.incomingPub := by
  have := (handlePublish_incomingPub (s.pushEv (.incoming (.publish q))) q q.pkid)
  have hq : ¬ (q.qos = 0 ∨ q.qos = 1) := by omega
  rw [if_neg hq] at this
  exact this.mpr (Or.inl rfl)

/-- C10.4 release of a known id: PUBCOMP(id) — v4 always, v5 when the release carries reason Success -/
theorem release_answered (s : State) (i r : Nat) (hk : s.incomingPub.contains i = true)
    (hr : s.ver = .v4 ∨ r = 0) : (handleIncoming s (.pubrel i r)).2 = .ok (some (.pubcomp i)) := by
  have := handlePubrel_answer (s.pushEv (.incoming (.pubrel i r))) i r hk
  show (handlePubrel (s.pushEv (.incoming (.pubrel i r))) i r).2 = _
  rw [this, if_neg]
  rintro ⟨hv, hr0⟩
  rcases hr with h | h
  · have : (s.pushEv (.incoming (.pubrel i r))).ver = s.ver := rfl
    rw [this, h] at hv; cases hv
  · exact hr0 h

/-- the full clause ("answers a release of a known id with PUBCOMP", MQTT 5: whatever the reason)
    is false in v5 (#22) -/
theorem release_answered_fails :
    ¬ Along (fun _ g o _ _ => C10.relAnswered g o = true) (LState.new .v5 3 false) (Ghost.init .v5 3 false) runRel := by
  rw [along_iff_alongB (fun g o _ => C10.relAnswered g o)]; decide

/-- C10.5b unsolicited_is_error_not_corruption: an acknowledgement the wire never solicited (id not
    outstanding, repeated, 0, above the limit) returns `Unsolicited(id)` and leaves `inflight()`,
    the collision slot and `clean()`-of-a-clone (as a multiset; v4 may move its rotation point)
    unchanged — along runs without #17 and #4/#13 (after an unrecorded send the wire view and the
    tables disagree) -/
theorem unsolicited_is_error_not_corruption_partial (ver : Version) (max : Nat) (m : Bool) (h1 : 1 ≤ max)
    (h2 : max ≤ u16Max) (ops : List LOp) (hn : Avoids c02Trigger (LState.new ver max m) ops) :
    Along (fun _ g o _ _ => C10.unsolicitedErr g o = true ∧ C10.unsolicitedKeeps g o = true)
      (LState.new ver max m) (Ghost.init ver max m) ops := by
  apply along_of_inv' B1 (fun l op => ¬ c02Trigger l op) B1.step _ _ _ _ _ (B1.new ver max m h1 h2) hn.not_not
  intro l g op o hi hok ho _
  exact C10_unsolicited_ok hi op o ho (fun h => hok (Or.inr h.2))

/-- the full clause is false in v5 (#13): an unsolicited PUBCOMP on the id of the parked publish
    returns `Unsolicited` but has emptied the collision slot -/
theorem unsolicited_is_error_not_corruption_fails :
    ¬ Along (fun _ g o _ _ => C10.unsolicitedKeeps g o = true) (LState.new .v5 2 false) (Ghost.init .v5 2 false) run13 := by
  rw [along_iff_alongB (fun g o _ => C10.unsolicitedKeeps g o)]; decide

/-- C10.6 outgoing_notification_exact for requests (full strength, both versions): every packet
    returned is announced by exactly one `Outgoing` event of the matching kind and id, nothing
    else is announced (the `AwaitAck` marker excepted) -/
theorem outgoing_notification_exact_requests (s : State) (r : Request) : Shape s (handleOutgoing s r) :=
  shape_handleOutgoing s r

/-- … for incoming packets: v4 full strength -/
theorem outgoing_notification_exact_v4 (s : State) (hv : s.ver = .v4) (p : Incoming) :
    InShape s p (handleIncoming s p) :=
  shape_handleIncoming s p (fun h => by have := h.1; rw [hv] at this; cases this)

/-- … v5: except when a notification is pushed for a packet that is never written (#21 unknown
    topic alias → `Outgoing::Disconnect`; #13/#16 PUBCOMP that takes the parked publish and then
    fails) -/
theorem outgoing_notification_exact_partial (s : State) (p : Incoming) (hn : ¬ announcesUnwritten s p) :
    InShape s p (handleIncoming s p) := shape_handleIncoming s p hn

/-- the full clause is false in v5 (#21) -/
theorem outgoing_notification_exact_fails :
    ¬ Along (fun _ _ o _ _ => C10.notify o = true) (LState.new .v5 3 false) (Ghost.init .v5 3 false) runAlias := by
  rw [along_iff_alongB (fun _ o _ => C10.notify o)]; decide

/-- the executable monitor `C10.check` accepts every model trace that avoids #17, #4/#13, #21, #22 -/
theorem monitor_passes_partial (ver : Version) (max : Nat) (m : Bool) (h1 : 1 ≤ max) (h2 : max ≤ u16Max) (ops : List LOp)
    (hn : Avoids c10Trigger (LState.new ver max m) ops) :
    C10.check (Ghost.init ver max m) (ltrace (LState.new ver max m) ops) = .ok :=
  runChecks_ok _ _ _ _ _ _ (c10_checks_along ver max m h1 h2 ops hn)

/-- v4: the only trigger left is #4 -/
theorem monitor_passes_v4_partial (max : Nat) (m : Bool) (h1 : 1 ≤ max) (h2 : max ≤ u16Max) (ops : List LOp)
    (hn : Avoids pubcompOnCollision (LState.new .v4 max m) ops) :
    C10.check (Ghost.init .v4 max m) (ltrace (LState.new .v4 max m) ops) = .ok := by
  apply monitor_passes_partial .v4 max m h1 h2 ops
  refine Spec.Avoids.mk_or (avoids_unsafe_v4 _ rfl ops) (Spec.Avoids.mk_or hn (Spec.Avoids.mk_or ?_ ?_))
  · apply avoids_v5only_v4 _ _ _ rfl
    intro l op h
    cases op <;> simp [unwrittenAnnouncement] at h
    exact h.1
  · apply avoids_v5only_v4 _ _ _ rfl
    intro l op h
    cases op with
    | inc p => cases p <;> simp [releaseWithFailureReason] at h <;> exact h.1
    | _ => simp [releaseWithFailureReason] at h

/-! non-vacuity -/
example : Avoids c10Trigger (LState.new .v4 3 false) hostile := by decide
example : Avoids c10Trigger (LState.new .v5 3 true) hostile := by decide
example : ¬ Avoids unwrittenAnnouncement (LState.new .v5 3 false) runAlias := by decide
example : ¬ Avoids releaseWithFailureReason (LState.new .v5 3 false) runRel := by decide
example : (ltrace (LState.new .v4 3 false) hostile).length = 24 := by decide

end C10
