/-
C02 — The client never loses an accepted QoS 1/2 publish (state-machine part).
Covered here: `accepted \ done ⊆ held` in every reachable state of the loop's use of `MqttState`
(requests through the gate, any broker packets in any order, failures at any point, replays of
`pending` interleaved with acks, sessions not resumed), the release obligation, and that `clean()`
hands over exactly what was held. NOT covered here (event-loop slice `cloop`): that `poll()`
really retransmits `pending` on reconnect, the channel, the requests drained into `pending`.

Readings (DESIGN 7.0): accepted = `handle_outgoing_packet` returned Ok (incl. parked);
held = in `clean()`-of-a-clone, in the collision slot, or in `pending`; a QoS 2 publish is `done`
at PUBREC and continues as a release obligation (`rels`) until PUBCOMP.
-/
import Proofs.Lemmas.ClientTheorems
namespace C02
open Client Client.Spec

/-- Q2 A(1), Q1 B(2), Q1 C(3); PUBACK 2; D parks on 1; PUBREC 1 (D stays parked: the release of 1
    is pending); PUBCOMP 1 stores D and puts it on the wire (formerly #4: D went out unrecorded) -/
def run4 : List LOp :=
  [.user (.publish 2 1), .user (.publish 1 2), .user (.publish 1 3), .inc (.puback 2 0), .user (.publish 1 4),
   .inc (.pubrec 1 0), .inc (.pubcomp 1 0)]
/-- v5: A(1), B(2); PUBACK 2; C parks on 1; unsolicited PUBCOMP 1 → Err, C still parked (formerly #13: C gone) -/
def run13 : List LOp :=
  [.user (.publish 1 1), .user (.publish 1 2), .inc (.puback 2 0), .user (.publish 1 3), .inc (.pubcomp 1 0)]
/-- failure in the middle of a QoS 2 flow and of a collision, replay interleaved with acks -/
def runOk : List LOp :=
  [.user (.publish 2 1), .user (.publish 1 2), .user (.publish 1 3), .inc (.pubrec 1 0), .fail,
   .pend, .inc (.puback 2 0), .fail, .pend, .pend, .inc (.pubcomp 1 0), .inc (.puback 3 0)]

/-- C02.1 no_loss_state: every accepted QoS 1/2 publish whose acknowledgement has not arrived is
    held (in `clean()` of a clone, the collision slot or `pending`), at every moment, whatever the
    order of the broker's packets and wherever and however often the connection fails — along runs
    without #17 (MQTT 5: a CONNACK lowering the limit under what is in use) -/
theorem no_loss_state_partial (ver : Version) (max : Nat) (m : Bool) (h1 : 1 ≤ max) (h2 : max ≤ u16Max) (ops : List LOp)
    (hn : Avoids unsafeConnack (LState.new ver max m) ops) :
    Along (fun _ _ o _ g' => C02.noLoss g' o = true) (LState.new ver max m) (Ghost.init ver max m) ops := by
  apply along_of_inv' B1 (fun l op => ¬ unsafeConnack l op) B1.step _ _ _ _ _ (B1.new ver max m h1 h2) hn.not_not
  intro l g op o _ _ _ hi'
  exact C02_noLoss_ok hi' o (step_fields g o).1.symm (step_fields g o).2.1.symm

/-- MQTT 3.1.1: full strength -/
theorem no_loss_state_v4 (max : Nat) (m : Bool) (h1 : 1 ≤ max) (h2 : max ≤ u16Max) (ops : List LOp) :
    Along (fun _ _ o _ g' => C02.noLoss g' o = true) (LState.new .v4 max m) (Ghost.init .v4 max m) ops :=
  no_loss_state_partial .v4 max m h1 h2 ops (avoids_unsafe_v4 _ rfl ops)

/-- C02.1a the release obligation starts with the broker's PUBREC: a PUBREC for a publish of this
    connection that does not refuse it (MQTT 3.1.1: any; MQTT 5: reason 0x00 Success or 0x10 No matching
    subscribers, the two codes below 0x80 - exactly the Rust's `reason != Success && reason !=
    NoMatchingSubscribers` being false) is answered by PUBREL; `release_held` then keeps that release
    held until PUBCOMP. Along runs without #17. -/
theorem accepted_pubrec_answered_partial (ver : Version) (max : Nat) (m : Bool) (h1 : 1 ≤ max) (h2 : max ≤ u16Max)
    (ops : List LOp) (hn : Avoids unsafeConnack (LState.new ver max m) ops) :
    Along (fun _ g o _ g' => C02.relAnswered g o g' = true) (LState.new ver max m) (Ghost.init ver max m) ops := by
  apply along_of_inv' B1 (fun l op => ¬ unsafeConnack l op) B1.step _ _ _ _ _ (B1.new ver max m h1 h2) hn.not_not
  intro l g op o hi _ ho _
  exact C02_relAnswered_ok hi op o ho

/-- … MQTT 3.1.1: full strength -/
theorem accepted_pubrec_answered_v4 (max : Nat) (m : Bool) (h1 : 1 ≤ max) (h2 : max ≤ u16Max) (ops : List LOp) :
    Along (fun _ g o _ g' => C02.relAnswered g o g' = true) (LState.new .v4 max m) (Ghost.init .v4 max m) ops :=
  accepted_pubrec_answered_partial .v4 max m h1 h2 ops (avoids_unsafe_v4 _ rfl ops)

/-- … state form (full strength, every state that satisfies the structural invariant): the MQTT 5 state
    treats a PUBREC for a stored publish as a refusal exactly when its reason code is neither Success nor
    No matching subscribers; otherwise it returns the PUBREL and records the pending release -/
theorem pubrec_refusal_iff (s : State) (hs : SInv s) (i r : Nat) (x : Pub) (hx : s.outgoingPub[i]? = some (some x)) :
    ((handleIncoming s (.pubrec i r)).2 = .ok (some (.pubrel i)) ∧ relContains (handleIncoming s (.pubrec i r)).1 i = true) ↔
      ¬ (s.ver = .v5 ∧ r ≠ 0 ∧ r ≠ 16) := by
  rw [handleIncoming_pubrec]
  have hs0 := hs.pushEv (.incoming (.pubrec i r))
  have hx0 : (s.pushEv (.incoming (.pubrec i r))).outgoingPub[i]? = some (some x) := hx
  have hv0 : (s.pushEv (.incoming (.pubrec i r))).ver = s.ver := rfl
  generalize s.pushEv (.incoming (.pubrec i r)) = s0 at hs0 hx0 hv0
  have he := handlePubrec_eff hs0 i r
  have hack : ackOk r = false ↔ (r ≠ 0 ∧ r ≠ 16) := by unfold ackOk; simp
  generalize handlePubrec s0 i r = res at he ⊢
  cases he with
  | unsol s' h1 _ => rcases h1 with h1 | h1 <;> rw [h1] at hx0 <;> simp at hx0
  | failed x' res h1 hv he' =>
    have hv' : s.ver = .v5 ∧ r ≠ 0 ∧ r ≠ 16 := ⟨hv0 ▸ hv.1, hack.mp hv.2⟩
    constructor
    · intro h
      exfalso
      cases he' with
      | plain _ _ _ => simp at h
      | released _ c _ _ _ => simp at h
    · intro h; exact absurd hv' h
  | moved s' x' h1 hv hi hc =>
    have e2 : s'.outgoingRel = s0.outgoingRel.set i true := congrArg Core.rel hc
    constructor
    · intro _ hv'
      exact hv ⟨hv0 ▸ hv'.1, hack.mpr hv'.2⟩
    · intro _
      refine ⟨rfl, ?_⟩
      rw [relContains_of_set e2 hi i]; simp

/-- C02.1b release obligation (v4 full strength): an id whose PUBREL is on the wire and whose
    PUBCOMP has not arrived is in `outgoing_rel` (so `clean()` returns its `PubRel`); across failures
    the obligation is carried by `pending` (ghost `pending` = loop `pending`, part of the coupling) -/
theorem release_held_v4 (max : Nat) (m : Bool) (h1 : 1 ≤ max) (h2 : max ≤ u16Max) (ops : List LOp) :
    Along (fun _ _ o _ g' => C02.relHeld g' o = true) (LState.new .v4 max m) (Ghost.init .v4 max m) ops := by
  apply along_of_inv' B1 (fun l op => ¬ unsafeConnack l op) B1.step _ _ _ _ _ (B1.new .v4 max m h1 h2)
    (avoids_unsafe_v4 _ rfl ops).not_not
  intro l g op o _ _ _ hi'
  exact C02_relHeld_ok hi' o (step_fields g o).1.symm

/-- … both versions: along runs without #17 -/
theorem release_held_partial (ver : Version) (max : Nat) (m : Bool) (h1 : 1 ≤ max) (h2 : max ≤ u16Max) (ops : List LOp)
    (hn : Avoids unsafeConnack (LState.new ver max m) ops) :
    Along (fun _ _ o _ g' => C02.relHeld g' o = true) (LState.new ver max m) (Ghost.init ver max m) ops := by
  apply along_of_inv' B1 (fun l op => ¬ unsafeConnack l op) B1.step _ _ _ _ _ (B1.new ver max m h1 h2) hn.not_not
  intro l g op o _ _ _ hi'
  exact C02_relHeld_ok hi' o (step_fields g o).1.symm

/-- C02.2 clean_moves_everything: `clean()` returns exactly what a clone's `clean()` showed before
    (publishes with id and content, pending releases, and — unnumbered, last — the publish that was
    parked on a collision), leaves empty tables, an empty collision slot and `inflight = 0`.
    Along runs without #17. -/
theorem clean_moves_everything_partial (ver : Version) (max : Nat) (m : Bool) (h1 : 1 ≤ max) (h2 : max ≤ u16Max)
    (ops : List LOp) (hn : Avoids unsafeConnack (LState.new ver max m) ops) :
    Along (fun _ g o _ _ => C02.cleanExact g o = true) (LState.new ver max m) (Ghost.init ver max m) ops := by
  apply along_of_inv' B1 (fun l op => ¬ unsafeConnack l op) B1.step _ _ _ _ _ (B1.new ver max m h1 h2) hn.not_not
  intro l g op o hi _ ho _
  exact C02_cleanExact_ok hi op o ho

/-- v4, full strength -/
theorem clean_moves_everything_v4 (max : Nat) (m : Bool) (h1 : 1 ≤ max) (h2 : max ≤ u16Max) (ops : List LOp) :
    Along (fun _ g o _ _ => C02.cleanExact g o = true) (LState.new .v4 max m) (Ghost.init .v4 max m) ops :=
  clean_moves_everything_partial .v4 max m h1 h2 ops (avoids_unsafe_v4 _ rfl ops)

/-- C02.2b (full strength, every state that satisfies the structural invariant) nothing held is
    dropped by a failure: what was held before `EventLoop::clean` — stored, parked or pending — is
    held after -/
theorem fail_keeps_held (s : State) (hs : SInv s) (pd : List Request) (t : Nat) (h : Held ⟨s, pd⟩ t) :
    Held ⟨cleanState s, cleanRequests s ++ pd⟩ t := h.fail hs

/-- C02.2c (full strength) `clean()` leaves nothing behind: a second `clean()` returns nothing -/
theorem clean_leaves_nothing (s : State) (hs : SInv s) : cleanRequests (cleanState s) = [] ∧ (cleanState s).collision = none :=
  ⟨cleanState_clean hs, rfl⟩

/-- `loopClean` is `state.clean() ++ pending ++ channel` minus the `PubAck` requests (PubRec kept) -/
theorem loopClean_spec (s : State) (pd ch : List Request) :
    loopClean s pd ch = some (cleanState s, cleanRequests s ++ pd ++ ch.filter keepOnClean) := by
  simp [loopClean, clean, cleanPanics]

/-- the executable monitor `C02.check` accepts every model trace that avoids #17 -/
theorem monitor_passes_partial (ver : Version) (max : Nat) (m : Bool) (h1 : 1 ≤ max) (h2 : max ≤ u16Max) (ops : List LOp)
    (hn : Avoids unsafeConnack (LState.new ver max m) ops) :
    C02.check (Ghost.init ver max m) (ltrace (LState.new ver max m) ops) = .ok :=
  runChecks_ok _ _ _ _ _ _ (c02_checks_along ver max m h1 h2 ops hn)

/-- MQTT 3.1.1: every trace (full strength) -/
theorem monitor_passes_v4 (max : Nat) (m : Bool) (h1 : 1 ≤ max) (h2 : max ≤ u16Max) (ops : List LOp) :
    C02.check (Ghost.init .v4 max m) (ltrace (LState.new .v4 max m) ops) = .ok :=
  monitor_passes_partial .v4 max m h1 h2 ops (avoids_unsafe_v4 _ rfl ops)

/-! regression examples: the runs on which the clause used to fail -/
example : C02.check (Ghost.init .v4 3 false) (ltrace (LState.new .v4 3 false) run4) = .ok := by decide
example : C02.check (Ghost.init .v5 2 false) (ltrace (LState.new .v5 2 false) run13) = .ok := by decide
example : (lrun (LState.new .v4 3 false) run4).st.outgoingPub[1]? = some (some ⟨1, 1, 4, none⟩) := by decide
example : (lrun (LState.new .v5 2 false) run13).st.collision = some ⟨1, 1, 3, none⟩ := by decide
/-- PUBREC(0x10 No matching subscribers) accepts the publish: PUBREL returned, release held until PUBCOMP -/
example : (ltrace (LState.new .v5 2 false) [.user (.publish 2 1), .inc (.pubrec 1 16)]).map (fun o => (o.outcome, o.view)) =
    [(.ok (some (.publish ⟨2, 1, 1, none⟩)), [.publish ⟨2, 1, 1, none⟩]), (.ok (some (.pubrel 1)), [.pubrel 1])] := by decide
example : C02.check (Ghost.init .v5 2 false) (ltrace (LState.new .v5 2 false)
    [.user (.publish 2 1), .inc (.pubrec 1 16), .fail, .pend, .inc (.pubcomp 1 0)]) = .ok := by decide

/-! non-vacuity -/
example : Avoids unsafeConnack (LState.new .v5 3 false) runOk := by decide
example : Avoids unsafeConnack (LState.new .v5 2 false) run13 := by decide
example : (lrun (LState.new .v4 3 false) (runOk.take 5)).pending.length = 3 := by decide
example : (lrun (LState.new .v4 3 false) runOk).st.inflight = 0 := by decide

end C02
