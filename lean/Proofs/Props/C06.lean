/-
C06 — Broker answers every request packet with exactly one matching ack.

Vocabulary (definitions in Proofs/Lemmas/Router/Rp2_*.lean):
* `acksOf s id`      — the replies registered for connection `id` and not yet flushed (its `AckLog.committed`);
* `Appended s s' id as` — `s'` differs from `s`, as far as ack logs, links' buffers and client ids go, only
                        in that `as` was appended to the ack log of `id` (every other connection's ack log, link
                        and client id is unchanged, `links` is unchanged);
* `IsReplyTo pkt as`  — `as` is the reply owed to `pkt` (`[PUBACK id]`, `[PUBREC id]`, `[PUBCOMP id]`,
                        `[SUBACK id codes]`, `[UNSUBACK id reasons]`, `[PINGRESP]`, or `[]`);
* `Replies pkts as`   — `as` is the concatenation, in packet order, of the replies owed to `pkts`;
* `Notif.isAck n`     — the notification is a `DeviceAck`;
* `committedEvents evs` — the (connection id, ack) pairs of the `committed` events in a piece of ghost history.
-/
import Proofs.Lemmas.Router.Rp2_Consume
import Proofs.Lemmas.Router.Rp2_Payload
import Proofs.Lemmas.Router.Rp2_Qos2
import Proofs.Lemmas.Router.Rp2_Examples
import Proofs.Lemmas.Router.Rp2_Commits
import Proofs.Lemmas.Router.Rp11_Reach
namespace C06
open Router

/-! ### registering one reply (`AckLog`) -/

/-- registering a reply appends exactly that reply to the connection's own ack log, behind the
    replies registered earlier (order of requests = order of replies) -/
theorem reply_registered_once_in_order (s : RState) (id : Nat) (a : Ack) (c : Conn)
    (h : getConn s id = some c) :
    ∃ s', commitAck s id a = .ok s' ∧
      (getConn s' id).map (·.acks.committed) = some (c.acks.committed ++ [a]) := by
  refine ⟨_, commitAck_spec s id a c h, ?_⟩
  simp [getConn_setConn_same _ _ _ (getConn_lt h)]

/-- registering a reply for connection `id` touches no other connection's ack log -/
theorem reply_goes_to_its_own_client (s : RState) (id j : Nat) (a : Ack) (c : Conn)
    (h : getConn s id = some c) (hj : j ≠ id) :
    ∃ s', commitAck s id a = .ok s' ∧ getConn s' j = getConn s j := by
  refine ⟨_, commitAck_spec s id a c h, ?_⟩
  simp [getConn_setConn_ne _ _ _ _ hj]

/-! ### "for every accepted client packet that requires a reply … exactly one" — one packet -/

/-- QoS 1 PUBLISH: exactly one PUBACK with the same packet id is appended to the publisher's ack
    log (whether or not the publish itself is then accepted by `append_to_commitlog`), nothing to
    anybody else's, and a flush is requested -/
theorem qos1_publish_gets_one_puback (s s' : RState) (id : Nat) (cid : String) (p : Pub) (fl fl' : Flags)
    (c : Conn) (hc : getConn s id = some c) (hq : p.qos = 1)
    (h : handlePacket s id cid (.publish p) fl = .ok (s', fl')) :
    acksOf s' id = some (c.acks.committed ++ [Ack.puback p.pkid]) ∧
    Appended s s' id [Ack.puback p.pkid] ∧ fl'.forceAck = true := by
  obtain ⟨a, b⟩ := handlePacket_publish_appended h
  simp only [hq, if_true] at a
  exact ⟨a.acksOf hc, a, b (.inl hq)⟩

/-- QoS 2 PUBLISH: exactly one PUBREC with the same packet id; the publish is not appended to any
    log when it arrives: it is recorded, and it is the PUBREL that appends it -/
theorem qos2_publish_is_only_recorded (s : RState) (id : Nat) (cid : String) (p : Pub) (fl : Flags)
    (c : Conn) (h : getConn s id = some c) (hq : p.qos = 2) :
    ∃ s' fl', handlePacket s id cid (.publish p) fl = .ok (s', fl') ∧ s'.datalog = s.datalog ∧
      (getConn s' id).map (·.acks.recorded) = some (c.acks.recorded ++ [p]) ∧
      (getConn s' id).map (·.acks.committed) = some (c.acks.committed ++ [Ack.pubrec p.pkid]) ∧
      Appended s s' id [Ack.pubrec p.pkid] ∧ fl'.forceAck = true := by
  have h1 : ¬ p.qos = 1 := by omega
  have hp : handlePacket s id cid (.publish p) fl =
      .ok ((setConn s id { c with acks := { committed := c.acks.committed ++ [Ack.pubrec p.pkid],
                                            recorded := c.acks.recorded ++ [p] } }).g
              (.committed id (.pubrec p.pkid)), { fl with forceAck := true }) := by
    simp [handlePacket, hq, h]
  refine ⟨_, _, hp, rfl, ?_, ?_, ?_, rfl⟩
  · simp [getConn_setConn_same _ _ _ (getConn_lt h)]
  · simp [getConn_setConn_same _ _ _ (getConn_lt h)]
  · have := (handlePacket_publish_appended hp).1
    simpa [h1, hq] using this

/-- PUBREL (the client releases a QoS 2 publish), with or without MQTT 5 properties (`hp`):
    exactly one PUBCOMP with the same packet id -/
theorem pubrel_gets_one_pubcomp (s s' : RState) (id : Nat) (cid : String) (pkid : Nat) (hp : Bool) (fl fl' : Flags)
    (c : Conn) (hc : getConn s id = some c)
    (h : handlePacket s id cid (.pubrel pkid hp) fl = .ok (s', fl')) :
    acksOf s' id = some (c.acks.committed ++ [Ack.pubcomp pkid]) ∧ Appended s s' id [Ack.pubcomp pkid] := by
  have a := handlePacket_pubrel_appended h
  exact ⟨a.acksOf hc, a⟩

/-- SUBSCRIBE: exactly one SUBACK with the same packet id; its codes are the requested QoS of the
    filters, in order — one per filter when every filter is acceptable (no `$`-filter other than
    `$share/…`, no subscription identifier 0), and of the filters before the first unacceptable one
    otherwise (the connection is then closed: `fl'.disconnect`) -/
theorem subscribe_gets_one_suback_with_a_code_per_filter (s s' : RState) (id : Nat) (cid : String)
    (pkid : Nat) (subId : Option Nat) (fs : List SubFilter) (fl fl' : Flags) (c : Conn)
    (hc : getConn s id = some c)
    (h : handlePacket s id cid (.subscribe pkid subId fs) fl = .ok (s', fl')) :
    ∃ codes, acksOf s' id = some (c.acks.committed ++ [Ack.suback pkid codes]) ∧
      Appended s s' id [Ack.suback pkid codes] ∧
      (∃ k, k ≤ fs.length ∧ codes = (fs.take k).map (·.qos)) ∧
      ((subId ≠ some 0 ∧ ∀ f ∈ fs, validSubscription f.path = true) →
          codes = fs.map (·.qos) ∧ codes.length = fs.length) ∧
      fl'.forceAck = true := by
  obtain ⟨codes, a, b, d, e, _⟩ := handlePacket_subscribe_appended h
  exact ⟨codes, a.acksOf hc, a, b, fun hv => ⟨d hv, by rw [d hv]; simp⟩, e⟩

/-- UNSUBSCRIBE: exactly one UNSUBACK with the same packet id, with one reason per filter -/
theorem unsubscribe_gets_one_unsuback (s s' : RState) (id : Nat) (cid : String) (pkid : Nat)
    (fs : List String) (fl fl' : Flags) (c : Conn) (hc : getConn s id = some c)
    (h : handlePacket s id cid (.unsubscribe pkid fs) fl = .ok (s', fl')) :
    ∃ reasons, acksOf s' id = some (c.acks.committed ++ [Ack.unsuback pkid reasons]) ∧
      Appended s s' id [Ack.unsuback pkid reasons] ∧ reasons.length = fs.length ∧ fl'.forceAck = true := by
  obtain ⟨rs, a, b, d, _⟩ := handlePacket_unsubscribe_appended h
  exact ⟨rs, a.acksOf hc, a, b, d⟩

/-- PINGREQ: exactly one PINGRESP -/
theorem pingreq_gets_one_pingresp (s s' : RState) (id : Nat) (cid : String) (fl fl' : Flags)
    (c : Conn) (hc : getConn s id = some c)
    (h : handlePacket s id cid .pingreq fl = .ok (s', fl')) :
    acksOf s' id = some (c.acks.committed ++ [Ack.pingresp]) ∧ Appended s s' id [Ack.pingresp] ∧
    fl'.forceAck = true := by
  obtain ⟨a, b, _⟩ := handlePacket_pingreq_appended h
  exact ⟨a.acksOf hc, a, b⟩

/-- packets that require no reply get none: QoS 0 PUBLISH, PUBACK, PUBCOMP, DISCONNECT and the
    packets a broker never expects (a PUBREL carrying MQTT 5 properties is no longer among them: it
    is handled like any PUBREL, see `pubrel_gets_one_pubcomp`) -/
theorem no_reply_where_none_is_owed (s s' : RState) (id : Nat) (cid : String) (pkt : Packet) (fl fl' : Flags)
    (c : Conn) (hc : getConn s id = some c)
    (hk : (∃ p, pkt = .publish p ∧ p.qos ≠ 1 ∧ p.qos ≠ 2) ∨ (∃ k, pkt = .puback k) ∨ (∃ k, pkt = .pubcomp k) ∨
          pkt = .disconnect ∨ pkt = .other)
    (h : handlePacket s id cid pkt fl = .ok (s', fl')) :
    acksOf s' id = some c.acks.committed ∧ Appended s s' id [] := by
  obtain ⟨as, r, a, _⟩ := handlePacket_reply h
  have has : as = [] := by
    rcases hk with ⟨p, rfl, h1, h2⟩ | ⟨k, rfl⟩ | ⟨k, rfl⟩ | rfl | rfl
    · simpa [IsReplyTo, h1, h2] using r
    all_goals simpa [IsReplyTo] using r
  subst has
  exact ⟨by simpa using a.acksOf hc, a⟩

/-- all kinds at once: whatever the packet, exactly the reply owed to it (`IsReplyTo`) is appended
    to the requester's ack log and to nobody else's; every request that is owed a reply at once
    (QoS 1/2 PUBLISH, SUBSCRIBE, UNSUBSCRIBE, PINGREQ) asks for the connection to be rescheduled -/
theorem each_packet_gets_exactly_its_reply (s s' : RState) (id : Nat) (cid : String) (pkt : Packet)
    (fl fl' : Flags) (c : Conn) (hc : getConn s id = some c)
    (h : handlePacket s id cid pkt fl = .ok (s', fl')) :
    ∃ as, IsReplyTo pkt as ∧ acksOf s' id = some (c.acks.committed ++ as) ∧ Appended s s' id as ∧
      (pkt.forcesAck = true → fl'.forceAck = true) := by
  obtain ⟨as, r, a, f⟩ := handlePacket_reply h
  exact ⟨as, r, a.acksOf hc, a, f⟩

/-! ### "… in the order its requests were received" — one batch, one event -/

/-- a batch of packets read from one connection: the replies are appended in packet order, for the
    packets up to and including the one that stops the batch (all of them if none does); nothing
    is appended to another connection's ack log -/
theorem batch_replies_in_request_order (s s' : RState) (id : Nat) (cid : String) (pkts : List Packet)
    (fl fl' : Flags) (c : Conn) (hc : getConn s id = some c)
    (h : handlePackets s id cid pkts fl = .ok (s', fl')) :
    ∃ k as, k ≤ pkts.length ∧ Replies (pkts.take k) as ∧
      acksOf s' id = some (c.acks.committed ++ as) ∧ Appended s s' id as ∧
      (fl'.stop = false → k = pkts.length) := by
  obtain ⟨k, as, hk, r, a, hs, _, _⟩ := handlePackets_replies id cid pkts h
  exact ⟨k, as, hk, r, a.acksOf hc, a, hs⟩

/-- the spec-level history agrees with the ack logs: while a batch of packets of connection `id`
    is handled, the `committed` events recorded in the ghost history — the reference the C06 monitor
    compares each link's drained acks with — are exactly the acks appended to `id`'s ack log, in the
    same order, all attributed to `id` -/
theorem committed_history_is_the_ack_log (s s' : RState) (id : Nat) (cid : String) (pkts : List Packet)
    (fl fl' : Flags) (c : Conn) (hc : getConn s id = some c)
    (h : handlePackets s id cid pkts fl = .ok (s', fl')) :
    ∃ as evs, acksOf s' id = some (c.acks.committed ++ as) ∧ Appended s s' id as ∧
      s'.ghost = s.ghost ++ evs ∧ committedEvents evs = as.map (fun a => (id, a)) := by
  obtain ⟨as, a, evs, g, cm⟩ := handlePackets_commits id cid pkts h
  exact ⟨as, evs, a.acksOf hc, a, g, cm⟩

/-- one `DeviceData` event: either the batch closed the connection (its unflushed replies are
    dropped with it — the property speaks of replies the broker "sends" on an open connection), or
    the replies to the whole incoming buffer were appended in order behind the earlier ones, no
    outgoing buffer was written, no other connection's ack log changed, and — if the batch contained
    a request that is owed a reply at once — the connection is scheduled or waits for its link
    (tracker not `Paused(Caughtup)`), so the next sweep of it flushes them (`ack_order_and_owner`) -/
theorem device_data_registers_replies_in_order (s s' : RState) (id : Nat) (c : Conn)
    (hc : getConn s id = some c) (h : handleDevicePayload s id = .ok s') :
    getConn s' id = none ∨
    ∃ as, Replies (getLink s c.link).ibuf as ∧
      acksOf s' id = some (c.acks.committed ++ as) ∧
      (∀ l, (getLink s' l).obuf = (getLink s l).obuf) ∧
      (∀ j, j ≠ id → (getConn s' j).map Conn.view = (getConn s j).map Conn.view) ∧
      ((∃ p ∈ (getLink s c.link).ibuf, p.forcesAck = true) → NotCaughtup s' id) := by
  obtain ⟨as, hcase⟩ := handleDevicePayload_spec hc h
  rcases hcase with ⟨hn, _⟩ | ⟨r, ⟨c', g, a, _, _⟩, ho, _, hj, hf⟩
  · exact .inl hn
  · exact .inr ⟨as, r, by simp [acksOf, g, a], ho, hj, hf⟩

/-! ### "… sent in the order received and never to another client" — the flush -/

/-- a sweep flushes every pending reply, in registration order, to that connection's link and
    leaves none behind -/
theorem flush_moves_all_replies_in_order (s : RState) (id : Nat) (c : Conn)
    (h : getConn s id = some c) :
    (getLink (ackDeviceData s id) c.link).obuf = (getLink s c.link).obuf ++ c.acks.committed.map Notif.ack ∧
    (getConn (ackDeviceData s id) id).map (·.acks.committed) = some [] := by
  obtain ⟨a, _, ⟨c', g, e, _⟩, _⟩ := ackDeviceData_spec s id c h
  exact ⟨a, by simp [g, e]⟩

/-- `ack_order_and_owner`, one `consume()`: the connection swept (`id`, the first live entry of the
    ready queue) gets all its pending replies on its own link `c.link`, in the order they were
    registered, ahead of everything else the sweep writes there, and that "everything else"
    contains no ack; its ack log is left empty (each reply is sent once); no other link's buffers
    are written (never to another client) and no other connection's ack log changes -/
theorem ack_order_and_owner (s s' : RState) (b : Bool) (id : Nat) (rq : List Nat) (c : Conn)
    (hq : s.readyqueue.dropWhile (fun id => (s.conns.get? id).isNone) = id :: rq)
    (hc : getConn s id = some c) (h : consume s = .ok (s', b)) :
    (∃ rest, (getLink s' c.link).obuf = (getLink s c.link).obuf ++ c.acks.committed.map Notif.ack ++ rest ∧
        ∀ n ∈ rest, n.isAck = false) ∧
    (∀ l, l ≠ c.link → getLink s' l = getLink s l) ∧
    acksOf s' id = some [] ∧
    (∀ j, j ≠ id → (getConn s' j).map Conn.view = (getConn s j).map Conn.view) :=
  (consume_flushes_in_order hq hc h).2

/-- end to end on one `DeviceData` event followed by the sweep of that connection: the replies to
    the packets of the batch reach the requester's own link, once each, in request order, behind
    the replies that were already pending and ahead of any forward of that sweep; no other link
    receives anything in either step -/
theorem requests_answered_in_order_on_own_link (s s1 s2 : RState) (b : Bool) (id : Nat) (rq : List Nat)
    (c : Conn) (hc : getConn s id = some c)
    (hdata : handleDevicePayload s id = .ok s1) (hopen : getConn s1 id ≠ none)
    (hturn : s1.readyqueue.dropWhile (fun id => (s1.conns.get? id).isNone) = id :: rq)
    (hsweep : consume s1 = .ok (s2, b)) :
    ∃ as rest, Replies (getLink s c.link).ibuf as ∧
      (getLink s2 c.link).obuf =
        (getLink s c.link).obuf ++ (c.acks.committed ++ as).map Notif.ack ++ rest ∧
      (∀ n ∈ rest, n.isAck = false) ∧
      (∀ l, l ≠ c.link → (getLink s2 l).obuf = (getLink s l).obuf) ∧
      acksOf s2 id = some [] := by
  obtain ⟨as, hcase⟩ := handleDevicePayload_spec hc hdata
  rcases hcase with ⟨hn, _⟩ | ⟨r, ⟨c1, g1, a1, l1, _⟩, ho, _, _, _⟩
  · exact absurd hn hopen
  · obtain ⟨_, ⟨rest, e, hno⟩, hoth, hempty, _⟩ := consume_flushes_in_order hturn g1 hsweep
    refine ⟨as, rest, r, ?_, hno, ?_, hempty⟩
    · rw [l1] at e; rw [e, ho, a1]
    · intro l hl
      rw [hoth l (by rw [l1]; exact hl), ho]

/-- the link side: a drain hands over the whole outgoing buffer, in buffer order, and empties it —
    so the acks reach the client in the order the sweeps wrote them (each once) -/
theorem drain_returns_buffer_in_order (s s' : RState) (l : Nat) (o : Out)
    (hl : l < s.links.length) (htok : (getLink s l).tokens > 0) (h : step s (.drain l) = .ok (s', o)) :
    o = .drained true (getLink s l).obuf ∧ (getLink s' l).obuf = [] ∧
    (∀ l', l' ≠ l → getLink s' l' = getLink s l') ∧ s'.conns = s.conns := by
  simp only [step, hl, if_true, htok] at h
  simp only [Except.ok.injEq, Prod.mk.injEq] at h
  obtain ⟨rfl, rfl⟩ := h
  exact ⟨rfl, by rw [getLink_setLink_same], fun l' hl' => getLink_setLink_ne _ _ _ _ hl', rfl⟩

/-! ### "A QoS 2 publish is forwarded to subscribers only once it has been released, and once per release" -/

/-- a PUBREL hands exactly the oldest recorded QoS 2 publish `p` to `append_to_commitlog`, once,
    and removes it from the record, so it cannot be forwarded again: either nothing is accepted
    (the append failed — invalid alias or topic — and the connection is closed), or the history
    gains exactly one `accepted` event, for `p`, with one `appended` copy per filter index that
    `matches` returned. Under the property's hypothesis that releases come in publish order
    (`p.pkid = pkid`) this is the publish with the released id. -/
theorem qos2_forward_on_release_only (s s' : RState) (id : Nat) (cid : String) (pkid : Nat) (hp : Bool) (fl fl' : Flags)
    (c : Conn) (p : Pub) (rest : List Pub) (hc : getConn s id = some c) (hrec : c.acks.recorded = p :: rest)
    (h : handlePacket s id cid (.pubrel pkid hp) fl = .ok (s', fl')) :
    recordedOf s' id = some rest ∧
    ∃ evs, s'.ghost = s.ghost ++ [.committed id (.pubcomp pkid)] ++ evs ∧
      ((fl'.disconnect = true ∧ evs = [] ∧ s'.datalog = s.datalog) ∨
       (∃ (q : Pub) (topic : String) (idxs : List Nat),
          SamePublish p q ∧ (p.pkid = pkid → q.pkid = pkid) ∧ utf8? q.topic = some topic ∧
          acceptedEvents evs = [(some id, q, topic)] ∧
          appendedEvents evs = idxs.map (fun i => (i, { q with retain := false })) ∧
          (∀ j, logAt s' j = (logAt s j).map (appendN { q with retain := false } (idxs.count j))))) := by
  obtain ⟨a, evs, g, hcase⟩ := pubrel_forwards_oldest_recorded hc hrec h
  refine ⟨a, evs, g, ?_⟩
  rcases hcase with h1 | ⟨q, topic, idxs, sp, u, ac, ap, lg, _, _⟩
  · exact .inl h1
  · exact .inr ⟨q, topic, idxs, sp, fun e => sp.pkid.trans e, u, ac, ap, lg⟩

/-- a PUBREL that releases nothing (no QoS 2 publish is recorded) forwards nothing: logs and
    retained map are untouched, only the PUBCOMP is registered, and the connection is closed -/
theorem release_without_publish_forwards_nothing (s s' : RState) (id : Nat) (cid : String) (pkid : Nat) (hp : Bool)
    (fl fl' : Flags) (c : Conn) (hc : getConn s id = some c) (hrec : c.acks.recorded = [])
    (h : handlePacket s id cid (.pubrel pkid hp) fl = .ok (s', fl')) :
    s'.datalog = s.datalog ∧ s'.ghost = s.ghost ++ [.committed id (.pubcomp pkid)] ∧ fl'.disconnect = true :=
  pubrel_nothing_recorded hc hrec h

/-! ### replies are not withheld at idle (invariant over all reachable states) -/

/-- C06 `no_reply_left_at_idle`. In every reachable state a connection that is `Paused(Caughtup)` —
    idle: nothing is scheduled for it, no `consume` call will visit it until new data, a new filter or
    an ack of its client arrives — has an empty ack log: every reply the broker registered for its
    request packets has been moved to its link buffer (by `ack_device_data`, the first thing `consume`
    does for a connection). The broker does not sit on a registered reply. -/
theorem no_reply_left_at_idle {cfg : Config} {s : RState} (hr : Reachable cfg s) {id : Nat} {c : Conn}
    (hc : getConn s id = some c) (hidle : c.tracker.status = .paused .caughtup) : c.acks.committed = [] :=
  AI.reachable hr id c hc hidle

/-- the same read forwards: a live connection with a registered, not yet flushed reply is either
    `Ready` and in the ready queue (a `consume` call will serve it and flushes the ack log first), or
    `Paused(Busy)` (its link buffer was full or it has just registered: the link's `Ready` event
    reschedules it), or `Paused(InflightFull)` with a full outgoing window (an ack of its client
    reschedules it) -/
theorem pending_reply_is_scheduled {cfg : Config} {s : RState} (hr : Reachable cfg s) {id : Nat} {c : Conn}
    (hc : getConn s id = some c) (hne : c.acks.committed ≠ []) :
    (c.tracker.status = .ready ∧ id ∈ s.readyqueue) ∨ c.tracker.status = .paused .busy ∨
    (c.tracker.status = .paused .inflightFull ∧ c.out.inflight.length = MAX_INFLIGHT) := by
  have hs := SI.reachable hr
  have hout := (Inv1.reachable hr).out id c hc
  cases hst : c.tracker.status with
  | ready => exact .inl ⟨rfl, hs.rq id c hc hst⟩
  | paused r =>
    cases r with
    | caughtup => exact absurd (AI.reachable hr id c hc hst) hne
    | busy => exact .inr (.inl rfl)
    | inflightFull => exact .inr (.inr ⟨rfl, Nat.le_antisymm hout.1 ((hs.ci id c hc).2 hst)⟩)

/-- the flush itself: a `consume` call that serves connection `id` leaves its ack log empty at the
    moment the sweep starts (together with `flush_moves_all_replies_in_order`: the replies are then
    in the link buffer, in order) -/
theorem flush_empties_the_ack_log (s : RState) (id : Nat) (d : Conn)
    (hd : getConn (ackDeviceData s id) id = some d) : d.acks.committed = [] :=
  ackDeviceData_committed hd

/-- non-vacuity (kernel-evaluated): after CONNECT, a PINGREQ, the DeviceData event and two `consume`
    calls the connection is `Paused(Caughtup)` and its ack log is empty; before the `consume` calls it
    was `Ready` with the CONNACK and the PINGRESP registered -/
example :
    (match runX (init ⟨10, 1024, 2, 10, .roundRobin⟩)
        [(.connect ⟨0, "a", true, false, 0, none⟩, []), (.push 0 .pingreq, []), (.event 0 .deviceData, [])] with
     | .ok s => decide ((s.conns.get? 0).map (fun c => (c.tracker.status, c.acks.committed)) =
                  some (.ready, [Ack.connack 0 false, Ack.pingresp]))
     | .error _ => false) = true := by decide

example :
    (match runX (init ⟨10, 1024, 2, 10, .roundRobin⟩)
        [(.connect ⟨0, "a", true, false, 0, none⟩, []), (.push 0 .pingreq, []), (.event 0 .deviceData, []),
         (.consume, []), (.consume, [])] with
     | .ok s => decide ((s.conns.get? 0).map (fun c => (c.tracker.status, c.acks.committed)) =
                  some (.paused .caughtup, []))
     | .error _ => false) = true := by decide

/-! ### non-vacuity: the hypotheses are satisfiable on a concrete router state -/

example : ∃ s' fl', handlePacket exState 0 "a" (.publish exPub1) {} = .ok (s', fl') ∧
    acksOf s' 0 = some [Ack.puback 7] := ⟨_, _, rfl, rfl⟩

example : ∃ s' fl', handlePacket exState 0 "a" .pingreq {} = .ok (s', fl') ∧
    acksOf s' 0 = some [Ack.pingresp] := ⟨_, _, rfl, rfl⟩

example : ∃ s' fl', handlePacket exState 0 "a" (.unsubscribe 3 ["x", "y"]) {} = .ok (s', fl') ∧
    acksOf s' 0 = some [Ack.unsuback 3 [false, false]] := ⟨_, _, rfl, rfl⟩

example : ∃ s' fl', handlePackets exState 0 "a" [.pingreq, .publish exPub2, .pubrel 9 false] {} = .ok (s', fl') ∧
    acksOf s' 0 = some [Ack.pingresp, Ack.pubrec 9, Ack.pubcomp 9] ∧ recordedOf s' 0 = some [] :=
  ⟨_, _, rfl, rfl, rfl⟩

end C06
