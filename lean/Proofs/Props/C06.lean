/-
C06 — Broker answers every request packet with exactly one matching ack.
-/
import Proofs.Lemmas.Router.Local
namespace C06
open Router

/-- registering a reply appends exactly that reply to the connection's own ack log, behind the
    replies registered earlier (order of requests = order of replies) -/
theorem reply_registered_once_in_order (s : RState) (id : Nat) (a : Ack) (c : Conn)
    (h : getConn s id = some c) :
    ∃ s', commitAck s id a = .ok s' ∧
      (getConn s' id).map (·.acks.committed) = some (c.acks.committed ++ [a]) := by
  refine ⟨_, commitAck_spec s id a c h, ?_⟩
  simp [getConn_setConn_same _ _ _ (getConn_lt h)]

/-- registering a reply for connection `id` touches no other connection's ack log -/
theorem reply_goes_to_its_own_client (s : RState) (id j : Nat) (a : Ack) (c : Conn)
    (h : getConn s id = some c) (hj : j ≠ id) :
    ∃ s', commitAck s id a = .ok s' ∧ getConn s' j = getConn s j := by
  refine ⟨_, commitAck_spec s id a c h, ?_⟩
  simp [getConn_setConn_ne _ _ _ _ hj]

/-- a sweep flushes every pending reply, in registration order, to that connection's link and
    leaves none behind -/
theorem flush_moves_all_replies_in_order (s : RState) (id : Nat) (c : Conn)
    (h : getConn s id = some c) (hne : c.acks.committed ≠ []) :
    (getLink (ackDeviceData s id) c.link).obuf = (getLink s c.link).obuf ++ c.acks.committed.map Notif.ack ∧
    (getConn (ackDeviceData s id) id).map (·.acks.committed) = some [] := by
  unfold ackDeviceData
  simp only [h]
  have hne' : c.acks.committed.isEmpty = false := by
    cases hc : c.acks.committed with
    | nil => exact absurd hc hne
    | cons _ _ => rfl
  simp only [hne', Bool.false_eq_true, if_false]
  constructor
  · simp only [getLink_setConn, wakeLink, pushNotifs, getLink_setLink_same, LinkBuf.wake]
    split <;> rfl
  · have hlt := getConn_lt h
    simp [getConn, setConn, Slab.get?, Slab.set, wakeLink, pushNotifs, setLink, hlt]

/-- a QoS 2 publish is not appended to any log when it arrives: it is recorded and PUBREC is
    registered; it is the PUBREL that appends it (see `handlePacket`, `.pubrel`) -/
theorem qos2_publish_is_only_recorded (s : RState) (id : Nat) (cid : String) (p : Pub) (fl : Flags)
    (c : Conn) (h : getConn s id = some c) (hq : p.qos = 2) :
    ∃ s' fl', handlePacket s id cid (.publish p) fl = .ok (s', fl') ∧ s'.datalog = s.datalog ∧
      (getConn s' id).map (·.acks.recorded) = some (c.acks.recorded ++ [p]) ∧
      (getConn s' id).map (·.acks.committed) = some (c.acks.committed ++ [Ack.pubrec p.pkid]) := by
  have h1 : ¬ p.qos = 1 := by omega
  simp only [handlePacket, h1, if_false, hq, if_true, h]
  refine ⟨_, _, rfl, ?_, ?_, ?_⟩
  · rfl
  · simp [getConn_setConn_same _ _ _ (getConn_lt h)]
  · simp [getConn_setConn_same _ _ _ (getConn_lt h)]

end C06
