/-
C20 — "A message published through a listener of one protocol version is delivered to matching
subscribers connected through a listener of the other version with the same topic and payload;
MQTT 5 properties are dropped towards 3.1.1 subscribers and preserved towards MQTT 5 subscribers.
Every notification the routing core emits towards a connection can be encoded by that connection's
protocol without error or panic."
Model: `Model/Encode.lean` (`Notification → Packet → Protocol::write`) over the codec models
(`Model/Codec/V4.lean`, `V5.lean`, tied to the four codec copies by C04) and the router model's
forward construction (`Router.mkForward`, alias gate of `Router.forwardDeviceData`). `Emittable v extra n`: `n` is a notification form the
router model puts into the buffer of a connection of version `v`, with the value ranges of the
Rust field types; `extra` = the pass-through properties of the stored publish.
-/
import Proofs.Lemmas.Encode
import Proofs.Props.C04
namespace C20
open Encode Codec Admission

/-- C20 clause 2, MQTT 5 connections: every notification the routing core emits towards a v5
    connection is written without error or panic (forwards with any subset of the publish
    properties, broker topic alias, subscription identifiers; every acknowledgement; every
    disconnect reason; `Unschedule` and `Shadow` produce no packet). -/
theorem router_emits_encodable_v5 (extra : Props) (n : Router.Notif)
    (h : Emittable .v5 extra n = true) : encodable .v5 (ofNotif extra n) = true := by
  cases n with
  | forward p c =>
    simp only [Emittable, Bool.and_true] at h
    have hf := pubOk_facts h
    obtain ⟨out, h1, _⟩ := C04.v5_roundtrip .broker _ (forward_wf_v5 .broker hf)
    apply encodable_of_ok (out := out)
    simp only [ofNotif, write, DNotif.toPacket, protocolWrite]
    rw [v5_encode_publish_norm, pkid_norm]
    exact h1
  | ack a =>
    obtain ⟨out, h1⟩ := ack_ok_v5 a h
    exact encodable_of_ok (out := out) (by simpa [ofNotif, write, DNotif.toPacket, protocolWrite] using h1)
  | unschedule => rfl
  | disconnect r =>
    obtain ⟨out, h1⟩ := disconnect_ok_v5 .broker (discReasonOf r)
    exact encodable_of_ok (out := out) (by simpa [ofNotif, write, DNotif.toPacket, protocolWrite] using h1)
  | shadow t m => rfl

/-- C20 clause 2, MQTT 3.1.1 connections, full strength: every notification the routing core emits
    towards a v4 connection is written without error or panic — also a forward whose stored publish
    carries MQTT 5 properties (published through a v5 listener, or a will with will properties):
    `V4::write` drops them. -/
theorem router_emits_encodable_v4 (extra : Props) (n : Router.Notif)
    (h : Emittable .v4 extra n = true) : encodable .v4 (ofNotif extra n) = true := by
  cases n with
  | forward p c =>
    simp only [Emittable, Bool.and_eq_true] at h
    have hf := pubOk_facts h.1
    obtain ⟨out, h1, _⟩ := C04.v4_roundtrip .broker _ (forward_wf_v4 .broker hf (by intro hk; cases hk))
    apply encodable_of_ok (out := out)
    rw [v4_write_forward]
    exact h1
  | ack a =>
    obtain ⟨out, h1⟩ := ack_ok_v4 a h
    exact encodable_of_ok (out := out) (by simpa [ofNotif, write, DNotif.toPacket, protocolWrite] using h1)
  | unschedule => rfl
  | disconnect r =>
    obtain ⟨out, h1⟩ := disconnect_ok_v4 .broker (discReasonOf r)
    exact encodable_of_ok (out := out) (by simpa [ofNotif, write, DNotif.toPacket, protocolWrite] using h1)
  | shadow t m => rfl

/-- regression example (this forward used to make `V4::write` hit `unreachable!()`: `vh stack`
    cases `x54-…`, corpus/C20/f1): a stored publish with properties towards a v4 connection is
    written as the plain 3.1.1 PUBLISH -/
example :
    Emittable .v4 [] (.forward { qos := 0, pkid := 0, retain := false, dup := false,
                                  topic := [116], payload := [109], hasProps := true } none) = true ∧
    (write .v4 (ofNotif [] (.forward { qos := 0, pkid := 0, retain := false, dup := false,
                                       topic := [116], payload := [109], hasProps := true } none))).toOption
      = some [0x30, 4, 0, 1, 116, 109] := by
  refine ⟨by decide, ?_⟩
  rw [v4_write_forward]
  simp [qosOf, V4.encode, V4.encParts, V4.encPublish, V4.publishLen, V4.publishByte1, boolBit,
    QoS.toNat, encBytes16, frame, encVarint, encVarintLoop_lt128, remainingLimit, encU16, u8,
    Except.toOption]

/-- what a forward looks like when the router has built it from the stored publish `p0`
    (`forward_device_data`): payload, retain flag and dup flag of the stored publish, the
    subscription's QoS, the stored topic unless an existing broker alias replaces it -/
theorem forward_keeps_content (qos : Nat) (alias : Option Nat) (existed : Bool) (subId : Option Nat)
    (p0 : Router.Pub) :
    (Router.mkForward qos alias existed subId p0).payload = p0.payload ∧
    (Router.mkForward qos alias existed subId p0).topic = (if existed then [] else p0.topic) ∧
    (Router.mkForward qos alias existed subId p0).hasProps
      = (p0.hasProps || alias.isSome || subId.isSome) ∧
    (Router.mkForward qos none false none p0).topic = p0.topic := by
  cases alias <;> cases existed <;> cases subId <;> simp [Router.mkForward]

/-- C20 clause 1 towards a 3.1.1 subscriber: the bytes a v4 link writes for a forward — whether or
    not the stored publish carries MQTT 5 properties — decode, in the CLIENT crate's v4 codec, to a
    PUBLISH with the forward's topic and payload; the properties are dropped (that packet format
    has none). Composed with `forward_keeps_content` these are the publisher's topic and payload.
    The topic is UTF-8 (the router checked it). -/
theorem cross_version_content_v4 (extra : Props) (p : Router.Pub) (c : Option Router.Cursor)
    (h : Emittable .v4 extra (.forward p c) = true) (hutf : validUtf8 p.topic = true) :
    ∃ out, write .v4 (ofNotif extra (.forward p c)) = .ok out ∧
      ∀ max r, out.length ≤ max →
        V4.decode .client max (out ++ r) =
          .packet (.publish p.dup (qosOf p.qos) p.retain p.topic (if p.qos = 0 then 0 else p.pkid)
                    p.payload none) r := by
  simp only [Emittable, Bool.and_eq_true] at h
  have hf := pubOk_facts h.1
  obtain ⟨out, h1, h2⟩ := C04.v4_interop_broker_to_client _
    (forward_wf_v4 .broker hf (by intro hk; cases hk)) (forward_wf_v4 .client hf (fun _ => hutf))
  refine ⟨out, ?_, h2⟩
  rw [v4_write_forward]
  exact h1

/-- C20 clause 1 towards an MQTT 5 subscriber: the bytes decode, in the CLIENT crate's v5 codec, to
    a PUBLISH with the forward's topic and payload and exactly the forward's properties — the
    publisher's pass-through properties, the broker's alias, the subscription identifiers (an
    all-empty properties struct is the same wire value as none). -/
theorem cross_version_content_v5 (extra : Props) (p : Router.Pub) (c : Option Router.Cursor)
    (h : Emittable .v5 extra (.forward p c) = true) :
    ∃ out, write .v5 (ofNotif extra (.forward p c)) = .ok out ∧
      ∀ max r, out.length ≤ max →
        V5.decode .client max (out ++ r) =
          .packet (.publish p.dup (qosOf p.qos) p.retain p.topic (if p.qos = 0 then 0 else p.pkid)
                    p.payload (match forwardProps p extra with | some [] => none | x => x)) r := by
  simp only [Emittable, Bool.and_true] at h
  have hf := pubOk_facts h
  have hn : (match forwardProps p extra with | some [] => none | x => x)
      = normProps (forwardProps p extra) := by
    cases forwardProps p extra with
    | none => rfl
    | some ps => cases ps <;> rfl
  rw [hn]
  obtain ⟨out, h1, h2⟩ := C04.v5_interop_broker_to_client _ (forward_wf_v5 .broker hf)
    (forward_wf_v5 .client hf)
  refine ⟨out, ?_, h2⟩
  simp only [ofNotif, write, DNotif.toPacket, protocolWrite]
  rw [v5_encode_publish_norm, pkid_norm]
  exact h1

/-- the pass-through properties survive towards v5: every property of the stored publish is among
    the forward's properties, and the only additions are the alias (35) and subscription ids (11) -/
theorem v5_properties_preserved (extra : Props) (p : Router.Pub) (hx : extraOk extra = true)
    (hp : p.hasProps = true) :
    ∃ ps, forwardProps p extra = some ps ∧ (∀ q ∈ extra, q ∈ ps) ∧
      (∀ q ∈ ps, q ∈ extra ∨ q.id = 35 ∨ q.id = 11) := by
  refine ⟨V5.normalize V5.publishSpec (fwdList p extra), by simp [forwardProps_eq, hp], ?_, ?_⟩
  · intro q hq
    exact extra_mem_normalize hx hq
  · intro q hq
    exact mem_fwdList (V5.mem_normalize hq).1

/-- a filter without wildcards is matched by exactly one topic -/
theorem no_wildcard_filter_one_topic (t1 t2 f : Topic.Str) (hf : Topic.hasWildcards f = false)
    (h1 : Topic.matchesImpl t1 f = true) (h2 : Topic.matchesImpl t2 f = true) : t1 = t2 := by
  rw [Topic.matchesImpl_no_wildcards hf h1, Topic.matchesImpl_no_wildcards hf h2]

/-- C20 clause 1 with the broker's topic aliases, full strength. The router gives a subscription a
    broker alias only if its filter has no wildcards (`forward_device_data`:
    `has_wildcards(&request.filter)`; model: `Router.forwardDeviceData`), and everything it forwards
    for a subscription matches the filter. Then for two consecutive forwards of ONE subscription
    (the first sweep sets the new alias `a` and sends the topic, a later sweep finds the alias and
    clears the topic) the topic an MQTT 5 client resolves for the second one is the second
    publish's topic. -/
theorem aliased_forwards_keep_topic (filter : String) (qos a : Nat) (subId : Option Nat)
    (p1 p2 : Router.Pub) (t1 t2 : String) (table : List (Nat × Bytes))
    (hgate : Topic.hasWildcards filter.toList = false)
    (hu1 : Router.utf8? p1.topic = some t1) (hu2 : Router.utf8? p2.topic = some t2)
    (hm1 : Router.topicMatches t1 filter = true) (hm2 : Router.topicMatches t2 filter = true)
    (h1 : p1.topic ≠ []) :
    let f1 := Router.mkForward qos (some a) false subId p1
    let f2 := Router.mkForward qos (some a) true subId p2
    (resolveTopic (resolveTopic table f1.topic f1.alias).2 f2.topic f2.alias).1 = some p2.topic := by
  have ht : t1 = t2 :=
    String.toList_inj.mp (no_wildcard_filter_one_topic t1.toList t2.toList filter.toList hgate hm1 hm2)
  subst ht
  have hsame : p1.topic = p2.topic := utf8?_inj hu1 hu2
  have e1 : (Router.mkForward qos (some a) false subId p1).topic = p1.topic := by
    cases subId <;> simp [Router.mkForward]
  have a1 : (Router.mkForward qos (some a) false subId p1).alias = some a := by
    cases subId <;> simp [Router.mkForward]
  have e2 : (Router.mkForward qos (some a) true subId p2).topic = [] := by
    cases subId <;> simp [Router.mkForward]
  have a2 : (Router.mkForward qos (some a) true subId p2).alias = some a := by
    cases subId <;> simp [Router.mkForward]
  simp only [e1, a1, e2, a2, resolveTopic]
  have hne : p1.topic.isEmpty = false := by
    cases h : p1.topic with
    | nil => exact absurd h h1
    | cons _ _ => rfl
  simp only [hne, Bool.false_eq_true, if_false, List.isEmpty_nil, if_true]
  rw [← hsame]
  exact Encode.nlookup_ninsert_same a p1.topic table

/-- regression example (`vh stack` cases `x?5-…-a2-w1-…`, corpus/C20/f2): with the wildcard filter
    `t/#` the gate is closed — no alias, both messages go out with their full topics — although an
    alias keyed by that filter would confuse `t/a` and `t/b` -/
example :
    Topic.hasWildcards "t/#".toList = true ∧ Topic.hasWildcards "t/a".toList = false ∧
    Topic.matchesImpl "t/a".toList "t/#".toList = true ∧ Topic.matchesImpl "t/b".toList "t/#".toList = true := by
  decide

/- non-vacuity -/
example : Emittable .v5 [⟨1, .u8 1⟩, ⟨38, .pair [107] [118]⟩]
    (.forward { qos := 1, pkid := 3, retain := false, dup := false, topic := [116], payload := [109],
                alias := some 1, subIds := [7], hasProps := true } none) = true := by decide
example : Emittable .v4 [] (.ack (.suback 3 [0, 1, 2])) = true ∧
    write .v4 (ofNotif [] (.ack (.suback 3 [0, 1, 2]))) = .ok [0x90, 5, 0, 3, 0, 1, 2] := by
  refine ⟨by decide, ?_⟩
  simp [write, ofNotif, ofAck, DNotif.toPacket, DAck.toPacket, protocolWrite, V4.encode, V4.encParts,
    V4.encSubAck, V4.encCodes, V4.subCodeByte, subCodeOf, frame, encVarint, encVarintLoop_lt128,
    remainingLimit, encU16, u8]
example : write .v5 (ofNotif [] (.disconnect "ProtocolError")) = .ok [0xe0, 2, 0x82, 0] := by
  simp [write, ofNotif, discReasonOf, DNotif.toPacket, protocolWrite, V5.encode, V5.encodeRet,
    V5.encDisconnect, V5.disconnectLen, V5.disconnectPlain, V5.encProps, V5.discReasonByte, encVarint,
    encVarintLoop_lt128, remainingLimit, u8]

end C20
