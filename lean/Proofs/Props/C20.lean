/-
C20 — "A message published through a listener of one protocol version is delivered to matching
subscribers connected through a listener of the other version with the same topic and payload;
MQTT 5 properties are dropped towards 3.1.1 subscribers and preserved towards MQTT 5 subscribers.
Every notification the routing core emits towards a connection can be encoded by that connection's
protocol without error or panic."
Model: `Model/Encode.lean` (`Notification → Packet → Protocol::write`) over the codec models
(`Model/Codec/V4.lean`, `V5.lean`, tied to the four codec copies by C04) and the router model's
forward construction (`Router.mkForward`, alias gate of `Router.forwardDeviceData`). `Emittable v extra n`: `n` is a notification form the
router model puts into the buffer of a connection of version `v`, with the value ranges of the
Rust field types; `extra` = the pass-through properties of the stored publish.
-/
import Proofs.Lemmas.Encode
import Proofs.Props.C04
import Proofs.Lemmas.Router.Rp16_Emittable
import Proofs.Lemmas.Router.Rp17_EmittableInv
import Proofs.Lemmas.Router.Rp18_Ibuf
import Proofs.Lemmas.Router.Rp18_IbufInv
import Proofs.Lemmas.Router.Rp18_Fits
namespace C20
open Encode Codec Admission

/-- C20 clause 2, MQTT 5 connections: every notification the routing core emits towards a v5
    connection is written without error or panic (forwards with any subset of the publish
    properties, broker topic alias, subscription identifiers; every acknowledgement; every
    disconnect reason; `Unschedule` and `Shadow` produce no packet). -/
theorem router_emits_encodable_v5 (extra : Props) (n : Router.Notif)
    (h : Emittable .v5 extra n = true) : encodable .v5 (ofNotif extra n) = true := by
  cases n with
  | forward p c =>
    simp only [Emittable, Bool.and_true] at h
    have hf := pubOk_facts h
    obtain ⟨out, h1, _⟩ := C04.v5_roundtrip .broker _ (forward_wf_v5 .broker hf)
    apply encodable_of_ok (out := out)
    simp only [ofNotif, write, DNotif.toPacket, protocolWrite]
    rw [v5_encode_publish_norm, pkid_norm]
    exact h1
  | ack a =>
    obtain ⟨out, h1⟩ := ack_ok_v5 a h
    exact encodable_of_ok (out := out) (by simpa [ofNotif, write, DNotif.toPacket, protocolWrite] using h1)
  | unschedule => rfl
  | disconnect r =>
    obtain ⟨out, h1⟩ := disconnect_ok_v5 .broker (discReasonOf r)
    exact encodable_of_ok (out := out) (by simpa [ofNotif, write, DNotif.toPacket, protocolWrite] using h1)
  | shadow t m => rfl

/-- C20 clause 2, MQTT 3.1.1 connections, full strength: every notification the routing core emits
    towards a v4 connection is written without error or panic — also a forward whose stored publish
    carries MQTT 5 properties (published through a v5 listener, or a will with will properties):
    `V4::write` drops them. -/
theorem router_emits_encodable_v4 (extra : Props) (n : Router.Notif)
    (h : Emittable .v4 extra n = true) : encodable .v4 (ofNotif extra n) = true := by
  cases n with
  | forward p c =>
    simp only [Emittable, Bool.and_eq_true] at h
    have hf := pubOk_facts h.1
    obtain ⟨out, h1, _⟩ := C04.v4_roundtrip .broker _ (forward_wf_v4 .broker hf (by intro hk; cases hk))
    apply encodable_of_ok (out := out)
    rw [v4_write_forward]
    exact h1
  | ack a =>
    obtain ⟨out, h1⟩ := ack_ok_v4 a h
    exact encodable_of_ok (out := out) (by simpa [ofNotif, write, DNotif.toPacket, protocolWrite] using h1)
  | unschedule => rfl
  | disconnect r =>
    obtain ⟨out, h1⟩ := disconnect_ok_v4 .broker (discReasonOf r)
    exact encodable_of_ok (out := out) (by simpa [ofNotif, write, DNotif.toPacket, protocolWrite] using h1)
  | shadow t m => rfl

/-- regression example (this forward used to make `V4::write` hit `unreachable!()`: `vh stack`
    cases `x54-…`, corpus/C20/f1): a stored publish with properties towards a v4 connection is
    written as the plain 3.1.1 PUBLISH -/
example :
    Emittable .v4 [] (.forward { qos := 0, pkid := 0, retain := false, dup := false,
                                  topic := [116], payload := [109], hasProps := true } none) = true ∧
    (write .v4 (ofNotif [] (.forward { qos := 0, pkid := 0, retain := false, dup := false,
                                       topic := [116], payload := [109], hasProps := true } none))).toOption
      = some [0x30, 4, 0, 1, 116, 109] := by
  refine ⟨by decide, ?_⟩
  rw [v4_write_forward]
  simp [qosOf, V4.encode, V4.encParts, V4.encPublish, V4.publishLen, V4.publishByte1, boolBit,
    QoS.toNat, encBytes16, frame, encVarint, encVarintLoop_lt128, remainingLimit, encU16, u8,
    Except.toOption]

/-- what a forward looks like when the router has built it from the stored publish `p0`
    (`forward_device_data`): payload, retain flag and dup flag of the stored publish, the
    subscription's QoS, the stored topic unless an existing broker alias replaces it -/
theorem forward_keeps_content (qos : Nat) (alias : Option Nat) (existed : Bool) (subId : Option Nat)
    (p0 : Router.Pub) :
    (Router.mkForward qos alias existed subId p0).payload = p0.payload ∧
    (Router.mkForward qos alias existed subId p0).topic = (if existed then [] else p0.topic) ∧
    (Router.mkForward qos alias existed subId p0).hasProps
      = (p0.hasProps || alias.isSome || subId.isSome) ∧
    (Router.mkForward qos none false none p0).topic = p0.topic := by
  cases alias <;> cases existed <;> cases subId <;> simp [Router.mkForward]

/-- C20 clause 1 towards a 3.1.1 subscriber: the bytes a v4 link writes for a forward — whether or
    not the stored publish carries MQTT 5 properties — decode, in the CLIENT crate's v4 codec, to a
    PUBLISH with the forward's topic and payload; the properties are dropped (that packet format
    has none). Composed with `forward_keeps_content` these are the publisher's topic and payload.
    The topic is UTF-8 (the router checked it). -/
theorem cross_version_content_v4 (extra : Props) (p : Router.Pub) (c : Option Router.Cursor)
    (h : Emittable .v4 extra (.forward p c) = true) (hutf : validUtf8 p.topic = true) :
    ∃ out, write .v4 (ofNotif extra (.forward p c)) = .ok out ∧
      ∀ max r, out.length ≤ max →
        V4.decode .client max (out ++ r) =
          .packet (.publish p.dup (qosOf p.qos) p.retain p.topic (if p.qos = 0 then 0 else p.pkid)
                    p.payload none) r := by
  simp only [Emittable, Bool.and_eq_true] at h
  have hf := pubOk_facts h.1
  obtain ⟨out, h1, h2⟩ := C04.v4_interop_broker_to_client _
    (forward_wf_v4 .broker hf (by intro hk; cases hk)) (forward_wf_v4 .client hf (fun _ => hutf))
  refine ⟨out, ?_, h2⟩
  rw [v4_write_forward]
  exact h1

/-- C20 clause 1 towards an MQTT 5 subscriber: the bytes decode, in the CLIENT crate's v5 codec, to
    a PUBLISH with the forward's topic and payload and exactly the forward's properties — the
    publisher's pass-through properties, the broker's alias, the subscription identifiers (an
    all-empty properties struct is the same wire value as none). -/
theorem cross_version_content_v5 (extra : Props) (p : Router.Pub) (c : Option Router.Cursor)
    (h : Emittable .v5 extra (.forward p c) = true) :
    ∃ out, write .v5 (ofNotif extra (.forward p c)) = .ok out ∧
      ∀ max r, out.length ≤ max →
        V5.decode .client max (out ++ r) =
          .packet (.publish p.dup (qosOf p.qos) p.retain p.topic (if p.qos = 0 then 0 else p.pkid)
                    p.payload (match forwardProps p extra with | some [] => none | x => x)) r := by
  simp only [Emittable, Bool.and_true] at h
  have hf := pubOk_facts h
  have hn : (match forwardProps p extra with | some [] => none | x => x)
      = normProps (forwardProps p extra) := by
    cases forwardProps p extra with
    | none => rfl
    | some ps => cases ps <;> rfl
  rw [hn]
  obtain ⟨out, h1, h2⟩ := C04.v5_interop_broker_to_client _ (forward_wf_v5 .broker hf)
    (forward_wf_v5 .client hf)
  refine ⟨out, ?_, h2⟩
  simp only [ofNotif, write, DNotif.toPacket, protocolWrite]
  rw [v5_encode_publish_norm, pkid_norm]
  exact h1

/-- the pass-through properties survive towards v5: every property of the stored publish is among
    the forward's properties, and the only additions are the alias (35) and subscription ids (11) -/
theorem v5_properties_preserved (extra : Props) (p : Router.Pub) (hx : extraOk extra = true)
    (hp : p.hasProps = true) :
    ∃ ps, forwardProps p extra = some ps ∧ (∀ q ∈ extra, q ∈ ps) ∧
      (∀ q ∈ ps, q ∈ extra ∨ q.id = 35 ∨ q.id = 11) := by
  refine ⟨V5.normalize V5.publishSpec (fwdList p extra), by simp [forwardProps_eq, hp], ?_, ?_⟩
  · intro q hq
    exact extra_mem_normalize hx hq
  · intro q hq
    exact mem_fwdList (V5.mem_normalize hq).1

/-- a filter without wildcards is matched by exactly one topic -/
theorem no_wildcard_filter_one_topic (t1 t2 f : Topic.Str) (hf : Topic.hasWildcards f = false)
    (h1 : Topic.matchesImpl t1 f = true) (h2 : Topic.matchesImpl t2 f = true) : t1 = t2 := by
  rw [Topic.matchesImpl_no_wildcards hf h1, Topic.matchesImpl_no_wildcards hf h2]

/-- C20 clause 1 with the broker's topic aliases, full strength. The router gives a subscription a
    broker alias only if its filter has no wildcards (`forward_device_data`:
    `has_wildcards(&request.filter)`; model: `Router.forwardDeviceData`), and everything it forwards
    for a subscription matches the filter. Then for two consecutive forwards of ONE subscription
    (the first sweep sets the new alias `a` and sends the topic, a later sweep finds the alias and
    clears the topic) the topic an MQTT 5 client resolves for the second one is the second
    publish's topic. -/
theorem aliased_forwards_keep_topic (filter : String) (qos a : Nat) (subId : Option Nat)
    (p1 p2 : Router.Pub) (t1 t2 : String) (table : List (Nat × Bytes))
    (hgate : Topic.hasWildcards filter.toList = false)
    (hu1 : Router.utf8? p1.topic = some t1) (hu2 : Router.utf8? p2.topic = some t2)
    (hm1 : Router.topicMatches t1 filter = true) (hm2 : Router.topicMatches t2 filter = true)
    (h1 : p1.topic ≠ []) :
    let f1 := Router.mkForward qos (some a) false subId p1
    let f2 := Router.mkForward qos (some a) true subId p2
    (resolveTopic (resolveTopic table f1.topic f1.alias).2 f2.topic f2.alias).1 = some p2.topic := by
  have ht : t1 = t2 :=
    String.toList_inj.mp (no_wildcard_filter_one_topic t1.toList t2.toList filter.toList hgate hm1 hm2)
  subst ht
  have hsame : p1.topic = p2.topic := utf8?_inj hu1 hu2
  have e1 : (Router.mkForward qos (some a) false subId p1).topic = p1.topic := by
    cases subId <;> simp [Router.mkForward]
  have a1 : (Router.mkForward qos (some a) false subId p1).alias = some a := by
    cases subId <;> simp [Router.mkForward]
  have e2 : (Router.mkForward qos (some a) true subId p2).topic = [] := by
    cases subId <;> simp [Router.mkForward]
  have a2 : (Router.mkForward qos (some a) true subId p2).alias = some a := by
    cases subId <;> simp [Router.mkForward]
  simp only [e1, a1, e2, a2, resolveTopic]
  have hne : p1.topic.isEmpty = false := by
    cases h : p1.topic with
    | nil => exact absurd h h1
    | cons _ _ => rfl
  simp only [hne, Bool.false_eq_true, if_false, List.isEmpty_nil, if_true]
  rw [← hsame]
  exact Encode.nlookup_ninsert_same a p1.topic table

/-- regression example (`vh stack` cases `x?5-…-a2-w1-…`, corpus/C20/f2): with the wildcard filter
    `t/#` the gate is closed — no alias, both messages go out with their full topics — although an
    alias keyed by that filter would confuse `t/a` and `t/b` -/
example :
    Topic.hasWildcards "t/#".toList = true ∧ Topic.hasWildcards "t/a".toList = false ∧
    Topic.matchesImpl "t/a".toList "t/#".toList = true ∧ Topic.matchesImpl "t/b".toList "t/#".toList = true := by
  decide

/- non-vacuity -/
example : Emittable .v5 [⟨1, .u8 1⟩, ⟨38, .pair [107] [118]⟩]
    (.forward { qos := 1, pkid := 3, retain := false, dup := false, topic := [116], payload := [109],
                alias := some 1, subIds := [7], hasProps := true } none) = true := by decide
example : Emittable .v4 [] (.ack (.suback 3 [0, 1, 2])) = true ∧
    write .v4 (ofNotif [] (.ack (.suback 3 [0, 1, 2]))) = .ok [0x90, 5, 0, 3, 0, 1, 2] := by
  refine ⟨by decide, ?_⟩
  simp [write, ofNotif, ofAck, DNotif.toPacket, DAck.toPacket, protocolWrite, V4.encode, V4.encParts,
    V4.encSubAck, V4.encCodes, V4.subCodeByte, subCodeOf, frame, encVarint, encVarintLoop_lt128,
    remainingLimit, encU16, u8]
example : write .v5 (ofNotif [] (.disconnect "ProtocolError")) = .ok [0xe0, 2, 0x82, 0] := by
  simp [write, ofNotif, discReasonOf, DNotif.toPacket, protocolWrite, V5.encode, V5.encodeRet,
    V5.encDisconnect, V5.disconnectLen, V5.disconnectPlain, V5.encProps, V5.discReasonByte, encVarint,
    encVarintLoop_lt128, remainingLimit, u8]

/-! ### `Emittable` and the router model (PARTIAL: sweep / packet / flush level, not yet a reachable-state invariant)

The router model does not record the protocol version of a connection; `Router.versionOf c` reads it off
what the version decides: `v4` iff the connection has no broker aliases (`topic_alias_max = 0` at CONNECT)
and no subscription identifiers. Input ranges: `Router.PacketOk` / `Router.OpOk` (u16 packet ids, QoS ≤ 2,
16-bit topic length, subscription identifier in variable-byte range, SUBSCRIBE / UNSUBSCRIBE whose ack fits a
frame); for stored publishes `Router.StoredOk` (no alias, no subscription ids — `append_to_commitlog` strips
/ rejects them —, u16 packet id, 16-bit topic length, properties flagged when there are pass-through
properties) and `Router.FitsForward` (the frame limit, for every forward that can be built from it).
Missing for the invariant over reachable states: (1) that every publish a sweep reads — log entries returned
by `readv`, retained messages — is `StoredOk` (an invariant over the commit-log contents), (2) the pass of
"every link-buffer element is old or was pushed by one of the three producers below" over all router
functions, (3) `AliasesOk` and the subscription-id range as invariants (they follow from `OpOk` on CONNECT /
SUBSCRIBE). The three producers are covered: -/

/-- C20 (forwards, PARTIAL): every notification a sweep builds for connection `c` — `fdOut`, which
    `forward_device_data` pushes to `c`'s link as it is — is `Emittable` for `versionOf c`: packet ids are
    `1..MAX_INFLIGHT` for QoS > 0 and the stored (u16) id for QoS 0, the topic is the stored one or replaced by
    an existing alias ≤ `topic_alias_max`, and towards a v4-like connection no forward carries an alias or a
    subscription identifier -/
theorem sweep_forwards_emittable_partial {c : Router.Conn} {req : Router.DataRequest}
    {pubs : List (Router.Pub × Option Router.Cursor)} {extra : Props}
    (hsrc : ∀ pc ∈ pubs, Router.StoredOk pc.1 extra = true ∧ Router.FitsForward pc.1 extra) (hx : extraOk extra = true)
    (hq : req.qos ≤ 2) (hlast : c.out.lastPkid < Router.MAX_INFLIGHT) (hal : Router.AliasesOk c)
    (hsid : ∀ i, Router.alookup req.filter c.subscriptionIds = some i → i ≤ remainingLimit) :
    ∀ n ∈ (Router.fdOut c req pubs).2, Emittable (Router.versionOf c) extra n = true :=
  Router.fdOut_emittable hsrc hx hq hlast hal hsid

/-- hence they are written without error by the codec of that version -/
theorem sweep_forwards_encodable_partial {c : Router.Conn} {req : Router.DataRequest}
    {pubs : List (Router.Pub × Option Router.Cursor)} {extra : Props}
    (hsrc : ∀ pc ∈ pubs, Router.StoredOk pc.1 extra = true ∧ Router.FitsForward pc.1 extra) (hx : extraOk extra = true)
    (hq : req.qos ≤ 2) (hlast : c.out.lastPkid < Router.MAX_INFLIGHT) (hal : Router.AliasesOk c)
    (hsid : ∀ i, Router.alookup req.filter c.subscriptionIds = some i → i ≤ remainingLimit) :
    ∀ n ∈ (Router.fdOut c req pubs).2, encodable (Router.versionOf c) (ofNotif extra n) = true := by
  intro n hn
  have h := sweep_forwards_emittable_partial hsrc hx hq hlast hal hsid n hn
  cases hv : Router.versionOf c with
  | v4 => rw [hv] at h; exact router_emits_encodable_v4 extra n h
  | v5 => rw [hv] at h; exact router_emits_encodable_v5 extra n h

/-- C20 (acks, PARTIAL): a packet in range (`PacketOk`) handled for a live connection leaves every link
    buffer untouched and every ack log in range (`AckLogsOk`: the replies registered are `ackOk`); and the
    flush `ack_device_data` appends exactly the ack log to the connection's own link, every element
    `Emittable` — hence encodable — for either version -/
theorem acks_emittable_partial {s s' : Router.RState} {id : Nat} {cid : String} {pkt : Router.Packet}
    {fl fl' : Router.Flags} (hp : Router.PacketOk pkt = true) (hi : Router.AckLogsOk s)
    (hlive : ∃ c, Router.getConn s id = some c) (h : Router.handlePacket s id cid pkt fl = .ok (s', fl')) :
    s'.links = s.links ∧ Router.AckLogsOk s' ∧
    ∀ j c (v : Admission.Version) (extra : Props), Router.getConn s' j = some c →
      (Router.getLink (Router.ackDeviceData s' j) c.link).obuf =
        (Router.getLink s' c.link).obuf ++ c.acks.committed.map Router.Notif.ack ∧
      ∀ n ∈ c.acks.committed.map Router.Notif.ack, Emittable v extra n = true ∧ encodable v (ofNotif extra n) = true := by
  obtain ⟨h1, h2⟩ := Router.handlePacket_acklogs hp hi hlive h
  refine ⟨h1, h2, fun j c v extra hc => ?_⟩
  obtain ⟨a, b, _⟩ := Router.ackDeviceData_emittable hc h2 v extra
  refine ⟨a, fun n hn => ⟨b n hn, ?_⟩⟩
  cases v with
  | v4 => exact router_emits_encodable_v4 extra n (b n hn)
  | v5 => exact router_emits_encodable_v5 extra n (b n hn)

/-- non-vacuity (kernel-evaluated): a reachable state with a non-empty link buffer — CONNECT, a PINGREQ,
    the DeviceData event and the sweep: the buffer holds the CONNACK and the PINGRESP — all of whose
    elements are `Emittable` for a v4 and for a v5 connection; the pushed packet satisfies `OpOk` -/
example : ∃ s, Router.Reachable ⟨10, 1024, 2, 10, .roundRobin⟩ s ∧
    (Router.getLink s 0).obuf.length = 2 ∧
    (Router.getLink s 0).obuf.all (fun n => Emittable .v4 [] n && Emittable .v5 [] n) = true ∧
    Router.OpOk (.push 0 .pingreq) = true :=
  ⟨_, Router.Reachable.ofX [(.connect ⟨0, "a", true, false, 0, none⟩, []), (.push 0 .pingreq, []),
      (.event 0 .deviceData, []), (.consume, [])] rfl, by decide, by decide, rfl⟩

/-! ### round 11 (PARTIAL): the connection-side hypotheses as a step invariant -/

/-- C20 (stage 3, step form): from a reachable state, one step whose op is in range (`Router.OpOkC`: a pushed
    packet is `PacketOk`, a CONNECT has `topic_alias_max < 65536`), taken while the packets waiting in the
    links' incoming buffers are in range (`Router.IbufOk`), keeps for EVERY connection the connection-side
    hypotheses of `sweep_forwards_emittable_partial` (`Router.ConnsOk`: broker aliases at most
    `topic_alias_max < 65536`, subscription identifiers within the variable-byte range) — through sweeps
    (new aliases), SUBSCRIBE (new subscription identifiers), UNSUBSCRIBE, CONNECT, takeover, disconnection,
    wake-ups. Not yet lifted to runs: `IbufOk` itself is not shown to be an invariant (it needs the frame
    pass over the link buffers, the same pass the buffer invariant needs). -/
theorem connection_hypotheses_preserved_partial {cfg : Router.Config} {s s' : Router.RState} {ch : List Router.Choice}
    {op : Router.Op} {out : Router.Out} (hr : Router.Reachable cfg s) (h : Router.ConnsOk s) (hib : Router.IbufOk s)
    (hop : Router.OpOkC op = true) (hs : Router.step { s with oracle := ch } op = .ok (s', out)) :
    Router.ConnsOk s' :=
  Router.step_connsOk hr h hib hop hs

/-- C20 (sweep, reachable form, PARTIAL): in a reachable state in which the connections satisfy `ConnsOk`, the
    hypotheses of `sweep_forwards_emittable_partial` about the connection are discharged (`lastPkid <
    MAX_INFLIGHT` is an invariant of reachable states, `AliasesOk` and the subscription-id range come from
    `ConnsOk`); what remains is about the DATA: the publishes read are as the router stores them and fit a
    frame (`StoredOk`, `FitsForward` — the commit-log-contents invariant, not proved), the pass-through
    properties are well formed, the subscription's QoS is ≤ 2 -/
theorem sweep_forwards_emittable_reachable_partial {cfg : Router.Config} {s : Router.RState} (hr : Router.Reachable cfg s)
    (hok : Router.ConnsOk s) {id : Nat} {c : Router.Conn} (hc : Router.getConn s id = some c)
    {req : Router.DataRequest} {pubs : List (Router.Pub × Option Router.Cursor)} {extra : Props}
    (hsrc : ∀ pc ∈ pubs, Router.StoredOk pc.1 extra = true ∧ Router.FitsForward pc.1 extra) (hx : extraOk extra = true)
    (hq : req.qos ≤ 2) :
    ∀ n ∈ (Router.fdOut c req pubs).2,
      Emittable (Router.versionOf c) extra n = true ∧ encodable (Router.versionOf c) (ofNotif extra n) = true := by
  have hout := (Router.Inv1.reachable hr).out id c hc
  have hco := hok id c hc
  intro n hn
  exact ⟨sweep_forwards_emittable_partial hsrc hx hq hout.2.1 hco.1 (hco.sid req.filter) n hn,
    sweep_forwards_encodable_partial hsrc hx hq hout.2.1 hco.1 (hco.sid req.filter) n hn⟩

/-- non-vacuity: the initial state satisfies `ConnsOk` and `IbufOk`, and a CONNECT with `topic_alias_max = 10`
    is in range -/
example : Router.ConnsOk (Router.init ⟨10, 1024, 2, 10, .roundRobin⟩) ∧ Router.IbufOk (Router.init ⟨10, 1024, 2, 10, .roundRobin⟩) ∧
    Router.OpOkC (.connect ⟨0, "a", true, false, 10, none⟩) = true :=
  ⟨fun j c h => by simp [Router.getConn, Router.init, Router.Slab.get?] at h,
   fun l p hp => by simp [Router.getLink, Router.init] at hp, rfl⟩

/-! ### round 12: the commit-log-contents invariant (item (1) of the list above; also `IbufOk` and item (3) over runs)

`Router.LogsOk n s`: every publish stored in a commit log of `s.datalog`, every retained message
(`Router.StoredP n`: the `extra`-independent part `Router.StoredCore` of `StoredOk` — no alias, no subscription
identifiers, u16 packet id, 16-bit topic length —, QoS ≤ 2, payload length within the optional bound `n`), every
QoS 2 publish recorded in an ack log until its PUBREL (`Router.InP n`: in input range; the alias is still on it),
every topic in a connection's alias table (16-bit length: a later publish with an empty topic takes it), every
stored will (`Router.WillP n`). Input range: `Router.OpOkD n` = `OpOkC` + payload of a pushed PUBLISH within `n`
+ the will of a CONNECT in the range of its Rust field types (QoS ≤ 2, 16-bit topic length) with payload within
`n`. NEW relative to `OpOk` / `OpOkC`: the model does not bound payload sizes at `push`, so `FitsForward` cannot
be an invariant without the bound (`n = some m`); and `OpOkC` says nothing about wills. `n = none` drops the bound.
`extra` (the pass-through properties) is not in the model — `Pub.hasProps` records only whether there are any —,
so `StoredOk p extra` is obtained from `StoredP` under `p.hasProps = true ∨ extra = []`. -/

/-- C20 (stage 1, step form): one step whose op is in range, taken while the waiting packets are in range,
    keeps everything stored in range. No reachability hypothesis. -/
theorem stored_in_range_step {n : Option Nat} {s s' : Router.RState} {ch : List Router.Choice} {op : Router.Op}
    {out : Router.Out} (h : Router.LogsOk n s) (hib : Router.IbufOkD n s) (hop : Router.OpOkD n op = true)
    (hs : Router.step { s with oracle := ch } op = .ok (s', out)) : Router.LogsOk n s' ∧ Router.IbufOkD n s' :=
  ⟨Router.step_logsOk h hib hop hs, Router.step_ibufOkD hib hop hs⟩

/-- the same without a payload bound: the hypotheses are those of `connection_hypotheses_preserved_partial`
    (`IbufOk`, `OpOkC`) and the range of the will of a CONNECT -/
theorem stored_in_range_step_unbounded {s s' : Router.RState} {ch : List Router.Choice} {op : Router.Op}
    {out : Router.Out} (h : Router.LogsOk none s) (hib : Router.IbufOk s) (hop : Router.OpOkC op = true)
    (hwill : ∀ spec w, op = .connect spec → spec.will = some w → w.qos ≤ 2 ∧ w.topic.length ≤ 65535)
    (hs : Router.step { s with oracle := ch } op = .ok (s', out)) : Router.LogsOk none s' :=
  Router.step_logsOk_none h hib hop hwill hs

/-- C20 (stages 1 and 3, over runs): after every error-free run from the initial state all of whose ops are in
    range, everything stored is in range (`LogsOk`), every waiting packet is in range (`IbufOkD`, hence
    `IbufOk` — the hypothesis `connection_hypotheses_preserved_partial` left open), and every connection
    satisfies the connection-side hypotheses (`ConnsOk`) -/
theorem stored_in_range_of_run {n : Option Nat} {cfg : Router.Config} {ops : List (Router.Op × List Router.Choice)}
    {s : Router.RState} (hok : Router.OpsOkD n ops) (h : Router.run (Router.init cfg) ops = .ok s) :
    Router.Reachable cfg s ∧ Router.LogsOk n s ∧ Router.IbufOkD n s ∧ Router.ConnsOk s :=
  Router.inv_of_run hok h

/-- C20 (what a sweep reads): a sweep for a live connection either leaves every link buffer as it is, or is the
    push phase `fdPush` — which appends `(fdOut c req' pubs).2` (and possibly `Unschedule`) to the connection's
    link — for a list `pubs` (the retained replay, then the entries `readv` returned) of stored publishes -/
theorem sweep_reads_stored {n : Option Nat} {s s1 : Router.RState} {id : Nat} {c : Router.Conn}
    {req req1 : Router.DataRequest} {st : Router.ConsumeStatus} (h : Router.LogsOk n s)
    (hc : Router.getConn s id = some c) (hf : Router.forwardDeviceData s id req = .ok (s1, req1, st)) :
    s1.links = s.links ∨
    ∃ s0 req' grp pubs cu, s0 = { s with oracle := s0.oracle } ∧ req'.qos = req.qos ∧
      Router.fdPush s0 id c req' grp pubs cu = .ok (s1, req1, st) ∧ ∀ pc ∈ pubs, Router.StoredP n pc.1 :=
  Router.forwardDeviceData_pubs_stored h hc hf

/-- the DATA hypothesis `hsrc` of `sweep_forwards_emittable_reachable_partial` from `StoredP`: `StoredOk` when
    the publish is flagged as having properties or there are no pass-through properties, `FitsForward` from the
    payload bound `m` and a bound `k` on the encoded length of the pass-through properties -/
theorem stored_data_hypothesis {m k : Nat} {p : Router.Pub} (h : Router.StoredP (some m) p) {extra : Props}
    (hx : p.hasProps = true ∨ extra = []) (hk : V5.propListLen extra ≤ k) (hb : 65551 + k + m ≤ remainingLimit) :
    Router.StoredOk p extra = true ∧ Router.FitsForward p extra :=
  ⟨h.storedOk hx, h.fitsForward hk hb⟩

/-- C20 (sweep, over runs): in a state reached by a run whose ops are in range with payloads ≤ `m`, every
    notification a sweep pushes for a subscription of QoS ≤ 2 is `Emittable` for the version the model attributes
    to the connection, and encodable by that version's codec — no hypothesis about the data is left, except that
    the pass-through properties `extra` attributed to the publishes of the sweep are well formed, encode to ≤ `k`
    bytes, and are attributed only to publishes flagged as having properties -/
theorem sweep_forwards_emittable_of_run {m k : Nat} {cfg : Router.Config} {ops : List (Router.Op × List Router.Choice)}
    {s s1 : Router.RState} (hok : Router.OpsOkD (some m) ops) (hrun : Router.run (Router.init cfg) ops = .ok s)
    {id : Nat} {c : Router.Conn} (hc : Router.getConn s id = some c) {req req1 : Router.DataRequest}
    {st : Router.ConsumeStatus} (hf : Router.forwardDeviceData s id req = .ok (s1, req1, st)) (hq : req.qos ≤ 2)
    {extra : Props} (hx : extraOk extra = true) (hk : V5.propListLen extra ≤ k)
    (hb : 65551 + k + m ≤ remainingLimit) :
    s1.links = s.links ∨
    ∃ s0 req' grp pubs cu, Router.fdPush s0 id c req' grp pubs cu = .ok (s1, req1, st) ∧
      ((∀ pc ∈ pubs, pc.1.hasProps = true ∨ extra = []) →
        ∀ nt ∈ (Router.fdOut c req' pubs).2,
          Emittable (Router.versionOf c) extra nt = true ∧ encodable (Router.versionOf c) (ofNotif extra nt) = true) := by
  obtain ⟨hr, hl, _, hco⟩ := Router.inv_of_run hok hrun
  rcases Router.forwardDeviceData_pubs_stored hl hc hf with h | ⟨s0, req', grp, pubs, cu, _, hq', hp, hst⟩
  · exact .inl h
  · refine .inr ⟨s0, req', grp, pubs, cu, hp, fun hprops => ?_⟩
    exact sweep_forwards_emittable_reachable_partial hr hco hc
      (fun pc hpc => stored_data_hypothesis (hst pc hpc) (hprops pc hpc) hk hb) hx (by rw [hq']; exact hq)

/-- with no pass-through properties nothing is left but the QoS of the subscription -/
theorem sweep_forwards_emittable_of_run_plain {m : Nat} {cfg : Router.Config} {ops : List (Router.Op × List Router.Choice)}
    {s s1 : Router.RState} (hok : Router.OpsOkD (some m) ops) (hrun : Router.run (Router.init cfg) ops = .ok s)
    {id : Nat} {c : Router.Conn} (hc : Router.getConn s id = some c) {req req1 : Router.DataRequest}
    {st : Router.ConsumeStatus} (hf : Router.forwardDeviceData s id req = .ok (s1, req1, st)) (hq : req.qos ≤ 2)
    (hb : 65551 + m ≤ remainingLimit) :
    s1.links = s.links ∨
    ∃ s0 req' grp pubs cu, Router.fdPush s0 id c req' grp pubs cu = .ok (s1, req1, st) ∧
      ∀ nt ∈ (Router.fdOut c req' pubs).2,
        Emittable (Router.versionOf c) [] nt = true ∧ encodable (Router.versionOf c) (ofNotif [] nt) = true := by
  rcases sweep_forwards_emittable_of_run (k := 0) (extra := []) hok hrun hc hf hq (by decide) (by decide) (by omega) with h | ⟨s0, req', grp, pubs, cu, hp, h⟩
  · exact .inl h
  · exact .inr ⟨s0, req', grp, pubs, cu, hp, h fun _ _ => .inr rfl⟩

/-- non-vacuity (kernel-evaluated): a run whose ops are in range with payloads ≤ 1024 — a CONNECT with a will, a
    QoS 2 PUBLISH, the DeviceData event — after which the publish is recorded in the connection's ack log and the
    will is stored; by `stored_in_range_of_run` both are in range. (A publish reaching a filter log or the
    retained map goes through `String.fromUTF8?`, which the kernel cannot reduce; see the evaluated check below.) -/
example : ∃ s, Router.run (Router.init ⟨10, 1024, 2, 10, .roundRobin⟩)
      [(.connect ⟨0, "a", true, false, 0, some ⟨[119], [1], 1, false⟩⟩, []),
       (.push 0 (.publish ⟨2, 7, false, false, [116], [109], none, [], false⟩), []),
       (.event 0 .deviceData, [])] = .ok s ∧
    Router.OpsOkD (some 1024)
      [(.connect ⟨0, "a", true, false, 0, some ⟨[119], [1], 1, false⟩⟩, []),
       (.push 0 (.publish ⟨2, 7, false, false, [116], [109], none, [], false⟩), []),
       (.event 0 .deviceData, [])] ∧
    (Router.getConn s 0).map (fun c => c.acks.recorded) = some [⟨2, 7, false, false, [116], [109], none, [], false⟩] ∧
    s.lastWills = [("a", ⟨[119], [1], 1, false⟩)] :=
  ⟨_, by rw [Router.run_eq_runX]; rfl, by unfold Router.OpsOkD; decide, by decide, by decide⟩

/-- the run stores a publish in a filter log and in the retained map (evaluated, not kernel-checked) -/
def storeOps : List (Router.Op × List Router.Choice) :=
  [(.connect ⟨0, "a", true, false, 0, none⟩, []),
   (.push 0 (.subscribe 1 none [⟨"t", 1⟩]), []), (.event 0 .deviceData, []),
   (.push 0 (.publish ⟨0, 0, true, false, "t".toUTF8.toList, [109], none, [], false⟩), []),
   (.event 0 .deviceData, [.matches [0]])]

#guard storeOps.all (fun o => Router.OpOkD (some 1024) o.1)   -- `OpsOkD (some 1024) storeOps`
#guard match Router.run (Router.init ⟨10, 1024, 2, 10, .roundRobin⟩) storeOps with
  | .ok s => s.datalog.native.map (fun fd => Router.logItems fd.log) ==
               [[⟨0, 0, false, false, "t".toUTF8.toList, [109], none, [], false⟩]] &&
             s.datalog.retained.map (·.2) == [⟨0, 0, true, false, "t".toUTF8.toList, [109], none, [], false⟩]
  | .error _ => false

/-! ### round 12 (PARTIAL as to the DATA only): the connection-side hypotheses as an invariant of runs in range

Independent second derivation of the incoming-buffer / connection invariants (relation `IbufSub`, the frame pass
over every function reachable from `step`), with the producer statement `incoming_buffer_producer`. -/

/-- C20 (stage 3, the frame pass over the incoming buffers, step form): a packet waiting in a link's incoming
    buffer after a step was waiting in that link's buffer before the step, or it is the packet this step pushed
    to that link (`Router.step (.push l p)` is the only producer; CONNECT starts from an empty link, DeviceData
    takes the batch out, nothing else touches an incoming buffer) -/
theorem incoming_buffer_producer {s s' : Router.RState} {op : Router.Op} {out : Router.Out}
    (hs : Router.step s op = .ok (s', out)) :
    ∀ l, ∀ p ∈ (Router.getLink s' l).ibuf, p ∈ (Router.getLink s l).ibuf ∨ op = .push l p :=
  Router.step_ibuf_cases hs

/-- C20 (stage 3, step form for the incoming buffers): one step whose op is in range (`Router.OpOkC`) keeps the
    packets waiting in the links' incoming buffers in range (`Router.IbufOk`) — the hypothesis of
    `connection_hypotheses_preserved_partial` that was not yet an invariant -/
theorem incoming_buffers_preserved {s s' : Router.RState} {ch : List Router.Choice} {op : Router.Op} {out : Router.Out}
    (hib : Router.IbufOk s) (hop : Router.OpOkC op = true)
    (hs : Router.step { s with oracle := ch } op = .ok (s', out)) : Router.IbufOk s' :=
  Router.step_ibufOk_oracle hib hop hs

/-- C20 (stage 3, run form): after EVERY error-free run from the initial state all of whose ops are in range
    (`Router.OpsOk`: every pushed packet is `PacketOk`, every CONNECT has `topic_alias_max < 65536`), the packets
    waiting in the links' incoming buffers are in range (`Router.IbufOk`) and every connection satisfies the
    connection-side hypotheses of `sweep_forwards_emittable_partial` (`Router.ConnsOk`: broker aliases at most
    `topic_alias_max < 65536`, subscription identifiers within the variable-byte range) -/
theorem connection_hypotheses_invariant {cfg : Router.Config} {ops : List (Router.Op × List Router.Choice)}
    {s : Router.RState} (hrun : Router.run (Router.init cfg) ops = .ok s) (hops : Router.OpsOk ops) :
    Router.IbufOk s ∧ Router.ConnsOk s :=
  Router.reachableOk_ibufOk_connsOk hrun hops

/-- the same for `Router.ReachableOk cfg s` (reachable by a run whose ops are all in range), which is closed
    under steps in range and implies `Router.Reachable cfg s` -/
theorem connection_hypotheses_reachableOk {cfg : Router.Config} {s : Router.RState} (hr : Router.ReachableOk cfg s) :
    Router.Reachable cfg s ∧ Router.IbufOk s ∧ Router.ConnsOk s :=
  ⟨hr.reachable, hr.ibufOk, hr.connsOk⟩

/-- C20 (sweep, run form, PARTIAL as to the DATA only): after every error-free run whose ops are all in range,
    every notification a sweep builds for a live connection `c` (`fdOut`, which `forward_device_data` pushes to
    `c`'s link as it is) is `Emittable` for `versionOf c` and is written without error by the codec of that
    version. No hypothesis about the connection or the state remains (`ConnsOk` is discharged by
    `connection_hypotheses_invariant`, `lastPkid < MAX_INFLIGHT` by `Inv1.reachable`); what remains is about the
    DATA: the publishes read are as the router stores them and fit a frame (`StoredOk`, `FitsForward` — the
    commit-log-contents invariant, not proved), the pass-through properties are well formed, the
    subscription's QoS is ≤ 2 -/
theorem sweep_forwards_emittable_run_partial {cfg : Router.Config} {ops : List (Router.Op × List Router.Choice)}
    {s : Router.RState} (hrun : Router.run (Router.init cfg) ops = .ok s) (hops : Router.OpsOk ops)
    {id : Nat} {c : Router.Conn} (hc : Router.getConn s id = some c)
    {req : Router.DataRequest} {pubs : List (Router.Pub × Option Router.Cursor)} {extra : Props}
    (hsrc : ∀ pc ∈ pubs, Router.StoredOk pc.1 extra = true ∧ Router.FitsForward pc.1 extra) (hx : extraOk extra = true)
    (hq : req.qos ≤ 2) :
    ∀ n ∈ (Router.fdOut c req pubs).2,
      Emittable (Router.versionOf c) extra n = true ∧ encodable (Router.versionOf c) (ofNotif extra n) = true :=
  sweep_forwards_emittable_reachable_partial ⟨ops, hrun⟩ (connection_hypotheses_invariant hrun hops).2 hc hsrc hx hq

/-- non-vacuity (kernel-evaluated): a concrete non-empty error-free run whose ops are all in range — CONNECT
    with `topic_alias_max = 10`, a SUBSCRIBE with subscription identifier 5 and a PINGREQ pushed to the link
    (see the next example: two packets then wait in the incoming buffer), the DeviceData event (the buffer is
    empty again, the subscription identifier is recorded), the sweep (CONNACK, SUBACK, PINGRESP in the outgoing
    buffer) — so `connection_hypotheses_invariant` and `sweep_forwards_emittable_run_partial` apply to its end
    state, which has a live connection with broker aliases and a subscription identifier -/
example : ∃ s,
    Router.run (Router.init ⟨10, 1024, 2, 10, .roundRobin⟩)
      [(.connect ⟨0, "a", true, false, 10, none⟩, []), (.push 0 (.subscribe 1 (some 5) [⟨"t", 1⟩]), []),
       (.push 0 .pingreq, []), (.event 0 .deviceData, []), (.consume, [.retained []])] = .ok s ∧
    Router.OpsOk
      [(.connect ⟨0, "a", true, false, 10, none⟩, []), (.push 0 (.subscribe 1 (some 5) [⟨"t", 1⟩]), []),
       (.push 0 .pingreq, []), (.event 0 .deviceData, []), (.consume, [.retained []])] ∧
    (Router.getLink s 0).ibuf.length = 0 ∧ (Router.getLink s 0).obuf.length = 3 ∧
    ((Router.getConn s 0).map (fun c => (c.brokerAliases.map (·.max), c.subscriptionIds))) = some (some 10, [("t", 5)]) :=
  ⟨_, by rw [Router.run_eq_runX]; rfl, by decide, by decide, by decide, by decide⟩

/-- non-vacuity of `IbufOk` itself: after the first three ops of that run two packets wait in the link's
    incoming buffer (and `connection_hypotheses_invariant` says they are in range) -/
example : ∃ s,
    Router.run (Router.init ⟨10, 1024, 2, 10, .roundRobin⟩)
      [(.connect ⟨0, "a", true, false, 10, none⟩, []), (.push 0 (.subscribe 1 (some 5) [⟨"t", 1⟩]), []),
       (.push 0 .pingreq, [])] = .ok s ∧
    Router.OpsOk
      [(.connect ⟨0, "a", true, false, 10, none⟩, []), (.push 0 (.subscribe 1 (some 5) [⟨"t", 1⟩]), []),
       (.push 0 .pingreq, [])] ∧
    (Router.getLink s 0).ibuf.length = 2 :=
  ⟨_, by rw [Router.run_eq_runX]; rfl, by decide, by decide⟩

end C20
