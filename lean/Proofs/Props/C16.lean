/-
C16 — Last will is published exactly when a connection ends without DISCONNECT.
Router part: `last_wills` bookkeeping and `handle_last_will`. (When the server emits
`PublishWill` — on every connection end that did not see a DISCONNECT packet — belongs to the
stack slice.)
-/
import Proofs.Lemmas.Router.Frame
namespace C16
open Router

/-- a client without a registered will never causes one: `PublishWill` is a no-op -/
theorem no_will_without_registration (s : RState) (cid : String) (h : alookup cid s.lastWills = none) :
    handleLastWill s cid = .ok s := by
  simp [handleLastWill, h]

/-- a DISCONNECT packet removes the client's will, so a later `PublishWill` publishes nothing -/
theorem disconnect_packet_removes_will (s : RState) (id : Nat) (cid : String) (fl : Flags) :
    ∃ s' fl', handlePacket s id cid .disconnect fl = .ok (s', fl') ∧
      alookup cid s'.lastWills = none ∧ fl'.disconnect = true := by
  refine ⟨_, _, rfl, ?_, rfl⟩
  simp [RState.g, alookup_aremove_same]

/-- firing the will consumes it: whatever the outcome, the will is gone afterwards, hence it is
    published at most once -/
theorem will_fires_at_most_once (s s' : RState) (cid : String) (h : handleLastWill s cid = .ok s') :
    alookup cid s'.lastWills = none := by
  unfold handleLastWill at h
  split at h
  · rename_i hn; simp only [Except.ok.injEq] at h; subst h; exact hn
  · simp only [] at h
    split at h
    · simp only [Except.ok.injEq] at h; subst h
      simp [RState.g, alookup_aremove_same]
    · split at h
      · simp at h
      · rename_i s1 idxs h1
        split at h
        · simp at h
        · rename_i s2 h2
          have a := dlMatches_lastWills h1
          have b := appendToFilters_lastWills idxs h2
          have c := drainNotifications_lastWills _ h
          rw [c]
          show alookup cid s2.lastWills = none
          rw [b.1, a.1]
          simp [updateRetained, RState.g, alookup_aremove_same]
          split <;> (try split) <;> simp [alookup_aremove_same]

end C16
