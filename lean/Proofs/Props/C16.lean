/-
C16 — Last will is published exactly when a connection ends without DISCONNECT.
Router part: `last_wills` bookkeeping and `handle_last_will`. (When the server emits
`PublishWill` — on every connection end that did not see a DISCONNECT packet — belongs to the
stack slice.)

Vocabulary (definitions in Proofs/Lemmas/Router/Rp2_*.lean): `registeredEvents evs` / `willSetEvents evs` /
`acceptedEvents evs` / `appendedEvents evs` are the projections of a piece of ghost history to its
`registered` / `willSet` / `accepted` / `appended` events; `willPub w` is the publish a stored will
turns into (QoS, topic, payload, retain flag as registered; packet id 0); `logAt s i` is the log of
filter `i`; `appendN p n` appends `n` copies of `p`; `firedCount cid g` / `setCount cid g` count the
`willFired cid` / `willSet cid` events of `g`; `stored lw cid` is 1 if `lw` holds a will for `cid`, else 0;
`run2` / `Reachable2 cfg s`: fold of `step` over (operation, oracle choices) pairs from `init cfg`.
-/
import Proofs.Props.C16srv
import Proofs.Lemmas.Router.Rp2_Will
import Proofs.Lemmas.Router.Rp2_Examples
import Proofs.Lemmas.Router.Rp2_Reach
import Proofs.Props.C01
namespace C16
open Router

/-! ### registration -/

/-- `will_stored_iff_registered`: a CONNECT either is rejected (invalid client id, or the broker is
    full: a `notRegistered` event, no `registered` event) and then `last_wills` is untouched, or is
    admitted (exactly one `registered` event, for this client on this link) and then the will is
    stored under the client id iff the CONNECT carries one (`willSet` event iff so); an admitted
    CONNECT without a will stores nothing -/
theorem will_stored_iff_registered (s s' : RState) (spec : ConnectSpec)
    (h : handleNewConnection s spec = .ok s') :
    ∃ evs, s'.ghost = s.ghost ++ evs ∧
      ((registeredEvents evs = [] ∧ willSetEvents evs = [] ∧ Ghost.notRegistered spec.link ∈ evs ∧
          s'.lastWills = s.lastWills) ∨
       ((∃ id, registeredEvents evs = [(id, spec.link, spec.clientId)]) ∧
          willSetEvents evs = (if spec.will.isSome then [spec.clientId] else []) ∧
          s'.lastWills = (match spec.will with
            | some w => ainsert spec.clientId w s.lastWills
            | none => s.lastWills) ∧
          (∀ w, spec.will = some w → alookup spec.clientId s'.lastWills = some w))) := by
  obtain ⟨evs, hg, hcase⟩ := handleNewConnection_will h
  refine ⟨evs, hg, ?_⟩
  rcases hcase with a | ⟨a, b, c⟩
  · exact .inl a
  · refine .inr ⟨a, b, c, ?_⟩
    intro w hw
    rw [c, hw]
    exact alookup_ainsert_same _ _ _

/-- a client without a registered will never causes one: `PublishWill` is a no-op -/
theorem no_will_without_registration (s : RState) (cid : String) (h : alookup cid s.lastWills = none) :
    handleLastWill s cid = .ok s := by
  simp [handleLastWill, h]

/-! ### DISCONNECT -/

/-- a DISCONNECT packet removes the client's will, so a later `PublishWill` publishes nothing -/
theorem disconnect_packet_removes_will (s : RState) (id : Nat) (cid : String) (fl : Flags) :
    ∃ s' fl', handlePacket s id cid .disconnect fl = .ok (s', fl') ∧
      alookup cid s'.lastWills = none ∧ fl'.disconnect = true := by
  refine ⟨_, _, rfl, ?_, rfl⟩
  simp [RState.g, alookup_aremove_same]

/-- `no_will_after_disconnect_packet`, packet level: DISCONNECT followed by `PublishWill` for that
    client changes nothing at all — no `accepted` event, logs and retained map untouched -/
theorem no_will_after_disconnect_packet (s s1 : RState) (id : Nat) (cid : String) (fl fl1 : Flags)
    (h : handlePacket s id cid .disconnect fl = .ok (s1, fl1)) :
    handleLastWill s1 cid = .ok s1 ∧ s1.datalog = s.datalog ∧
    s1.ghost = s.ghost ++ [.willCleared cid] := by
  simp only [handlePacket, Except.ok.injEq, Prod.mk.injEq] at h
  obtain ⟨rfl, _⟩ := h
  refine ⟨?_, rfl, rfl⟩
  apply no_will_without_registration
  simp [RState.g, alookup_aremove_same]

/-- the same for a whole `DeviceData` event: if the batch read from the connection reaches a
    DISCONNECT packet (the packets before it do not stop the batch), then after the event — which
    also closes the connection — the client has no will, and `PublishWill` is a no-op -/
theorem no_will_after_disconnect_in_batch (s s' s1 : RState) (id : Nat) (c : Conn) (fl1 : Flags)
    (pre post : List Packet) (hc : getConn s id = some c)
    (hib : (getLink s c.link).ibuf = pre ++ Packet.disconnect :: post)
    (hpre : handlePackets (setLink s c.link { getLink s c.link with ibuf := [] }) id c.clientId pre {} = .ok (s1, fl1))
    (hns : fl1.stop = false) (h : handleDevicePayload s id = .ok s') :
    alookup c.clientId s'.lastWills = none ∧ handleLastWill s' c.clientId = .ok s' := by
  have := handleDevicePayload_disconnect_clears_will hc hib hpre hns h
  exact ⟨this, no_will_without_registration s' c.clientId this⟩

/-! ### publication -/

/-- firing the will consumes it: whatever the outcome, the will is gone afterwards, hence it is
    published at most once -/
theorem will_fires_at_most_once (s s' : RState) (cid : String) (h : handleLastWill s cid = .ok s') :
    alookup cid s'.lastWills = none := by
  cases hw : alookup cid s.lastWills with
  | none =>
    rw [no_will_without_registration s cid hw] at h
    simp only [Except.ok.injEq] at h; subst h; exact hw
  | some w =>
    cases ht : utf8? w.topic with
    | none => exact (handleLastWill_invalid_topic hw ht h).1
    | some topic => exact (handleLastWill_fires hw ht h).1

/-- `will_published_exactly_once`: `PublishWill` for a client with a stored will (valid topic):
    the history gains one `willFired` and exactly one `accepted` event — the will with QoS, topic,
    payload and retain flag as registered —, the retained map is updated with it exactly as for a
    client publish (C15), an unflagged copy is appended to the log of filter `j` as many times as
    `j` occurs in the index list `matches` returned — which, for a topic not yet cached, is the
    multiplicity of `j` among the filters matching the topic (C01): exactly the matching filters —
    and the will is removed, so a second `PublishWill` is a no-op -/
theorem will_published_exactly_once (s s' : RState) (cid : String) (w : Will) (topic : String)
    (hw : alookup cid s.lastWills = some w) (ht : utf8? w.topic = some topic)
    (h : handleLastWill s cid = .ok s') :
    ∃ (idxs : List Nat) (evs : List Ghost),
      s'.ghost = s.ghost ++ [.willFired cid, .accepted none (willPub w) topic] ++ evs ∧
      acceptedEvents evs = [] ∧
      appendedEvents evs = idxs.map (fun i => (i, { willPub w with retain := false })) ∧
      (∀ j, logAt s' j = (logAt s j).map (appendN { willPub w with retain := false } (idxs.count j))) ∧
      (alookup topic s.datalog.publishFilters = none →
        (∀ j, idxs.count j = ((s.datalog.filterIndexes.filter (fun p => topicMatches topic p.1)).map (·.2)).count j) ∧
        (∀ j, j ∈ idxs ↔ j ∈ (s.datalog.filterIndexes.filter (fun p => topicMatches topic p.1)).map (·.2))) ∧
      s'.datalog.retained = (updateRetained s topic (willPub w)).datalog.retained ∧
      alookup cid s'.lastWills = none ∧ handleLastWill s' cid = .ok s' := by
  obtain ⟨hgone, s0, s1, idxs, evs, hd, ho, hm, hg, ha, hc, hr, hl⟩ := handleLastWill_fires hw ht h
  refine ⟨idxs, evs, hg, hc, ha, hl, ?_, hr, hgone, no_will_without_registration s' cid hgone⟩
  intro hcache
  -- the state `matches` runs on has the datalog indexes of `s`
  have u := updateRetained_same s0 topic (willPub w)
  have hpf : ((updateRetained s0 topic (willPub w)).g (.accepted none (willPub w) topic)).datalog.publishFilters =
      s.datalog.publishFilters := by
    show (updateRetained s0 topic (willPub w)).datalog.publishFilters = _
    rw [u.2.2.2.1, hd]
  have hfi : ((updateRetained s0 topic (willPub w)).g (.accepted none (willPub w) topic)).datalog.filterIndexes =
      s.datalog.filterIndexes := by
    show (updateRetained s0 topic (willPub w)).datalog.filterIndexes = _
    rw [u.2.2.1, hd]
  have hcache' : alookup topic ((updateRetained s0 topic (willPub w)).g
      (.accepted none (willPub w) topic)).datalog.publishFilters = none := by rw [hpf]; exact hcache
  constructor
  · intro j
    have := dlMatches_count hcache' hm j
    rw [hfi] at this
    exact this
  · intro j
    have := C01.publish_goes_to_exactly_the_matching_filters _ _ topic idxs hcache' hm j
    rw [hfi] at this
    exact this

/-- a stored will whose topic is not valid UTF-8 is dropped: removed, nothing published -/
theorem will_with_invalid_topic_is_dropped (s s' : RState) (cid : String) (w : Will)
    (hw : alookup cid s.lastWills = some w) (ht : utf8? w.topic = none)
    (h : handleLastWill s cid = .ok s') :
    alookup cid s'.lastWills = none ∧ s'.datalog = s.datalog ∧ s'.ghost = s.ghost ++ [.willFired cid] :=
  handleLastWill_invalid_topic hw ht h

/-! ### every history -/

/-- in every reachable state of the router model and for every client: (will publications so far)
    + (1 if a will is currently stored) ≤ (CONNECTs that registered a will): a registered will is
    published at most once, and a stored will always stems from a registration not yet consumed -/
theorem will_fired_at_most_once_per_registration (cfg : Config) (s : RState) (h : Reachable2 cfg s)
    (cid : String) : firedCount cid s.ghost + stored s.lastWills cid ≤ setCount cid s.ghost :=
  (reachable_histInv h).wills cid

/-- in particular a client that never registered a will never has one published, in any history -/
theorem never_a_will_without_registration (cfg : Config) (s : RState) (h : Reachable2 cfg s) (cid : String)
    (hnone : setCount cid s.ghost = 0) : firedCount cid s.ghost = 0 ∧ alookup cid s.lastWills = none := by
  have := (reachable_histInv h).wills cid
  rw [hnone] at this
  refine ⟨by omega, ?_⟩
  have hs : stored s.lastWills cid = 0 := by omega
  unfold stored at hs
  cases hl : alookup cid s.lastWills with
  | none => rfl
  | some w => simp [hl] at hs

/-! ### non-vacuity -/

/-- a CONNECT with a will on an empty broker is admitted and stores it; `PublishWill` then fires
    it once (one `accepted` event) and a second `PublishWill` finds nothing -/
example : ∃ s1 s2, handleNewConnection (init exConfig) exSpecWill = .ok s1 ∧
    alookup "w" s1.lastWills = some exWill ∧
    handleLastWill { s1 with oracle := [.matches []] } "w" = .ok s2 ∧
    (acceptedEvents s2.ghost).length = 1 ∧ alookup "w" s2.lastWills = none ∧
    handleLastWill s2 "w" = .ok s2 :=
  ⟨_, _, rfl, rfl, rfl, rfl, rfl, rfl⟩

/-- DISCONNECT, then `PublishWill`: nothing is accepted -/
example : ∃ s1 s2 fl, handleNewConnection (init exConfig) exSpecWill = .ok s1 ∧
    handlePacket s1 0 "w" .disconnect {} = .ok (s2, fl) ∧ handleLastWill s2 "w" = .ok s2 ∧
    acceptedEvents s2.ghost = [] :=
  ⟨_, _, _, rfl, rfl, rfl, rfl⟩

/-- a reachable state in which the will of "w" has been registered once and fired once -/
example : ∃ s, Reachable2 exConfig s ∧ setCount "w" s.ghost = 1 ∧ firedCount "w" s.ghost = 1 ∧
    alookup "w" s.lastWills = none :=
  ⟨_, ⟨[(.connect exSpecWill, []), (.event 0 (.publishWill "w"), [.matches []])], rfl⟩, rfl, rfl, rfl⟩

end C16

namespace C16

theorem will_event_emitted_exactly_when : type_of% @C16srv.will_event_emitted_exactly_when := @C16srv.will_event_emitted_exactly_when
theorem resolution_only_after_link_end : type_of% @C16srv.resolution_only_after_link_end := @C16srv.resolution_only_after_link_end
theorem disconnect_event_emitted_exactly_when : type_of% @C16srv.disconnect_event_emitted_exactly_when := @C16srv.disconnect_event_emitted_exactly_when
theorem signalled_only_by_reconnect : type_of% @C16srv.signalled_only_by_reconnect := @C16srv.signalled_only_by_reconnect
theorem will_delay_spec : type_of% @C16srv.will_delay_spec := @C16srv.will_delay_spec
theorem timeout_exactly_at_deadline : type_of% @C16srv.timeout_exactly_at_deadline := @C16srv.timeout_exactly_at_deadline
theorem every_ended_link_resolves_properly : type_of% @C16srv.every_ended_link_resolves_properly := @C16srv.every_ended_link_resolves_properly
theorem refused_link_leaves_no_handler : type_of% @C16srv.refused_link_leaves_no_handler := @C16srv.refused_link_leaves_no_handler
theorem stale_handler_is_harmless : type_of% @C16srv.stale_handler_is_harmless := @C16srv.stale_handler_is_harmless

end C16
