/-
C04 — Codecs round-trip and interoperate.
"For every well-formed MQTT 3.1.1 or MQTT 5 packet value, encoding and then decoding yields an
equal packet, consumes exactly the bytes produced, and the size the packet reports equals the
number of bytes written. Bytes produced by the client library's encoder decode in the broker to
the same packet content, and bytes produced by the broker decode in the client to the same
content, for both protocol versions."

Property theorems only (helper lemmas: Proofs/Lemmas/Codec/*.lean). Models: Model/Codec/V4.lean
(MQTT 3.1.1, copy parameter `k`), Model/Codec/V5.lean (MQTT 5). `decode k max (out ++ r)` is the
model of `Packet::read` / `Protocol::read_mut` on a stream that starts with the produced bytes and
continues with arbitrary bytes `r`; returning `.packet p r` says: equal packet, exactly the
produced bytes consumed.

Strings are byte lists; `validUtf8` (Model/Codec/Wire.lean) is the acceptance predicate of
`String::from_utf8`, used by the theorems only through the hypothesis inside `wf`.

WELL-FORMEDNESS `V4.wf k p` — every exclusion and why (k = copy):
 * a length-prefixed field longer than 65535 bytes: `write_mqtt_bytes` casts the length `as u16`
   (silent truncation) — not a value of the protocol;
 * a `String` field that is not UTF-8: cannot exist in Rust; for the broker's `Bytes`-typed
   PUBLISH topic / will topic no UTF-8 demand is made (k = broker), it is made for k = client;
 * keep-alive, packet ids ≥ 65536: not values of `u16`;
 * PUBLISH with `qos = 0 ∧ pkid ≠ 0`: the id is not on the wire, reads back as 0 (second
   representation of the same wire value); with `qos > 0 ∧ pkid = 0`: `write` answers
   `Err(PacketIdZero)`;
 * remaining length > 268 435 455: `write` answers `Err(PayloadTooLong)` (theorem
   `v4_encode_rejects_oversize`);
 * SUBSCRIBE / SUBACK with an empty list: the readers answer `EmptySubscription` / `MalformedPacket`;
 * `Login` with both strings empty: written as "no login", reads back as `None`;
 * values that are not MQTT 3.1.1 values but fit the broker's shared v4/v5 enum: any properties
   (`V4::write` → `unreachable!()`, except ConnAck whose properties are dropped), ack reason ≠
   Success, UnsubAck reasons, Disconnect reason ≠ NormalDisconnection (not written), v5 filter
   options (not written), return codes outside the six v3 codes (`connect_code` →
   `unreachable!()`), SubAck codes other than `Success(q)` / `Failure` (`QoS0..2` read back as
   `Success(q)`, the v5 codes are written as bytes no v4 reader accepts);
 * CONNECT protocol level: client {4, 5} (its `Protocol` enum), broker 4.

WELL-FORMEDNESS, MQTT 5: `V5.wf k p`, one predicate, used as the precondition of the theorems and
(the same function, evaluated by the driver) of the monitor of the correspondence run. Exclusions:
 * field widths / UTF-8 / publish id rule / non-empty SUBSCRIBE, SUBACK, UNSUBACK lists /
   `Login` with both strings empty / remaining length ≤ 268 435 455: as for 3.1.1;
 * a properties struct with every field empty (`Some(default)`): written as length 0, read back
   as `None` (for DISCONNECT: `e0 02 <reason> 00`, read back as (reason, None)); a property value
   out of the range of its wire type; a subscription identifier > 268 435 455
   (`write_remaining_length` fails); properties not in the struct (not representable);
 * CONNACK codes `RefusedProtocolVersion`, `BadClientId`, `ServiceUnavailable` (3.1.1 codes that
   exist in the v5 enums; `connect_code` → `unreachable!()`);
 * SUBACK codes that are a second name of a wire value: `Failure` (written 0x80 = `Unspecified`),
   broker `Success(q)` (reads back as `QoS0/1/2`); the client enum has no `QoS0/1/2`;
 * CONNECT level ≠ 5; broker CONNECT with will properties but no will (dropped);
 * the `Auth` packet of the client (written only, `Packet::read` has no arm) is not modelled.
History: until commits c0aab5e, a5a3ef5, c89564d+95ce8d5, 86cba48 of /repo the v5 statements were
`_partial` (broker could not read CONNACK/UNSUBACK; subscription identifiers were counted twice by
the property readers; DISCONNECT with a reason and no properties was mis-sized; the client could
not read `e0 00`). The code was repaired, the model follows it, the statements are now full; the
concrete inputs of the former counter-examples are kept as `v5_regression_*`.
-/
import Proofs.Lemmas.Codec.V4
import Proofs.Lemmas.Codec.V5
import Generated.Consts
import Generated.Tables
import Model.Codec.Names
namespace C04
open Codec

/-! ## MQTT 3.1.1 -/

/-- C04 (1)+(2), v4, both copies (`k`): a well-formed packet is encoded successfully; decoding the
    produced bytes followed by anything returns the same packet and exactly the rest; the number
    of bytes produced equals the value `write` returns and `1 + len_len(len) + len`. -/
theorem v4_roundtrip (k : Copy) (p : Packet) (h : V4.wf k p = true) :
    ∃ out, V4.encode k p = .ok out ∧ V4.writeReturn k p = .ok out.length ∧
      ∀ max r, out.length ≤ max → V4.decode k max (out ++ r) = .packet p r := by
  obtain ⟨e, he⟩ := V4.parts_ok k p h
  obtain ⟨out, h1, h2, h3, _⟩ :=
    V4.decode_encode_of_parts k p e e.len [] he.enc he.len he.lim (Nat.le_refl _) he.byte (he.dec [])
  refine ⟨out, h1, h3, ?_⟩
  intro max r hmax
  obtain ⟨out', h1', _, _, h4'⟩ :=
    V4.decode_encode_of_parts k p e max r he.enc he.len he.lim
      (by rw [h2] at hmax; simp [sizeOfLen] at hmax; omega) he.byte (he.dec r)
  rw [h1] at h1'; cases h1'; exact h4'

/-- C04 (2), v4: the size the client's `Packet::size()` reports (and the same formula for the
    broker, which has no `size()`) equals the number of bytes written. -/
theorem v4_size (k : Copy) (p : Packet) (h : V4.wf k p = true) (out : Bytes)
    (henc : V4.encode k p = .ok out) : out.length = V4.size k p := by
  obtain ⟨e, he⟩ := V4.parts_ok k p h
  obtain ⟨out', h1, h2, _, _⟩ :=
    V4.decode_encode_of_parts k p e e.len [] he.enc he.len he.lim (Nat.le_refl _) he.byte (he.dec [])
  rw [henc] at h1; cases h1
  rw [h2, V4.size_eq k p e h he.enc]

/-- C04 (3), v4, client → broker: bytes written by the client decode in the broker to the same
    content (`toBroker` = identity except the name of return code 2). -/
theorem v4_interop_client_to_broker (p : Packet) (hc : V4.wf .client p = true)
    (hb : V4.wf .broker (V4.toBroker p) = true) :
    ∃ out, V4.encode .client p = .ok out ∧
      ∀ max r, out.length ≤ max → V4.decode .broker max (out ++ r) = .packet (V4.toBroker p) r := by
  obtain ⟨out, h1, _, h3⟩ := v4_roundtrip .broker (V4.toBroker p) hb
  refine ⟨out, ?_, h3⟩
  simp only [V4.encode, V4.encParts_copy p hc hb] at h1 ⊢
  exact h1

/-- C04 (3), v4, broker → client. -/
theorem v4_interop_broker_to_client (q : Packet) (hb : V4.wf .broker q = true)
    (hc : V4.wf .client (V4.toClient q) = true) :
    ∃ out, V4.encode .broker q = .ok out ∧
      ∀ max r, out.length ≤ max → V4.decode .client max (out ++ r) = .packet (V4.toClient q) r := by
  obtain ⟨out, h1, _, h3⟩ := v4_roundtrip .client (V4.toClient q) hc
  refine ⟨out, ?_, h3⟩
  have hq : V4.toBroker (V4.toClient q) = q := V4.toBroker_toClient q hb
  have := V4.encParts_copy (V4.toClient q) hc (by rw [hq]; exact hb)
  rw [hq] at this
  simp only [V4.encode, this] at h1 ⊢
  exact h1

/-- every packet well-formed for the client, other than a CONNECT announcing level 5, is
    well-formed for the broker (so the hypothesis `hb` above is not an extra restriction) -/
theorem v4_wf_client_broker (p : Packet) (hc : V4.wf .client p = true)
    (hl : ∀ ka id cl pr w l, p ≠ .connect 5 ka id cl pr w l) :
    V4.wf .broker (V4.toBroker p) = true := by
  cases p
  case connack sp code props =>
    simp only [V4.wf, Bool.and_eq_true] at hc
    cases code <;> simp [V4.connCodeByte] at hc <;> simp [V4.toBroker, V4.wf, V4.connCodeByte, hc]
  case connect level ka id cl pr w l =>
    simp only [V4.toBroker, V4.wf, Bool.and_eq_true, decide_eq_true_eq] at hc ⊢
    obtain ⟨⟨⟨⟨⟨h1, h2⟩, h3⟩, h4⟩, h5⟩, h6⟩ := hc
    refine ⟨⟨⟨⟨⟨?_, h2⟩, h3⟩, h4⟩, ?_⟩, h6⟩
    · simp [V4.levelOk] at h1 ⊢
      rcases h1 with h | h
      · exact h
      · subst h; exact absurd rfl (hl _ _ _ _ _ _)
    · cases w with
      | none => rfl
      | some w =>
        simp only [V4.optAll, V4.willOk, Bool.and_eq_true] at h5 ⊢
        refine ⟨⟨?_, h5.1.2⟩, h5.2⟩
        have := h5.1.1
        simp [V4.strOk] at this ⊢; exact this.1
  case publish dup qos retain topic pkid payload props =>
    simp only [V4.toBroker, V4.wf, Bool.and_eq_true, decide_eq_true_eq] at hc ⊢
    obtain ⟨⟨⟨⟨h1, h2⟩, h3⟩, h4⟩, h5⟩ := hc
    refine ⟨⟨⟨⟨h1, h2⟩, h3⟩, ?_⟩, ?_⟩
    · simp [V4.strOk] at h4 ⊢; exact h4.1
    · rw [← V4.publishLen_copy qos topic pkid payload h3]; exact h5
  all_goals exact hc

/-- C04 (4), v4: a packet whose remaining length exceeds 268 435 455 is refused by the encoder
    (no bytes are reported as a packet). -/
theorem v4_encode_rejects_oversize (k : Copy) (p : Packet) (e : V4.Enc)
    (he : V4.encParts k p = .ok e) (h : e.len > remainingLimit) :
    V4.encode k p = .error .malformed := by
  simp [V4.encode, he, frame_err _ _ _ h]

/-- C04 (4): the variable-byte integer round-trips for every length up to the limit and occupies
    exactly `len_len` bytes — which covers the 127/128, 16383/16384, 2097151/2097152 boundaries. -/
theorem varint_roundtrip (n : Nat) (r : Bytes) (h : n ≤ remainingLimit) :
    encVarint n = .ok (encVarintLoop n) ∧ (encVarintLoop n).length = lenLen n ∧
      decVarint (encVarintLoop n ++ r) = .ok (n, lenLen n, r) :=
  ⟨encVarint_ok n h, encVarintLoop_length n h, decVarint_enc n r h⟩

theorem varint_widths :
    lenLen 127 = 1 ∧ lenLen 128 = 2 ∧ lenLen 16383 = 2 ∧ lenLen 16384 = 3 ∧
    lenLen 2097151 = 3 ∧ lenLen 2097152 = 4 ∧ lenLen remainingLimit = 4 := by decide

/-- the constants the model uses are the ones in the four source files (regenerated from /repo
    by tools/extract.py on every run) -/
theorem constants_match_source :
    remainingLimit = Generated.REMAINING_LIMIT_C4 ∧ remainingLimit = Generated.REMAINING_LIMIT_C5 ∧
    remainingLimit = Generated.REMAINING_LIMIT_B4 ∧ remainingLimit = Generated.REMAINING_LIMIT_B5 ∧
    Generated.LEN_LEN_THRESHOLDS_C4 = [128, 16384, 2097152] ∧
    Generated.LEN_LEN_THRESHOLDS_C5 = [128, 16384, 2097152] ∧
    Generated.LEN_LEN_THRESHOLDS_B4 = [128, 16384, 2097152] ∧
    Generated.LEN_LEN_THRESHOLDS_B5 = [128, 16384, 2097152] := by decide

/-! non-vacuity: concrete well-formed packets of both copies -/
example : V4.wf .client (.publish true .q2 true [97, 47, 98] 65535 [1, 2, 3] none) = true := by decide
example : V4.wf .broker (.publish false .q0 false [0xff] 0 [] none) = true := by decide
example : V4.wf .client (.connect 4 10 [99] true none
    (some ⟨[116], [109], .q1, true, none⟩) (some ⟨[117], []⟩)) = true := by decide
example : V4.wf .broker (.suback 7 none [.Success .q2, .Failure]) = true := by decide
example : V4.wf .client (.subscribe 1 none [⟨[35], .q1, false, false, .OnEverySubscribe⟩]) = true := by
  decide


/-! ## MQTT 5 -/

/-- C04 (1)+(2), v5, both copies, all 14 packet types with every property: a well-formed packet
    is encoded successfully; the value `write` returns and the value `size()` reports both equal
    the number of bytes produced; decoding the produced bytes followed by anything returns the
    same packet and exactly the rest. -/
theorem v5_roundtrip (k : Copy) (p : Packet) (h : V5.wf k p = true) :
    ∃ out, V5.encode k p = .ok out ∧ V5.writeReturn k p = .ok out.length ∧
      out.length = V5.size k p ∧
      ∀ max r, out.length ≤ max → V5.decode k max (out ++ r) = .packet p r :=
  V5.roundTrips k p h

/-- C04 (3), v5, client → broker. `toBroker` renames the granted-QoS SubAck codes
    `Success(q)` ↦ `QoS0/1/2` and is the identity otherwise. -/
theorem v5_interop_client_to_broker (p : Packet) (hc : V5.wf .client p = true)
    (hb : V5.wf .broker (V5.toBroker p) = true) :
    ∃ out, V5.encode .client p = .ok out ∧
      ∀ max r, out.length ≤ max → V5.decode .broker max (out ++ r) = .packet (V5.toBroker p) r := by
  obtain ⟨out, h1, _, _, h4⟩ := V5.roundTrips .broker (V5.toBroker p) hb
  refine ⟨out, ?_, h4⟩
  simp only [V5.encode, V5.encodeRet_toBroker p hc] at h1 ⊢
  exact h1

/-- C04 (3), v5, broker → client. -/
theorem v5_interop_broker_to_client (q : Packet) (hb : V5.wf .broker q = true)
    (hc : V5.wf .client (V5.toClient q) = true) :
    ∃ out, V5.encode .broker q = .ok out ∧
      ∀ max r, out.length ≤ max → V5.decode .client max (out ++ r) = .packet (V5.toClient q) r := by
  obtain ⟨out, h1, _, _, h4⟩ := V5.roundTrips .client (V5.toClient q) hc
  refine ⟨out, ?_, h4⟩
  simp only [V5.encode, V5.encodeRet_toClient q hb] at h1 ⊢
  exact h1

/-- every packet well-formed for the client is, after the renaming, well-formed for the broker
    and conversely (the second hypothesis of the interop theorems is no extra restriction) -/
theorem v5_wf_client_broker (p : Packet) :
    (V5.wf .client p = true → V5.wf .broker (V5.toBroker p) = true) ∧
    (V5.wf .broker p = true → V5.wf .client (V5.toClient p) = true) :=
  ⟨V5.wf_toBroker p, V5.wf_toClient p⟩

/-- C04 (4), v5: remaining length above the limit is refused. -/
theorem v5_encode_rejects_oversize (k : Copy) (p : Packet) (e : V4.Enc)
    (hnd : ∀ r pr, p ≠ .disconnect r pr) (he : V5.encParts k p = .ok e)
    (h : e.len > remainingLimit) : V5.encode k p = .error .malformed := by
  have := V5.encodeRet_parts k p hnd
  simp only [he, encVarint_err _ h] at this
  simp [V5.encode, this]

/-! ### the inputs of the former counter-examples (repaired defects, see KNOWN_FINDINGS `fixed:`) -/

/-- a5a3ef5: PUBLISH with three subscription identifiers (topic "a", ids [1,2,3], payload ff)
    is well-formed, is written as these 13 bytes and read back unchanged by both copies. -/
theorem v5_regression_three_subscription_ids :
    let p := Packet.publish false .q0 false [97] 0 [0xff]
      (some [⟨11, .var 1⟩, ⟨11, .var 2⟩, ⟨11, .var 3⟩])
    let bytes : Bytes := [0x30, 0x0b, 0x00, 0x01, 0x61, 0x06, 0x0b, 0x01, 0x0b, 0x02, 0x0b, 0x03, 0xff]
    V5.wf .client p = true ∧ V5.wf .broker p = true ∧
    V5.encode .client p = .ok bytes ∧ V5.encode .broker p = .ok bytes ∧
    (∀ k, V5.decode k 100 bytes = .packet p []) := by
  refine ⟨by decide, by decide, ?_, ?_, ?_⟩
  · simp [V5.encode, V5.encodeRet, V5.encParts, V5.encPublish, V5.encProps, V5.propListLen,
      V5.pvalLen, V5.varsFit, V5.publishLen, V5.propsLen, V5.encPropList, V5.encProperty, V5.encPVal,
      encVarint, encVarintLoop_lt128, lenLen, remainingLimit, V4.publishByte1, boolBit, QoS.toNat,
      encBytes16, encU16, u8]
  · simp [V5.encode, V5.encodeRet, V5.encParts, V5.encPublish, V5.encProps, V5.propListLen,
      V5.pvalLen, V5.varsFit, V5.publishLen, V5.propsLen, V5.encPropList, V5.encProperty, V5.encPVal,
      encVarint, encVarintLoop_lt128, lenLen, remainingLimit, V4.publishByte1, boolBit, QoS.toNat,
      encBytes16, encU16, u8]
  · intro k; cases k <;> decide

/-- c89564d + 95ce8d5: DISCONNECT with a reason and no properties is `e0 02 89 00`; returned count
    and `size()` are 4; both copies read it back. 86cba48: the plain `e0 00` is read by both. -/
theorem v5_regression_disconnect (k : Copy) :
    V5.wf k (.disconnect .ServerBusy none) = true ∧
    V5.encodeRet k (.disconnect .ServerBusy none) = .ok ([0xE0, 0x02, 0x89, 0x00], 4) ∧
    V5.size k (.disconnect .ServerBusy none) = 4 ∧
    (∀ k', V5.decode k' 100 [0xE0, 0x02, 0x89, 0x00] = .packet (.disconnect .ServerBusy none) []) ∧
    V5.encodeRet k (.disconnect .NormalDisconnection none) = .ok ([0xE0, 0x00], 2) ∧
    (∀ k', V5.decode k' 100 [0xE0, 0x00] = .packet (.disconnect .NormalDisconnection none) []) := by
  refine ⟨by cases k <;> decide, ?_, by cases k <;> decide, by intro k'; cases k' <;> decide, ?_,
    by intro k'; cases k' <;> decide⟩
  · simp [V5.encodeRet, V5.encDisconnect, V5.disconnectLen, V5.disconnectPlain, encVarint,
      encVarintLoop_lt128, remainingLimit, V5.encProps, V5.discReasonByte, u8]
  · simp [V5.encodeRet, V5.encDisconnect, V5.disconnectLen, V5.disconnectPlain, u8]

/-- c0aab5e: the broker reads the CONNACK and UNSUBACK it writes -/
theorem v5_regression_broker_reads_connack_and_unsuback :
    V5.decode .broker 100 [0x20, 0x03, 0x00, 0x00, 0x00] = .packet (.connack false .Success none) [] ∧
    V5.decode .broker 100 [0xB0, 0x04, 0x00, 0x01, 0x00, 0x00]
      = .packet (.unsuback 1 none [.Success]) [] := by
  decide

/-- DEV kept visible: a zero-length DISCONNECT with non-zero flag bits (`e1 00`, reachable from raw
    bytes only) is refused by the client and read as NormalDisconnection by the broker -/
theorem v5_empty_disconnect_flags_deviation :
    V5.decode .client 100 [0xE1, 0x00] = .error .malformed ∧
    V5.decode .broker 100 [0xE1, 0x00] = .packet (.disconnect .NormalDisconnection none) [] := by
  decide

/-! non-vacuity for MQTT 5 -/
example : V5.wf .client (.publish true .q1 false [97, 47, 98] 7 [1, 2]
    (some [⟨1, .u8 1⟩, ⟨2, .u32 60⟩, ⟨35, .u16 9⟩, ⟨8, .str [114]⟩, ⟨9, .bin [0xff]⟩,
           ⟨38, .pair [107] [118]⟩, ⟨11, .var 268435455⟩, ⟨11, .var 1⟩, ⟨11, .var 7⟩,
           ⟨11, .var 128⟩, ⟨3, .str [116]⟩])) = true := by
  decide
example : V5.wf .broker (.subscribe 1 (some [⟨11, .var 5⟩, ⟨38, .pair [107] [118]⟩])
    [⟨[35], .q2, true, true, .Never⟩, ⟨[97], .q0, false, false, .OnEverySubscribe⟩]) = true := by decide
example : V5.wf .broker (.suback 9 none [.QoS1, .NotAuthorized]) = true ∧
    V5.wf .client (V5.toClient (.suback 9 none [.QoS1, .NotAuthorized])) = true := by decide
example : V5.wf .client (.connect 5 30 [99] true (some [⟨17, .u32 0⟩, ⟨38, .pair [] []⟩])
    (some ⟨[116], [109], .q2, true, some [⟨24, .u32 5⟩]⟩) (some ⟨[], [112]⟩)) = true := by decide
example : V5.wf .broker (.connack true .Banned (some [⟨36, .u8 1⟩, ⟨22, .bin [1]⟩])) = true := by decide
example : V5.wf .broker (.unsuback 3 (some [⟨31, .str [120]⟩]) [.Success, .NotAuthorized]) = true := by
  decide
example : V5.wf .client (.disconnect .ServerBusy (some [⟨31, .str [120]⟩])) = true := by decide
example : V5.wf .client (.disconnect .ServerBusy none) = true ∧
    V5.wf .client (.disconnect .NormalDisconnection none) = true := by decide

/-! ## C04 (5): code tables, machine-checked against the code
`Generated.Tables.*` is produced on every run by executing the real readers on all 256 byte values
and the real writers on every variant of the copy's enum (`vh tables`, harness/src/tables.rs;
`none` = `Err` for a reader, `unreachable!()` panic for a writer). The model's code functions —
for which the round-trip theorems above are proved — are these tables. -/

theorem table_qos :
    decTable QoS.name qosOfNat = Generated.Tables.qosDec_c4 ∧
    decTable QoS.name qosOfNat = Generated.Tables.qosDec_c5 ∧
    decTable QoS.name qosOfNat = Generated.Tables.qosDec_b := by decide +kernel

theorem table_connack_v4 :
    decTable ConnCode.name (V4.connCodeOfByte .client) = Generated.Tables.connackDec_c4 ∧
    decTable ConnCode.name (V4.connCodeOfByte .broker) = Generated.Tables.connackDec_b4 ∧
    encTable ConnCode.name connCodesC4 (V4.connCodeByte .client) = Generated.Tables.connackEnc_c4 ∧
    encTable ConnCode.name connCodesB (V4.connCodeByte .broker) = Generated.Tables.connackEnc_b4 := by
  decide +kernel

theorem table_connack_v5 :
    decTable ConnCode.name V5.connCodeOfByte = Generated.Tables.connackDec_c5 ∧
    decTable ConnCode.name V5.connCodeOfByte = Generated.Tables.connackDec_b5 ∧
    encTable ConnCode.name connCodesC5 V5.connCodeByte = Generated.Tables.connackEnc_c5 ∧
    encTable ConnCode.name connCodesB V5.connCodeByte = Generated.Tables.connackEnc_b5 := by
  decide +kernel

theorem table_suback_v4 :
    decTable SubCode.name V4.subCodeOfByte = Generated.Tables.subackDec_c4 ∧
    decTable SubCode.name V4.subCodeOfByte = Generated.Tables.subackDec_b4 ∧
    encTable SubCode.name subCodesC4 (V4.subCodeByte .client) = Generated.Tables.subackEnc_c4 ∧
    encTable SubCode.name subCodesB (V4.subCodeByte .broker) = Generated.Tables.subackEnc_b4 := by
  decide +kernel

theorem table_suback_v5 :
    decTable SubCode.name (V5.subCodeOfByte .client) = Generated.Tables.subackDec_c5 ∧
    decTable SubCode.name (V5.subCodeOfByte .broker) = Generated.Tables.subackDec_b5 ∧
    encTable SubCode.name subCodesC5 (V5.subCodeByte .client) = Generated.Tables.subackEnc_c5 ∧
    encTable SubCode.name subCodesB (V5.subCodeByte .broker) = Generated.Tables.subackEnc_b5 := by
  decide +kernel

theorem table_puback_pubrec_v5 :
    decTable AckReason.name V5.ackReasonOfByte = Generated.Tables.pubackDec_c5 ∧
    decTable AckReason.name V5.ackReasonOfByte = Generated.Tables.pubackDec_b5 ∧
    decTable AckReason.name V5.ackReasonOfByte = Generated.Tables.pubrecDec_c5 ∧
    decTable AckReason.name V5.ackReasonOfByte = Generated.Tables.pubrecDec_b5 ∧
    encTable AckReason.name allAckReasons (fun r => some (V5.ackReasonByte r)) = Generated.Tables.pubackEnc_c5 ∧
    encTable AckReason.name allAckReasons (fun r => some (V5.ackReasonByte r)) = Generated.Tables.pubackEnc_b5 ∧
    encTable AckReason.name allAckReasons (fun r => some (V5.ackReasonByte r)) = Generated.Tables.pubrecEnc_c5 ∧
    encTable AckReason.name allAckReasons (fun r => some (V5.ackReasonByte r)) = Generated.Tables.pubrecEnc_b5 := by
  decide +kernel

theorem table_pubrel_pubcomp_v5 :
    decTable RelReason.name V5.relReasonOfByte = Generated.Tables.pubrelDec_c5 ∧
    decTable RelReason.name V5.relReasonOfByte = Generated.Tables.pubrelDec_b5 ∧
    decTable RelReason.name V5.relReasonOfByte = Generated.Tables.pubcompDec_c5 ∧
    decTable RelReason.name V5.relReasonOfByte = Generated.Tables.pubcompDec_b5 ∧
    encTable RelReason.name allRelReasons (fun r => some (V5.relReasonByte r)) = Generated.Tables.pubrelEnc_c5 ∧
    encTable RelReason.name allRelReasons (fun r => some (V5.relReasonByte r)) = Generated.Tables.pubrelEnc_b5 ∧
    encTable RelReason.name allRelReasons (fun r => some (V5.relReasonByte r)) = Generated.Tables.pubcompEnc_c5 ∧
    encTable RelReason.name allRelReasons (fun r => some (V5.relReasonByte r)) = Generated.Tables.pubcompEnc_b5 := by
  decide +kernel

theorem table_unsuback_v5 :
    decTable UnsubReason.name V5.unsubReasonOfByte = Generated.Tables.unsubackDec_c5 ∧
    decTable UnsubReason.name V5.unsubReasonOfByte = Generated.Tables.unsubackDec_b5 ∧
    encTable UnsubReason.name allUnsubReasons (fun r => some (V5.unsubReasonByte r)) = Generated.Tables.unsubackEnc_c5 ∧
    encTable UnsubReason.name allUnsubReasons (fun r => some (V5.unsubReasonByte r)) = Generated.Tables.unsubackEnc_b5 := by
  decide +kernel

theorem table_disconnect_v5 :
    decTable DiscReason.name V5.discReasonOfByte = Generated.Tables.disconnectDec_c5 ∧
    decTable DiscReason.name V5.discReasonOfByte = Generated.Tables.disconnectDec_b5 ∧
    encTable DiscReason.name allDiscReasons (fun r => some (V5.discReasonByte r)) = Generated.Tables.disconnectEnc_c5 ∧
    encTable DiscReason.name allDiscReasons (fun r => some (V5.discReasonByte r)) = Generated.Tables.disconnectEnc_b5 := by
  decide +kernel

/-- on the encodable range every code function of the model (= of the code, by the tables above)
    is inverted by its reader -/
theorem codes_mutually_inverse :
    (∀ k c b, V4.connCodeByte k c = some b → V4.connCodeOfByte k b = some c) ∧
    (∀ c b, V5.connCodeByte c = some b → V5.connCodeOfByte b = some c) ∧
    (∀ r, V5.ackReasonOfByte (V5.ackReasonByte r) = some r) ∧
    (∀ r, V5.relReasonOfByte (V5.relReasonByte r) = some r) ∧
    (∀ r, V5.unsubReasonOfByte (V5.unsubReasonByte r) = some r) ∧
    (∀ r, V5.discReasonOfByte (V5.discReasonByte r) = some r) ∧
    (∀ q, qosOfNat q.toNat = some q) :=
  ⟨fun k c b h => (V4.connCode_roundtrip k c b h).2, fun c b h => (V5.connCode_rt c b h).2,
   fun r => (V5.ackReason_rt r).2, fun r => (V5.relReason_rt r).2, fun r => (V5.unsubReason_rt r).2,
   fun r => (V5.discReason_rt r).2, fun q => by cases q <;> rfl⟩

end C04
