/-
CLoop — the clauses of C02 / C07 / C10 / C11 that are about the event LOOP rather than about
`MqttState` (to be attached to those properties' checks, see MERGE.md of the `cloop` slice).
Property theorems only; helper lemmas in Proofs/Lemmas/ClientLoop.lean.

Model: `Client.Loop` (Model/Client/Loop.lean): `pollConnected` = one `EventLoop::poll()` on a
live connection with the `select!` choice as an oracle, `loopClean` = `EventLoop::clean`,
`established` = the CONNACK handling of `poll()`, `readb` = `framed::Network::readb`.
Every theorem holds for an ARBITRARY state machine `ops : StateOps σ` (any `handleOutgoing`,
`handleIncoming`, `clean`, `inflight`, `collision`): nothing about `MqttState` is assumed, so the
full client-state model of the `cstate` slice instantiates them. `taken` is a ghost log of the
requests handed to `handle_outgoing_packet`, `true` = came from `pending`.
-/
import Proofs.Lemmas.ClientLoop
namespace CLoop
open Client.Loop Client.LoopSpec

variable {σ : Type}

/-- C07 (select gate) "the event loop takes no new user request while the window is full or an
    id collision is unresolved": whichever branch `select!` picks, if this `poll()` hands a NEW
    request to the state machine — one read from the channel, or one that was carried over in
    `pending` without a packet id (it had only been queued when the connection failed) — then
    `inflight < max` and no collision was pending; a channel request moreover only with `pending`
    empty. The only requests served regardless of flow control are retransmissions
    (`isReplay`: publishes that own a packet id, pending releases). -/
theorem no_request_taken_when_blocked (ops : StateOps σ) (s : LState σ) (b : Branch)
    (r : LState σ × List Obs) (h : pollConnected ops s b = some r) (src : Bool) (q : Req)
    (hq : r.1.taken = s.taken ++ [(src, q)]) (hnew : src = false ∨ isReplay q = false) :
    ops.inflight s.st < ops.maxInflight s.st ∧ ops.collision s.st = false ∧
    (src = false → s.pending = []) := by
  have hk := poll_kind ops s b r h
  cases hk with
  | quiet ht _ =>
    rw [ht] at hq
    have := congrArg List.length hq; simp at this
  | fromPending q' ps _ hr ht _ =>
    rw [ht] at hq
    have := List.append_cancel_left hq
    simp at this
    obtain ⟨h1, h2⟩ := this
    subst h1; subst h2
    rcases hnew with hn | hn
    · cases hn
    · rcases hr with hr | hr
      · rw [hn] at hr; cases hr
      · simp [gateOpen] at hr
        exact ⟨hr.1, hr.2, fun h => by cases h⟩
  | fromChannel q' cs _ he hg _ _ =>
    simp [gateOpen] at hg
    exact ⟨hg.1, hg.2, fun _ => he⟩

/-- C07 "and resumes as soon as an acknowledgement frees the window": on a live connection with
    nothing buffered, `pending` empty, a request waiting in the channel and the gate open, the
    request branch is enabled and takes exactly the oldest request of the channel. -/
theorem requests_resume_when_freed (ops : StateOps σ) (s : LState σ) (n : Net) (q : Req) (cs : List Req)
    (hn : s.net = some n) (he : s.events = []) (hp : s.pending = []) (hc : s.channel = q :: cs)
    (hg : ops.inflight s.st < ops.maxInflight s.st ∧ ops.collision s.st = false) :
    ∃ r, pollConnected ops s .req = some r ∧ r.1.taken = s.taken ++ [(false, q)] := by
  have hsel : selectEnabled ops s = true := by simp [selectEnabled, hp, gateOpen, hg.1, hg.2]
  unfold pollConnected
  simp only [hn, he, hsel, hp, hc]
  simp only [Bool.not_true, Bool.false_eq_true, if_false]
  split
  · exact ⟨_, rfl, by simp [failWith, loopClean]⟩
  · split
    · exact ⟨_, rfl, by simp⟩
    · exact ⟨_, rfl, by simp [failWith, loopClean]⟩

/-- C11.2 / C02.3 (one step) "before it sends any request the user issued afterwards": while the
    head of `pending` is a retransmission the request branch is enabled WHATEVER the flow-control
    state is (a full window or a collision cannot block retransmission — this is what makes the
    gate deadlock-free, see `gate_cannot_deadlock`) and hands over that head, leaving the channel
    alone. -/
theorem retransmissions_never_blocked (ops : StateOps σ) (s : LState σ) (n : Net) (q : Req) (ps : List Req)
    (hn : s.net = some n) (he : s.events = []) (hp : s.pending = q :: ps) (hr : isReplay q = true) :
    ∃ r, pollConnected ops s .req = some r ∧ r.1.taken = s.taken ++ [(true, q)] ∧
      (r.1.net ≠ none → r.1.pending = ps ∧ r.1.channel = s.channel) := by
  have hsel : selectEnabled ops s = true := by simp [selectEnabled, hp, hr]
  unfold pollConnected
  simp only [hn, he, hsel, hp]
  simp only [Bool.not_true, Bool.false_eq_true, if_false]
  split
  · exact ⟨_, rfl, by simp [failWith, loopClean], by simp [failWith, loopClean]⟩
  · split
    · exact ⟨_, rfl, by simp, by simp⟩
    · exact ⟨_, rfl, by simp [failWith, loopClean], by simp [failWith, loopClean]⟩

/-- … and a carried-over NEW request at the head of `pending` waits while the window is full or a
    collision is unresolved: the request branch is disabled (neither it nor anything behind it,
    nor the channel, is taken), so it can never be parked on top of another parked publish. -/
theorem carried_over_new_request_waits (ops : StateOps σ) (s : LState σ) (q : Req) (ps : List Req)
    (he : s.events = []) (hp : s.pending = q :: ps) (hr : isReplay q = false)
    (hg : ¬ (ops.inflight s.st < ops.maxInflight s.st ∧ ops.collision s.st = false)) :
    pollConnected ops s .req = none := by
  have hsel : selectEnabled ops s = false := by
    simp only [selectEnabled, hp, hr, gateOpen, Bool.false_or]
    cases hc : ops.collision s.st
    · have : ¬ ops.inflight s.st < ops.maxInflight s.st := fun h => hg ⟨h, hc⟩
      simp [this]
    · simp
  unfold pollConnected
  cases hn : s.net with
  | none => rfl
  | some n => simp [he, hsel]

/-- the gate cannot deadlock the loop: whatever `pending` holds and however closed the gate is,
    the network branch stays enabled whenever a frame (or EOF) is there — the acknowledgement that
    frees the window or resolves the collision is read independently of the request branch — and
    a retransmission at the head of `pending` (on which such an acknowledgement may depend after a
    reconnect, since `MqttState.collision` survives `clean()`) is never held back. -/
theorem gate_cannot_deadlock (ops : StateOps σ) (s : LState σ) (n : Net)
    (hn : s.net = some n) (he : s.events = []) :
    (netReady n = true → (pollConnected ops s .net).isSome = true) ∧
    (∀ q ps, s.pending = q :: ps → isReplay q = true → (pollConnected ops s .req).isSome = true) := by
  constructor
  · intro hr
    unfold pollConnected
    simp only [hn, he, hr]
    simp only [Bool.not_true, Bool.false_eq_true, if_false]
    split
    · simp
    · split <;> simp
  · intro q ps hp hr
    obtain ⟨r, h, _⟩ := retransmissions_never_blocked ops s n q ps hn he hp hr
    simp [h]

/-- C11.2 "pending before channel", over whole runs: for every sequence of `select!` choices the
    requests handed to the state machine are a prefix of `pending` (in order), followed by
    requests from the channel — and a channel request appears only after ALL of `pending`. -/
theorem pending_before_channel (ops : StateOps σ) (s : LState σ) (bs : List Branch) :
    ∃ m chans, (polls ops s bs).taken =
        s.taken ++ (s.pending.take m).map (fun q => (true, q)) ++ chans.map (fun q => (false, q)) ∧
      (chans ≠ [] → s.pending.length ≤ m) := by
  obtain ⟨m, chans, h1, h2, _⟩ := (polls_progress ops s.taken s.pending bs s (progress_init s)).ex
  exact ⟨m, chans, h1, h2⟩

/-- C02.2 / C11 `EventLoop::clean` after a failure at ANY point: the connection and the timer are
    gone, and `pending` is (what the state machine held: unacknowledged publishes and pending
    releases, `MqttState::clean` — they were sent before anything still waiting) ++ (what was
    still waiting in `pending`) ++ (the requests that were queued in the channel, minus
    PubAcks); the channel is empty. -/
theorem clean_moves_everything (ops : StateOps σ) (s : LState σ) :
    let f := loopClean ops s
    f.pending = (ops.clean s.st).2 ++ s.pending ++ s.channel.filter (fun r => !isPubAck r) ∧
    f.channel = [] ∧ f.net = none ∧ f.timer.connected = false ∧ f.timer.deadline = none ∧
    f.taken = s.taken := by
  simp [loopClean, Client.Timer.clean]

/-- every error path of a `poll()` on a live connection goes through `clean` (the connection is
    gone afterwards exactly when an error was reported) -/
theorem error_implies_clean (ops : StateOps σ) (s : LState σ) (b : Branch) (r : LState σ × List Obs)
    (h : pollConnected ops s b = some r) (e : Err) (he : Obs.error e ∈ r.2) :
    r.1.net = none ∧ r.1.channel = [] ∧ r.1.timer.connected = false :=
  poll_error_clean ops s b r h e he

/-- C02.3 / C11.2 "resume retransmits everything first": after a failure in any state `s` and a
    reconnect on which the broker reports the session as present, `pending` is exactly the
    list `clean` built, and for every sequence of `select!` choices the state machine is handed
    those requests first, in that order, before any request from the channel. -/
theorem resume_retransmits_all (ops : StateOps σ) (s : LState σ) (ska : Option Nat) (n : Net)
    (bs : List Branch) :
    let P := (ops.clean s.st).2 ++ s.pending ++ s.channel.filter (fun r => !isPubAck r)
    let e := (established ops (loopClean ops s) true ska n).1
    e.pending = P ∧
    ∃ m chans, (polls ops e bs).taken =
        s.taken ++ (P.take m).map (fun q => (true, q)) ++ chans.map (fun q => (false, q)) ∧
      (chans ≠ [] → P.length ≤ m) := by
  intro P e
  have hp : e.pending = P := by
    simp only [e, established]
    cases (loopClean ops s).ver <;> simp [loopClean, P]
  have ht : e.taken = s.taken := by
    simp only [e, established]
    cases (loopClean ops s).ver <;> simp [loopClean]
  refine ⟨hp, ?_⟩
  have := pending_before_channel ops e bs
  rw [hp, ht] at this
  exact this

/-- C11 under REPEATED failures "in the order they were originally sent": let a connection start
    with `pending = P` (e.g. right after a resume) and fail after any sequence of `select!`
    choices. Then exactly a prefix `P.take m` had been handed to the state machine (followed by
    channel requests only if all of `P` was), and `clean` builds
    `state.clean() ++ P.drop m ++ channel`: what the state machine holds goes in front of the
    not yet replayed rest, which keeps its order. In particular, if the state machine still
    holds exactly what was re-sent (`state.clean() = P.take m`: nothing acknowledged meanwhile)
    the next resume starts from `P` again followed by the newly queued requests — the original order. -/
theorem repeated_failure_keeps_order (ops : StateOps σ) (s : LState σ) (bs : List Branch)
    (hup : (polls ops s bs).net ≠ none) :
    let s' := polls ops s bs
    ∃ m chans, s'.taken = s.taken ++ (s.pending.take m).map (fun q => (true, q)) ++ chans.map (fun q => (false, q)) ∧
      (chans ≠ [] → s.pending.length ≤ m) ∧
      (loopClean ops s').pending =
        (ops.clean s'.st).2 ++ s.pending.drop m ++ s'.channel.filter (fun r => !isPubAck r) ∧
      ((ops.clean s'.st).2 = s.pending.take m →
        (loopClean ops s').pending = s.pending ++ s'.channel.filter (fun r => !isPubAck r)) := by
  intro s'
  obtain ⟨m, chans, h1, h2, h3⟩ := (polls_progress ops s.taken s.pending bs s (progress_init s)).ex
  refine ⟨m, chans, h1, h2, ?_, ?_⟩
  · simp only [loopClean]; rw [h3 hup]
  · intro hc
    simp only [loopClean]; rw [h3 hup, hc, List.take_append_drop]

/-- C11.4 / C02.4 "if the broker reports no session, none of the carried-over requests is sent":
    `poll()` clears `pending` (which by then also contains the requests drained from the channel
    at failure time — they are dropped too), so everything handed to the state machine afterwards
    comes from the channel, i.e. was issued after the failure. -/
theorem no_session_drops_pending (ops : StateOps σ) (s : LState σ) (ska : Option Nat) (n : Net)
    (bs : List Branch) :
    let e := (established ops (loopClean ops s) false ska n).1
    e.pending = [] ∧ e.channel = [] ∧
    ∃ chans : List Req, (polls ops e bs).taken = s.taken ++ chans.map (fun q => (false, q)) := by
  intro e
  have hp : e.pending = [] := by
    simp only [e, established]
    cases (loopClean ops s).ver <;> simp [loopClean]
  have hc : e.channel = [] := by
    simp only [e, established]
    cases (loopClean ops s).ver <;> simp [loopClean]
  have ht : e.taken = s.taken := by
    simp only [e, established]
    cases (loopClean ops s).ver <;> simp [loopClean]
  refine ⟨hp, hc, ?_⟩
  obtain ⟨m, chans, h1, _⟩ := pending_before_channel ops e bs
  rw [hp, ht] at h1
  exact ⟨chans, by simpa using h1⟩

/-- C10.5 "surfaces a batch in wire order, replies written before the flush": with the peer still
    there and no packet rejected, one `readb` hands the first `batchMax` buffered frames to the
    state machine one after the other in wire order — its notifications and replies are the
    concatenation, in that order, of what each packet produced — and leaves the rest buffered. -/
theorem readb_batch_in_order (ops : StateOps σ) (n : Net) (st : σ) (f : Fold σ)
    (hc : n.peerClosed = false) (hf : foldIn ops st (n.rx.take batchMax) = some f) :
    let b := readb ops n st
    b.err = none ∧ b.rest = n.rx.drop batchMax ∧ b.st = f.st ∧ b.events = f.events ∧ b.replies = f.replies := by
  have := readbLoop_spec ops n hc batchMax maxReadbCount 1 st n.rx [] [] f
    (by decide) (by decide) (by decide) hf
  simpa [readb] using this

/-- the exact size of a batch: `max_readb_count` is 10, but the counter starts at 1 and the loop
    stops when it reaches the limit, so one `readb` surfaces at most 9 packets -/
theorem readb_batch_count (ops : StateOps σ) (n : Net) (st : σ) :
    batchMax = 9 ∧ n.rx.length ≤ (readb ops n st).rest.length + batchMax := by
  refine ⟨by decide, ?_⟩
  have := readbLoop_rest ops n maxReadbCount 1 st n.rx [] [] (by decide)
  simpa [readb, batchMax] using this

/-- … and the network branch of `poll()` puts all replies of the batch on the wire (one flush)
    before it returns the first notification -/
theorem batch_replies_flushed_before_first_event (ops : StateOps σ) (s : LState σ) (n : Net)
    (hn : s.net = some n) (he : s.events = []) (hr : netReady n = true)
    (hok : (readb ops n s.st).err = none) (hfl : flushOk n (readb ops n s.st).replies = true) :
    ∃ r, pollConnected ops s .net = some r ∧
      r.2 = (readb ops n s.st).replies.map Obs.wire ++
        (match (readb ops n s.st).events with
         | e :: _ => [Obs.event e]
         | [] => []) := by
  unfold pollConnected
  simp only [hn, he, hr, hok, hfl]
  simp only [Bool.not_true, Bool.false_eq_true, if_false, if_true]
  refine ⟨_, rfl, ?_⟩
  unfold popEvent
  cases (readb ops n s.st).events <;> simp

/-! ### regression examples for two repaired defects, on a two-slot state machine

`slotOps`: window of 2 publishes, ONE collision slot (like `MqttState.collision`): a publish
handed over while the window is full is parked in the slot, replacing whatever was parked. -/

structure Slot where
  infl : List Req := []
  slot : Option Req := none
deriving DecidableEq, Repr

def slotOps : StateOps Slot where
  handleOutgoing := fun st r => match r with
    | .publish q id tag =>
      if st.infl.length ≥ 2 then { st := { st with slot := some r }, events := [.outgoing (.awaitAck id)] }
      else { st := { st with infl := st.infl ++ [r] }, events := [.outgoing (.publish id)],
             out := some (.publish q id false tag) }
    | _ => { st := st }
  handleIncoming := fun st p => { st := st, events := [.incoming p] }
  pingPre := fun st => (st, none)
  clean := fun st => ({ st with infl := [] }, st.infl)
  inflight := fun st => st.infl.length
  maxInflight := fun _ => 2
  collision := fun st => st.slot.isSome

def slotLoop (st : Slot) (pending channel : List Req) : LState Slot :=
  { ver := .v4, st := st, pending := pending, channel := channel, net := some {},
    timer := Client.Timer.fresh .v4 60000 0 }

/-- repaired defect "requests queued at disconnect time skipped flow control on reconnect and
    could be lost": a failure with the window full (a, b unacknowledged) and two user requests
    c, d queued in the channel; `clean` carries all four over; on resume a and b — the
    retransmissions — refill the window and then the loop WAITS: c and d stay in `pending`
    (nothing is parked, nothing is overwritten) until an acknowledgement frees the window. -/
theorem carried_over_requests_respect_gate :
    let failed := loopClean slotOps (slotLoop { infl := [.publish 1 1 "a", .publish 1 2 "b"] } []
                    [.publish 1 0 "c", .publish 1 0 "d"])
    let resumed := (established slotOps failed true none {}).1
    let fin := polls slotOps resumed [.req, .req, .req, .req, .req, .req, .req, .req]
    resumed.pending = [.publish 1 1 "a", .publish 1 2 "b", .publish 1 0 "c", .publish 1 0 "d"] ∧
    fin.taken = [(true, .publish 1 1 "a"), (true, .publish 1 2 "b")] ∧
    fin.st = { infl := [.publish 1 1 "a", .publish 1 2 "b"], slot := none } ∧
    fin.pending = [.publish 1 0 "c", .publish 1 0 "d"] := by
  decide

/-- repaired defect "a second disconnect while resuming a session re-sent unacknowledged
    publishes out of order": a, b, c carried over; a re-sent; second failure ⇒ `pending` is
    a, b, c again. -/
theorem second_failure_keeps_order :
    let resumed := (established slotOps
        (loopClean slotOps (slotLoop {} [.publish 1 1 "a", .publish 1 2 "b", .publish 1 3 "c"] [])) true none {}).1
    let again := loopClean slotOps (polls slotOps resumed [.req])
    again.pending = [.publish 1 1 "a", .publish 1 2 "b", .publish 1 3 "c"] := by
  decide

/-! non-vacuity: a tiny state machine (a counter of inflight publishes, window 2) -/

def toyOps : StateOps Nat where
  handleOutgoing := fun st r => match r with
    | .publish q id tag => { st := st + 1, events := [.outgoing (.publish id)], out := some (.publish q id false tag) }
    | _ => { st := st }
  handleIncoming := fun st p => match p with
    | .puback id => { st := st - 1, events := [.incoming (.puback id)] }
    | .publish 1 id _ _ => { st := st, events := [.incoming p, .outgoing (.puback id)], out := some (.puback id) }
    | _ => { st := st, events := [.incoming p] }
  pingPre := fun st => (st, none)
  clean := fun st => (0, (List.range st).map (fun i => Req.publish 1 (i + 1) s!"m{i}"))
  inflight := id
  maxInflight := fun _ => 2
  collision := fun _ => false

def toy (st : Nat) (pending channel : List Req) : LState Nat :=
  { ver := .v4, st := st, pending := pending, channel := channel, net := some {},
    timer := Client.Timer.fresh .v4 5000 0 }

/-- window full (2 of 2): the request branch is disabled, the channel keeps its request -/
example : (pollConnected toyOps (toy 2 [] [.publish 1 0 "x"]) .req).isNone = true := by decide
/-- window free: taken -/
example : ((pollConnected toyOps (toy 1 [] [.publish 1 0 "x"]) .req).map (·.1.taken)) =
    some [(false, .publish 1 0 "x")] := by decide
/-- window full but a retransmission heads `pending`: served, from `pending` -/
example : ((pollConnected toyOps (toy 2 [.publish 1 1 "a"] [.publish 1 0 "x"]) .req).map (·.1.taken)) =
    some [(true, .publish 1 1 "a")] := by decide
/-- window full and a carried-over NEW request heads `pending`: it waits -/
example : (pollConnected toyOps (toy 2 [.publish 1 0 "n"] [.publish 1 0 "x"]) .req).isNone = true := by decide
/-- failure with two unacknowledged publishes and one queued request, resume: the two
    retransmissions fill the window, the queued request waits -/
example :
    let e := (established toyOps (loopClean toyOps (toy 2 [] [.publish 1 0 "x"])) true none {}).1
    e.pending = [.publish 1 1 "m0", .publish 1 2 "m1", .publish 1 0 "x"] ∧
    ((polls toyOps e [.req, .req, .req, .req, .req, .req]).taken.map (·.1)) = [true, true] := by decide
/-- a batch of 11 QoS 1 publishes: 9 surfaced, 2 left -/
example : ((readb toyOps { rx := (List.range 11).map (fun i => Pkt.publish 1 (i + 1) false "p") } 0).rest.length,
    (readb toyOps { rx := (List.range 11).map (fun i => Pkt.publish 1 (i + 1) false "p") } 0).replies.length) = (2, 9) := by
  decide

end CLoop
