/-
C19 — Broker admission: valid authenticated CONNECT only; one session per client id.
Router part (registration); the network part (`mqtt_connect`, authentication) is covered by the
admission slice. The `…_always` style theorems hold in every reachable state of the router model:
`Reachable cfg s` = `s` is the result of some error-free list of ops (`connect`, `push`, `event`,
`consume`, `drain`, each under an arbitrary oracle) from `init cfg` (Proofs/Lemmas/Router/Reach.lean).
-/
import Proofs.Props.C19net
import Proofs.Lemmas.Router.Rp1_Ghost
namespace C19
open Router

/-- a client id is accepted by the router exactly when it contains none of `+ $ # /` -/
theorem valid_client_id_spec (c : String) :
    validClientId c = true ↔ ∀ ch ∈ ['+', '$', '#', '/'], ch ∉ c.toList := by
  unfold validClientId
  simp

/-- a CONNECT with an invalid client id registers nothing: no connection, no CONNACK -/
theorem invalid_client_id_registers_nothing (s : RState) (spec : ConnectSpec)
    (h : validClientId spec.clientId = false) :
    ∃ s', handleNewConnection s spec = .ok s' ∧ s'.conns = s.conns ∧ s'.connectionMap = s.connectionMap := by
  unfold handleNewConnection
  simp only [h, Bool.not_false, if_true]
  exact ⟨_, rfl, rfl, rfl⟩

/-- `max_connections` is respected: in every reachable state the number of live connections is at
    most the configured maximum -/
theorem max_connections_respected {cfg : Config} {s : RState} (hr : Reachable cfg s) :
    s.conns.len ≤ cfg.maxConnections := by
  have := (AdmInv.reachable hr).bound
  unfold ConnBound at this
  rwa [config_reachable hr] at this

/-- in every reachable state `connection_map` is exact: every entry points to a live connection
    with that client id, and every live connection is registered under its client id -/
theorem connection_map_exact {cfg : Config} {s : RState} (hr : Reachable cfg s) :
    (∀ cid id, alookup cid s.connectionMap = some id → ∃ c, getConn s id = some c ∧ c.clientId = cid) ∧
    (∀ id c, getConn s id = some c → alookup c.clientId s.connectionMap = some id) :=
  (AdmInv.reachable hr).map

/-- one session per client id: in every reachable state two live connections never share a
    client id -/
theorem one_session_per_client_id {cfg : Config} {s : RState} (hr : Reachable cfg s) {i j : Nat} {c1 c2 : Conn}
    (h1 : getConn s i = some c1) (h2 : getConn s j = some c2) (he : c1.clientId = c2.clientId) : i = j := by
  have m := (AdmInv.reachable hr).map.2
  have a := m i c1 h1
  have b := m j c2 h2
  rw [he, b] at a
  simpa using a.symm

/-- a connection is registered (ghost event `registered`, CONNACK committed) only if the CONNECT is
    admissible: the client id is valid and, not counting the connection it takes over, there is
    room under `max_connections`; the registration carries the CONNECT's client id / link / clean
    flag and the new slab entry is live under that client id -/
theorem registered_only_if_admissible {cfg : Config} {s s' : RState} {o : List Choice} {spec : ConnectSpec}
    {out : Out} (hr : Reachable cfg s) (h : step { s with oracle := o } (.connect spec) = .ok (s', out))
    {id link : Nat} {cid : String} {clean sp : Bool}
    (hm : Ghost.registered id link cid clean sp ∈ s'.ghost.drop s.ghost.length) :
    validClientId spec.clientId = true ∧
    s.conns.len - (if (alookup spec.clientId s.connectionMap).isSome then 1 else 0) < cfg.maxConnections ∧
    (cid = spec.clientId ∧ link = spec.link ∧ clean = spec.clean) ∧
    ∃ c, getConn s' id = some c ∧ c.clientId = spec.clientId ∧ c.link = spec.link := by
  have ha : AdmInv { s with oracle := o } := (AdmInv.reachable hr).oracle o
  have hcfg : ({ s with oracle := o } : RState).config = cfg := config_reachable (s := s) hr
  cases step_cases h with
  | connect _ h' =>
    have := connect_registered_only_if ha h' (id := id) (link := link) (cid := cid) (clean := clean) (sp := sp) hm
    rw [hcfg] at this
    exact this

/-- takeover: a valid CONNECT whose client id is registered removes the old connection first —
    the removal is the first event the step records — and afterwards the only live connection
    with that client id (if any) is the one registered by this very step -/
theorem takeover_removes_old_first {cfg : Config} {s s' : RState} {o : List Choice} {spec : ConnectSpec}
    {out : Out} (hr : Reachable cfg s) (h : step { s with oracle := o } (.connect spec) = .ok (s', out))
    (hv : validClientId spec.clientId = true) {old : Nat}
    (hold : alookup spec.clientId s.connectionMap = some old) :
    ∃ c tail, getConn s old = some c ∧ c.clientId = spec.clientId ∧
      s'.ghost = s.ghost ++ Ghost.removed old spec.clientId c.clean :: tail ∧
      ∀ j d, getConn s' j = some d → d.clientId = spec.clientId →
        ∃ sp, Ghost.registered j spec.link spec.clientId spec.clean sp ∈ tail := by
  have ha : AdmInv { s with oracle := o } := (AdmInv.reachable hr).oracle o
  cases step_cases h with
  | connect _ h' => exact connect_takeover_first ha h' hv hold

/-- non-vacuity: the initial state is reachable and a first CONNECT with a valid id is registered
    when `max_connections > 0` -/
example (cfg : Config) : Reachable cfg (init cfg) := reachable_init cfg

end C19

namespace C19

theorem admit_only_if : type_of% @C19net.admit_only_if := @C19net.admit_only_if
theorem admit_meets_spec : type_of% @C19net.admit_meets_spec := @C19net.admit_meets_spec
theorem reject_never_reaches_router : type_of% @C19net.reject_never_reaches_router := @C19net.reject_never_reaches_router
theorem reject_connack : type_of% @C19net.reject_connack := @C19net.reject_connack
theorem reject_connack_bytes : type_of% @C19net.reject_connack_bytes := @C19net.reject_connack_bytes
theorem session_only_if_valid_client_id : type_of% @C19net.session_only_if_valid_client_id := @C19net.session_only_if_valid_client_id
theorem no_auth_decision : type_of% @C19net.no_auth_decision := @C19net.no_auth_decision
theorem static_auth_decision : type_of% @C19net.static_auth_decision := @C19net.static_auth_decision
theorem external_auth_decision : type_of% @C19net.external_auth_decision := @C19net.external_auth_decision
theorem auth_meets_spec : type_of% @C19net.auth_meets_spec := @C19net.auth_meets_spec

end C19
