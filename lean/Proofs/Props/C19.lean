/-
C19 — Broker admission: valid authenticated CONNECT only; one session per client id.
Router part (registration); the network part (`mqtt_connect`, authentication) is covered by the
admission slice.
-/
import Proofs.Lemmas.Router.Local
namespace C19
open Router

/-- a client id is accepted by the router exactly when it contains none of `+ $ # /` -/
theorem valid_client_id_spec (c : String) :
    validClientId c = true ↔ ∀ ch ∈ ['+', '$', '#', '/'], ch ∉ c.toList := by
  unfold validClientId
  simp

/-- a CONNECT with an invalid client id registers nothing: no connection, no CONNACK -/
theorem invalid_client_id_registers_nothing (s : RState) (spec : ConnectSpec)
    (h : validClientId spec.clientId = false) :
    ∃ s', handleNewConnection s spec = .ok s' ∧ s'.conns = s.conns ∧ s'.connectionMap = s.connectionMap := by
  unfold handleNewConnection
  simp only [h, Bool.not_false, if_true]
  exact ⟨_, rfl, rfl, rfl⟩

end C19
