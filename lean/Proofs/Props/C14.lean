/-
C14 — Clients are isolated: one client's misbehaviour never disturbs another.
The frame theorems below are about whole steps of the router model (one `Router::events(id, ev)`,
one `Router::consume()`, one link-side push / drain). They say exactly what is preserved:
a step on behalf of connection `id` never removes another connection and never changes any field
of another connection except its *tracker* (the scheduler state: fresh data legitimately wakes
parked subscribers via `track` / `reschedule`).
-/
import Proofs.Lemmas.Router.Rp1_Ack
namespace C14
open Router

/-- closing connection `id` (DISCONNECT packet, Disconnect event, protocol violation, bad ack,
    router-initiated close) removes no other connection and leaves every other connection's state
    as it was — its subscriptions, ack log, inflight window —, except possibly for its tracker: when
    the closed client held the turn of a shared group, the parked requests of that group's log are
    handed back to their trackers (`wake_parked`: `track` / `reschedule`) -/
theorem close_touches_only_that_connection (s s' : RState) (id j : Nat) (r : Option String)
    (h : handleDisconnection s id r = .ok s') (hj : j ≠ id) :
    (getConn s j = none → getConn s' j = none) ∧
    ∀ c, getConn s j = some c → ∃ t, getConn s' j = some { c with tracker := t } :=
  handleDisconnection_other h hj

/-- an event on behalf of connection `id` — any event (DeviceData with any batch of packets,
    protocol violations and bad acks included, Ready, Disconnect, PublishWill, Shadow, ticks), in
    any state — removes no other connection and leaves every field of every other connection
    untouched except its tracker -/
theorem event_touches_only_that_connection {s s' : RState} {id j : Nat} {ev : Event} {out : Out} {c : Conn}
    (h : step s (.event id ev) = .ok (s', out)) (hj : j ≠ id) (hc : getConn s j = some c) :
    ∃ t, getConn s' j = some { c with tracker := t } := by
  cases step_cases h with
  | event _ _ h' => exact events_frame h' hj hc

/-- `consume` removes no connection; it serves the first live connection of the ready queue and
    leaves every field of every other connection untouched except its tracker; the served
    connection keeps its identity (client id, link, clean flag) -/
theorem consume_removes_nobody {s s' : RState} {out : Out} {j : Nat} {c : Conn}
    (h : step s .consume = .ok (s', out)) (hc : getConn s j = some c) :
    ∃ c', getConn s' j = some c' ∧ c'.clientId = c.clientId ∧ c'.link = c.link ∧ c'.clean = c.clean ∧
      (polled s ≠ some j → ∃ t, c' = { c with tracker := t }) := by
  cases step_cases h with
  | consume b h' =>
    obtain ⟨c', hc', hid, ht⟩ := consume_frame h' hc
    exact ⟨c', hc', hid.1, hid.2.1, hid.2.2.1, ht⟩

/-- link-side pushes and drains do not touch any connection -/
theorem push_drain_touch_nobody {s s' : RState} {op : Op} {out : Out} (h : step s op = .ok (s', out))
    (hop : (∃ l p, op = .push l p) ∨ ∃ l, op = .drain l) (j : Nat) : getConn s' j = getConn s j :=
  step_push_drain_frame h hop j

/-- a CONNECT, in a reachable state, removes at most the connection registered under the same
    client id (session takeover); every other live connection stays, unchanged except possibly for
    its tracker (closing the taken-over connection may wake parked members of its shared groups) -/
theorem connect_removes_only_same_client_id {cfg : Config} {s s' : RState} {o : List Choice}
    {spec : ConnectSpec} {out : Out} {j : Nat} {c : Conn} (hr : Reachable cfg s)
    (h : step { s with oracle := o } (.connect spec) = .ok (s', out)) (hc : getConn s j = some c)
    (hj : alookup spec.clientId s.connectionMap ≠ some j) : ∃ t, getConn s' j = some { c with tracker := t } := by
  have ha : AdmInv { s with oracle := o } := (AdmInv.reachable hr).oracle o
  cases step_cases h with
  | connect _ h' => exact handleNewConnection_frame ha h' hc hj

/-- `close_frame`, whole-step form: in a reachable state a step removes a live connection `j`
    only if it is an event on behalf of `j` itself or a CONNECT whose client id is `j`'s -/
theorem step_removes_only {cfg : Config} {s s' : RState} {o : List Choice} {op : Op} {out : Out} {j : Nat}
    {c : Conn} (hr : Reachable cfg s) (h : step { s with oracle := o } op = .ok (s', out))
    (hc : getConn s j = some c) (hgone : getConn s' j = none) :
    (∃ ev, op = .event j ev) ∨ (∃ spec, op = .connect spec ∧ spec.clientId = c.clientId) := by
  cases op with
  | connect spec =>
    refine .inr ⟨spec, rfl, ?_⟩
    by_cases hj : alookup spec.clientId s.connectionMap = some j
    · obtain ⟨c', hc', e⟩ := (AdmInv.reachable hr).map.1 _ _ hj
      rw [hc] at hc'; simp only [Option.some.injEq] at hc'; subst hc'; exact e.symm
    · obtain ⟨t, ht⟩ := connect_removes_only_same_client_id hr h hc hj
      rw [ht] at hgone; simp at hgone
  | push l p =>
    rw [push_drain_touch_nobody h (.inl ⟨l, p, rfl⟩) j] at hgone
    rw [show getConn { s with oracle := o } j = getConn s j from rfl, hc] at hgone; simp at hgone
  | event id ev =>
    by_cases hj : j = id
    · subst hj; exact .inl ⟨ev, rfl⟩
    · obtain ⟨t, ht⟩ := event_touches_only_that_connection h hj (show getConn { s with oracle := o } j = some c from hc)
      rw [ht] at hgone; simp at hgone
  | consume =>
    obtain ⟨c', hc', _⟩ := consume_removes_nobody h (show getConn { s with oracle := o } j = some c from hc)
    rw [hc'] at hgone; simp at hgone
  | drain l =>
    rw [push_drain_touch_nobody h (.inr ⟨l, rfl⟩) j] at hgone
    rw [show getConn { s with oracle := o } j = getConn s j from rfl, hc] at hgone; simp at hgone

/-- non-vacuity: closing connection 0 of a two-connection state leaves connection 1 in place -/
example : ∃ s s', Reachable ⟨2, 1024, 2, 10, .roundRobin⟩ s ∧ step s (.event 0 .disconnect) = .ok (s', .ok) ∧
    (getConn s 0).isSome = true ∧ (getConn s' 0).isSome = false ∧ (getConn s' 1).isSome = true :=
  ⟨_, _, ⟨[(.connect { link := 0, clientId := "a", clean := true, dynamicFilters := false, aliasMax := 0, will := none }, []),
           (.connect { link := 1, clientId := "b", clean := true, dynamicFilters := false, aliasMax := 0, will := none }, [])], rfl⟩,
    (step_eqX _ _).trans rfl, rfl, rfl, rfl⟩

end C14
