/-
C14 — Clients are isolated: one client's misbehaviour never disturbs another.
-/
import Proofs.Lemmas.Router.Frame
namespace C14
open Router

private theorem getConn_remove_ne (s : RState) (id j : Nat) (h : j ≠ id) :
    ({ s with conns := s.conns.remove id } : RState).conns.get? j = s.conns.get? j := by
  simp [Slab.remove, Slab.get?, List.getElem?_set, h.symm]

/-- closing connection `id` (DISCONNECT packet, Disconnect event, protocol violation, bad ack,
    router-initiated close) leaves every other connection's state exactly as it was: its
    subscriptions, tracker, ack log, inflight window -/
theorem close_touches_only_that_connection (s s' : RState) (id j : Nat) (r : Option String)
    (h : handleDisconnection s id r = .ok s') (hj : j ≠ id) :
    getConn s' j = getConn s j := by
  unfold handleDisconnection at h
  split at h
  · simp only [Except.ok.injEq] at h; subst h; rfl
  · rename_i c hc
    simp only [] at h
    split at h
    all_goals
      simp only [Except.ok.injEq] at h
      subst h
      simp only [getConn]
      first
        | exact getConn_remove_ne _ id j hj
        | (cases r <;> simp [Slab.remove, Slab.get?, List.getElem?_set, hj.symm, wakeLink, pushNotifs, setLink, RState.g])

end C14
