/-
C14 — Clients are isolated: one client's misbehaviour never disturbs another.
The frame theorems below are about whole steps of the router model (one `Router::events(id, ev)`,
one `Router::consume()`, one link-side push / drain). They say exactly what is preserved:
a step on behalf of connection `id` never removes another connection and never changes any field
of another connection except its *tracker* (the scheduler state: fresh data legitimately wakes
parked subscribers via `track` / `reschedule`).
-/
import Proofs.Lemmas.Router.Rp1_Ack
import Proofs.Lemmas.Router.Rp2_Consume
import Proofs.Lemmas.Router.Rp2_Payload
import Proofs.Lemmas.Router.Rp13_Isolation
namespace C14
open Router

/-- closing connection `id` (DISCONNECT packet, Disconnect event, protocol violation, bad ack,
    router-initiated close) removes no other connection and leaves every other connection's state
    as it was — its subscriptions, ack log, inflight window —, except possibly for its tracker: when
    the closed client held the turn of a shared group, the parked requests of that group's log are
    handed back to their trackers (`wake_parked`: `track` / `reschedule`) -/
theorem close_touches_only_that_connection (s s' : RState) (id j : Nat) (r : Option String)
    (h : handleDisconnection s id r = .ok s') (hj : j ≠ id) :
    (getConn s j = none → getConn s' j = none) ∧
    ∀ c, getConn s j = some c → ∃ t, getConn s' j = some { c with tracker := t } :=
  handleDisconnection_other h hj

/-- an event on behalf of connection `id` — any event (DeviceData with any batch of packets,
    protocol violations and bad acks included, Ready, Disconnect, PublishWill, Shadow, ticks), in
    any state — removes no other connection and leaves every field of every other connection
    untouched except its tracker -/
theorem event_touches_only_that_connection {s s' : RState} {id j : Nat} {ev : Event} {out : Out} {c : Conn}
    (h : step s (.event id ev) = .ok (s', out)) (hj : j ≠ id) (hc : getConn s j = some c) :
    ∃ t, getConn s' j = some { c with tracker := t } := by
  cases step_cases h with
  | event _ _ h' => exact events_frame h' hj hc

/-- `consume` removes no connection; it serves the first live connection of the ready queue and
    leaves every field of every other connection untouched except its tracker; the served
    connection keeps its identity (client id, link, clean flag) -/
theorem consume_removes_nobody {s s' : RState} {out : Out} {j : Nat} {c : Conn}
    (h : step s .consume = .ok (s', out)) (hc : getConn s j = some c) :
    ∃ c', getConn s' j = some c' ∧ c'.clientId = c.clientId ∧ c'.link = c.link ∧ c'.clean = c.clean ∧
      (polled s ≠ some j → ∃ t, c' = { c with tracker := t }) := by
  cases step_cases h with
  | consume b h' =>
    obtain ⟨c', hc', hid, ht⟩ := consume_frame h' hc
    exact ⟨c', hc', hid.1, hid.2.1, hid.2.2.1, ht⟩

/-- link-side pushes and drains do not touch any connection -/
theorem push_drain_touch_nobody {s s' : RState} {op : Op} {out : Out} (h : step s op = .ok (s', out))
    (hop : (∃ l p, op = .push l p) ∨ ∃ l, op = .drain l) (j : Nat) : getConn s' j = getConn s j :=
  step_push_drain_frame h hop j

/-- a CONNECT, in a reachable state, removes at most the connection registered under the same
    client id (session takeover); every other live connection stays, unchanged except possibly for
    its tracker (closing the taken-over connection may wake parked members of its shared groups) -/
theorem connect_removes_only_same_client_id {cfg : Config} {s s' : RState} {o : List Choice}
    {spec : ConnectSpec} {out : Out} {j : Nat} {c : Conn} (hr : Reachable cfg s)
    (h : step { s with oracle := o } (.connect spec) = .ok (s', out)) (hc : getConn s j = some c)
    (hj : alookup spec.clientId s.connectionMap ≠ some j) : ∃ t, getConn s' j = some { c with tracker := t } := by
  have ha : AdmInv { s with oracle := o } := (AdmInv.reachable hr).oracle o
  cases step_cases h with
  | connect _ h' => exact handleNewConnection_frame ha h' hc hj

/-- `close_frame`, whole-step form: in a reachable state a step removes a live connection `j`
    only if it is an event on behalf of `j` itself or a CONNECT whose client id is `j`'s -/
theorem step_removes_only {cfg : Config} {s s' : RState} {o : List Choice} {op : Op} {out : Out} {j : Nat}
    {c : Conn} (hr : Reachable cfg s) (h : step { s with oracle := o } op = .ok (s', out))
    (hc : getConn s j = some c) (hgone : getConn s' j = none) :
    (∃ ev, op = .event j ev) ∨ (∃ spec, op = .connect spec ∧ spec.clientId = c.clientId) := by
  cases op with
  | connect spec =>
    refine .inr ⟨spec, rfl, ?_⟩
    by_cases hj : alookup spec.clientId s.connectionMap = some j
    · obtain ⟨c', hc', e⟩ := (AdmInv.reachable hr).map.1 _ _ hj
      rw [hc] at hc'; simp only [Option.some.injEq] at hc'; subst hc'; exact e.symm
    · obtain ⟨t, ht⟩ := connect_removes_only_same_client_id hr h hc hj
      rw [ht] at hgone; simp at hgone
  | push l p =>
    rw [push_drain_touch_nobody h (.inl ⟨l, p, rfl⟩) j] at hgone
    rw [show getConn { s with oracle := o } j = getConn s j from rfl, hc] at hgone; simp at hgone
  | event id ev =>
    by_cases hj : j = id
    · subst hj; exact .inl ⟨ev, rfl⟩
    · obtain ⟨t, ht⟩ := event_touches_only_that_connection h hj (show getConn { s with oracle := o } j = some c from hc)
      rw [ht] at hgone; simp at hgone
  | consume =>
    obtain ⟨c', hc', _⟩ := consume_removes_nobody h (show getConn { s with oracle := o } j = some c from hc)
    rw [hc'] at hgone; simp at hgone
  | drain l =>
    rw [push_drain_touch_nobody h (.inr ⟨l, rfl⟩) j] at hgone
    rw [show getConn { s with oracle := o } j = getConn s j from rfl, hc] at hgone; simp at hgone


/-! ### isolation at run level

Client X has connection id `a`, client id `cid`; `f` is one of its subscriptions. The premises constrain
X's OWN ops only (`OwnOp`, `OwnRun`; definitions in Proofs/Lemmas/Router/Rp13_Isolation.lean, spelled
out by `own_op_spec`); every op of every other id is arbitrary. The one further premise of the delivery
statement is the broker's retention limit (`RetRun`: X's cursor is not overtaken by the eviction of old
log segments — a slow consumer loses what the log no longer holds, whoever published it). -/

/-- what `OwnOp` demands, op by op: a CONNECT must not carry X's client id; an event for X's connection
    id must not be `Disconnect` (this is also the premise that excludes the recorded exception: a stale
    Disconnect for a reused slot id closes the NEW connection in that slot — X's link sends Disconnect
    only for X's own connection), and a `DeviceData` event for X's id must carry no UNSUBSCRIBE of `f`
    and must not close X's connection (`NotClosing`: no DISCONNECT packet, protocol violation, bad ack).
    `consume`, link pushes and drains, and EVERY event for any other id — live, removed or never used —
    are unconstrained. -/
theorem own_op_spec (a : Nat) (cid f : String) (t : RState) :
    (∀ spec, OwnOp a cid f t (.connect spec) ↔ spec.clientId ≠ cid) ∧
    (∀ id ev, id ≠ a → OwnOp a cid f t (.event id ev)) ∧
    (∀ ev, OwnOp a cid f t (.event a ev) ↔ ev ≠ .disconnect ∧
      (ev = .deviceData → (∀ c, getConn t a = some c → ∀ p ∈ (getLink t c.link).ibuf, f ∉ pktUnsubs p) ∧
        ∀ t', handleDevicePayload t a = .ok t' → getConn t' a ≠ none)) ∧
    OwnOp a cid f t .consume ∧ (∀ l p, OwnOp a cid f t (.push l p)) ∧ (∀ l, OwnOp a cid f t (.drain l)) :=
  ⟨fun _ => Iff.rfl, fun _ _ hne e => absurd e hne, fun _ => ⟨fun h => h rfl, fun h _ => h⟩, trivial,
   fun _ _ => trivial, fun _ => trivial⟩

/-- one step seen from X: whatever the op (under `OwnOp`), X's connection stays with its client id, link
    and clean flag; its subscriptions change at most in its own DeviceData event; and apart from that
    event and from `consume` serving X itself, NOTHING of X's connection changes but its tracker (the
    scheduler state: fresh data wakes parked subscribers) -/
theorem others_change_only_the_tracker {cfg : Config} {s s' : RState} {ch : List Choice} {op : Op} {out : Out}
    {a : Nat} {c : Conn} {f : String} (hr : Reachable cfg s) (hc : getConn s a = some c)
    (ho : OwnOp a c.clientId f { s with oracle := ch } op)
    (h : step { s with oracle := ch } op = .ok (s', out)) :
    ∃ c', getConn s' a = some c' ∧ c'.clientId = c.clientId ∧ c'.link = c.link ∧ c'.clean = c.clean ∧
      (op ≠ .event a .deviceData → c'.subscriptions = c.subscriptions) ∧
      (op ≠ .event a .deviceData → (op = .consume → polled s ≠ some a) → ∃ t, c' = { c with tracker := t }) := by
  obtain ⟨c', hc', hid, h1, h2⟩ := own_step hr hc ho h
  exact ⟨c', hc', hid.1, hid.2.1, hid.2.2.1, h1, h2⟩

/-- C14 (a) `connection_and_subscriptions_survive`. Over ANY run from a reachable state that satisfies
    `OwnRun` — arbitrary ops of all other ids —, X's connection stays registered under its id and in the
    connection map, with the same client id, link and clean flag, and with exactly the same
    subscriptions unless X itself sent packets (a DeviceData event of X's own id is the only op that can
    change them; that `f` survives X's own batches is part of `isolated_delivery`) -/
theorem connection_and_subscriptions_survive {cfg : Config} {a : Nat} {f : String} (ops : List (Op × List Choice))
    {s s2 : RState} {c : Conn} (hr : Reachable cfg s) (hc : getConn s a = some c)
    (ho : OwnRun a c.clientId f s ops) (hrun : run s ops = .ok s2) :
    ∃ c2, getConn s2 a = some c2 ∧ c2.clientId = c.clientId ∧ c2.link = c.link ∧ c2.clean = c.clean ∧
      alookup c.clientId s2.connectionMap = some a ∧
      ((∀ ch, (Op.event a .deviceData, ch) ∉ ops) → c2.subscriptions = c.subscriptions) := by
  obtain ⟨hr2, c2, hc2, hid, hsub⟩ := OwnRun.survives ops hr hc ho hrun
  refine ⟨c2, hc2, hid.1, hid.2.1, hid.2.2.1, ?_, hsub⟩
  rw [← hid.1]; exact (AdmInv.reachable hr2).map.2 a c2 hc2

/-- C14 (b) `isolated_delivery` (from `C01.delivery_is_prefix`). Same runs, within the retention
    (`RetRun`) and below the no-overflow bound: the log offsets forwarded to X through its non-shared
    subscription `f` are EXACTLY the consecutive offsets from its request's cursor at the start — in
    order, no gap, no repeat —, X's request for `f` ends right behind them, and `f` is still one of X's
    subscriptions. That X's connection stays (a premise of `delivery_is_prefix`) is here a consequence. -/
theorem isolated_delivery {cfg : Config} (h1 : 1 ≤ cfg.maxSegmentSize) (h2 : 1 ≤ cfg.maxSegmentCount)
    (hpos : 0 < cfg.maxOutgoingPacketCount) {a : Nat} {f : String} (ops : List (Op × List Choice))
    {s s2 : RState} {c : Conn} {r : DataRequest} (hr : Reachable cfg s) (hc : getConn s a = some c)
    (ho : OwnRun a c.clientId f s ops) (hret : RetRun a f s ops) (hrun : run s ops = .ok s2) (hno : Rp3.NoOverflow s2)
    (hown : Own s a r) (hf : r.filter = f) (hplain : r.group = none) :
    ∃ r2 c2, Own s2 a r2 ∧ r2.filter = f ∧ r2.group = none ∧ r2.filterIdx = r.filterIdx ∧
      runFwd a f s ops = List.range' r.cursor.2 (runFwd a f s ops).length ∧
      r2.cursor.2 = r.cursor.2 + (runFwd a f s ops).length ∧
      getConn s2 a = some c2 ∧ f ∈ c2.subscriptions := by
  have hq := quietRun_of_own ops hr hc ho hret
  obtain ⟨r2, o2, g1, g2, g3, g4, g5⟩ := run_thread h1 h2 hpos ops hr hrun hno hq hown hf hplain
  obtain ⟨hr2, c2, hc2, _, _⟩ := OwnRun.survives ops hr hc ho hrun
  exact ⟨r2, c2, o2, g1, g2, g3, g4, g5, hc2, g1 ▸ own_subscribed (Inv3.reachable hr2).rc o2 hc2⟩

/-- C14 (c), one step: in a reachable state in which X's connection is `c`, for any op under `OwnOp`:
    1. X's own DeviceData event appends to X's ack log exactly the replies owed to the packets of its
       batch (`Replies`), in packet order, changes no other connection's ack log, link or client id and
       writes no outgoing buffer;
    2. the `consume` call that serves X flushes X's whole ack log, in order, to X's own link ahead of
       anything else, empties it, and writes no other link;
    3. EVERY other op — any op of any other id — leaves X's ack log exactly as it is;
    4. afterwards, if X's connection is `Paused(Caughtup)` its ack log is empty (no reply withheld). -/
theorem isolated_replies_step {cfg : Config} {t t' : RState} {ch : List Choice} {op : Op} {out : Out}
    {a : Nat} {c : Conn} {f : String} (hr : Reachable cfg t) (hc : getConn t a = some c)
    (ho : OwnOp a c.clientId f { t with oracle := ch } op)
    (hs : step { t with oracle := ch } op = .ok (t', out)) :
    (op = .event a .deviceData →
      ∃ as, Replies (getLink t c.link).ibuf as ∧ acksOf t' a = some (c.acks.committed ++ as) ∧
        (∀ j, j ≠ a → (getConn t' j).map Conn.view = (getConn t j).map Conn.view) ∧
        (∀ l, (getLink t' l).obuf = (getLink t l).obuf)) ∧
    (op = .consume → polled t = some a →
      (∃ rest, (getLink t' c.link).obuf = (getLink t c.link).obuf ++ c.acks.committed.map Notif.ack ++ rest ∧
        ∀ n ∈ rest, n.isAck = false) ∧
      (∀ l, l ≠ c.link → getLink t' l = getLink t l) ∧ acksOf t' a = some []) ∧
    (op ≠ .event a .deviceData → (op = .consume → polled t ≠ some a) → acksOf t' a = acksOf t a) ∧
    (∀ c', getConn t' a = some c' → c'.tracker.status = .paused .caughtup → c'.acks.committed = []) := by
  have hc' : getConn { t with oracle := ch } a = some c := hc
  refine ⟨fun e => ?_, fun e hp => ?_, fun h1 h2 => ?_, fun c' hc1 => AI.reachable (hr.step hs) a c' hc1⟩
  · subst e
    cases step_cases hs with
    | event _ _ h' =>
      have h'' : handleDevicePayload { t with oracle := ch } a = .ok t' := h'
      obtain ⟨as, hcase⟩ := handleDevicePayload_spec hc' h''
      rcases hcase with ⟨hn, _⟩ | ⟨r, ⟨c1, g, e1, _, _⟩, hob, _, hj, _⟩
      · exact absurd hn ((((ho rfl).2 rfl).2) t' h'')
      · exact ⟨as, r, by simp [acksOf, g, e1], hj, hob⟩
  · subst e
    cases step_cases hs with
    | consume b h' =>
      have hq : ∃ rq, ({ t with oracle := ch } : RState).readyqueue.dropWhile
          (fun id => (({ t with oracle := ch } : RState).conns.get? id).isNone) = a :: rq := by
        unfold polled at hp
        cases hl : t.readyqueue.dropWhile (fun id => (t.conns.get? id).isNone) with
        | nil => rw [hl] at hp; cases hp
        | cons x xs => rw [hl] at hp; simp only [List.head?_cons, Option.some.injEq] at hp; subst hp; exact ⟨xs, rfl⟩
      obtain ⟨rq, hq⟩ := hq
      obtain ⟨_, h1, h2, h3, _⟩ := consume_flushes_in_order hq hc' h'
      exact ⟨h1, h2, h3⟩
  · obtain ⟨c1, hc1, _, _, htr⟩ := own_step hr hc ho hs
    obtain ⟨tk, rfl⟩ := htr h1 h2
    simp [acksOf, hc1, hc]

/-- C14 (c) `isolated_replies`, over runs: every op of a run under `OwnRun` is applied to a reachable
    state in which X's connection is registered (same client id and link), and the four statements of
    `isolated_replies_step` hold for it — each batch X sends is answered by exactly its replies on X's
    own ack log, the sweep of X flushes them in order to X's own link, no op of any other id touches
    X's ack log, and no reply is left behind when X goes idle -/
theorem isolated_replies {cfg : Config} {a : Nat} {f : String} (ops : List (Op × List Choice)) {s s2 : RState} {c : Conn}
    (hr : Reachable cfg s) (hc : getConn s a = some c) (ho : OwnRun a c.clientId f s ops) (hrun : run s ops = .ok s2)
    (pre : List (Op × List Choice)) (op : Op) (ch : List Choice) (post : List (Op × List Choice))
    (hsplit : ops = pre ++ (op, ch) :: post) :
    ∃ t t' out ct, run s pre = .ok t ∧ step { t with oracle := ch } op = .ok (t', out) ∧ run t' post = .ok s2 ∧
      getConn t a = some ct ∧ ct.clientId = c.clientId ∧ ct.link = c.link ∧
      (op = .event a .deviceData →
        ∃ as, Replies (getLink t ct.link).ibuf as ∧ acksOf t' a = some (ct.acks.committed ++ as) ∧
          (∀ j, j ≠ a → (getConn t' j).map Conn.view = (getConn t j).map Conn.view) ∧
          (∀ l, (getLink t' l).obuf = (getLink t l).obuf)) ∧
      (op = .consume → polled t = some a →
        (∃ rest, (getLink t' ct.link).obuf = (getLink t ct.link).obuf ++ ct.acks.committed.map Notif.ack ++ rest ∧
          ∀ n ∈ rest, n.isAck = false) ∧
        (∀ l, l ≠ ct.link → getLink t' l = getLink t l) ∧ acksOf t' a = some []) ∧
      (op ≠ .event a .deviceData → (op = .consume → polled t ≠ some a) → acksOf t' a = acksOf t a) ∧
      (∀ c', getConn t' a = some c' → c'.tracker.status = .paused .caughtup → c'.acks.committed = []) := by
  obtain ⟨t, t', out, ct, k1, k2, k3, k4, k5, k6, k7⟩ := OwnRun.along ops hr hc ho hrun pre op ch post hsplit
  have ho' : OwnOp a ct.clientId f { t with oracle := ch } op := by rw [k4.1]; exact k5
  obtain ⟨p1, p2, p3, p4⟩ := isolated_replies_step k2 k3 ho' k6
  exact ⟨t, t', out, ct, k1, k6, k7, k3, k4.1, k4.2.1, p1, p2, p3, p4⟩

/-- C14 (d) `no_op_panics`: no run from a reachable state panics, whatever its ops — in particular no op
    of another id (stale events for removed or never-used ids, unsolicited acks, malformed batches,
    takeovers) brings the router down under X (`C03.router_never_panics`, over runs) -/
theorem no_op_panics {cfg : Config} (ops : List (Op × List Choice)) {s : RState} (hr : Reachable cfg s)
    (msg : String) : run s ops ≠ .error (.panic msg) :=
  run_never_panics ops hr msg

/-- C14 `isolation`, assembled — "one client's misbehaviour never disturbs another":
    for any run `ops` from a reachable state `s` in which X (connection `a`, record `c`) is registered,
    with premises on X's own ops only (`OwnRun`) and ARBITRARY ops of all other ids,
    * (d) "… never brings the broker down": the run does not panic;
    and if it ends in `s2`,
    * (a) "… X stays connected and subscribed": X's connection is registered in `s2` under the same id,
      client id, link, with the same subscriptions unless X itself sent packets;
    * (b) "… X receives exactly its messages": within the retention and the no-overflow bound, the offsets
      forwarded through X's non-shared subscription `f` are exactly the consecutive ones from X's cursor;
    * (c) "… X's requests are answered, to X only": at every op of the run, X's batch gets exactly its
      replies on X's ack log, X's sweep flushes them in order to X's link, no other op touches X's ack
      log, none is withheld at idle. -/
theorem isolation {cfg : Config} (h1 : 1 ≤ cfg.maxSegmentSize) (h2 : 1 ≤ cfg.maxSegmentCount)
    (hpos : 0 < cfg.maxOutgoingPacketCount) {a : Nat} {f : String} (ops : List (Op × List Choice))
    {s : RState} {c : Conn} (hr : Reachable cfg s) (hc : getConn s a = some c) (ho : OwnRun a c.clientId f s ops) :
    (∀ msg, run s ops ≠ .error (.panic msg)) ∧
    ∀ s2, run s ops = .ok s2 →
      (∃ c2, getConn s2 a = some c2 ∧ c2.clientId = c.clientId ∧ c2.link = c.link ∧ c2.clean = c.clean ∧
        alookup c.clientId s2.connectionMap = some a ∧
        ((∀ ch, (Op.event a .deviceData, ch) ∉ ops) → c2.subscriptions = c.subscriptions)) ∧
      (∀ r, Own s a r → r.filter = f → r.group = none → RetRun a f s ops → Rp3.NoOverflow s2 →
        ∃ r2 c2, Own s2 a r2 ∧ r2.filter = f ∧ r2.group = none ∧ r2.filterIdx = r.filterIdx ∧
          runFwd a f s ops = List.range' r.cursor.2 (runFwd a f s ops).length ∧
          r2.cursor.2 = r.cursor.2 + (runFwd a f s ops).length ∧
          getConn s2 a = some c2 ∧ f ∈ c2.subscriptions) ∧
      (∀ pre op ch post, ops = pre ++ (op, ch) :: post →
        ∃ t t' out ct, run s pre = .ok t ∧ step { t with oracle := ch } op = .ok (t', out) ∧ run t' post = .ok s2 ∧
          getConn t a = some ct ∧ ct.clientId = c.clientId ∧ ct.link = c.link ∧
          (op = .event a .deviceData →
            ∃ as, Replies (getLink t ct.link).ibuf as ∧ acksOf t' a = some (ct.acks.committed ++ as) ∧
              (∀ j, j ≠ a → (getConn t' j).map Conn.view = (getConn t j).map Conn.view) ∧
              (∀ l, (getLink t' l).obuf = (getLink t l).obuf)) ∧
          (op = .consume → polled t = some a →
            (∃ rest, (getLink t' ct.link).obuf = (getLink t ct.link).obuf ++ ct.acks.committed.map Notif.ack ++ rest ∧
              ∀ n ∈ rest, n.isAck = false) ∧
            (∀ l, l ≠ ct.link → getLink t' l = getLink t l) ∧ acksOf t' a = some []) ∧
          (op ≠ .event a .deviceData → (op = .consume → polled t ≠ some a) → acksOf t' a = acksOf t a) ∧
          (∀ c', getConn t' a = some c' → c'.tracker.status = .paused .caughtup → c'.acks.committed = [])) :=
  ⟨no_op_panics ops hr, fun s2 hrun =>
    ⟨connection_and_subscriptions_survive ops hr hc ho hrun,
     fun _ hown hf hplain hret hno => isolated_delivery h1 h2 hpos ops hr hc ho hret hrun hno hown hf hplain,
     fun pre op ch post e => isolated_replies ops hr hc ho hrun pre op ch post e⟩⟩

/-- non-vacuity: closing connection 0 of a two-connection state leaves connection 1 in place -/
example : ∃ s s', Reachable ⟨2, 1024, 2, 10, .roundRobin⟩ s ∧ step s (.event 0 .disconnect) = .ok (s', .ok) ∧
    (getConn s 0).isSome = true ∧ (getConn s' 0).isSome = false ∧ (getConn s' 1).isSome = true :=
  ⟨_, _, ⟨[(.connect { link := 0, clientId := "a", clean := true, dynamicFilters := false, aliasMax := 0, will := none }, []),
           (.connect { link := 1, clientId := "b", clean := true, dynamicFilters := false, aliasMax := 0, will := none }, [])], rfl⟩,
    (step_eqX _ _).trans rfl, rfl, rfl, rfl⟩

/-- non-vacuity of the run-level premises: with `a` (id 0) and `b` (id 1) connected, a run in which `b`
    is disconnected twice (the second event is stale), a never-used id gets a `Ready`, `b`'s client id
    reconnects, and the router sweeps satisfies `OwnRun` for X = `a` — none of these ops is constrained -/
example : ∃ s c, Reachable ⟨4, 1024, 2, 10, .roundRobin⟩ s ∧ getConn s 0 = some c ∧ c.clientId = "a" ∧
    OwnRun 0 "a" "t" s
      [(.event 1 .disconnect, []), (.event 1 .disconnect, []), (.event 7 .ready, []),
       (.connect { link := 2, clientId := "b", clean := true, dynamicFilters := false, aliasMax := 0, will := none }, []),
       (.consume, [])] :=
  ⟨_, _, Reachable.ofX [(.connect { link := 0, clientId := "a", clean := true, dynamicFilters := false, aliasMax := 0, will := none }, []),
        (.connect { link := 1, clientId := "b", clean := true, dynamicFilters := false, aliasMax := 0, will := none }, [])] rfl,
    rfl, rfl,
    ⟨fun e => absurd e (by decide), fun _ _ _ => ⟨fun e => absurd e (by decide), fun _ _ _ =>
      ⟨fun e => absurd e (by decide), fun _ _ _ => ⟨(show "b" ≠ "a" by decide), fun _ _ _ => ⟨trivial, fun _ _ _ => trivial⟩⟩⟩⟩⟩⟩

end C14
