/-
C07 — Client packet ids and inflight window (state-machine part; the event-loop part — the
channel, reconnect, timers — belongs to the `cloop` slice).

Model: `Client.State` (rumqttc::MqttState v4 and v5, one model), `Client.lstep` (how the event
loop uses it: `pending` first, user requests only through the gate `selectEnabled`, pings and
incoming packets ungated, `clean` on failure). Ghost wire view and monitors: Model/Client/Spec.lean.
All theorems: every `max` with 1 ≤ max ≤ 65535, every op sequence, manual acks on/off.

Corner cases in which the as-is code violates a clause are named triggers (Spec.lean); for each the
full clause is refuted on a concrete run (`…_fails`, by `decide`) and proved for all runs that
avoid exactly that trigger (`…_partial`). v4 results without a trigger hypothesis are full strength.
-/
import Proofs.Lemmas.ClientTheorems
namespace C07
open Client Client.Spec

/-! ### runs used as witnesses / non-vacuity examples -/
/-- #11: Q2 A(1), Q1 B(2), Q1 C(3); PUBREC 1; PUBACK 2; Q1 D → id 1 again -/
def run11 : List LOp :=
  [.user (.publish 2 1), .user (.publish 1 2), .user (.publish 1 3), .inc (.pubrec 1 0), .inc (.puback 2 0),
   .user (.publish 1 4)]
/-- #12: A(1), B(2); PUBACK 2; C parks on 1; connection fails -/
def run12 : List LOp := [.user (.publish 1 1), .user (.publish 1 2), .inc (.puback 2 0), .user (.publish 1 3), .fail]
/-- #14 (v5): A(1), B(2); PUBACK 2; C parks on 1; PUBACK(1, QuotaExceeded) -/
def run14 : List LOp := [.user (.publish 1 1), .user (.publish 1 2), .inc (.puback 2 0), .user (.publish 1 3), .inc (.puback 1 151)]
/-- #15 (v5): Q2 A(1); PUBREC(1, UnspecifiedError) -/
def run15 : List LOp := [.user (.publish 2 1), .inc (.pubrec 1 128)]
/-- #17 (v5): A(1), B(2); CONNACK receive_max = 2 (limit 3 → 2); PUBACK 1; C gets id 3 -/
def run17 : List LOp :=
  [.user (.publish 1 1), .user (.publish 1 2), .inc (.connack true false (some 2) none), .inc (.puback 1 0), .user (.publish 1 3)]
/-- a benign run with an out-of-order ack, a wrap-around collision and its resolution -/
def runOk : List LOp :=
  [.user (.publish 1 1), .user (.publish 2 2), .inc (.puback 2 0), .user (.publish 1 3), .inc (.puback 1 0),
   .inc (.pubrec 2 0), .user (.subscribe 1), .inc (.pubcomp 2 0), .fail, .pend, .inc (.puback 1 0)]

/-! ### structure and counter -/

/-- C07.0 (full strength, ANY caller — gated or not, any `Request`, any packet, any `clean`):
    the tables keep their length, a stored publish sits in the slot of its id, and
    `inflight ≥ occupied slots + release bits`. This is what makes every `inflight -= 1` and every
    table index in the acknowledgement handlers safe. -/
theorem structural_invariant (ver : Version) (max : Nat) (m : Bool) (ops : List SOp) :
    SInv (ops.foldl sstepSt (State.new ver max m)) := by
  have : ∀ s, SInv s → SInv (ops.foldl sstepSt s) := by
    induction ops with
    | nil => intro s h; exact h
    | cons op ops ih => intro s h; exact ih _ (h.sstepSt op)
  exact this _ (SInv.new ver max m)

/-- C07.2a counter = table occupancy, v4: holds along every run that avoids #11 (an id reused while
    its QoS 2 flow awaits PUBCOMP) -/
theorem counter_agrees_v4_partial (max : Nat) (m : Bool) (h1 : 1 ≤ max) (h2 : max ≤ u16Max) (ops : List LOp)
    (hn : Avoids idReuseAwaitingComp (LState.new .v4 max m) ops) :
    Inv3 (lrun (LState.new .v4 max m) ops) := by
  apply inv3_run .v4 max m h1 h2 ops
  exact Spec.Avoids.mk_or (avoids_unsafe_v4 _ rfl ops)
    (Spec.Avoids.mk_or hn (avoids_v5only_v4 failedRecOrComp (by
      intro l op h
      cases op with
      | inc p => cases p <;> simp [failedRecOrComp] at h <;> exact h.1
      | _ => simp [failedRecOrComp] at h) _ rfl ops))

/-- C07.2a both versions: additionally no CONNACK lowering the limit under what is in use (#17) and
    no v5 failure-reason PUBREC / PUBCOMP (#15, #16) -/
theorem counter_agrees_partial (ver : Version) (max : Nat) (m : Bool) (h1 : 1 ≤ max) (h2 : max ≤ u16Max) (ops : List LOp)
    (hn : Avoids (fun l op => unsafeConnack l op ∨ idReuseAwaitingComp l op ∨ failedRecOrComp l op) (LState.new ver max m) ops) :
    Inv3 (lrun (LState.new ver max m) ops) := inv3_run ver max m h1 h2 ops hn

/-- the full clause is false in v5: after PUBREC with a failure reason `inflight = 1`, tables empty (#15) -/
theorem counter_agrees_fails_v5 : ¬ Inv3 (lrun (LState.new .v5 2 false) run15) := by decide

/-- … and in v4 once an id was reused (#11): replaying `[D(1), PubRel(1)]` with a PUBREC in between
    sets release bit 1 twice but counts it twice -/
theorem counter_agrees_fails_v4 :
    ¬ Inv3 (lrun (LState.new .v4 3 false) (run11 ++ [.fail, .pend, .pend, .inc (.pubrec 1 0), .pend])) := by decide

/-! ### clause 1: ids in range -/

/-- C07.1 (v4, full strength): every QoS>0 PUBLISH, SUBSCRIBE, UNSUBSCRIBE returned for the wire
    carries an id in `1 ..= max` -/
theorem pkid_range_v4 (max : Nat) (m : Bool) (h1 : 1 ≤ max) (h2 : max ≤ u16Max) (ops : List LOp) :
    Along (fun _ g o _ g' => C07.range g o g' = true) (LState.new .v4 max m) (Ghost.init .v4 max m) ops := by
  apply along_of_inv' B0 (fun l op => ¬ unsafeConnack l op) B0.step _ _ _ _ _ (B0.new .v4 max m h1 h2)
    (avoids_unsafe_v4 _ rfl ops).not_not
  intro l g op o hi _ ho _
  exact C07_range_ok hi op o ho

/-- C07.1 (both versions; the limit is the negotiated one): along every run in which no CONNACK
    lowers the limit under ids / window in use (#17) -/
theorem pkid_range_partial (ver : Version) (max : Nat) (m : Bool) (h1 : 1 ≤ max) (h2 : max ≤ u16Max) (ops : List LOp)
    (hn : Avoids unsafeConnack (LState.new ver max m) ops) :
    Along (fun _ g o _ g' => C07.range g o g' = true) (LState.new ver max m) (Ghost.init ver max m) ops := by
  apply along_of_inv' B0 (fun l op => ¬ unsafeConnack l op) B0.step _ _ _ _ _ (B0.new ver max m h1 h2) hn.not_not
  intro l g op o hi _ ho _
  exact C07_range_ok hi op o ho

/-- the full clause is false in v5 (#17): after the limit was lowered to 2, id 3 goes out -/
theorem pkid_range_fails :
    ¬ Along (fun _ g o _ g' => C07.range g o g' = true) (LState.new .v5 3 false) (Ghost.init .v5 3 false) run17 := by
  rw [along_iff_alongB (fun g o g' => C07.range g o g')]; decide

/-! ### clause 3: window -/

/-- C07.3 state form (v4, full strength): occupied slots + release bits + requests still to be
    replayed never exceed the configured limit -/
theorem window_bound_v4 (max : Nat) (m : Bool) (h1 : 1 ≤ max) (h2 : max ≤ u16Max) (ops : List LOp) :
    occ (lrun (LState.new .v4 max m) ops).st.outgoingPub + relCount (lrun (LState.new .v4 max m) ops).st.outgoingRel +
      (lrun (LState.new .v4 max m) ops).pending.length ≤ max := by
  have h := inv0_run .v4 max m h1 h2 ops (avoids_unsafe_v4 _ rfl ops)
  have hm : (lrun (LState.new .v4 max m) ops).st.maxInflight = max := (lrun_maxInflight_v4 _ rfl ops).1
  have := h.sinv.counter; have := h.window
  omega

/-- C07.3 state form, both versions, against the negotiated limit: along runs without #17 -/
theorem window_bound_state_partial (ver : Version) (max : Nat) (m : Bool) (h1 : 1 ≤ max) (h2 : max ≤ u16Max)
    (ops : List LOp) (hn : Avoids unsafeConnack (LState.new ver max m) ops) :
    occ (lrun (LState.new ver max m) ops).st.outgoingPub + relCount (lrun (LState.new ver max m) ops).st.outgoingRel +
      (lrun (LState.new ver max m) ops).pending.length ≤ (lrun (LState.new ver max m) ops).st.maxInflight := by
  have h := inv0_run ver max m h1 h2 ops hn
  have := h.sinv.counter; have := h.window
  omega

/-- C07.3 wire form: the number of publishes on the wire without their final acknowledgement
    never exceeds the limit — along runs without #17 and without a PUBCOMP releasing a parked
    publish (#4/#13: that publish goes out unrecorded) -/
theorem window_bound_partial (ver : Version) (max : Nat) (m : Bool) (h1 : 1 ≤ max) (h2 : max ≤ u16Max) (ops : List LOp)
    (hn : Avoids c02Trigger (LState.new ver max m) ops) :
    Along (fun _ _ _ _ g' => C07.window g' = true) (LState.new ver max m) (Ghost.init ver max m) ops := by
  apply along_of_inv' B1 (fun l op => ¬ c02Trigger l op) B1.step _ _ _ _ _ (B1.new ver max m h1 h2) hn.not_not
  intro l g op o _ _ _ hi'
  exact C07_window_ok hi'

/-- the full clause is false in v5 (#17): two unacknowledged publishes under a limit lowered to 1 -/
theorem window_bound_fails :
    ¬ Along (fun _ _ _ _ g' => C07.window g' = true) (LState.new .v5 3 false) (Ghost.init .v5 3 false)
      [.user (.publish 1 1), .user (.publish 1 2), .inc (.connack true false (some 1) none)] := by
  rw [along_iff_alongB (fun _ _ g' => C07.window g')]; decide

/-! ### clause 2: distinct ids -/

/-- C07.2 state form: no id is at the same time in a slot, in a release bit or in `pending` —
    along runs without #17 and #11 -/
theorem pkid_unique_state_partial (ver : Version) (max : Nat) (m : Bool) (h1 : 1 ≤ max) (h2 : max ≤ u16Max)
    (ops : List LOp)
    (hn : Avoids (fun l op => unsafeConnack l op ∨ idReuseAwaitingComp l op) (LState.new ver max m) ops) :
    Inv2 (lrun (LState.new ver max m) ops) := (inv2_run ver max m h1 h2 ops hn).2

/-- C07.2 wire form: no two simultaneously unacknowledged publishes (final ack = PUBACK resp.
    PUBCOMP) carry the same id — along runs without #17, #4/#13 and #11 -/
theorem pkid_unique_partial (ver : Version) (max : Nat) (m : Bool) (h1 : 1 ≤ max) (h2 : max ≤ u16Max) (ops : List LOp)
    (hn : Avoids (fun l op => c02Trigger l op ∨ idReuseAwaitingComp l op) (LState.new ver max m) ops) :
    Along (fun _ _ _ _ g' => C07.dupId g' = true) (LState.new ver max m) (Ghost.init ver max m) ops := by
  apply along_of_inv' (fun l g => B1 l g ∧ Inv2 l) (fun l op => ¬ (c02Trigger l op ∨ idReuseAwaitingComp l op))
    _ _ _ _ _ _ ⟨B1.new ver max m h1 h2, Inv2.new ver max m⟩ hn.not_not
  · intro l g op hi hok
    have h1' := hi.1.step l g op (fun h => hok (Or.inl h))
    have h2' := hi.2.lstep hi.1.b0.inv0 op (fun h => hok (Or.inr h))
    cases ho : (lstep l op).2 with
    | none => rw [ho] at h1'; exact ⟨h1', h2'⟩
    | some o => rw [ho] at h1'; exact ⟨h1', h2'⟩
  · intro l g op o _ _ _ hi'
    exact C07_dupId_ok hi'.1 hi'.2

/-- the full clause is false (#11, v4): id 1 is given to a new publish while the QoS 2 flow on
    id 1 still awaits PUBCOMP -/
theorem pkid_unique_fails :
    ¬ Along (fun _ _ _ _ g' => C07.dupId g' = true) (LState.new .v4 3 false) (Ghost.init .v4 3 false) run11 := by
  rw [along_iff_alongB (fun _ _ g' => C07.dupId g')]; decide

/-! ### clause 5: a collision is resolvable -/

/-- C07.5 state form: the id a parked publish waits for is held by a slot or a release bit —
    along runs without #17, #12 and #14 -/
theorem collision_resolvable_state_partial (ver : Version) (max : Nat) (m : Bool) (h1 : 1 ≤ max) (h2 : max ≤ u16Max)
    (ops : List LOp)
    (hn : Avoids (fun l op => unsafeConnack l op ∨ cleanWithCollision l op ∨ failedAckOnCollision l op)
      (LState.new ver max m) ops) :
    Inv4 (lrun (LState.new ver max m) ops) := inv4_run ver max m h1 h2 ops hn

/-- C07.5 wire form: … is held by an unacknowledged publish of the connection -/
theorem collision_resolvable_partial (ver : Version) (max : Nat) (m : Bool) (h1 : 1 ≤ max) (h2 : max ≤ u16Max)
    (ops : List LOp)
    (hn : Avoids (fun l op => c02Trigger l op ∨ cleanWithCollision l op ∨ failedAckOnCollision l op)
      (LState.new ver max m) ops) :
    Along (fun _ _ o _ g' => C07.resolvable g' o = true) (LState.new ver max m) (Ghost.init ver max m) ops := by
  apply along_of_inv' (fun l g => B1 l g ∧ Inv4 l)
    (fun l op => ¬ (c02Trigger l op ∨ cleanWithCollision l op ∨ failedAckOnCollision l op))
    _ _ _ _ _ _ ⟨B1.new ver max m h1 h2, Inv4.new ver max m⟩ hn.not_not
  · intro l g op hi hok
    have h1' := hi.1.step l g op (fun h => hok (Or.inl h))
    have h2' := Inv4.lstep hi.1.b0.inv0 hi.2 op (fun h => hok (Or.inr (Or.inl h))) (fun h => hok (Or.inr (Or.inr h)))
    cases ho : (lstep l op).2 with
    | none => rw [ho] at h1'; exact ⟨h1', h2'⟩
    | some o => rw [ho] at h1'; exact ⟨h1', h2'⟩
  · intro l g op o _ _ _ hi'
    exact C07_resolvable_ok hi'.1 hi'.2 o (step_fields g o).2.1.symm

/-- the full clause is false (#12, v4): `clean()` empties the tables but leaves the parked publish -/
theorem collision_resolvable_fails_clean :
    ¬ Along (fun _ _ o _ g' => C07.resolvable g' o = true) (LState.new .v4 2 false) (Ghost.init .v4 2 false) run12 := by
  rw [along_iff_alongB (fun _ o g' => C07.resolvable g' o)]; decide

/-- … and (#14, v5): a failure-reason PUBACK frees the slot and skips the collision check -/
theorem collision_resolvable_fails_v5 :
    ¬ Along (fun _ _ o _ g' => C07.resolvable g' o = true) (LState.new .v5 2 false) (Ghost.init .v5 2 false) run14 := by
  rw [along_iff_alongB (fun _ o g' => C07.resolvable g' o)]; decide

/-! ### clause 4: the gate -/

/-- C07.4a (full strength, by construction of `lstep`, which mirrors the guard of the request
    branch of `select!`): a request is taken from the channel only if `pending` is empty, the
    counter is below the limit and no publish is parked — and whenever that holds it is taken -/
theorem request_taken_iff_gate_open (l : LState) (u : UserReq) :
    (lop? l (.user u)).isSome = true ↔
      (l.pending = [] ∧ l.st.inflight < l.st.maxInflight ∧ l.st.collision = none) := by
  obtain ⟨s, pd⟩ := l
  simp only [lop?, selectEnabled]
  cases pd with
  | nil =>
    by_cases hc : s.collision = none
    · by_cases hi : s.inflight < s.maxInflight
      · have : ¬ (s.inflight ≥ s.maxInflight) := by omega
        simp [hc, hi, this]
      · have : s.inflight ≥ s.maxInflight := by omega
        simp [hc, hi, this]
    · have hs : s.collision.isSome = true := by
        cases h : s.collision with
        | none => exact absurd h hc
        | some c => rfl
      simp [hc, hs]
  | cons r rest => simp

/-- C07.4b flow resumes: whenever fewer publishes than the limit are unacknowledged, nothing is
    parked and nothing pending, the gate is open — along runs without #17, #4/#13, #11, #15/#16 -/
theorem flow_resumes_partial (ver : Version) (max : Nat) (m : Bool) (h1 : 1 ≤ max) (h2 : max ≤ u16Max) (ops : List LOp)
    (hn : Avoids (fun l op => c02Trigger l op ∨ idReuseAwaitingComp l op ∨ failedRecOrComp l op) (LState.new ver max m) ops) :
    Along (fun _ _ o _ g' => C07.resumes g' o = true) (LState.new ver max m) (Ghost.init ver max m) ops := by
  apply along_of_inv' (fun l g => B1 l g ∧ Inv2 l ∧ Inv3 l)
    (fun l op => ¬ (c02Trigger l op ∨ idReuseAwaitingComp l op ∨ failedRecOrComp l op))
    _ _ _ _ _ _ ⟨B1.new ver max m h1 h2, Inv2.new ver max m, Inv3.new ver max m⟩ hn.not_not
  · intro l g op hi hok
    have h1' := hi.1.step l g op (fun h => hok (Or.inl h))
    have h2' := hi.2.1.lstep hi.1.b0.inv0 op (fun h => hok (Or.inr (Or.inl h)))
    have h3' := Inv3.lstep hi.1.b0.inv0 hi.2.1 hi.2.2 op (fun h => hok (Or.inr (Or.inr h)))
    cases ho : (lstep l op).2 with
    | none => rw [ho] at h1'; exact ⟨h1', h2', h3'⟩
    | some o => rw [ho] at h1'; exact ⟨h1', h2', h3'⟩
  · intro l g op o _ _ _ hi'
    exact C07_resumes_ok hi'.1 hi'.2.2 o (step_fields g o).2.2.symm

/-- the full clause is false in v5 (#15): max = 1, one QoS 2 publish, PUBREC with a failure
    reason — nothing is unacknowledged any more but `inflight` stays 1: the gate never reopens -/
theorem flow_resumes_fails :
    ¬ Along (fun _ _ o _ g' => C07.resumes g' o = true) (LState.new .v5 1 false) (Ghost.init .v5 1 false) run15 := by
  rw [along_iff_alongB (fun _ o g' => C07.resumes g' o)]; decide

/-! ### the monitor as a whole -/

/-- the executable monitor `C07.check` (the one evaluated on traces of the real `MqttState`)
    accepts every trace of the model that avoids the C07 triggers -/
theorem monitor_passes_partial (ver : Version) (max : Nat) (m : Bool) (h1 : 1 ≤ max) (h2 : max ≤ u16Max) (ops : List LOp)
    (hn : Avoids c07Trigger (LState.new ver max m) ops) :
    C07.check (Ghost.init ver max m) (ltrace (LState.new ver max m) ops) = .ok :=
  runChecks_ok _ _ _ _ _ _ (c07_checks_along ver max m h1 h2 ops hn)

/-! ### non-vacuity: each hypothesis is met by a run that exercises the clause -/
example : Avoids c07Trigger (LState.new .v4 2 false) runOk := by decide
example : Avoids c07Trigger (LState.new .v5 2 false) runOk := by decide
example : (lrun (LState.new .v4 2 false) (runOk.take 4)).st.collision.isSome = true := by decide
example : Avoids unsafeConnack (LState.new .v5 10 false)
    [.inc (.connack true false (some 3) (some 5)), .user (.publish 1 1), .user (.publish 1 2)] := by decide
example : ¬ Avoids unsafeConnack (LState.new .v5 3 false) run17 := by decide
example : ¬ Avoids idReuseAwaitingComp (LState.new .v4 3 false) run11 := by decide
example : ¬ Avoids cleanWithCollision (LState.new .v4 2 false) run12 := by decide
example : ¬ Avoids failedAckOnCollision (LState.new .v5 2 false) run14 := by decide
example : ¬ Avoids failedRecOrComp (LState.new .v5 2 false) run15 := by decide

end C07
