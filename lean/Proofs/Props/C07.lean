/-
C07 — Client packet ids and inflight window (state-machine part; the event-loop part — the
channel, reconnect, timers — belongs to the `cloop` slice).

Model: `Client.State` (rumqttc::MqttState v4 and v5, one model), `Client.lstep` (how the event
loop uses it: `pending` first, user requests only through the gate `selectEnabled`, pings and
incoming packets ungated, `clean` on failure). Ghost wire view and monitors: Model/Client/Spec.lean.
All theorems: every `max` with 1 ≤ max ≤ 65535, every op sequence, manual acks on/off.

For the MQTT 3.1.1 client every clause is proved at full strength. For MQTT 5 one corner case
remains in which clauses 1 and 3 fail; it lies in the EVENT LOOP, not in the state machine, and is
a named trigger (Spec.lean): `unsafeConnack` (#17 residual: the loop replays `pending` without
looking at a Receive Maximum the broker lowered in its CONNACK). The full clause is refuted on a
concrete run (`…_fails`, by `decide`) and proved for all runs that avoid exactly that trigger
(`…_partial`). Theorems without a trigger hypothesis are full strength.
-/
import Proofs.Lemmas.ClientTheorems
namespace C07
open Client Client.Spec

/-! ### runs used as witnesses / regression and non-vacuity examples -/
/-- Q2 A(1), Q1 B(2), Q1 C(3); PUBREC 1; PUBACK 2; Q1 D: id 1 still awaits PUBCOMP, D is parked
    (formerly #11: D went out with id 1) -/
def run11 : List LOp :=
  [.user (.publish 2 1), .user (.publish 1 2), .user (.publish 1 3), .inc (.pubrec 1 0), .inc (.puback 2 0),
   .user (.publish 1 4)]
/-- A(1), B(2); PUBACK 2; C parks on 1; connection fails (formerly #12: C stayed parked for ever) -/
def run12 : List LOp := [.user (.publish 1 1), .user (.publish 1 2), .inc (.puback 2 0), .user (.publish 1 3), .fail]
/-- v5: A(1), B(2); PUBACK 2; C parks on 1; PUBACK(1, QuotaExceeded) (formerly #14: C never released) -/
def run14 : List LOp := [.user (.publish 1 1), .user (.publish 1 2), .inc (.puback 2 0), .user (.publish 1 3), .inc (.puback 1 151)]
/-- v5: Q2 A(1); PUBREC(1, UnspecifiedError) (formerly #15: `inflight` stayed 1) -/
def run15 : List LOp := [.user (.publish 2 1), .inc (.pubrec 1 128)]
/-- #17 (v5, residual): A(1), B(2); the connection fails; the broker's next CONNACK says Receive
    Maximum 1; the loop replays both -/
def run17 : List LOp :=
  [.user (.publish 1 1), .user (.publish 1 2), .fail, .inc (.connack true false (some 1) none), .pend, .pend]
/-- v5: the limit is lowered below the id counter while nothing is in use (formerly #17: id 3 under limit 2) -/
def run17ok : List LOp :=
  [.user (.publish 1 1), .user (.publish 1 2), .inc (.puback 1 0), .inc (.puback 2 0),
   .inc (.connack true false (some 2) none), .user (.publish 1 3)]
/-- Q2 A(1), B(2) both received; C(3) acknowledged; D parks on id 1 (its release is pending);
    failure → `pending = [PubRel 1, PubRel 2, D]`; both releases replayed; second failure →
    `pending = [PubRel 1, PubRel 2, D]` again (what the state held goes in front): D is numbered
    after the releases are registered and parks again (with the loop order of before,
    `[D, PubRel 1, PubRel 2]`, D went out with id 2 while release 2 was still to come) -/
def run24 : List LOp :=
  [.user (.publish 2 1), .inc (.pubrec 1 0), .user (.publish 2 2), .inc (.pubrec 2 0), .user (.publish 1 3),
   .inc (.puback 3 0), .user (.publish 1 4), .fail, .pend, .pend, .fail, .pend, .pend, .pend]
/-- a benign run with an out-of-order ack, a wrap-around collision and its resolution -/
def runOk : List LOp :=
  [.user (.publish 1 1), .user (.publish 2 2), .inc (.puback 2 0), .user (.publish 1 3), .inc (.puback 1 0),
   .inc (.pubrec 2 0), .user (.subscribe 1), .inc (.pubcomp 2 0), .fail, .pend, .inc (.puback 1 0)]

/-! ### structure and counter -/

/-- C07.0 (full strength, ANY caller — gated or not, any `Request`, any packet, any `clean`):
    the tables keep their length, a stored publish sits in the slot of its id, and
    `inflight ≥ occupied slots + release bits`. This is what makes every `inflight -= 1` and every
    table index in the acknowledgement handlers safe. -/
theorem structural_invariant (ver : Version) (max : Nat) (m : Bool) (ops : List SOp) :
    SInv (ops.foldl sstepSt (State.new ver max m)) := by
  have : ∀ s, SInv s → SInv (ops.foldl sstepSt s) := by
    induction ops with
    | nil => intro s h; exact h
    | cons op ops ih => intro s h; exact ih _ (h.sstepSt op)
  exact this _ (SInv.new ver max m)

/-- C07.2a counter = table occupancy (`inflight` = occupied slots + release bits), both versions:
    along every run that avoids #17 -/
theorem counter_agrees_partial (ver : Version) (max : Nat) (m : Bool) (h1 : 1 ≤ max) (h2 : max ≤ u16Max) (ops : List LOp)
    (hn : Avoids unsafeConnack (LState.new ver max m) ops) :
    Inv3 (lrun (LState.new ver max m) ops) := (inv23_run ver max m h1 h2 ops hn).2.2

/-- … MQTT 3.1.1: full strength -/
theorem counter_agrees_v4 (max : Nat) (m : Bool) (h1 : 1 ≤ max) (h2 : max ≤ u16Max) (ops : List LOp) :
    Inv3 (lrun (LState.new .v4 max m) ops) :=
  counter_agrees_partial .v4 max m h1 h2 ops (avoids_unsafe_v4 _ rfl ops)

/-! ### clause 1: ids in range -/

/-- C07.1 (v4, full strength): every QoS>0 PUBLISH, SUBSCRIBE, UNSUBSCRIBE returned for the wire
    carries an id in `1 ..= max` -/
theorem pkid_range_v4 (max : Nat) (m : Bool) (h1 : 1 ≤ max) (h2 : max ≤ u16Max) (ops : List LOp) :
    Along (fun _ g o _ g' => C07.range g o g' = true) (LState.new .v4 max m) (Ghost.init .v4 max m) ops := by
  apply along_of_inv' B1 (fun l op => ¬ unsafeConnack l op) B1.step _ _ _ _ _ (B1.new .v4 max m h1 h2)
    (avoids_unsafe_v4 _ rfl ops).not_not
  intro l g op o hi _ ho _
  exact C07_range_ok hi op o ho

/-- C07.1 (both versions; the limit is the negotiated one): along every run in which no CONNACK
    lowers the limit under what is in use (#17) -/
theorem pkid_range_partial (ver : Version) (max : Nat) (m : Bool) (h1 : 1 ≤ max) (h2 : max ≤ u16Max) (ops : List LOp)
    (hn : Avoids unsafeConnack (LState.new ver max m) ops) :
    Along (fun _ g o _ g' => C07.range g o g' = true) (LState.new ver max m) (Ghost.init ver max m) ops := by
  apply along_of_inv' B1 (fun l op => ¬ unsafeConnack l op) B1.step _ _ _ _ _ (B1.new ver max m h1 h2) hn.not_not
  intro l g op o hi _ ho _
  exact C07_range_ok hi op o ho

/-- the full clause is false in v5 (#17): the replayed publish keeps id 2 under a limit of 1 -/
theorem pkid_range_fails :
    ¬ Along (fun _ g o _ g' => C07.range g o g' = true) (LState.new .v5 3 false) (Ghost.init .v5 3 false) run17 := by
  rw [along_iff_alongB (fun g o g' => C07.range g o g')]; decide

/-! ### clause 3: window -/

/-- C07.3 state form (v4, full strength): occupied slots + release bits + requests still to be
    replayed (+ the parked publish) never exceed the configured limit -/
theorem window_bound_v4 (max : Nat) (m : Bool) (h1 : 1 ≤ max) (h2 : max ≤ u16Max) (ops : List LOp) :
    occ (lrun (LState.new .v4 max m) ops).st.outgoingPub + relCount (lrun (LState.new .v4 max m) ops).st.outgoingRel +
      (lrun (LState.new .v4 max m) ops).pending.length ≤ max := by
  have h := inv0_run .v4 max m h1 h2 ops (avoids_unsafe_v4 _ rfl ops)
  have hm : (lrun (LState.new .v4 max m) ops).st.maxInflight = max := (lrun_maxInflight_v4 _ rfl ops).1
  have := h.sinv.counter; have := h.window
  omega

/-- C07.3 state form, both versions, against the negotiated limit: along runs without #17 -/
theorem window_bound_state_partial (ver : Version) (max : Nat) (m : Bool) (h1 : 1 ≤ max) (h2 : max ≤ u16Max)
    (ops : List LOp) (hn : Avoids unsafeConnack (LState.new ver max m) ops) :
    occ (lrun (LState.new ver max m) ops).st.outgoingPub + relCount (lrun (LState.new ver max m) ops).st.outgoingRel +
      (lrun (LState.new ver max m) ops).pending.length ≤ (lrun (LState.new ver max m) ops).st.maxInflight := by
  have h := inv0_run ver max m h1 h2 ops hn
  have := h.sinv.counter; have := h.window
  omega

/-- C07.3 wire form: the number of publishes on the wire without their final acknowledgement
    never exceeds the limit — along runs without #17 -/
theorem window_bound_partial (ver : Version) (max : Nat) (m : Bool) (h1 : 1 ≤ max) (h2 : max ≤ u16Max) (ops : List LOp)
    (hn : Avoids unsafeConnack (LState.new ver max m) ops) :
    Along (fun _ _ _ _ g' => C07.window g' = true) (LState.new ver max m) (Ghost.init ver max m) ops := by
  apply along_of_inv' B1 (fun l op => ¬ unsafeConnack l op) B1.step _ _ _ _ _ (B1.new ver max m h1 h2) hn.not_not
  intro l g op o _ _ _ hi'
  exact C07_window_ok hi'

/-- … MQTT 3.1.1: full strength -/
theorem window_bound_wire_v4 (max : Nat) (m : Bool) (h1 : 1 ≤ max) (h2 : max ≤ u16Max) (ops : List LOp) :
    Along (fun _ _ _ _ g' => C07.window g' = true) (LState.new .v4 max m) (Ghost.init .v4 max m) ops :=
  window_bound_partial .v4 max m h1 h2 ops (avoids_unsafe_v4 _ rfl ops)

/-- the full clause is false in v5 (#17): two unacknowledged publishes under a limit lowered to 1 -/
theorem window_bound_fails :
    ¬ Along (fun _ _ _ _ g' => C07.window g' = true) (LState.new .v5 3 false) (Ghost.init .v5 3 false)
      [.user (.publish 1 1), .user (.publish 1 2), .inc (.connack true false (some 1) none)] := by
  rw [along_iff_alongB (fun _ _ g' => C07.window g')]; decide

/-! ### clause 2: distinct ids -/

/-- C07.2 state form: no id is at the same time in a slot, in a release bit or in `pending`, and
    nothing is parked while `pending` is not empty — along runs without #17 -/
theorem pkid_unique_state_partial (ver : Version) (max : Nat) (m : Bool) (h1 : 1 ≤ max) (h2 : max ≤ u16Max)
    (ops : List LOp) (hn : Avoids unsafeConnack (LState.new ver max m) ops) :
    Inv2 (lrun (LState.new ver max m) ops) := (inv23_run ver max m h1 h2 ops hn).2.1

/-- … MQTT 3.1.1: full strength -/
theorem pkid_unique_state_v4 (max : Nat) (m : Bool) (h1 : 1 ≤ max) (h2 : max ≤ u16Max) (ops : List LOp) :
    Inv2 (lrun (LState.new .v4 max m) ops) :=
  pkid_unique_state_partial .v4 max m h1 h2 ops (avoids_unsafe_v4 _ rfl ops)

/-- C07.2 wire form: no two simultaneously unacknowledged publishes (final ack = PUBACK resp.
    PUBCOMP) carry the same id — along runs without #17 -/
theorem pkid_unique_partial (ver : Version) (max : Nat) (m : Bool) (h1 : 1 ≤ max) (h2 : max ≤ u16Max) (ops : List LOp)
    (hn : Avoids unsafeConnack (LState.new ver max m) ops) :
    Along (fun _ _ _ _ g' => C07.dupId g' = true) (LState.new ver max m) (Ghost.init ver max m) ops := by
  apply along_of_inv' B1 (fun l op => ¬ unsafeConnack l op) B1.step _ _ _ _ _ (B1.new ver max m h1 h2) hn.not_not
  intro l g op o _ _ _ hi'
  exact C07_dupId_ok hi'

/-- … MQTT 3.1.1: full strength -/
theorem pkid_unique_v4 (max : Nat) (m : Bool) (h1 : 1 ≤ max) (h2 : max ≤ u16Max) (ops : List LOp) :
    Along (fun _ _ _ _ g' => C07.dupId g' = true) (LState.new .v4 max m) (Ghost.init .v4 max m) ops :=
  pkid_unique_partial .v4 max m h1 h2 ops (avoids_unsafe_v4 _ rfl ops)

/-! ### clause 5: a collision is resolvable -/

/-- C07.5 state form (v4, full strength): the id a parked publish waits for is held by a slot or
    a release bit — the acknowledgement that frees it releases the publish -/
theorem collision_resolvable_state_v4 (max : Nat) (m : Bool) (h1 : 1 ≤ max) (h2 : max ≤ u16Max) (ops : List LOp) :
    Inv4 (lrun (LState.new .v4 max m) ops) := inv4_run .v4 max m h1 h2 ops (avoids_unsafe_v4 _ rfl ops)

/-- C07.5 state form, both versions: along runs without #17 -/
theorem collision_resolvable_state_partial (ver : Version) (max : Nat) (m : Bool) (h1 : 1 ≤ max) (h2 : max ≤ u16Max)
    (ops : List LOp) (hn : Avoids unsafeConnack (LState.new ver max m) ops) :
    Inv4 (lrun (LState.new ver max m) ops) := inv4_run ver max m h1 h2 ops hn

/-- C07.5 wire form: … is held by an unacknowledged publish of the connection — along runs without #17 -/
theorem collision_resolvable_partial (ver : Version) (max : Nat) (m : Bool) (h1 : 1 ≤ max) (h2 : max ≤ u16Max)
    (ops : List LOp) (hn : Avoids unsafeConnack (LState.new ver max m) ops) :
    Along (fun _ _ o _ g' => C07.resolvable g' o = true) (LState.new ver max m) (Ghost.init ver max m) ops := by
  apply along_of_inv' B1 (fun l op => ¬ unsafeConnack l op) B1.step _ _ _ _ _ (B1.new ver max m h1 h2) hn.not_not
  intro l g op o _ _ _ hi'
  exact C07_resolvable_ok hi' o (step_fields g o).2.1.symm

/-- … MQTT 3.1.1: full strength -/
theorem collision_resolvable_v4 (max : Nat) (m : Bool) (h1 : 1 ≤ max) (h2 : max ≤ u16Max) (ops : List LOp) :
    Along (fun _ _ o _ g' => C07.resolvable g' o = true) (LState.new .v4 max m) (Ghost.init .v4 max m) ops :=
  collision_resolvable_partial .v4 max m h1 h2 ops (avoids_unsafe_v4 _ rfl ops)

/-! ### clause 4: the gate -/

/-- C07.4a (full strength, by construction of `lstep`, which mirrors the guard of the request
    branch of `select!`): a request is taken from the channel only if `pending` is empty, the
    counter is below the limit and no publish is parked — and whenever that holds it is taken -/
theorem request_taken_iff_gate_open (l : LState) (u : UserReq) :
    (lop? l (.user u)).isSome = true ↔
      (l.pending = [] ∧ l.st.inflight < l.st.maxInflight ∧ l.st.collision = none) := by
  obtain ⟨s, pd⟩ := l
  simp only [lop?, selectEnabled, windowOpen]
  cases pd with
  | nil =>
    by_cases hc : s.collision = none
    · by_cases hi : s.inflight < s.maxInflight
      · have : ¬ (s.inflight ≥ s.maxInflight) := by omega
        simp [pendingReady, hc, hi, this]
      · have : s.inflight ≥ s.maxInflight := by omega
        simp [pendingReady, hc, hi, this]
    · have hs : s.collision.isSome = true := by
        cases h : s.collision with
        | none => exact absurd h hc
        | some c => rfl
      simp [pendingReady, hc, hs]
  | cons r rest => simp

/-- C07.4a' (full strength): the head of `pending` is taken iff it is a retransmission (owns a packet
    id) or the window is open: retransmissions are never held back, a request that merely waited
    in `pending` (the publish that was parked when the connection failed) obeys flow control -/
theorem pending_taken_iff_ready (s : State) (r : Request) (rest : List Request) :
    (lop? ⟨s, r :: rest⟩ .pend).isSome = true ↔
      ((∃ p, r = .publish p ∧ p.pkid ≠ 0) ∨ (∃ i, r = .pubrel i) ∨ (s.inflight < s.maxInflight ∧ s.collision = none)) := by
  have hw : windowOpen s = true ↔ (s.inflight < s.maxInflight ∧ s.collision = none) := by
    unfold windowOpen
    cases hc : s.collision <;> by_cases hi : s.inflight < s.maxInflight <;> simp [hi] <;> omega
  simp only [lop?]
  cases r with
  | publish p =>
    by_cases hp : p.pkid = 0
    · simp [pendingReady, hp, hw]
    · simp [pendingReady, hp]
  | pubrel i => simp [pendingReady]
  | subscribe n => simp [pendingReady, hw]
  | unsubscribe => simp [pendingReady, hw]
  | pingreq => simp [pendingReady, hw]
  | disconnect => simp [pendingReady, hw]
  | puback j => simp [pendingReady, hw]
  | pubrec j => simp [pendingReady, hw]
  | other => simp [pendingReady, hw]

/-- C07.4b flow resumes: whenever fewer publishes than the limit are unacknowledged, nothing is
    parked and nothing pending, the gate is open — along runs without #17 -/
theorem flow_resumes_partial (ver : Version) (max : Nat) (m : Bool) (h1 : 1 ≤ max) (h2 : max ≤ u16Max) (ops : List LOp)
    (hn : Avoids unsafeConnack (LState.new ver max m) ops) :
    Along (fun _ _ o _ g' => C07.resumes g' o = true) (LState.new ver max m) (Ghost.init ver max m) ops := by
  apply along_of_inv' B1 (fun l op => ¬ unsafeConnack l op) B1.step _ _ _ _ _ (B1.new ver max m h1 h2) hn.not_not
  intro l g op o _ _ _ hi'
  exact C07_resumes_ok hi' o (step_fields g o).2.2.symm

/-- … MQTT 3.1.1: full strength -/
theorem flow_resumes_v4 (max : Nat) (m : Bool) (h1 : 1 ≤ max) (h2 : max ≤ u16Max) (ops : List LOp) :
    Along (fun _ _ o _ g' => C07.resumes g' o = true) (LState.new .v4 max m) (Ghost.init .v4 max m) ops :=
  flow_resumes_partial .v4 max m h1 h2 ops (avoids_unsafe_v4 _ rfl ops)

/-- C07.4c (v4 full strength; both versions along runs without #17) the unnumbered publish waiting
    in `pending` cannot starve: whenever it is the head of `pending`, the window is open -/
theorem parked_replay_never_blocked (ver : Version) (max : Nat) (m : Bool) (h1 : 1 ≤ max) (h2 : max ≤ u16Max)
    (ops : List LOp) (hn : Avoids unsafeConnack (LState.new ver max m) ops) (r : Request) (rest : List Request)
    (hp : (lrun (LState.new ver max m) ops).pending = r :: rest) :
    pendingReady (lrun (LState.new ver max m) ops).st (lrun (LState.new ver max m) ops).pending = true := by
  obtain ⟨i0, i2, _⟩ := inv23_run ver max m h1 h2 ops hn
  generalize lrun (LState.new ver max m) ops = l at *
  obtain ⟨s, pd⟩ := l
  simp only at hp
  subst hp
  have hcol : s.collision = none := i2.col_none
  have hw := i0.window
  simp only [List.length_cons] at hw
  have hopen : windowOpen s = true := by
    unfold windowOpen
    have : ¬ s.inflight ≥ s.maxInflight := by omega
    simp [hcol, this]
  cases r <;> simp [pendingReady, hopen]

/-! ### the monitor as a whole -/

/-- the executable monitor `C07.check` (the one evaluated on traces of the real `MqttState`)
    accepts every trace of the model that avoids #17 -/
theorem monitor_passes_partial (ver : Version) (max : Nat) (m : Bool) (h1 : 1 ≤ max) (h2 : max ≤ u16Max) (ops : List LOp)
    (hn : Avoids unsafeConnack (LState.new ver max m) ops) :
    C07.check (Ghost.init ver max m) (ltrace (LState.new ver max m) ops) = .ok :=
  runChecks_ok _ _ _ _ _ _ (c07_checks_along ver max m h1 h2 ops hn)

/-- MQTT 3.1.1: every trace (full strength) -/
theorem monitor_passes_v4 (max : Nat) (m : Bool) (h1 : 1 ≤ max) (h2 : max ≤ u16Max) (ops : List LOp) :
    C07.check (Ghost.init .v4 max m) (ltrace (LState.new .v4 max m) ops) = .ok :=
  monitor_passes_partial .v4 max m h1 h2 ops (avoids_unsafe_v4 _ rfl ops)

/-! ### regression examples: the runs on which the clauses used to fail -/
example : C07.check (Ghost.init .v4 3 false) (ltrace (LState.new .v4 3 false) run11) = .ok := by decide
example : C07.check (Ghost.init .v4 2 false) (ltrace (LState.new .v4 2 false) (run12 ++ [.pend, .pend, .inc (.puback 1 0)])) = .ok := by
  decide
example : C07.check (Ghost.init .v5 2 false) (ltrace (LState.new .v5 2 false) run14) = .ok := by decide
example : C07.check (Ghost.init .v5 1 false) (ltrace (LState.new .v5 1 false) run15) = .ok := by decide
example : C07.check (Ghost.init .v5 3 false) (ltrace (LState.new .v5 3 false) run17ok) = .ok := by decide
example : C07.check (Ghost.init .v4 3 false) (ltrace (LState.new .v4 3 false) run24) = .ok := by decide
example : (lrun (LState.new .v4 3 false) run11).st.collision.isSome = true := by decide
example : (lrun (LState.new .v5 2 false) run14).st.collision = none := by decide
example : (lrun (LState.new .v5 1 false) run15).st.inflight = 0 := by decide
example : (lrun (LState.new .v4 3 false) (run24.take 11)).pending = [.pubrel 1, .pubrel 2, .publish ⟨1, 0, 4, none⟩] := by decide
example : (lrun (LState.new .v4 3 false) run24).st.collision = some ⟨1, 2, 4, none⟩ := by decide

/-! ### non-vacuity: each hypothesis is met by a run that exercises the clause -/
example : Avoids unsafeConnack (LState.new .v5 2 false) runOk := by decide
example : Avoids unsafeConnack (LState.new .v5 3 false) run17ok := by decide
example : Avoids unsafeConnack (LState.new .v5 2 false) run14 := by decide
example : (lrun (LState.new .v4 2 false) (runOk.take 4)).st.collision.isSome = true := by decide
example : Avoids unsafeConnack (LState.new .v5 10 false)
    [.inc (.connack true false (some 3) (some 5)), .user (.publish 1 1), .user (.publish 1 2)] := by decide
example : ¬ Avoids unsafeConnack (LState.new .v5 3 false) run17 := by decide

end C07
