/-
C01 — Broker delivers each message to exactly the matching subscriptions, in order.
-/
import Proofs.Lemmas.Router.Frame
import Proofs.Props.C12
namespace C01
open Router

/-- the router's notion of "topic matches filter" is the MQTT relation (C12) on valid inputs,
    including this code base's rule that `$`-topics match no filter -/
theorem router_matching_is_mqtt (topic filter : String)
    (ht : Topic.validTopic topic.toList = true) (hf : Topic.validFilterB filter.toList = true) :
    topicMatches topic filter = true ↔ Topic.MatchesSpec topic.toList filter.toList :=
  C12.matches_spec topic.toList filter.toList ht hf

/-- the set of logs a new topic is appended to is exactly the set of filters that match it, for
    every iteration order of the hash map (the order is an oracle, membership is checked) -/
theorem publish_goes_to_exactly_the_matching_filters (s s' : RState) (topic : String) (v : List Nat)
    (hcache : alookup topic s.datalog.publishFilters = none) (h : dlMatches s topic = .ok (s', v)) :
    ∀ idx, idx ∈ v ↔ idx ∈ (s.datalog.filterIndexes.filter (fun p => topicMatches topic p.1)).map (·.2) := by
  unfold dlMatches at h
  simp only [hcache] at h
  split at h
  · split at h
    · rename_i hs
      simp only [Except.ok.injEq, Prod.mk.injEq] at h
      obtain ⟨_, rfl⟩ := h
      intro idx
      unfold sameMembers at hs
      simp only [Bool.and_eq_true, beq_iff_eq, List.all_eq_true] at hs
      obtain ⟨hab, hba⟩ := hs
      constructor
      · intro hm
        have := hab idx hm
        have hp : 0 < List.count idx _ := List.count_pos_iff.mpr hm
        exact List.count_pos_iff.mp (by omega)
      · intro hm
        have := hba idx hm
        have hp : 0 < List.count idx _ := List.count_pos_iff.mpr hm
        exact List.count_pos_iff.mp (by omega)
    · simp at h
  · simp at h

end C01
