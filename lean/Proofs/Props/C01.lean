/-
C01 — Broker delivers each message to exactly the matching subscriptions, in order.
-/
import Proofs.Lemmas.Router.Frame
import Proofs.Lemmas.Router.Rp3_ReqRun
import Proofs.Lemmas.Router.Rp5_Reach
import Proofs.Lemmas.Router.Rp7_Run
import Proofs.Lemmas.Router.Rp8_Idle
import Proofs.Props.C12
namespace C01
open Router Router.Rp3 CommitLog

/-- the router's notion of "topic matches filter" is the MQTT relation (C12) on valid inputs,
    including this code base's rule that `$`-topics match no filter -/
theorem router_matching_is_mqtt (topic filter : String)
    (ht : Topic.validTopic topic.toList = true) (hf : Topic.validFilterB filter.toList = true) :
    topicMatches topic filter = true ↔ Topic.MatchesSpec topic.toList filter.toList :=
  C12.matches_spec topic.toList filter.toList ht hf

/-- the set of logs a new topic is appended to is exactly the set of filters that match it, for
    every iteration order of the hash map (the order is an oracle, membership is checked) -/
theorem publish_goes_to_exactly_the_matching_filters (s s' : RState) (topic : String) (v : List Nat)
    (hcache : alookup topic s.datalog.publishFilters = none) (h : dlMatches s topic = .ok (s', v)) :
    ∀ idx, idx ∈ v ↔ idx ∈ (s.datalog.filterIndexes.filter (fun p => topicMatches topic p.1)).map (·.2) := by
  unfold dlMatches at h
  simp only [hcache] at h
  split at h
  · split at h
    · rename_i hs
      simp only [Except.ok.injEq, Prod.mk.injEq] at h
      obtain ⟨_, rfl⟩ := h
      intro idx
      unfold sameMembers at hs
      simp only [Bool.and_eq_true, beq_iff_eq, List.all_eq_true] at hs
      obtain ⟨hab, hba⟩ := hs
      constructor
      · intro hm
        have := hab idx hm
        have hp : 0 < List.count idx _ := List.count_pos_iff.mpr hm
        exact List.count_pos_iff.mp (by omega)
      · intro hm
        have := hba idx hm
        have hp : 0 < List.count idx _ := List.count_pos_iff.mpr hm
        exact List.count_pos_iff.mp (by omega)
    · simp at h
  · simp at h

/-! ### C01.1 `log_content`: coherence of the topic→filters cache, and what an accepted publish
    does to the filter logs -/

/-- C01.1 (invariant). In EVERY reachable state (any ops, any oracle choices; configuration with
    positive segment limits) the three maps of the data log are coherent (`MapsConsistent`):
    `filter_indexes` maps a filter to `i` exactly when slot `i` of `native` holds that filter (so
    indexes are valid and pairwise distinct); a cached `publish_filters` entry for a topic lists,
    without repetition, exactly the indexes of the filters that match the topic; and every filter
    log is a well-formed commit log representing an append history (C13 `Rep`). -/
theorem maps_consistent (cfg : Config) (h1 : 1 ≤ cfg.maxSegmentSize) (h2 : 1 ≤ cfg.maxSegmentCount)
    (s : RState) (hr : Reachable cfg s) :
    MapsConsistent s ∧
    (∀ f i, alookup f s.datalog.filterIndexes = some i ↔
        ∃ fd, s.datalog.native[i]? = some fd ∧ fd.filter = f) ∧
    (∀ topic v, alookup topic s.datalog.publishFilters = some v →
        v.Nodup ∧ ∀ i, i ∈ v ↔ ∃ fd, s.datalog.native[i]? = some fd ∧ topicMatches topic fd.filter = true) ∧
    (∀ fd ∈ s.datalog.native, ∃ hist : List Pub, Rep (logC fd.log) hist) := by
  have hi := reachable_inv h1 h2 hr
  refine ⟨hi.maps, ?_, fun topic v hv => hi.maps.cache_spec hv, ?_⟩
  · intro f i
    have := hi.maps.lookup_iff f i
    unfold DataLog.filterIdx? at this
    rw [this]
    cases s.datalog.native[i]? <;> simp
  · intro fd hfd
    exact hi.logs fd.log (List.mem_map.mpr ⟨fd, hfd, rfl⟩)

/-- C01.1 (the invariant also holds INSIDE steps). `DLInv` (= `MapsConsistent` + well-formed filter
    logs + positive segment limits) holds in every reachable state and is preserved by the handling
    of every single packet of a batch, so every call of `append_to_commitlog` / `forward_device_data`
    inside a step sees a coherent data log — which is the hypothesis of the theorems below. -/
theorem datalog_invariant (cfg : Config) (h1 : 1 ≤ cfg.maxSegmentSize) (h2 : 1 ≤ cfg.maxSegmentCount) :
    (∀ s, Reachable cfg s → DLInv s) ∧
    (∀ s s' id cid pkt fl fl', DLInv s → handlePacket s id cid pkt fl = .ok (s', fl') → DLInv s') ∧
    (∀ s s' op o, DLInv s → step s op = .ok (s', o) → DLInv s') :=
  ⟨fun _ hr => reachable_inv h1 h2 hr, fun _ _ _ _ _ _ _ hi h => handlePacket_inv hi h,
   fun _ _ _ _ hi h => step_inv hi h⟩

/-- C01.1 (inductive core, cache fill). `DataLog::matches` preserves coherence and answers with a
    permutation of the matching filters' indexes — from the cache or freshly computed, for every
    hash-map order the oracle supplies. -/
theorem matches_preserves_coherence (s s' : RState) (topic : String) (v : List Nat) (hi : DLInv s)
    (h : dlMatches s topic = .ok (s', v)) :
    DLInv s' ∧ v.Nodup ∧
    ∀ i, i ∈ v ↔ ∃ fd, s.datalog.native[i]? = some fd ∧ topicMatches topic fd.filter = true := by
  obtain ⟨h1, hp, _, _⟩ := dlMatches_inv hi h
  exact ⟨h1, hp.nodup_iff.mpr (expectedIdxs_nodup hi.maps topic),
    fun i => by rw [hp.mem_iff, mem_expectedIdxs hi.maps]⟩

/-- C01.1 (inductive core, new filter). `next_native_offset` preserves coherence: a new filter gets
    the next index and is added to every cached topic it matches. -/
theorem new_filter_preserves_coherence (s : RState) (filter : String) (hi : DLInv s) :
    DLInv (nextNativeOffset s filter).1 :=
  (nextNativeOffset_inv hi).1

/-- C01.1 `log_content`. In a state satisfying the invariant (every reachable state and every
    state inside a step, `datalog_invariant`), when `append_to_commitlog` accepts a publish, the
    publish (retain flag cleared, same payload and QoS, the topic it was sent with — or the topic
    its alias resolves to) is appended to the log of EVERY filter that matches the topic, exactly
    once, and to no other log; also when the answer comes from the `publish_filters` cache. -/
theorem log_content (s s' : RState) (hi : DLInv s) (id : Nat) (p : Pub)
    (h : appendToCommitlog s id p = .ok (s', none)) :
    ∃ (p1 : Pub) (topic : String), utf8? p1.topic = some topic ∧ p1.payload = p.payload ∧ p1.qos = p.qos ∧
      (p.alias = none ∨ p.topic.isEmpty = false → p1.topic = p.topic) ∧
      ∀ (i : Nat), s'.datalog.native[i]? = (s.datalog.native[i]?).map (fun fd =>
        if topicMatches topic fd.filter then
          { fd with log := (fd.log.append { p1 with retain := false } (pubSize p1)).1, waiters := [] }
        else fd) := by
  obtain ⟨c, s1, p1, topic, hc, hres, htop, hdel⟩ := appendToCommitlog_accept h
  obtain ⟨e1, _, _, e4, e5, _, _, e8⟩ := resolveAlias_spec hres
  have hi1 : DLInv s1 := hi.of_dkey (resolveAlias_dkey hres)
  have hi2 : DLInv ((updateRetained s1 topic p1).g (.accepted (some id) p1 topic)) :=
    hi1.of_dkey (by rw [dkey_g, updateRetained_dkey])
  obtain ⟨hnat, _⟩ := deliver_spec hi2 hdel
  refine ⟨p1, topic, htop, e4, e5, e8, ?_⟩
  intro i
  rw [hnat i]
  have : ((updateRetained s1 topic p1).g (.accepted (some id) p1 topic)).datalog.native = s.datalog.native := by
    show (updateRetained s1 topic p1).datalog.native = _
    rw [(updateRetained_same s1 topic p1).1, e1]
  rw [this]
  rfl

/-- C01.1 with C12: for a valid topic and valid filters the logs that receive the publish are
    exactly those whose filter matches the topic in the MQTT sense. -/
theorem log_content_mqtt (s s' : RState) (hi : DLInv s) (id : Nat) (p : Pub)
    (h : appendToCommitlog s id p = .ok (s', none)) :
    ∃ (p1 : Pub) (topic : String), utf8? p1.topic = some topic ∧ p1.payload = p.payload ∧
      ∀ (i : Nat) (fd : FilterData), s.datalog.native[i]? = some fd →
        Topic.validTopic topic.toList = true → Topic.validFilterB fd.filter.toList = true →
        (Topic.MatchesSpec topic.toList fd.filter.toList →
          s'.datalog.native[i]? = some { fd with log := (fd.log.append { p1 with retain := false } (pubSize p1)).1, waiters := [] }) ∧
        (¬ Topic.MatchesSpec topic.toList fd.filter.toList → s'.datalog.native[i]? = some fd) := by
  obtain ⟨p1, topic, ht, hp, _, _, hall⟩ := log_content s s' hi id p h
  refine ⟨p1, topic, ht, hp, ?_⟩
  intro i fd hfd hvt hvf
  have hm := router_matching_is_mqtt topic fd.filter hvt hvf
  rw [hall i, hfd]
  constructor
  · intro hs; simp [hm.mpr hs]
  · intro hs
    have : ¬ topicMatches topic fd.filter = true := fun e => hs (hm.mp e)
    simp [this]

/-- C01.1 (history form). The log of a matching filter then represents its old history extended by
    exactly this publish. -/
theorem log_content_history (fd : FilterData) (hist : List Pub) (hrep : Rep (logC fd.log) hist) (p : Pub) :
    Rep (logC (fd.log.append p (pubSize p)).1) (hist ++ [p]) :=
  clog_append_rep fd.log hist hrep p (pubSize p)

/-! ### C01.2 sweep correctness -/

/-- C01.2 (a sweep forwards exactly what it reads). One `forward_device_data` for a non-shared
    request that is not stopped by a full inflight window: it reads `n` entries from the request's
    cursor in the filter's log — after the retained replay if the request still owes one — and
    pushes to the connection's link, and to no other link, exactly one `Forward` per publish, in
    log order (packet ids aside; `Unschedule` follows if the buffer is now full); the request comes
    back with the continuation cursor; the logs are untouched. -/
theorem sweep_forwards_exactly_the_read (s s' : RState) (id : Nat) (c : Conn) (req req' : DataRequest)
    (st : ConsumeStatus) (hc : getConn s id = some c) (hplain : req.group = none)
    (h : forwardDeviceData s id req = .ok (s', req', st)) (hst : st ≠ .inflightFull) :
    ∃ (replay : List Pub) (n : Nat) (fd : FilterData),
      s.datalog.native[req.filterIdx]? = some fd ∧
      (req.forwardRetained = false → replay = []) ∧
      replay.length + n = (if req.qos ≠ 0 then c.out.freeSlots else s.config.maxOutgoingPacketCount) ∧
      (getLink s' c.link).obuf.map Notif.noPkid =
        (getLink s c.link).obuf.map Notif.noPkid ++
        (replay.map (fun p => (p, none)) ++ (fd.log.readv req.cursor n).1.map (fun e : Pub × Router.Cursor => (e.1, some e.2))).map
          (fwdOf req.qos (sweepAlias c req.filter).2
            ((aliasesFor c req.filter).bind (fun b => alookup req.filter b.aliases)).isSome
            (alookup req.filter c.subscriptionIds)) ++
        (if st = .bufferFull then [Notif.unschedule] else []) ∧
      (∀ l, l ≠ c.link → getLink s' l = getLink s l) ∧
      req' = { req with forwardRetained := false, cursor := (posNext (fd.log.readv req.cursor n).2).1 } ∧
      s'.datalog = s.datalog := by
  have hg : reqGroup s req = none := by unfold reqGroup; rw [hplain]; rfl
  obtain ⟨s1, rp, n, fd, hr, hfd, hreq, hobuf, hother, hdl, _, _, _⟩ := sweep_plain hc hg h hst
  obtain ⟨_, hlen, hnone, hfr⟩ := sweepRetained_spec hr
  have hrp : rp = (rp.map (·.1)).map (fun p => (p, none)) := by
    rw [List.map_map]
    conv => lhs; rw [← List.map_id rp]
    apply List.map_congr_left
    intro pc hpc
    have := hnone pc hpc
    obtain ⟨a, b⟩ := pc
    simp only at this; subst this; rfl
  refine ⟨rp.map (·.1), n, fd, hfd, ?_, ?_, ?_, hother, hreq, hdl⟩
  · intro hf; rw [(hfr hf).1]; rfl
  · rw [List.length_map, hlen]; rfl
  · rw [hobuf, List.map_append, List.map_append, hreq, sweepNotifs_noPkid]
    unfold sweepPubs
    rw [← hrp]
    have : List.map Notif.noPkid (if st = .bufferFull then [Notif.unschedule] else []) =
        (if st = .bufferFull then [Notif.unschedule] else []) := by split <;> rfl
    rw [this]; rfl

/-- C01.2 (content of a forward). The forward built for a log entry keeps its payload, retain and
    dup flags, carries the subscription's granted QoS and the entry's own cursor, and the entry's
    topic — except that the topic is left empty when a broker topic alias for this filter was
    already established (the client resolves the alias). -/
theorem forward_carries_entry (qos : Nat) (alias : Option Nat) (existed : Bool) (subId : Option Nat)
    (p : Pub) (cur : Option Router.Cursor) :
    ∃ p', fwdOf qos alias existed subId (p, cur) = .forward p' cur ∧ p'.payload = p.payload ∧ p'.qos = qos ∧
      p'.retain = p.retain ∧ p'.dup = p.dup ∧ p'.topic = (if existed then [] else p.topic) := by
  obtain ⟨a, b, c, d, e⟩ := mkForward_fields qos alias existed subId p
  exact ⟨_, rfl, a, b, c, d, e⟩

/-- C01.2 with C13 `readv_spec` (through the bridge to the router's copy of the commit log). The
    entries a sweep reads from an issued cursor are the next `≤ n` entries of the filter log's
    history from the cursor's position `a`: values `take n (drop a hist)`, offsets `a, a+1, …`
    (contiguous: no gap, no repeat); the continuation stands right behind them, is issued again,
    and `Done` is reported iff nothing remains. -/
theorem sweep_reads_next_entries (fd : FilterData) (hist : List Pub) (hrep : Rep (logC fd.log) hist)
    (cur : Router.Cursor) (n : Nat) (hi : Issued (logC fd.log) cur) (hU : hist.length + n < U64) :
    (fd.log.readv cur n).1.map (·.1) = (hist.drop (cursorAbs (logC fd.log) cur)).take n ∧
    (fd.log.readv cur n).1.map (·.2.2) =
      List.range' (cursorAbs (logC fd.log) cur) (fd.log.readv cur n).1.length ∧
    (posNext (fd.log.readv cur n).2).1.2 = cursorAbs (logC fd.log) cur + (fd.log.readv cur n).1.length ∧
    Issued (logC fd.log) (posNext (fd.log.readv cur n).2).1 ∧
    ((posNext (fd.log.readv cur n).2).2 = true ↔
      cursorAbs (logC fd.log) cur + (fd.log.readv cur n).1.length = hist.length) := by
  obtain ⟨e1, e2, e3, _, e5⟩ := clog_readv_spec fd.log hist hrep cur n hi hU
  obtain ⟨v1, v2, _⟩ := clog_readv_entries fd.log hist hrep cur n hi hU
  rw [e1] at *
  exact ⟨v1, v2, e2, e3, e5⟩

/-- C01.2 (two consecutive sweeps compose, C13 `readv_compose`). The sweep that starts from the
    continuation cursor of the previous one reads exactly what follows: together they are one
    read of `n + m` entries. -/
theorem consecutive_sweeps_compose (fd : FilterData) (hist : List Pub) (hrep : Rep (logC fd.log) hist)
    (cur : Router.Cursor) (n m : Nat) (hi : Issued (logC fd.log) cur) (hU : hist.length + (n + m) < U64) :
    (fd.log.readv cur n).1 ++ (fd.log.readv (posNext (fd.log.readv cur n).2).1 m).1 =
      (fd.log.readv cur (n + m)).1 :=
  clog_readv_compose fd.log hist hrep cur n m hi (by omega) (by omega) hU

/-- C01.2 (later sweep, after more publishes). A cursor handed back by a sweep is not stale; as
    long as its segment has not been evicted, a later sweep of the (grown) log starts exactly at
    the cursor's offset: the offsets it forwards are `cur.2, cur.2+1, …`. -/
theorem later_sweep_continues_at_cursor (fd' : FilterData) (hist' : List Pub) (hrep : Rep (logC fd'.log) hist')
    (cur : Router.Cursor) (m : Nat) (hi : Issued (logC fd'.log) cur) (hfresh : (logC fd'.log).head ≤ cur.1)
    (hU : hist'.length + m < U64) :
    (fd'.log.readv cur m).1.map (·.2.2) = List.range' cur.2 (fd'.log.readv cur m).1.length := by
  obtain ⟨_, v2, _⟩ := clog_readv_entries fd'.log hist' hrep cur m hi hU
  have : cursorAbs (logC fd'.log) cur = cur.2 := by
    unfold cursorAbs
    have : ¬ cur.1 < (logC fd'.log).head := by omega
    simp [this]
  rw [this] at v2
  exact v2

/-- C01.2 (parking). A non-shared request is parked — status `FilterCaughtup` — exactly when the
    read reported `Done` (the cursor reached the end of the log), unless the sweep ended with a
    full link buffer (then the request stays scheduled). -/
theorem parked_iff_caught_up (s s' : RState) (id : Nat) (c : Conn) (req req' : DataRequest)
    (st : ConsumeStatus) (hc : getConn s id = some c) (hplain : req.group = none)
    (h : forwardDeviceData s id req = .ok (s', req', st)) (hst : st ≠ .inflightFull) (hbf : st ≠ .bufferFull)
    (hpos : 0 < s.config.maxOutgoingPacketCount)
    (hlog : ∀ fd, s.datalog.native[req.filterIdx]? = some fd → ∃ hist, Rep (logC fd.log) hist ∧
      Issued (logC fd.log) req.cursor ∧ hist.length + (MAX_INFLIGHT + s.config.maxOutgoingPacketCount) < U64) :
    ∃ (n : Nat) (fd : FilterData), s.datalog.native[req.filterIdx]? = some fd ∧
      req'.cursor = (posNext (fd.log.readv req.cursor n).2).1 ∧
      (st = .filterCaughtup ↔ (posNext (fd.log.readv req.cursor n).2).2 = true) := by
  have hg : reqGroup s req = none := by unfold reqGroup; rw [hplain]; rfl
  obtain ⟨s1, rp, n, fd, hr, hfd, hreq, _, _, _, _, hcase, hnf⟩ := sweep_plain hc hg h hst
  obtain ⟨_, hlen, _, _⟩ := sweepRetained_spec hr
  obtain ⟨hist, hrep, hiss, hU⟩ := hlog fd hfd
  refine ⟨n, fd, hfd, by rw [hreq]; rfl, ?_⟩
  have hslots : sweepSlots s c req none ≤ MAX_INFLIGHT + s.config.maxOutgoingPacketCount := by
    unfold sweepSlots Outgoing.freeSlots
    simp only []
    split <;> omega
  rcases hcase with e | ⟨e, hor⟩ | ⟨e, _, hnd⟩
  · exact absurd e hbf
  · refine ⟨fun _ => ?_, fun _ => e⟩
    rcases hor with hemp | hd
    · unfold sweepPubs at hemp
      obtain ⟨h1, h2⟩ := List.append_eq_nil_iff.mp hemp
      have hent : (fd.log.readv req.cursor n).1 = [] := by simpa using h2
      have hn : 0 < n := by
        rw [h1] at hlen
        simp only [List.length_nil, Nat.zero_add] at hlen
        rw [hlen]
        unfold sweepSlots Outgoing.freeSlots
        simp only []
        by_cases hq : req.qos = 0
        · simp [hq, hpos]
        · simp only [ne_eq, hq, not_false_eq_true, if_true]
          have : c.out.freeSlots ≠ 0 := fun e0 => hnf ⟨hq, e0⟩
          unfold Outgoing.freeSlots at this; omega
      exact clog_readv_empty_done fd.log hist hrep req.cursor n hiss (by omega) hn hent
    · exact hd
  · constructor
    · intro e'; rw [e] at e'; cases e'
    · intro hd; rw [hd] at hnd; cases hnd

/-- C01.2 (waking, one log). `Data::append` on a filter moves every request parked on that filter
    to `notifications` (from where `handle_device_payload` re-tracks it and reschedules the
    connection) and leaves none parked. -/
theorem append_wakes_parked_waiters (s s' : RState) (idx : Nat) (p : Pub)
    (h : appendToFilter s idx p = .ok s') :
    ∃ fd fd', s.datalog.native[idx]? = some fd ∧ s'.notifications = s.notifications ++ fd.waiters ∧
      s'.datalog.native[idx]? = some fd' ∧ fd'.waiters = [] := by
  obtain ⟨fd, h1, h2, h3⟩ := appendToFilter_wakes h
  exact ⟨fd, _, h1, h2, h3, rfl⟩

/-- C01.2 (a subscriber that caught up is woken by the next matching publish). In a state
    satisfying the invariant, if request `r` of connection `cid` is parked on a filter and a publish whose topic
    matches that filter is accepted, then `(cid, r)` is in `notifications` afterwards, and the
    only requests woken are those parked on matching filters. -/
theorem caught_up_subscriber_is_woken (s s' : RState) (hi : DLInv s) (id : Nat) (p : Pub) (t : String)
    (halias : p.alias = none) (ht : utf8? p.topic = some t)
    (h : appendToCommitlog s id p = .ok (s', none)) (w : Nat × DataRequest) :
    w ∈ s'.notifications ↔ w ∈ s.notifications ∨
      ∃ (i : Nat) (fd : FilterData), s.datalog.native[i]? = some fd ∧ topicMatches t fd.filter = true ∧ w ∈ fd.waiters := by
  obtain ⟨c, s1, p1, topic, hc, hres, htop, hdel⟩ := appendToCommitlog_accept h
  obtain ⟨e1, e2, _, _, _, _, _, e8⟩ := resolveAlias_spec hres
  have hpt : p1.topic = p.topic := e8 (Or.inl halias)
  have htt : topic = t := by rw [hpt, ht] at htop; exact (Option.some.inj htop).symm
  subst htt
  have hi1 : DLInv s1 := hi.of_dkey (resolveAlias_dkey hres)
  have hi2 : DLInv ((updateRetained s1 topic p1).g (.accepted (some id) p1 topic)) :=
    hi1.of_dkey (by rw [dkey_g, updateRetained_dkey])
  obtain ⟨_, hw⟩ := deliver_spec hi2 hdel
  have hn : ((updateRetained s1 topic p1).g (.accepted (some id) p1 topic)).datalog.native = s.datalog.native := by
    show (updateRetained s1 topic p1).datalog.native = _
    rw [(updateRetained_same s1 topic p1).1, e1]
  have hno : ((updateRetained s1 topic p1).g (.accepted (some id) p1 topic)).notifications = s.notifications := by
    show (updateRetained s1 topic p1).notifications = _
    rw [(updateRetained_same s1 topic p1).2, e2]
  rw [hw w, hn, hno]

/-! ### non-vacuity -/

/-- the hypotheses are satisfiable: the initial state of a legal configuration is reachable -/
example : Reachable ⟨10, 1024, 2, 10, .roundRobin⟩ (init ⟨10, 1024, 2, 10, .roundRobin⟩) ∧
    1 ≤ (⟨10, 1024, 2, 10, .roundRobin⟩ : Config).maxSegmentSize ∧
    1 ≤ (⟨10, 1024, 2, 10, .roundRobin⟩ : Config).maxSegmentCount :=
  ⟨Reachable.init _, by decide, by decide⟩

/-! ### C01.2 over the life of a subscription -/

/-- C01 "after that subscription took effect". The cursor `next_native_offset` hands to a new
    subscription is an issued, retained cursor of the filter's (well-formed) log standing right
    behind everything appended so far: the subscription will see exactly the later appends. -/
theorem subscription_starts_at_tail (s : RState) (filter : String) (hi : DLInv s) :
    ∃ fd hist, (nextNativeOffset s filter).1.datalog.native[(nextNativeOffset s filter).2.1]? = some fd ∧
      fd.filter = filter ∧ Rep (logC fd.log) hist ∧
      Issued (logC fd.log) (nextNativeOffset s filter).2.2 ∧
      (logC fd.log).head ≤ (nextNativeOffset s filter).2.2.1 ∧
      (nextNativeOffset s filter).2.2.2 = hist.length :=
  nextNativeOffset_tail hi

/-- C01.2 (publishes are harmless `other` steps). Accepting a publish keeps every issued cursor of
    every filter log issued and every log well formed; the log's history grows by exactly this
    publish if the filter matches, else not at all. (So between two sweeps of a request the
    premise of `delivery_is_prefix_partial` can only fail through eviction of the cursor's segment
    — the retention proviso — or through the 2^64 bound.) -/
theorem publish_keeps_cursors_issued (s s' : RState) (hi : DLInv s) (id : Nat) (p : Pub) (t : String)
    (halias : p.alias = none) (ht : utf8? p.topic = some t)
    (h : appendToCommitlog s id p = .ok (s', none))
    (idx : Nat) (fd : FilterData) (hist : List Pub) (cur : Router.Cursor)
    (hfd : s.datalog.native[idx]? = some fd) (hrep : Rep (logC fd.log) hist) (hiss : Issued (logC fd.log) cur) :
    ∃ fd' hist', s'.datalog.native[idx]? = some fd' ∧ fd'.filter = fd.filter ∧ Rep (logC fd'.log) hist' ∧
      Issued (logC fd'.log) cur ∧
      hist' = (if topicMatches t fd.filter then hist ++ [{ p with alias := none, retain := false }] else hist) := by
  obtain ⟨c, s1, p1, topic, hc, hres, htop, hdel⟩ := appendToCommitlog_accept h
  obtain ⟨e1, _, _, _, _, _, _, e8⟩ := resolveAlias_spec hres
  have hpt : p1.topic = p.topic := e8 (Or.inl halias)
  have htt : topic = t := by rw [hpt, ht] at htop; exact (Option.some.inj htop).symm
  subst htt
  have hp1 : p1 = { p with alias := none } := by
    unfold resolveAlias at hres
    rw [halias] at hres
    simp only [Except.ok.injEq, Prod.mk.injEq] at hres
    exact hres.2.symm
  have hi1 : DLInv s1 := hi.of_dkey (resolveAlias_dkey hres)
  have hi2 : DLInv ((updateRetained s1 topic p1).g (.accepted (some id) p1 topic)) :=
    hi1.of_dkey (by rw [dkey_g, updateRetained_dkey])
  have hn : ((updateRetained s1 topic p1).g (.accepted (some id) p1 topic)).datalog.native = s.datalog.native := by
    show (updateRetained s1 topic p1).datalog.native = _
    rw [(updateRetained_same s1 topic p1).1, e1]
  have := deliver_keeps_issued hi2 hdel idx fd hist cur (by rw [hn]; exact hfd) hrep hiss
  rw [hp1] at this
  exact this

/-- C01.2 `delivery_is_prefix`, PARTIAL (per data request, any number of sweeps). Follow one
    non-shared data request over any stretch of a run (`ReqRun`): sweeps — each started with the
    request the previous sweep handed back, each contributing the log offsets it appended to the
    connection's link buffer (`linkOffsets`, an observable) — interleaved with arbitrary other
    router steps during which the request's cursor stays an issued, retained cursor of its filter
    log (appends of new publishes are such steps unless they evict the cursor's segment — the
    retention proviso). If the request starts from such a cursor (a new subscription does:
    `subscription_starts_at_tail`), then the offsets forwarded for it are EXACTLY the consecutive
    log offsets from the starting cursor — in order, no gap, no repeat, across all the sweeps — and
    the request ends up right behind them. With `log_content` (each accepted matching publish is
    one log entry) and `forward_carries_entry` this is "exactly the matching messages accepted
    after the subscription took effect, once, in acceptance order".
    Missing for the unrestricted run-level statement: the composition of this theorem with the two
    global invariants that are now proved — `C03.request_conservation` (each (connection, filter) has
    exactly one request, in tracker / waiters / notifications / saved session) and `cursor_sound`
    (below: every cursor held is issued; `req_at_of_reachable` gives the start premise) — i.e. that
    `consume` / `park` / `notifications` / the graveyard hand THE request of this filter from one
    sweep to the next with its cursor unchanged, and the retention proviso (the cursor's segment is
    not evicted), which is a genuine restriction of the code. -/
theorem delivery_is_prefix_partial (idx : Nat) (s s2 : RState) (req req2 : DataRequest) (offs : List Nat)
    (hat : ReqAt idx s req.cursor) (hrun : ReqRun idx s req offs s2 req2) :
    offs = List.range' req.cursor.2 offs.length ∧ req2.cursor.2 = req.cursor.2 + offs.length ∧
    ReqAt idx s2 req2.cursor :=
  reqRun_contiguous hrun hat

/-! ### `CursorSound`: every cursor the router holds was issued by its log -/

/-- C01 / C17 `CursorSound`. In every reachable state whose filter logs are below the no-overflow
    bound of the C13 read theorems (`NoOverflow`: no log is within `MAX_INFLIGHT +
    max_outgoing_packet_count` entries of `2^64`; the logs only grow, so the bound then held all
    along the run), every cursor the router holds is a cursor ISSUED (C13) by the log it is used on:
    * the cursor of every data request — tracked, parked in a waiter list, notified — for the log
      `native[filter_idx]`, and a request of a shared subscription has the filter index of its
      group's path (`gpath`: `<share>/<path>` ↦ `<path>`);
    * every cursor recorded in an outgoing window entry `(pkid, filter_idx, Some cursor)`;
    * the cursor of every request of a saved session;
    * the cursor of every shared group, for the log of the group's path (which exists).
    Sources: the tail cursor of a new subscription, the continuation of a read, the entry tags of a
    read (window), `atGroupCursor` / `rejoinGroups` / `rewindRequests` copying such cursors between
    requests, groups and windows; appends and evictions keep issued cursors issued. -/
theorem cursor_sound {cfg : Config} (h1 : 1 ≤ cfg.maxSegmentSize) (h2 : 1 ≤ cfg.maxSegmentCount) {s : RState}
    (hr : Reachable cfg s) (hno : NoOverflow s) :
    (∀ r, allReqs s r →
      (∃ fd, s.datalog.native[r.filterIdx]? = some fd ∧ Issued (logC fd.log) r.cursor) ∧
      ∀ g, r.group = some g → s.datalog.filterIdx? (gpath g) = some r.filterIdx) ∧
    (∀ id c, getConn s id = some c → ∀ e ∈ c.out.inflight, ∀ cur, e.2.2 = some cur →
      ∃ fd, s.datalog.native[e.2.1]? = some fd ∧ Issued (logC fd.log) cur) ∧
    (∀ cid ss, (cid, some ss) ∈ s.graveyard → ∀ r ∈ ss.tracker.requests,
      ∃ fd, s.datalog.native[r.filterIdx]? = some fd ∧ Issued (logC fd.log) r.cursor) ∧
    (∀ g grp, (g, grp) ∈ s.shared →
      ∃ i fd, s.datalog.filterIdx? (gpath g) = some i ∧ s.datalog.native[i]? = some fd ∧ Issued (logC fd.log) grp.cursor) := by
  have h := CS.reachable h1 h2 hr hno
  refine ⟨fun r hr' => h.req r hr', fun id c hc e he cur hcur => h.win e.2.1 cur ⟨id, c, hc, e, he, rfl, hcur⟩,
    fun cid ss hm r hr' => (h.grv (cid, some ss) hm ss rfl r hr').1, fun g grp hm => ?_⟩
  obtain ⟨i, a, fd, b, c⟩ := h.grp (g, grp) hm
  exact ⟨i, fd, a, b, c⟩

/-- what `allReqs` and `NoOverflow` say -/
theorem allReqs_noOverflow_spec (s : RState) (r : DataRequest) :
    (allReqs s r ↔
      (∃ id c, getConn s id = some c ∧ r ∈ c.tracker.requests) ∨
      (∃ fd ∈ s.datalog.native, ∃ w ∈ fd.waiters, w.2 = r) ∨ (∃ n ∈ s.notifications, n.2 = r)) ∧
    (NoOverflow s ↔ ∀ fd ∈ s.datalog.native, ∀ hist, Rep (logC fd.log) hist →
      hist.length + (MAX_INFLIGHT + s.config.maxOutgoingPacketCount) < U64) := ⟨Iff.rfl, Iff.rfl⟩

/-- C01.2 `sweep_reads_next_entries` for reachable states, WITHOUT the `Issued` hypothesis: for a
    request `req` in the tracker of a live connection, the log `native[req.filter_idx]` exists, is
    well formed (represents an append history `hist`) and a read of `n ≤ MAX_INFLIGHT +
    max_outgoing_packet_count` entries from `req.cursor` returns the next entries of `hist` from
    the cursor's position, with contiguous offsets, and an issued continuation. -/
theorem sweep_reads_next_entries_reachable {cfg : Config} (h1 : 1 ≤ cfg.maxSegmentSize) (h2 : 1 ≤ cfg.maxSegmentCount)
    {s : RState} (hr : Reachable cfg s) (hno : NoOverflow s) {id : Nat} {c : Conn} {req : DataRequest}
    (hc : getConn s id = some c) (hreq : req ∈ c.tracker.requests) (n : Nat)
    (hn : n ≤ MAX_INFLIGHT + s.config.maxOutgoingPacketCount) :
    ∃ fd hist, s.datalog.native[req.filterIdx]? = some fd ∧ Rep (logC fd.log) hist ∧
      (fd.log.readv req.cursor n).1.map (·.1) = (hist.drop (cursorAbs (logC fd.log) req.cursor)).take n ∧
      (fd.log.readv req.cursor n).1.map (·.2.2) =
        List.range' (cursorAbs (logC fd.log) req.cursor) (fd.log.readv req.cursor n).1.length ∧
      (posNext (fd.log.readv req.cursor n).2).1.2 =
        cursorAbs (logC fd.log) req.cursor + (fd.log.readv req.cursor n).1.length ∧
      Issued (logC fd.log) (posNext (fd.log.readv req.cursor n).2).1 ∧
      ((posNext (fd.log.readv req.cursor n).2).2 = true ↔
        cursorAbs (logC fd.log) req.cursor + (fd.log.readv req.cursor n).1.length = hist.length) := by
  obtain ⟨fd, hist, hfd, hrep, hiss, hU, _⟩ := tracked_request_sound h1 h2 hr hno hc hreq
  exact ⟨fd, hist, hfd, hrep, sweep_reads_next_entries fd hist hrep req.cursor n hiss (by omega)⟩

/-- C01.2 `parked_iff_caught_up` for reachable states, without the `Issued` / well-formedness
    hypothesis on the log: for a non-shared request taken from the tracker of a live connection -/
theorem parked_iff_caught_up_reachable {cfg : Config} (h1 : 1 ≤ cfg.maxSegmentSize) (h2 : 1 ≤ cfg.maxSegmentCount)
    {s : RState} (hr : Reachable cfg s) (hno : NoOverflow s) (s' : RState) (id : Nat) (c : Conn) (req req' : DataRequest)
    (st : ConsumeStatus) (hc : getConn s id = some c) (hreq : req ∈ c.tracker.requests) (hplain : req.group = none)
    (h : forwardDeviceData s id req = .ok (s', req', st)) (hst : st ≠ .inflightFull) (hbf : st ≠ .bufferFull)
    (hpos : 0 < s.config.maxOutgoingPacketCount) :
    ∃ (n : Nat) (fd : FilterData), s.datalog.native[req.filterIdx]? = some fd ∧
      req'.cursor = (posNext (fd.log.readv req.cursor n).2).1 ∧
      (st = .filterCaughtup ↔ (posNext (fd.log.readv req.cursor n).2).2 = true) := by
  obtain ⟨fd, hist, hfd, hrep, hiss, hU, _⟩ := tracked_request_sound h1 h2 hr hno hc hreq
  refine parked_iff_caught_up s s' id c req req' st hc hplain h hst hbf hpos fun fd' hfd' => ?_
  rw [hfd] at hfd'; cases hfd'
  exact ⟨hist, hrep, hiss, hU⟩

/-- C01.2: the start premise `ReqAt` of `delivery_is_prefix_partial` holds for every tracked request of
    a reachable state whose cursor's segment is still retained (the retention proviso is the only
    premise left) -/
theorem req_at_of_reachable {cfg : Config} (h1 : 1 ≤ cfg.maxSegmentSize) (h2 : 1 ≤ cfg.maxSegmentCount)
    {s : RState} (hr : Reachable cfg s) (hno : NoOverflow s) {id : Nat} {c : Conn} {req : DataRequest}
    (hc : getConn s id = some c) (hreq : req ∈ c.tracker.requests)
    (hret : ∀ fd, s.datalog.native[req.filterIdx]? = some fd → (logC fd.log).head ≤ req.cursor.1) :
    ReqAt req.filterIdx s req.cursor := by
  obtain ⟨fd, hist, hfd, hrep, hiss, hU, _⟩ := tracked_request_sound h1 h2 hr hno hc hreq
  exact ⟨fd, hist, hfd, hrep, hiss, hret fd hfd, hU⟩

/-! ### completeness at idle (`ParkedAtEnd`) and delivery over whole runs -/

/-- what the vocabulary of the theorems below says: connection `j` OWNS request `r` when `r` is in
    `j`'s tracker, parked for `j` in a filter log's waiter list, or in `notifications` for `j`; a
    cursor is `AtEnd` of a log when its segment is retained and its offset is the log's next offset -/
theorem own_atEnd_spec (s : RState) (j : Nat) (r : DataRequest) (fd : FilterData) (cur : Router.Cursor) :
    (Own s j r ↔ (∃ c, getConn s j = some c ∧ r ∈ c.tracker.requests) ∨
      (∃ (i : Nat) (fd' : FilterData), s.datalog.native[i]? = some fd' ∧ (j, r) ∈ fd'.waiters) ∨ (j, r) ∈ s.notifications) ∧
    (AtEnd fd cur ↔ (logC fd.log).head ≤ cur.1 ∧ cur.2 = (logC fd.log).nextAbs) := ⟨Iff.rfl, Iff.rfl⟩

/-- C01 `ParkedAtEnd` and its companions (invariant). In every reachable state below the no-overflow
    bound, for `max_outgoing_packet_count > 0` (with 0 a QoS-0 sweep reads nothing and parks the
    request wherever it stands — a degenerate configuration):
    * every subscription of every live connection has a data request that the connection owns;
    * a request's group is the group of its filter (`$share/<g>/<p>` ↦ `<g>/<p>`, none otherwise);
    * every PARKED request of a non-shared subscription stands AT THE END of its filter's log: `park`
      is only called after a sweep that reported `FilterCaughtup`, whose continuation cursor is the
      `Done` position of the read; every append to a log moves all its waiters to `notifications`;
      eviction happens only inside an append. -/
theorem parked_at_end {cfg : Config} (h1 : 1 ≤ cfg.maxSegmentSize) (h2 : 1 ≤ cfg.maxSegmentCount)
    (hpos : 0 < cfg.maxOutgoingPacketCount) {s : RState} (hr : Reachable cfg s) (hno : NoOverflow s) :
    (∀ id c, getConn s id = some c → ∀ f ∈ c.subscriptions, ∃ r, Own s id r ∧ r.filter = f) ∧
    (∀ id r, Own s id r → r.group = (extractGroup r.filter).map (·.1)) ∧
    (∀ (i : Nat) fd, s.datalog.native[i]? = some fd → ∀ w ∈ fd.waiters, w.2.group = none → AtEnd fd w.2.cursor) := by
  have hq := QI.reachable h1 h2 hpos hr hno
  refine ⟨fun id c hc f hf => hq.cover id f (by unfold subsOf; rw [hc]; exact hf), fun id r ho => hq.gt id r ho, hq.pe⟩

/-- C01 `quiescent_complete` (last sentence of the property; C09 "resumes … without further
    stimulus"). Let `s` be a reachable state (between two router steps, so `notifications` is empty)
    and `id` a live connection whose tracker holds no data request — the broker has gone idle for
    that client: nothing is scheduled for it. Then every subscription `f` of the connection has its
    request PARKED in the waiter list of the log of `f`'s path (so the next matching publish wakes
    it: `caught_up_subscriber_is_woken`), with an issued cursor; and for a non-shared subscription
    the cursor stands at the END of that log: a read from it returns nothing — the broker holds no
    entry of the log which it has not already handed to the connection's link buffer or window. -/
theorem quiescent_complete {cfg : Config} (h1 : 1 ≤ cfg.maxSegmentSize) (h2 : 1 ≤ cfg.maxSegmentCount)
    (hpos : 0 < cfg.maxOutgoingPacketCount) {s : RState} (hr : Reachable cfg s) (hno : NoOverflow s)
    {id : Nat} {c : Conn} (hc : getConn s id = some c) (hidle : c.tracker.requests = [])
    {f : String} (hf : f ∈ c.subscriptions) :
    s.notifications = [] ∧
    ∃ (i : Nat) (fd : FilterData) (hist : List Pub) (r : DataRequest),
      s.datalog.filterIdx? (logPath f) = some i ∧ s.datalog.native[i]? = some fd ∧ Rep (logC fd.log) hist ∧
      (id, r) ∈ fd.waiters ∧ r.filter = f ∧ r.filterIdx = i ∧ r.group = (extractGroup f).map (·.1) ∧
      Issued (logC fd.log) r.cursor ∧
      (extractGroup f = none →
        (logC fd.log).head ≤ r.cursor.1 ∧ r.cursor.2 = hist.length ∧
        ∀ n, n ≤ MAX_INFLIGHT + s.config.maxOutgoingPacketCount → (fd.log.readv r.cursor n).1 = []) :=
  ⟨(Inv3.reachable hr).inv2.binv.2, idle_subscription_parked h1 h2 hpos hr hno hc hidle hf⟩

/-- C01 / C09 (scheduler status, invariant). In every reachable state, for every live connection:
    `Paused(Caughtup)` → its tracker holds no data request; `Paused(InflightFull)` → its outgoing
    window is full (`MAX_INFLIGHT` unacknowledged publishes: it waits for its client's acks, and an ack
    reschedules it); `Ready` → it is in the ready queue (a `consume` call will serve it). The fourth
    status, `Paused(Busy)`, is left by the link's `Ready` event (after the link drained its buffer)
    or at registration. -/
theorem scheduler_status_facts {cfg : Config} {s : RState} (hr : Reachable cfg s) {id : Nat} {c : Conn}
    (hc : getConn s id = some c) :
    (c.tracker.status = .paused .caughtup → c.tracker.requests = []) ∧
    (c.tracker.status = .paused .inflightFull → c.out.inflight.length = MAX_INFLIGHT) ∧
    (c.tracker.status = .ready → id ∈ s.readyqueue) := by
  have hs := SI.reachable hr
  have hout := (Inv1.reachable hr).out id c hc
  exact ⟨(hs.ci id c hc).1, fun e => Nat.le_antisymm hout.1 ((hs.ci id c hc).2 e), hs.rq id c hc⟩

/-- C01 `quiescent_complete`, stated with the scheduler status: a connection that is
    `Paused(Caughtup)` — idle, nothing scheduled for it — has every subscription's request parked, the
    non-shared ones at the end of their logs -/
theorem quiescent_complete_status {cfg : Config} (h1 : 1 ≤ cfg.maxSegmentSize) (h2 : 1 ≤ cfg.maxSegmentCount)
    (hpos : 0 < cfg.maxOutgoingPacketCount) {s : RState} (hr : Reachable cfg s) (hno : NoOverflow s)
    {id : Nat} {c : Conn} (hc : getConn s id = some c) (hidle : c.tracker.status = .paused .caughtup)
    {f : String} (hf : f ∈ c.subscriptions) :
    ∃ (i : Nat) (fd : FilterData) (hist : List Pub) (r : DataRequest),
      s.datalog.filterIdx? (logPath f) = some i ∧ s.datalog.native[i]? = some fd ∧ Rep (logC fd.log) hist ∧
      (id, r) ∈ fd.waiters ∧ r.filter = f ∧ r.filterIdx = i ∧ r.group = (extractGroup f).map (·.1) ∧
      Issued (logC fd.log) r.cursor ∧
      (extractGroup f = none →
        (logC fd.log).head ≤ r.cursor.1 ∧ r.cursor.2 = hist.length ∧
        ∀ n, n ≤ MAX_INFLIGHT + s.config.maxOutgoingPacketCount → (fd.log.readv r.cursor n).1 = []) :=
  (quiescent_complete h1 h2 hpos hr hno hc ((scheduler_status_facts hr hc).1 hidle) hf).2

/-- C01 / C09 "nothing is left undelivered at idle except what the client itself holds up" (the
    converse of `quiescent_complete`). In a reachable state, for every subscription `f` of a live
    connection: EITHER its request is parked on the log of `f`'s path (a non-shared one: at the end
    of the log — everything the broker holds has been handed over), OR the request is in the
    connection's tracker and the connection is `Ready` and queued for `consume` (the broker will
    sweep it without further stimulus), or `Paused(InflightFull)` with a full window (it waits for
    its own client's acknowledgements), or `Paused(Busy)` (it waits for its own link's `Ready`). -/
theorem undelivered_only_if_client_holds_up {cfg : Config} (h1 : 1 ≤ cfg.maxSegmentSize) (h2 : 1 ≤ cfg.maxSegmentCount)
    (hpos : 0 < cfg.maxOutgoingPacketCount) {s : RState} (hr : Reachable cfg s) (hno : NoOverflow s)
    {id : Nat} {c : Conn} (hc : getConn s id = some c) {f : String} (hf : f ∈ c.subscriptions) :
    (∃ (i : Nat) (fd : FilterData) (hist : List Pub) (r : DataRequest),
      s.datalog.filterIdx? (logPath f) = some i ∧ s.datalog.native[i]? = some fd ∧ Rep (logC fd.log) hist ∧
      (id, r) ∈ fd.waiters ∧ r.filter = f ∧ r.filterIdx = i ∧ r.group = (extractGroup f).map (·.1) ∧
      Issued (logC fd.log) r.cursor ∧
      (extractGroup f = none →
        (logC fd.log).head ≤ r.cursor.1 ∧ r.cursor.2 = hist.length ∧
        ∀ n, n ≤ MAX_INFLIGHT + s.config.maxOutgoingPacketCount → (fd.log.readv r.cursor n).1 = [])) ∨
    ((∃ r ∈ c.tracker.requests, r.filter = f) ∧
      ((c.tracker.status = .ready ∧ id ∈ s.readyqueue) ∨
       (c.tracker.status = .paused .inflightFull ∧ c.out.inflight.length = MAX_INFLIGHT) ∨
       c.tracker.status = .paused .busy)) := by
  rcases subscription_state h1 h2 hpos hr hno hc hf with ⟨r, hm, e⟩ | h
  · exact .inr ⟨⟨r, hm, e⟩, tracking_status hr hc (fun e' => by rw [e'] at hm; cases hm)⟩
  · exact .inl h

/-- how "the log offsets forwarded to connection `a` through its subscription `f` during a run" is
    defined (`runFwd`): the functions mirror `run` / `step` / `consume` and its request loop, and
    collect for every sweep (`forward_device_data`) of a request of connection `a` with filter `f` the
    log offsets of the forwards the sweep appended to the connection's link buffer (`sweepDelta`: the
    new part of `linkOffsets`, the offsets carried by the `Forward` notifications of the buffer) -/
theorem runFwd_spec (a : Nat) (f : String) (s : RState) (op : Op) (ch : List Choice) (rest : List (Op × List Choice))
    (id fuel : Nat) (req : DataRequest) (reqs skipped : List DataRequest) :
    runFwd a f s [] = [] ∧
    runFwd a f s ((op, ch) :: rest) =
      (match step { s with oracle := ch } op with
       | .error _ => []
       | .ok (s', _) => stepFwd a f { s with oracle := ch } op ++ runFwd a f s' rest) ∧
    stepFwd a f s .consume = consumeFwd a f s ∧ (∀ l p, stepFwd a f s (.push l p) = []) ∧
    (∀ l, stepFwd a f s (.drain l) = []) ∧ (∀ j e, stepFwd a f s (.event j e) = []) ∧
    (∀ spec, stepFwd a f s (.connect spec) = []) ∧
    consumeFwd a f s =
      (match s.readyqueue.dropWhile (fun id => (s.conns.get? id).isNone) with
       | [] => []
       | id :: rq =>
         if id ≠ a then [] else
         match getConn { s with readyqueue := rq } id with
         | none => []
         | some c =>
           loopFwd f id MAX_SCHEDULE_ITERATIONS
             (ackDeviceData { setConn { s with readyqueue := rq } id { c with tracker := { c.tracker with requests := [] } } with
               readyqueue := (setConn { s with readyqueue := rq } id { c with tracker := { c.tracker with requests := [] } }).readyqueue ++ [id] } id)
             c.tracker.requests []) ∧
    loopFwd f id 0 s reqs skipped = [] ∧ loopFwd f id (fuel + 1) s [] skipped = [] ∧
    loopFwd f id (fuel + 1) s (req :: reqs) skipped =
      (match forwardDeviceData s id req with
       | .error _ => []
       | .ok (s1, req1, st) =>
         let d := if req.filter = f then sweepDelta s s1 id else []
         let s2 := noteTurn s s1 req1
         match st with
         | .bufferFull => d
         | .inflightFull => d
         | .filterCaughtup =>
           match park s2 id req1 with
           | .error _ => d
           | .ok s3 => d ++ loopFwd f id fuel s3 reqs skipped
         | .partialRead => d ++ loopFwd f id fuel s2 (reqs ++ [req1]) skipped
         | .skipRequest => d ++ loopFwd f id fuel s2 reqs (skipped ++ [req1])) ∧
    sweepDelta s s id = (match getConn s id with
      | some c => (linkOffsets s c.link).drop (linkOffsets s c.link).length
      | none => []) :=
  ⟨rfl, rfl, rfl, fun _ _ => rfl, fun _ => rfl, fun _ _ => rfl, fun _ => rfl, rfl, rfl, rfl, rfl, rfl⟩

/-- the assumptions of `delivery_is_prefix` on a run (`QuietRun`): in every state of the run
    connection `a` is live and belongs to client `cid`, and the cursor of its request for `f` points
    into a retained segment ("within the configured log retention"); no op of the run is a CONNECT of
    client `cid` (a takeover), and no batch of packets of connection `a` contains an UNSUBSCRIBE
    naming `f` -/
theorem quietRun_spec (a : Nat) (cid f : String) (s : RState) (op : Op) (ch : List Choice) (rest : List (Op × List Choice)) :
    (QuietRun a cid f s [] ↔ Stays a cid f s) ∧
    (QuietRun a cid f s ((op, ch) :: rest) ↔ Stays a cid f s ∧ QuietOp a cid f s op ∧
      ∀ s' out, step { s with oracle := ch } op = .ok (s', out) → QuietRun a cid f s' rest) ∧
    (Stays a cid f s ↔ (∃ c, getConn s a = some c ∧ c.clientId = cid) ∧
      ∀ r, Own s a r → r.filter = f → ∀ fd, s.datalog.native[r.filterIdx]? = some fd → (logC fd.log).head ≤ r.cursor.1) ∧
    (∀ spec, QuietOp a cid f s (.connect spec) ↔ spec.clientId ≠ cid) ∧
    (∀ id, QuietOp a cid f s (.event id .deviceData) ↔
      (id = a → ∀ c, getConn s a = some c → ∀ p ∈ (getLink s c.link).ibuf, f ∉ pktUnsubs p)) ∧
    QuietOp a cid f s .consume ∧ (∀ l p, QuietOp a cid f s (.push l p)) ∧ (∀ l, QuietOp a cid f s (.drain l)) ∧
    (∀ id, QuietOp a cid f s (.event id .disconnect)) ∧ (∀ id, QuietOp a cid f s (.event id .ready)) :=
  ⟨Iff.rfl, Iff.rfl, Iff.rfl, fun _ => Iff.rfl, fun _ => Iff.rfl, trivial, fun _ _ => trivial, fun _ => trivial,
   fun _ => trivial, fun _ => trivial⟩

/-- C01.2 `delivery_is_prefix`, over WHOLE RUNS (no `ReqRun` premise any more). Take any run — any
    list of ops with their oracles: publishes and other traffic of any client, consume calls, link
    drains, connects and disconnects of OTHER clients — from a reachable state in which connection `a`
    owns the request `r` of its non-shared subscription `f`, during which the connection stays and keeps
    the subscription, within the log retention (`QuietRun`), ending below the no-overflow bound. Then
    the log offsets forwarded to `a`'s link buffer through `f` during the run (`runFwd`) are EXACTLY the
    consecutive offsets from the request's cursor at the start — in order, no gap, no repeat, across
    all sweeps of all consume calls — and the connection's request for `f` at the end stands right
    behind them. With `log_content` (one log entry per accepted matching publish) and
    `forward_carries_entry`: exactly the matching messages, once each, in acceptance order.
    Ingredients: request conservation (C03: THE request of `(a, f)` is in exactly one of tracker /
    waiter list / notifications), `cursor_sound` (its cursor is issued at every step), ownership is
    kept by every step except UNSUBSCRIBE / removal, and `consume` threads the request from sweep to
    sweep (`delivery_is_prefix_partial` for each consume call). -/
theorem delivery_is_prefix {cfg : Config} (h1 : 1 ≤ cfg.maxSegmentSize) (h2 : 1 ≤ cfg.maxSegmentCount)
    (hpos : 0 < cfg.maxOutgoingPacketCount) {a : Nat} {cid f : String} (ops : List (Op × List Choice))
    {s s2 : RState} {r : DataRequest} (hr : Reachable cfg s) (hrun : run s ops = .ok s2) (hno : NoOverflow s2)
    (hquiet : QuietRun a cid f s ops) (hown : Own s a r) (hf : r.filter = f) (hplain : r.group = none) :
    ∃ r2, Own s2 a r2 ∧ r2.filter = f ∧ r2.group = none ∧ r2.filterIdx = r.filterIdx ∧
      runFwd a f s ops = List.range' r.cursor.2 (runFwd a f s ops).length ∧
      r2.cursor.2 = r.cursor.2 + (runFwd a f s ops).length :=
  run_thread h1 h2 hpos ops hr hrun hno hquiet hown hf hplain

/-- C01.2 `no_gap_no_duplicate_over_runs`: the same, spelled out — the `k`-th offset forwarded through
    the subscription during the run is the start offset plus `k`; in particular the offsets are
    strictly increasing (none twice) and contiguous (none skipped) -/
theorem no_gap_no_duplicate_over_runs {cfg : Config} (h1 : 1 ≤ cfg.maxSegmentSize) (h2 : 1 ≤ cfg.maxSegmentCount)
    (hpos : 0 < cfg.maxOutgoingPacketCount) {a : Nat} {cid f : String} (ops : List (Op × List Choice))
    {s s2 : RState} {r : DataRequest} (hr : Reachable cfg s) (hrun : run s ops = .ok s2) (hno : NoOverflow s2)
    (hquiet : QuietRun a cid f s ops) (hown : Own s a r) (hf : r.filter = f) (hplain : r.group = none) :
    (∀ k (hk : k < (runFwd a f s ops).length), (runFwd a f s ops)[k] = r.cursor.2 + k) ∧
    (runFwd a f s ops).Pairwise (· < ·) := by
  obtain ⟨_, _, _, _, _, e, _⟩ := delivery_is_prefix h1 h2 hpos ops hr hrun hno hquiet hown hf hplain
  constructor
  · intro k hk
    have : (List.range' r.cursor.2 (runFwd a f s ops).length)[k]'(by simpa using hk) = r.cursor.2 + k := by
      simp [List.getElem_range']
    rw [← this]
    congr 1
  · rw [e]; exact List.pairwise_lt_range'

/-- C01 `exact_delivery_at_idle` (the property as a whole, for one subscription): if moreover at the
    end of the run the broker has gone idle for the connection (its tracker holds no request), then
    what was forwarded through the subscription during the run is EXACTLY the stretch of the filter's
    log from the request's start cursor to the END of the log as it is then — every entry appended to
    the log since, once each, in order, none missing. When the run starts right after the SUBSCRIBE,
    the start cursor is the log's tail at that moment (`subscription_starts_at_tail`): exactly the
    matching messages accepted after the subscription took effect. -/
theorem exact_delivery_at_idle {cfg : Config} (h1 : 1 ≤ cfg.maxSegmentSize) (h2 : 1 ≤ cfg.maxSegmentCount)
    (hpos : 0 < cfg.maxOutgoingPacketCount) {a : Nat} {cid f : String} (ops : List (Op × List Choice))
    {s s2 : RState} {r : DataRequest} (hr : Reachable cfg s) (hrun : run s ops = .ok s2) (hno : NoOverflow s2)
    (hquiet : QuietRun a cid f s ops) (hown : Own s a r) (hf : r.filter = f) (hplain : r.group = none)
    (hidle : ∀ c2, getConn s2 a = some c2 → c2.tracker.requests = []) :
    ∃ fd hist, s2.datalog.native[r.filterIdx]? = some fd ∧ Rep (logC fd.log) hist ∧
      r.cursor.2 ≤ hist.length ∧ runFwd a f s ops = List.range' r.cursor.2 (hist.length - r.cursor.2) := by
  obtain ⟨r2, o2, f2, g2, i2, e, ec⟩ := delivery_is_prefix h1 h2 hpos ops hr hrun hno hquiet hown hf hplain
  have hr2 : Reachable cfg s2 := by
    obtain ⟨ops0, h0⟩ := hr
    exact ⟨ops0 ++ ops, by rw [run_append ops0 ops _ _ h0]; exact hrun⟩
  have hq := QI.reachable h1 h2 hpos hr2 hno
  have hi := reachable_inv h1 h2 hr2
  have h3 := Inv3.reachable hr2
  obtain ⟨_, hW, _⟩ := (RC.iff s2).mp h3.rc
  rcases o2 with ⟨c2, hc2, hm⟩ | ⟨i, fd, hfd, hm⟩ | hn
  · rw [hidle c2 hc2] at hm; cases hm
  · have hidx : r2.filterIdx = i := hW i fd hfd (a, r2) hm
    obtain ⟨hist, hrep⟩ := hi.logs fd.log (List.mem_map.mpr ⟨fd, List.mem_of_getElem? hfd, rfl⟩)
    have hend := hq.pe i fd hfd (a, r2) hm g2
    have hlen : r2.cursor.2 = hist.length := by rw [hend.2, hrep.nextAbs_eq]
    refine ⟨fd, hist, by rw [← i2, hidx]; exact hfd, hrep, by omega, ?_⟩
    have : hist.length - r.cursor.2 = (runFwd a f s ops).length := by omega
    rw [this]; exact e
  · have : s2.notifications = [] := h3.inv2.binv.2
    unfold Notified at hn; rw [this] at hn; cases hn

/-- C01 "after that subscription took effect", the request: the data request `prepare_filter` tracks
    for a NEW subscription `f` of connection `id` (how the SUBSCRIBE loop calls it: with the index and
    cursor `next_native_offset` returned for the filter's path) is owned by the connection afterwards,
    and its cursor is the tail of the filter's log at that moment: retained, at offset
    `hist.length`. This is the request — and the start cursor — `delivery_is_prefix` and
    `exact_delivery_at_idle` speak about for a run that starts here. -/
theorem subscribe_request_starts_at_tail (s s' : RState) (hi : DLInv s) (id : Nat) (f : SubFilter) (subId : Option Nat)
    (hnew : ∀ c, getConn s id = some c → f.path ∉ c.subscriptions)
    (h : prepareFilter (nextNativeOffset s (sfFilter f.path)).1 id (nextNativeOffset s (sfFilter f.path)).2.2
      (nextNativeOffset s (sfFilter f.path)).2.1 f (sfGroup f.path) subId = .ok s') :
    ∃ r fd hist, Own s' id r ∧ r.filter = f.path ∧ r.group = (extractGroup f.path).map (·.1) ∧
      s'.datalog.native[r.filterIdx]? = some fd ∧ fd.filter = sfFilter f.path ∧ Rep (logC fd.log) hist ∧
      Issued (logC fd.log) r.cursor ∧ (logC fd.log).head ≤ r.cursor.1 ∧ r.cursor.2 = hist.length := by
  obtain ⟨o, n, _, _, _⟩ := prepareFilter_own h
  obtain ⟨fd, hist, hfd, hff, hrep, hiss, hhead, hlen⟩ := subscription_starts_at_tail s (sfFilter f.path) hi
  have hsub : f.path ∉ subsOf (nextNativeOffset s (sfFilter f.path)).1 id := by
    rw [(nextNativeOffset_oeq s (sfFilter f.path)).subs]
    unfold subsOf
    cases hc : getConn s id with
    | none => simp
    | some c => exact hnew c hc
  refine ⟨pfReq (nextNativeOffset s (sfFilter f.path)).2.1 f (nextNativeOffset s (sfFilter f.path)).2.2 (sfGroup f.path),
    fd, hist, (o id _).mpr (.inr ⟨rfl, rfl, hsub⟩), rfl, rfl, by rw [n]; exact hfd, hff, hrep, hiss, hhead, hlen⟩

/-- the no-overflow bound follows from small next offsets (what one checks on a concrete state) -/
theorem noOverflow_of_nextAbs {s : RState}
    (h : ∀ fd ∈ s.datalog.native, (logC fd.log).nextAbs + (MAX_INFLIGHT + s.config.maxOutgoingPacketCount) < U64) :
    NoOverflow s := fun fd hfd hist hrep => by rw [← hrep.nextAbs_eq]; exact h fd hfd

/-- non-vacuity of the `_reachable` theorems: a reachable state below the bound in which a connection
    tracks a request (CONNECT, SUBSCRIBE `t`, DeviceData) -/
example : ∃ s, Reachable ⟨10, 1024, 2, 10, .roundRobin⟩ s ∧ NoOverflow s ∧
    ∃ c req, getConn s 0 = some c ∧ req ∈ c.tracker.requests :=
  ⟨_, Reachable.ofX [(.connect ⟨0, "a", true, false, 0, none⟩, []), (.push 0 (.subscribe 1 none [⟨"t", 0⟩]), []),
         (.event 0 .deviceData, [])] rfl,
    noOverflow_of_nextAbs (by decide), _, ⟨"t", 0, 0, (0, 0), true, none⟩, rfl, by decide⟩

/-- non-vacuity of `quiescent_complete` / `parked_at_end` (kernel-evaluated): after CONNECT, SUBSCRIBE `t`,
    DeviceData and one `consume` (the sweep finds the log empty, reports `FilterCaughtup`, the
    request is parked, the connection pauses `Caughtup`) the state is reachable, below the bound, the
    connection is subscribed to `t`, its tracker is empty and the request is parked on log 0 at the
    log's end `(0, 0)` -/
example : ∃ s, Reachable ⟨10, 1024, 2, 10, .roundRobin⟩ s ∧ NoOverflow s ∧
    ∃ c, getConn s 0 = some c ∧ c.tracker.requests = [] ∧ c.tracker.status = .paused .caughtup ∧ "t" ∈ c.subscriptions ∧
      (s.datalog.native.map (fun fd => fd.waiters.map (fun w => (w.1, w.2.filter, w.2.cursor)))) = [[(0, "t", (0, 0))]] :=
  ⟨_, Reachable.ofX [(.connect ⟨0, "a", true, false, 0, none⟩, []), (.push 0 (.subscribe 1 none [⟨"t", 0⟩]), []),
         (.event 0 .deviceData, []), (.consume, [.retained []])] rfl,
    noOverflow_of_nextAbs (by decide), _, rfl, by decide, by decide, by decide, by decide⟩

/-- non-vacuity of `delivery_is_prefix`: its assumptions on a run (`QuietRun`) reduce, for the empty run,
    to `Stays` in the start state; longer runs add the per-op conditions (`quietRun_spec`). Runs that
    forward log entries cannot be kernel-evaluated (accepting a publish needs `String.fromUTF8?`); the
    theorem quantifies over all runs. -/
example (a : Nat) (cid f : String) (s : RState) (h : Stays a cid f s) : QuietRun a cid f s [] := h

/-- non-vacuity on a concrete state (kernel-evaluated): client `a` holds a non-shared request for
    filter `t` at cursor `(0, 0)`; the filter's log has one entry. The sweep forwards exactly that
    entry to `a`'s link, hands back the continuation cursor `(0, 1)` and reports `FilterCaughtup`.
    (Runs that accept a publish cannot be kernel-evaluated: `String.fromUTF8?` does not reduce in
    the kernel within reasonable memory.) -/
example :
    (match forwardDeviceData
        { config := ⟨10, 1024, 2, 10, .roundRobin⟩, links := [{}],
          conns := ⟨[some { clientId := "a", link := 0, clean := true, dynamicFilters := false, tracker := { id := "a" } }], []⟩,
          datalog := { native := [{ filter := "t", log := ((CLog.Log.new 1024 2).append (⟨0, 0, false, false, [116], [1], none, [], false⟩ : Pub) 6).1 }],
                       filterIndexes := [("t", 0)] } }
        0 ⟨"t", 0, 0, (0, 0), false, none⟩ with
     | .ok (s', r', st) => decide (st = .filterCaughtup ∧ (getLink s' 0).obuf.length = 1 ∧ r'.cursor = (0, 1))
     | .error _ => false) = true := by decide

/-- non-vacuity on a concrete reachable run (kernel-evaluated): after CONNECT, SUBSCRIBE `t` and the
    handling of the packet, the filter `t` has log index 0 and the connection tracks one request
    standing at the log's tail -/
example :
    (match run (init ⟨10, 1024, 2, 10, .roundRobin⟩)
        [(.connect ⟨0, "a", true, false, 0, none⟩, []), (.push 0 (.subscribe 1 none [⟨"t", 0⟩]), []),
         (.event 0 .deviceData, [])] with
     | .ok s =>
       (match getConn s 0 with
        | some c => decide (s.datalog.filterIndexes = [("t", 0)] ∧ s.datalog.native.length = 1 ∧
            c.tracker.requests.map (fun r => (r.filter, r.filterIdx, r.cursor, r.group)) = [("t", 0, (0, 0), none)])
        | none => false)
     | .error _ => false) = true := by rw [run_eq_runX]; decide

/-! ### non-vacuity of `delivery_is_prefix` on a run with a `consume` (kernel-evaluated) -/

def exCfg : Config := ⟨10, 1024, 2, 10, .roundRobin⟩
def exOps0 : List (Op × List Choice) :=
  [(.connect ⟨0, "a", true, false, 0, none⟩, []), (.push 0 (.subscribe 1 none [⟨"t", 0⟩]), []), (.event 0 .deviceData, [])]
/-- the state after CONNECT, SUBSCRIBE `t`, DeviceData -/
def exS : RState := match runX (init exCfg) exOps0 with | .ok s => s | .error _ => init exCfg
/-- and after one `consume` -/
def exS2 : RState := match stepX { exS with oracle := [.retained []] } .consume with | .ok (s, _) => s | .error _ => init exCfg

theorem exS_run : runX (init exCfg) exOps0 = .ok exS := by rfl
theorem exS2_step : ∃ out, stepX { exS with oracle := [.retained []] } .consume = .ok (exS2, out) := ⟨_, by rfl⟩

/-- `Stays` for a state all of whose logs still have their first segment -/
theorem stays_of_heads {a : Nat} {cid f : String} {t : RState} (hl : (getConn t a).map (·.clientId) = some cid)
    (hh : t.datalog.native.all (fun fd => fd.log.head == 0) = true) : Stays a cid f t := by
  refine ⟨?_, fun r _ _ fd hfd => ?_⟩
  · cases hc : getConn t a with
    | none => rw [hc] at hl; cases hl
    | some c => rw [hc] at hl; exact ⟨c, rfl, by simpa using hl⟩
  · have := List.all_eq_true.mp hh fd (List.mem_of_getElem? hfd)
    have e : (logC fd.log).head = 0 := by
      have : fd.log.head = 0 := by simpa using this
      exact this
    rw [e]; exact Nat.zero_le _

/-- the assumptions of `delivery_is_prefix` hold for the run `[consume]` from the reachable state `exS`,
    in which connection 0 (client `a`) owns the request of its subscription `t`; the run ends below
    the no-overflow bound -/
example : Reachable exCfg exS ∧ QuietRun 0 "a" "t" exS [(.consume, [.retained []])] ∧
    (∃ r, Own exS 0 r ∧ r.filter = "t" ∧ r.group = none) ∧
    ∃ s2, run exS [(.consume, [.retained []])] = .ok s2 ∧ NoOverflow s2 := by
  obtain ⟨out, hstep⟩ := exS2_step
  refine ⟨Reachable.ofX exOps0 exS_run, ⟨stays_of_heads (by decide) (by decide), trivial, fun s' o h => ?_⟩,
    ⟨⟨"t", 0, 0, (0, 0), true, none⟩, .inl ⟨_, rfl, by decide⟩, rfl, rfl⟩, exS2, ?_, noOverflow_of_nextAbs (by decide)⟩
  · rw [step_eqX, hstep] at h
    simp only [Except.ok.injEq, Prod.mk.injEq] at h
    obtain ⟨rfl, _⟩ := h
    exact stays_of_heads (by decide) (by decide)
  · simp only [run, step_eqX, hstep]

end C01
