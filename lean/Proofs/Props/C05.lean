/-
C05 — Decoders are total, bounded and chunking-independent.

"For every byte string and every way of splitting it into network reads, each of the four decoders
either yields a packet, reports a malformed-packet error, or (only while the frame its header
declares is still incomplete) asks for more bytes; it never panics, never consumes bytes beyond
the declared frame, never accepts a frame whose declared length exceeds the configured maximum,
and yields the same packet sequence however the bytes were chunked."

Model: `Model/Frame.lean` (follows the Rust text of the four copies c4, c5, b4, b5 and of the
loops `Decoder::decode`/`Framed`, `Network::{read, read_bytes, readv}`); independent statement of
the MQTT framing rules: `Model/FrameSpec.lean`. Every theorem below holds for every copy `c`,
every limit `max` (`none` = c5's `Option<u32>::None`), every byte list and every body reader
`body`; the body readers themselves belong to C04.

One hypothesis remains on some theorems: `Guarded c body` = the copy seals a body reader's
`InsufficientBytes` into `MalformedPacket` (c5, b5 since 5359110: `sealed c = true`, no condition on
the body reader at all — see the `_v5` corollaries) or the body reader never answers
`InsufficientBytes` (`Honest body`). It is genuinely needed for c4 / b4: their `read`/`read_mut`
propagate the body reader's error unchanged, so a v4 body reader that answered `InsufficientBytes`
for a complete frame would be taken for a wait after the frame is gone
(`unsealed_copy_needs_honest_body`). The real v4 readers never do (they do not call `length()`); that
is a fact about the unmodelled body readers, watched by the correspondence (monitor
`needmore-on-complete-frame`), not a defect of the framing layer.
Repaired since the first version of this file (then stated as witness + `_partial`, now proved at
full strength): b5 `unreachable!()` on CONNACK / UNSUBACK (c0aab5e) → `decode1_never_panics`;
v5 wait on a complete frame and the resulting chunking dependence (5359110) → `_v5` theorems.
Totality ("either a packet, an error, or a wait") is by construction: `decode1` is a total function
into `Step`; for the Rust code it is decided by the correspondence run under `catch_unwind`.
-/
import Proofs.Lemmas.Frame
import Generated.Consts
namespace C05
open Frame VarInt Bytes

section
variable {Pkt ε : Type} (c : Copy) (body : FixedHeader → ByteList → Except (BodyErr ε) Pkt)
  (max : Limit)

/-- C05.1 ("never consumes bytes beyond the declared frame"): a packet is only produced from a
    buffer that starts with a complete fixed header whose frame is entirely present and within the
    limit; exactly `frameLen` bytes are removed; the body reader was given exactly those bytes. -/
theorem decode1_consumes_frame {bs rest : ByteList} {p : Pkt}
    (h : decode1 c body max bs = .packet p rest) :
    ∃ fh, headerStatus bs = .complete fh.fixedHeaderLen fh.remainingLen ∧
      exceeds max fh.remainingLen = false ∧ fh.frameLen ≤ bs.length ∧
      rest = bs.drop fh.frameLen ∧ body fh (bs.take fh.frameLen) = .ok p := by
  obtain ⟨fh, h1, _, h3, h4, h5⟩ := decode1_packet h
  have ⟨hp, he, _⟩ := (check_ok_iff max bs fh).mp h1
  exact ⟨fh, ((parse_ok_iff_status bs fh).mp hp).1, he, h3, h4, h5⟩

/-- C05.1b every outcome that removes bytes (packet, error after the split, panic, swallowed
    frame) removes exactly the declared frame: whatever follows the frame in the buffer only ever
    shows up, untouched, in what is left. (Same statement as C05.4: prefix stability.) -/
theorem decode1_never_reads_past_frame (bs x : ByteList)
    (h : ∀ n, decode1 c body max bs ≠ .needMore n) :
    decode1 c body max (bs ++ x) = (decode1 c body max bs).extend x :=
  decode1_append c body max bs x h

/-- C05.2 ("asks for more bytes only while the declared frame is incomplete", framing layer):
    `InsufficientBytes(n)` is answered exactly when the fixed header is incomplete — then
    `n = 2 - len` below two bytes, else `1` — or the header is complete, within the limit, and the
    frame is not yet entirely in the buffer — then `n` is exactly the number of missing bytes. -/
theorem decode1_needMore_iff (bs : ByteList) (n : Nat) :
    decode1 c body max bs = .needMore n ↔
      (headerStatus bs = .incomplete ∧ n = headerAsk bs) ∨
      (∃ h r, headerStatus bs = .complete h r ∧ exceeds max r = false ∧
        bs.length < h + r ∧ n = h + r - bs.length) := by
  rw [decode1_needMore_iff_check, check_insufficient_iff, parse_insufficient_iff_status]
  constructor
  · rintro (h | ⟨fh, hp, he, hl, hn⟩)
    · exact Or.inl h
    · exact Or.inr ⟨_, _, ((parse_ok_iff_status bs fh).mp hp).1, he, hl, hn⟩
  · rintro (h | ⟨h, r, hs, he, hl, hn⟩)
    · exact Or.inl h
    · exact Or.inr ⟨⟨bs.headD 0, h, r⟩, (parse_ok_iff_status bs _).mpr ⟨hs, rfl⟩, he, hl, hn⟩

/-- C05.2b nothing is consumed by a wait: the loops keep the whole buffer. -/
theorem needMore_consumes_nothing {bs : ByteList} {n : Nat}
    (h : decode1 c body max bs = .needMore n) : decodeAll c body max bs = ([], .more bs) :=
  decodeAll_needMore h

/-- C05.2c the number asked for never exceeds what is missing: fewer bytes than asked for cannot
    complete the frame (so `read_bytes(n)` never blocks while a complete frame is buffered). -/
theorem needMore_never_overasks {bs : ByteList} {n : Nat}
    (h : decode1 c body max bs = .needMore n) (x : ByteList) (hx : x.length < n) :
    ∃ m, decode1 c body max (bs ++ x) = .needMore m :=
  needMore_lower_bound h x hx

/-- C05.2d ("asks for more bytes only while the declared frame is incomplete", whole decoder): a
    complete frame is never answered with a wait of either kind — neither by the framing layer
    nor by an `InsufficientBytes` leaking out of the body reader. -/
theorem no_wait_on_complete_frame (hg : Guarded c body) {bs : ByteList}
    (hc : FrameComplete bs) :
    (∀ n, decode1 c body max bs ≠ .needMore n) ∧
    (∀ n rest, decode1 c body max bs ≠ .swallowed n rest) := by
  refine ⟨?_, fun n rest => guarded_not_swallowed hg max bs n rest⟩
  intro n hn
  obtain ⟨h, r, hs, hl⟩ := hc
  rcases (decode1_needMore_iff c body max bs n).mp hn with ⟨h1, _⟩ | ⟨h', r', h1, _, h3, _⟩
  · rw [hs] at h1; simp at h1
  · rw [hs] at h1; simp at h1; omega

/-- C05.2d for the v5 copies, unconditionally: whatever the body reader answers. -/
theorem no_wait_on_complete_frame_v5 (hs : sealed c = true) {bs : ByteList}
    (hc : FrameComplete bs) :
    (∀ n, decode1 c body max bs ≠ .needMore n) ∧
    (∀ n rest, decode1 c body max bs ≠ .swallowed n rest) :=
  no_wait_on_complete_frame c body max (Or.inl hs) hc

/-- C05.3 ("never accepts a frame whose declared length exceeds the configured maximum"): as soon
    as the fixed header is complete and declares more than `max`, the answer is
    `PayloadSizeLimitExceeded` — never a packet and never a wait, so an over-limit frame is not
    buffered, however little of it has arrived. -/
theorem decode1_rejects_oversize {bs : ByteList} (h : Oversize max bs) :
    decode1 c body max bs = .tooLarge := by
  obtain ⟨hl, r, m, hs, hm, hlt⟩ := h
  have hp : parseFixedHeader bs = .ok ⟨bs.headD 0, hl, r⟩ :=
    (parse_ok_iff_status bs _).mpr ⟨hs, rfl⟩
  have he : exceeds max r = true := by subst hm; simp [exceeds]; omega
  have : check max bs = .tooLarge r := (check_tooLarge_iff max bs r).mpr ⟨_, hp, he, rfl⟩
  unfold decode1; rw [this]

/-- C05.3b and only then. -/
theorem decode1_tooLarge_iff (bs : ByteList) :
    decode1 c body max bs = .tooLarge ↔ Oversize max bs := by
  constructor
  · intro h
    rcases decode1_cases c body max bs with ⟨n, _, h2⟩ | ⟨r, h1, _⟩ | ⟨_, h2⟩ | ⟨fh, _, h2⟩
    · rw [h2] at h; simp at h
    · obtain ⟨fh, hp, he, hr⟩ := (check_tooLarge_iff max bs r).mp h1
      cases max with
      | none => simp [exceeds] at he
      | some m =>
        refine ⟨_, _, m, ((parse_ok_iff_status bs fh).mp hp).1, rfl, ?_⟩
        simpa [exceeds] using he
    · rw [h2] at h; simp at h
    · rw [h2] at h; unfold deliver fromBody at h
      split at h <;> (try split at h) <;> (try split at h) <;> simp at h
  · exact decode1_rejects_oversize c body max

/-- C05.4 (prefix stability) a packet stays the same packet when more bytes follow … -/
theorem decode1_prefix_stable {bs rest : ByteList} {p : Pkt} (x : ByteList)
    (h : decode1 c body max bs = .packet p rest) :
    decode1 c body max (bs ++ x) = .packet p (rest ++ x) := by
  rw [decode1_append c body max bs x (by intro n; rw [h]; simp), h]; rfl

/-- … and an error stays the same error. -/
theorem decode1_error_stable {bs : ByteList} {e : ErrKind} (x : ByteList)
    (h : (decode1 c body max bs).err? = some e) :
    (decode1 c body max (bs ++ x)).err? = some e := by
  rw [decode1_append c body max bs x (by intro n hn; rw [hn] at h; simp [Step.err?] at h),
    err_extend, h]

/-- C05.5a ("yields the same packet sequence however the bytes were chunked", client): for every
    chunking, `Framed`'s loop around `Codec::decode`, run to end of stream, yields the packets of
    the concatenation, the same first error, the same kind of end. -/
theorem stream_chunking_independent_client (hg : Guarded c body) (chunks : List ByteList) :
    codecLoop c body max chunks = decodeStream c body max chunks.flatten :=
  codecLoop_eq c body max hg chunks

/-- C05.5b (broker) the same for `Network::read`/`read_bytes`/`readv` as driven by
    `RemoteLink::start`, for every chunking into non-empty socket reads and every
    `max_connection_buffer_len`. -/
theorem stream_chunking_independent_broker (hg : Guarded c body) (k : Nat)
    (chunks : List ByteList) (hne : ∀ ch ∈ chunks, ch ≠ []) :
    netLoop c body max k chunks = decodeStream c body max chunks.flatten :=
  netLoop_eq c body max k hg chunks hne

/-- C05.5a/b for the v5 copies, unconditionally (every body reader). -/
theorem stream_chunking_independent_v5 (hs : sealed c = true) (k : Nat) (chunks : List ByteList)
    (hne : ∀ ch ∈ chunks, ch ≠ []) :
    codecLoop c body max chunks = decodeStream c body max chunks.flatten ∧
    netLoop c body max k chunks = decodeStream c body max chunks.flatten :=
  ⟨codecLoop_eq c body max (Or.inl hs) chunks, netLoop_eq c body max k (Or.inl hs) chunks hne⟩

/-- C05.5c hence two chunkings of the same bytes cannot be told apart, on either side. -/
theorem any_two_chunkings_agree (hg : Guarded c body) (k₁ k₂ : Nat)
    (cs₁ cs₂ : List ByteList) (h : cs₁.flatten = cs₂.flatten)
    (h₁ : ∀ ch ∈ cs₁, ch ≠ []) (h₂ : ∀ ch ∈ cs₂, ch ≠ []) :
    codecLoop c body max cs₁ = codecLoop c body max cs₂ ∧
    netLoop c body max k₁ cs₁ = netLoop c body max k₂ cs₂ := by
  rw [codecLoop_eq c body max hg, codecLoop_eq c body max hg, netLoop_eq c body max k₁ hg _ h₁,
    netLoop_eq c body max k₂ hg _ h₂, h]
  exact ⟨rfl, rfl⟩

/-- C05.5e `readv`'s `max_connection_buffer_len` cut only moves batch boundaries: the batches the
    broker link forms from a buffered burst, concatenated, are the frames of the burst, and the
    run ends the same way. -/
theorem readv_cut_preserves_sequence (hg : Guarded c body) (k : Nat) (buf : ByteList) :
    ((linkBatches c body max k (buf.length + 1) buf).1.flatten,
      (linkBatches c body max k (buf.length + 1) buf).2) = decodeAll c body max buf :=
  linkBatches_flatten c body max k hg _ buf (Nat.lt_succ_self _)

/-- C05.5f the client's `readb` batching (at most `max_readb_count - 1` = 9 packets per call, not
    the 10 the field name suggests) hands the ready packets on in order, none lost or duplicated. -/
theorem readb_batches_preserve_sequence (m : Nat) (ready : List Pkt) :
    (readbBatches m (ready.length + 1) ready).flatten = ready ∧
    ∀ b ∈ readbBatches m (ready.length + 1) ready, b.length ≤ Nat.max (m - 1) 1 :=
  ⟨readbBatches_flatten m _ ready (Nat.lt_succ_self _), readbBatches_bound m _ ready⟩

/-- C05.7 ("never panics", framing and dispatch layer) no copy, no limit, no input and no body
    reader lead into an `unreachable!()` arm. (b5 did for CONNACK / UNSUBACK until c0aab5e.) For
    the Rust code as a whole — body readers included — "never panics" is decided by the
    correspondence under `catch_unwind`. -/
theorem decode1_never_panics (bs rest : ByteList) : decode1 c body max bs ≠ .panic rest := by
  rcases decode1_cases c body max bs with ⟨n, _, h2⟩ | ⟨r, _, h2⟩ | ⟨_, h2⟩ | ⟨fh, _, h2⟩
  · rw [h2]; simp
  · rw [h2]; simp
  · rw [h2]; simp
  · rw [h2]; exact deliver_ne_panic _ _ _ _ _ _

end

/-- C05.8 the three packets that consist of a fixed header only (`C0 00`, `D0 00`, `E0 00`) are
    accepted by every copy's dispatch without consulting a body reader (c5 rejected `E0 00` with
    `PayloadRequired` until 86cba48). The correspondence reports an implementation that rejects one
    of them as `wrong-answer`. -/
theorem canonical_bodiless_accepted (c : Copy) (b0 : UInt8) (h : canonicalBodiless b0 = true) :
    dispatch c (b0.toNat / 16) (b0.toNat % 16) 0 = .accept := by
  have : (b0 = 0xC0 ∨ b0 = 0xD0) ∨ b0 = 0xE0 := by
    simpa [canonicalBodiless] using h
  rcases this with (h | h) | h <;> subst h <;> cases c <;> decide

/-- why `Guarded` cannot be dropped for the v4 copies (a statement about the model's parameter,
    not about a defect): c4 / b4 hand a body reader's `InsufficientBytes` on unchanged, so with a
    body reader that answered it the complete frame `30 02 00 00` would be removed and answered
    with a wait; the sealed v5 copies report it as malformed. -/
theorem unsealed_copy_needs_honest_body :
    let body : FixedHeader → ByteList → Except (BodyErr Unit) Unit :=
      fun _ _ => .error (.insufficient 1)
    FrameComplete [0x30, 0x02, 0x00, 0x00] ∧
    decode1 .c4 body (some 100) [0x30, 0x02, 0x00, 0x00] = .swallowed 1 [] ∧
    decode1 .b4 body (some 100) [0x30, 0x02, 0x00, 0x00] = .swallowed 1 [] ∧
    decode1 .c5 body none [0x30, 0x02, 0x00, 0x00] = .malformed [] ∧
    decode1 .b5 body (some 100) [0x30, 0x02, 0x00, 0x00] = .malformed [] := by
  refine ⟨⟨2, 2, by decide, by decide⟩, rfl, rfl, rfl, rfl⟩

/-! ### C05.6 the variable byte integer, over the constants regenerated from the four sources -/

/-- `(write_remaining_length limit, len_len thresholds)` of the four copies as extracted from
    /repo on this run -/
def generatedCopies : List (Nat × List Nat) :=
  [(Generated.REMAINING_LIMIT_C4, Generated.LEN_LEN_THRESHOLDS_C4),
   (Generated.REMAINING_LIMIT_C5, Generated.LEN_LEN_THRESHOLDS_C5),
   (Generated.REMAINING_LIMIT_B4, Generated.LEN_LEN_THRESHOLDS_B4),
   (Generated.REMAINING_LIMIT_B5, Generated.LEN_LEN_THRESHOLDS_B5)]

/-- the constants in all four sources are the MQTT ones: 128⁴ − 1 and 128, 128², 128³ -/
theorem generated_constants :
    ∀ lt ∈ generatedCopies, lt = (128 ^ 4 - 1, [128, 128 ^ 2, 128 ^ 3]) := by decide

/-- C05.6a round trip: for every length the encoder accepts, the decoder reads back exactly that
    length and exactly the bytes the encoder wrote, whatever follows. -/
theorem varint_roundtrip : ∀ lt ∈ generatedCopies, ∀ (n : Nat) (r : List UInt8), n ≤ lt.1 →
    ∃ ds, writeRemainingLength lt.1 n = some ds ∧ VarInt.length (ds ++ r) = .ok ds.length n := by
  intro lt hlt n r hn
  have := generated_constants lt hlt
  subst this
  simp only at hn
  have h1 : ¬ n > 128 ^ 4 - 1 := by omega
  exact ⟨encodeDigits n, by simp [writeRemainingLength, h1], roundtrip n (by simp at hn ⊢; omega) r⟩

/-- C05.6b canonical length: the encoder writes exactly `len_len(n)` bytes, between 1 and 4. -/
theorem varint_canonical_len : ∀ lt ∈ generatedCopies, ∀ (n : Nat), n ≤ lt.1 →
    (encodeDigits n).length = lenLen lt.2 n ∧ 1 ≤ lenLen lt.2 n ∧ lenLen lt.2 n ≤ 4 := by
  intro lt hlt n hn
  have := generated_constants lt hlt
  subst this
  simp only at hn ⊢
  have e := encodeDigits_length n (by simp at hn ⊢; omega)
  refine ⟨by simpa using e, ?_, ?_⟩ <;> (simp only [lenLen]; repeat' split) <;> omega

/-- C05.6c the encoder rejects every length above the limit (and only those). -/
theorem varint_encoder_rejects : ∀ lt ∈ generatedCopies, ∀ (n : Nat),
    writeRemainingLength lt.1 n = none ↔ n > lt.1 := by
  intro lt _ n
  unfold writeRemainingLength
  split <;> simp_all

/-- C05.6d the decoder never reads more than four length bytes and never yields more than the
    encoder's limit. -/
theorem varint_at_most_four_bytes : ∀ lt ∈ generatedCopies, ∀ (bs : List UInt8) (ll l : Nat),
    VarInt.length bs = .ok ll l → 1 ≤ ll ∧ ll ≤ 4 ∧ ll ≤ bs.length ∧ l ≤ lt.1 := by
  intro lt hlt bs ll l h
  have := generated_constants lt hlt
  subst this
  have ⟨h1, h2, h3, h4⟩ := length_ok_bounds h
  refine ⟨h1, h2, h3, ?_⟩
  simp only; omega

/-- C05.6e a fourth length byte with the continuation bit (i.e. a fifth length byte announced) is
    rejected, whatever follows — not waited for. -/
theorem varint_fifth_byte_rejected (b1 b2 b3 b4 : UInt8) (r : List UInt8)
    (h1 : 128 ≤ b1.toNat) (h2 : 128 ≤ b2.toNat) (h3 : 128 ≤ b3.toNat) (h4 : 128 ≤ b4.toNat) :
    VarInt.length (b1 :: b2 :: b3 :: b4 :: r) = .malformed :=
  length_5 b1 b2 b3 b4 r h1 h2 h3 h4

/-- C05.6f the code's `length` is the MQTT decoding rule (Model/FrameSpec.lean). -/
theorem varint_decoder_is_spec (bs : List UInt8) : VarInt.length bs = lengthSpec bs :=
  length_eq_spec bs

/-! ### non-vacuity: the hypotheses above are satisfiable, on both sides -/

/-- a body reader for the examples: the packet "is" its frame length -/
def exBody : FixedHeader → ByteList → Except (BodyErr Unit) Nat := fun _ fr => .ok fr.length

example : Honest exBody := by intro fh fr n; simp [exBody]
example : sealed .c5 = true ∧ sealed .b5 = true ∧ sealed .c4 = false ∧ sealed .b4 = false := by decide
example : Guarded .c4 exBody := Or.inr (by intro fh fr n; simp [exBody])
/-- a body reader that leaks `InsufficientBytes` for DISCONNECT, as the v5 reader does for `E0 01 00` -/
def leakyBody : FixedHeader → ByteList → Except (BodyErr Unit) Nat :=
  fun fh fr => if fh.typeNibble = 14 then .error (.insufficient 1) else .ok fr.length
-- regression inputs of the repaired defects: CONNACK / UNSUBACK on b5 are decoded, a leaking body
-- reader's frame is a malformed packet on the v5 copies, in one read or two, and `E0 00` reaches
-- the c5 DISCONNECT reader
example : decode1 .b5 exBody (some 1024) [0x20, 0x02, 0x00, 0x00] = .packet 4 [] ∧
    decode1 .b5 exBody (some 1024) [0xB0, 0x02, 0x00, 0x01] = .packet 4 [] := by decide
example : decode1 .c5 leakyBody none [0xE0, 0x01, 0x00] = .malformed [] ∧
    decode1 .b5 leakyBody (some 100) [0xE0, 0x01, 0x00] = .malformed [] := by decide
example : netLoop .b5 leakyBody (some 100) 10 [[0xE0, 0x01, 0x00, 0xC0, 0x00]] = ([], .error .malformed) ∧
    netLoop .b5 leakyBody (some 100) 10 [[0xE0, 0x01, 0x00], [0xC0, 0x00]] = ([], .error .malformed) := by
  decide
example : decode1 .c5 exBody none [0xE0, 0x00] = .packet 2 [] ∧
    decode1 .c5 exBody none [0xE1, 0x00] = .malformed [] ∧ decode1 .b5 exBody none [0xE1, 0x00] = .packet 2 [] := by decide
-- a PUBLISH `30 03 00 01 61`... (5 bytes) followed by the start of the next frame
example : decode1 .c4 exBody (some 100) [0x30, 0x03, 0x00, 0x01, 0x61, 0xC0] = .packet 5 [0xC0] := by
  decide
-- header incomplete, frame incomplete (3 of 5 bytes: asks for 2), complete
example : decode1 .b4 exBody (some 100) [0x30] = .needMore 1 ∧
    decode1 .b4 exBody (some 100) [0x30, 0x80] = .needMore 1 ∧
    decode1 .b4 exBody (some 100) [0x30, 0x03, 0x00] = .needMore 2 := by decide
example : headerStatus [0x30, 0x80] = .incomplete ∧ headerStatus [0x30, 0x83, 0x01] = .complete 3 131 ∧
    headerStatus [0x30, 0xFF, 0xFF, 0xFF, 0xFF] = .malformed := by decide
-- over the limit: rejected with only the header present; c5 without a limit waits instead
example : Oversize (some 10) [0x30, 0x0B] := ⟨2, 11, 10, by decide, rfl, by decide⟩
example : decode1 .b4 exBody (some 10) [0x30, 0x0B] = .tooLarge ∧
    decode1 .c5 exBody none [0x30, 0x0B] = .needMore 11 := by decide
-- a stream of two frames and a half, three chunkings
example : codecLoop .c4 exBody (some 100) [[0xC0], [0x00, 0xD0, 0x00, 0x30], [0x02]] =
      ([2, 2], .eofPartial) ∧
    netLoop .b4 exBody (some 100) 1 [[0xC0, 0x00, 0xD0], [0x00, 0x30, 0x02]] = ([2, 2], .eofPartial) ∧
    decodeStream .b4 exBody (some 100) [0xC0, 0x00, 0xD0, 0x00, 0x30, 0x02] = ([2, 2], .eofPartial) := by
  decide
example : (writeRemainingLength Generated.REMAINING_LIMIT_C4 321 = some [0xC1, 0x02]) ∧
    VarInt.length [0xC1, 0x02, 0x55] = .ok 2 321 ∧
    writeRemainingLength Generated.REMAINING_LIMIT_B5 268435456 = none := by decide

end C05
