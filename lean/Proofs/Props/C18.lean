/-
C18 — Client keep-alive pings on time and detects a silent broker, no false alarms; connection
timeout. Property theorems only; helper lemmas live in Proofs/Lemmas/ClientLoop.lean.

Model: `Client.Timer` (Model/Client/Timer.lean) — a timed transition system over `Nat`
milliseconds that follows `EventLoop::{poll, select, clean}` and `MqttState::outgoing_ping`:
the deadline is set to `connack time + k` and moved ONLY by the keep-alive branch itself
(`reset(now + k)`), never by traffic in either direction; `Timely` = the application keeps
polling and tokio fires a due timer before time moves on (under `tokio::time::pause` that is
exact; on a real clock it is tokio's timer accuracy — a stated limit). The connection timeout is
`Client.Loop.cstep`. All theorems are over ALL event sequences (all timings of broker replies
and other traffic relative to the timer, broker going silent at any point, every keep-alive
value). The executable predicates used in the statements (`answeredWithin`, `hasLab`,
`lastResp`, `fireTimes`) are the ones the driver evaluates on implementation traces.
-/
import Proofs.Lemmas.ClientLoop
namespace C18
open Client.Timer

/-- C18.1 "sends a PINGREQ at least once per keep-alive interval": on one connection
    established at `t0` the keep-alive branch produces its outputs (PINGREQs, possibly ended by
    the AwaitPingResp error) exactly at `t0+k, t0+2k, …` — whatever else happens in between
    (packets read, requests written: they do not move the deadline) — and while the connection
    is up time never gets past the next point of the schedule without that output. -/
theorem ping_period (ver : Ver) (k t0 : Nat) (evs : List Ev) (hk : armed ver k = true)
    (h1 : oneConn evs = true) (ht : Timely (fresh ver k t0) evs) :
    ∃ n, fireTimes (trace (fresh ver k t0) evs) = schedule t0 k n ∧
      ((run (fresh ver k t0) evs).connected = true →
        (run (fresh ver k t0) evs).now ≤ t0 + (n + 1) * k) := by
  have hA : Armed t0 (fresh ver k t0) := by
    constructor <;> simp [fresh, hk]
  obtain ⟨n, h, h'⟩ := ping_period_gen evs _ t0 hA h1 ht
  exact ⟨n, h, fun hc => (h' hc).1⟩

/-- C18.1 in the form the monitor checks on implementation traces: consecutive outputs of the
    keep-alive branch are never more than `k` apart. -/
theorem ping_gap_le (ver : Ver) (k t0 : Nat) (evs : List Ev) (hk : armed ver k = true)
    (h1 : oneConn evs = true) (ht : Timely (fresh ver k t0) evs) :
    gapsLe k t0 (fireTimes (trace (fresh ver k t0) evs)) = true := by
  obtain ⟨n, h, _⟩ := ping_period ver k t0 evs hk h1 ht
  rw [h]
  exact gapsLe_schedule k n t0

/-- C18.2 "reports the connection as failed no later than the second interval after the broker
    stopped answering pings": let `s` be the time of the broker's last PINGRESP (the CONNACK if
    it never answered). While the connection is still reported up, time is at most `s + 2k`;
    an AwaitPingResp error, when it comes, comes at a time `≤ s + 2k`; and if the connection is
    no longer up it is because that error was reported. -/
theorem silent_broker_detected (ver : Ver) (k t0 : Nat) (evs : List Ev) (hk : armed ver k = true)
    (h1 : oneConn evs = true) (ht : Timely (fresh ver k t0) evs) :
    let tr := trace (fresh ver k t0) evs
    let fin := run (fresh ver k t0) evs
    (fin.connected = true → fin.now ≤ lastResp t0 tr + 2 * k) ∧
    (∀ t, (t, Lab.err) ∈ tr → t ≤ lastResp t0 tr + 2 * k) ∧
    (fin.connected = false → hasLab .err tr = true) := by
  have hD : Detect t0 (fresh ver k t0) := by
    refine ⟨by simp [fresh], by simp [fresh, hk], t0 + k, ?_⟩
    simp [fresh, hk]
  exact silent_gen evs _ t0 hD h1 ht

/-- C18.3 "never reports a keep-alive failure while the broker answers each PINGREQ within the
    interval": if every PINGREQ written at `t` is followed by a PINGRESP before `t + k` (or the
    observation ends before `t + k`), no AwaitPingResp error occurs — over any number of
    connections, any other traffic, and even if `poll()` is called late (no `Timely` needed).
    The excluded boundary is an answer at exactly `t + k`: then timer and network are ready in
    the same `select!` and tokio picks either (both outcomes are reachable in the model). -/
theorem no_false_alarm (ver : Ver) (k t0 : Nat) (evs : List Ev)
    (h : answeredWithin k (run (fresh ver k t0) evs).now (trace (fresh ver k t0) evs) = true) :
    hasLab .err (trace (fresh ver k t0) evs) = false := by
  apply no_false_alarm_gen evs (fresh ver k t0)
  · intro hc; simp [fresh] at hc
  · intro _ ha; simp [fresh] at ha
  · exact h

/-- the boundary really is a race: answer processed first ⇒ next PINGREQ, timer first ⇒ error -/
theorem boundary_is_a_race :
    hasLab .err (trace (fresh .v4 5000 0) [.advance 5000, .fire, .advance 5000, .pingresp, .fire]) = false ∧
    hasLab .err (trace (fresh .v4 5000 0) [.advance 5000, .fire, .advance 5000, .fire, .pingresp]) = true := by
  decide

/-- C18.4 "with keep-alive zero it never pings": no PINGREQ and no keep-alive error in any run
    of either loop (MQTT 3.1.1 and MQTT 5) whose effective keep-alive is 0 — whatever state it
    starts from, across reconnects, with any traffic. (Full strength since the repair of the
    MQTT 5 loop, which used to arm `sleep(0)`; the monitor `c18-zero-pings` watches the
    implementation for a regression.) -/
theorem zero_never_pings (s : TState) (evs : List Ev) (hk : s.keepAlive = 0) :
    hasLab .ping (trace s evs) = false ∧ hasLab .err (trace s evs) = false := by
  have h := zero_gen evs s hk
  constructor <;>
  · rw [h]; simp only [hasLab, List.any_eq_false, List.mem_filter]
    intro x hx; have := hx.2; simp at this; simp [this]

/-- regression example for the repaired defect: an MQTT 5 loop whose broker answered with
    `server_keep_alive = 0` stays silent and connected, however long it is polled -/
theorem zero_v5_stays_quiet :
    trace (idle .v5 0 0) [.connack, .fire, .advance 100000, .fire, .other, .fire] = [] ∧
    (run (idle .v5 0 0) [.connack, .fire, .advance 100000, .fire, .other, .fire]).connected = true := by
  decide

/-- how a v5 loop gets a zero keep-alive: the setter refuses anything below 5 s, so the only way
    is a CONNACK carrying `server_keep_alive = 0` (which MQTT 5 defines as "keep-alive off") -/
theorem v5_zero_only_from_server (cfg ms : Nat) (ska : Option Nat)
    (hset : setKeepAliveV5 ms = some cfg) (hz : effectiveV5 cfg ska = 0) : ska = some 0 := by
  unfold setKeepAliveV5 at hset
  split at hset
  · cases hset
    cases ska with
    | none => simp [effectiveV5] at hz; omega
    | some s => simp [effectiveV5] at hz; simp; omega
  · cases hset

/-- C18.5 "a connection or handshake that does not complete within the configured connection
    timeout is reported as a timeout": an attempt started at `t` with timeout `ct` that is still
    unresolved has not been allowed past `t + ct`; without a completing packet it can only end
    as a timeout; and a timeout is reported at exactly `t + ct`. -/
theorem connect_timeout (t ct : Nat) (evs : List Client.Loop.CEv)
    (ht : Client.Loop.CTimely { now := t, start := t, ct := ct } evs) :
    let fin := Client.Loop.crun { now := t, start := t, ct := ct } evs
    (fin.outcome = none → fin.now ≤ t + ct) ∧
    (Client.Loop.noComplete evs = true → fin.outcome = none ∨ fin.outcome = some (.timedOut (t + ct))) ∧
    (∀ a, fin.outcome = some (.timedOut a) → a = t + ct) := by
  have h := Client.Loop.connect_timeout_gen evs { now := t, start := t, ct := ct } (by simp) (by simp) ht
  exact ⟨h.1, fun hn => h.2.1 hn (Or.inl rfl), h.2.2⟩

/-! non-vacuity -/

/-- a 5 s keep-alive, broker answers the first ping after 1.2 s and then goes silent:
    pings at 5 s and 10 s, failure reported at 15 s = last answer (6.2 s) + 8.8 s ≤ + 2k -/
example :
    trace (fresh .v4 5000 0)
      [.advance 5000, .fire, .advance 1200, .pingresp, .request, .advance 3800, .fire, .other,
       .advance 5000, .fire] =
      [(5000, .ping), (6200, .resp), (10000, .ping), (15000, .err)] := by decide

example : Timely (fresh .v4 5000 0)
    [.advance 5000, .fire, .advance 1200, .pingresp, .request, .advance 3800, .fire, .other,
     .advance 5000, .fire] := by
  simp [Timely, fresh, step, fire, due, armed]

/-- the hypothesis of `no_false_alarm` is satisfiable by a run with pings in it -/
example : answeredWithin 5000 12000
    (trace (fresh .v5 5000 0) [.advance 5000, .fire, .advance 4999, .pingresp, .advance 1, .fire, .advance 2000]) = true := by
  decide

/-- connection timeout: nothing arrives, the timer fires at 5 s -/
example : (Client.Loop.crun { now := 100, start := 100, ct := 5000 }
    [.advance 2000, .partialBytes, .advance 3000, .deadline]).outcome = some (.timedOut 5100) := by decide

end C18
