/-
C03 — No client behaviour can crash or halt the broker's routing core.
The model makes every Rust panic site an explicit `Fail.panic`; the theorems below state which
events can never reach one. (The global statement over all event sequences needs the full
invariant suite and is being built up; Rust panic-freedom itself is decided by the
correspondence: every op of `vh router` runs under catch_unwind.)
-/
import Proofs.Lemmas.Router.Local
namespace C03
open Router

/-- a Disconnect event (or a router-initiated close) never panics, whatever the id: live,
    never registered or already removed -/
theorem disconnect_never_panics (s : RState) (id : Nat) (r : Option String) :
    ∃ s', handleDisconnection s id r = .ok s' := handleDisconnection_total s id r

/-- a Disconnect for an id that is not registered changes nothing (late / duplicate signals) -/
theorem disconnect_of_missing_id_is_noop (s : RState) (id : Nat) (h : getConn s id = none) :
    events s id .disconnect = .ok s := by
  simp [events, handleDisconnection_missing s id none h]

/-- a Ready signal never panics: ignored for an unknown id, and for a known id it either wakes
    a connection paused as Busy or is ignored -/
theorem ready_never_panics (s : RState) (id : Nat) : ∃ s', events s id .ready = .ok s' := by
  unfold events
  cases h : getConn s id with
  | none => exact ⟨s, by simp⟩
  | some c =>
    simp only [Option.isSome_some, if_true]
    unfold reschedule
    simp only [h]
    obtain ⟨r, hr⟩ := tryReady_ready_total c.tracker
    obtain ⟨t, w⟩ := r
    simp only [hr]
    exact ⟨_, rfl⟩

/-- a Shadow request never panics (unknown ids are ignored) -/
theorem shadow_never_panics (s : RState) (id : Nat) (f : String) : ∃ s', events s id (.shadow f) = .ok s' := by
  unfold events handleShadow
  cases getConn s id with
  | none => exact ⟨s, rfl⟩
  | some c =>
    simp only []
    split
    · exact ⟨_, rfl⟩
    · split <;> exact ⟨_, rfl⟩

/-- DeviceData for an id that is not registered is ignored -/
theorem device_data_of_missing_id_is_noop (s : RState) (id : Nat) (h : getConn s id = none) :
    events s id .deviceData = .ok s := by
  simp [events, handleDevicePayload, h]

/-- metrics / alerts ticks are inert in the model -/
theorem ticks_never_panic (s : RState) (id : Nat) :
    events s id .sendMeters = .ok s ∧ events s id .sendAlerts = .ok s := ⟨rfl, rfl⟩

end C03
