/-
C03 — No client behaviour can crash or halt the broker's routing core.
The model makes every Rust panic site an explicit `Fail.panic`. The global theorems quantify over
every reachable state (`Reachable cfg s`: the state after any error-free list of ops — connect /
push / event / consume / drain for arbitrary ids, packets and oracles — from `init cfg`), every
next op and every oracle. Proved from the invariants of Proofs/Lemmas/Router/Rp1_*.lean
(slab / connection-map consistency, valid filter indexes everywhere, live ids in waiter lists,
`Paused(Busy)` saved trackers, non-empty shared groups, no pending notification between steps).
Rust panic-freedom itself is additionally decided by the correspondence: every op of `vh router`
runs under catch_unwind.
-/
import Proofs.Lemmas.Router.Rp1_DConnect
import Proofs.Lemmas.Router.Rp4_NoPanic
namespace C03
open Router

/-- a Disconnect event (or a router-initiated close) never panics, whatever the id: live,
    never registered or already removed — in every reachable state (under any oracle): the wake-up
    of the parked members of the shared groups whose turn passed on (`wake_parked`) finds the tracker
    of every parked request, because waiter lists hold live connection ids only (`DInv`) -/
theorem disconnect_never_panics {cfg : Config} {s : RState} (hr : Reachable cfg s) (o : List Choice)
    (id : Nat) (r : Option String) :
    ∃ s', handleDisconnection { s with oracle := o } id r = .ok s' := by
  have hb : BInv { s with oracle := o } := ((Inv2.reachable hr).oracle o).binv
  have hg := handleDisconnection_good' (A := fun _ => False) (id := id) (r := r) hb.1 hb.2
  cases h : handleDisconnection { s with oracle := o } id r with
  | ok s' => exact ⟨s', rfl⟩
  | error e =>
    rw [h] at hg
    cases e with
    | panic msg => exact hg.elim
    | badChoice msg => exact absurd h (handleDisconnection_no_badChoice _ _ _ _)

/-- a Disconnect for an id that is not registered changes nothing (late / duplicate signals) -/
theorem disconnect_of_missing_id_is_noop (s : RState) (id : Nat) (h : getConn s id = none) :
    events s id .disconnect = .ok s := by
  simp [events, handleDisconnection_missing s id none h]

/-- a Ready signal never panics: ignored for an unknown id, and for a known id it either wakes
    a connection paused as Busy or is ignored -/
theorem ready_never_panics (s : RState) (id : Nat) : ∃ s', events s id .ready = .ok s' := by
  unfold events
  cases h : getConn s id with
  | none => exact ⟨s, by simp⟩
  | some c =>
    simp only [Option.isSome_some, if_true]
    unfold reschedule
    simp only [h]
    obtain ⟨r, hr⟩ := tryReady_ready_total c.tracker
    obtain ⟨t, w⟩ := r
    simp only [hr]
    exact ⟨_, rfl⟩

/-- a Shadow request never panics (unknown ids are ignored) -/
theorem shadow_never_panics (s : RState) (id : Nat) (f : String) : ∃ s', events s id (.shadow f) = .ok s' := by
  unfold events handleShadow
  cases getConn s id with
  | none => exact ⟨s, rfl⟩
  | some c =>
    simp only []
    split
    · exact ⟨_, rfl⟩
    · split <;> exact ⟨_, rfl⟩

/-- DeviceData for an id that is not registered is ignored -/
theorem device_data_of_missing_id_is_noop (s : RState) (id : Nat) (h : getConn s id = none) :
    events s id .deviceData = .ok s := by
  simp [events, handleDevicePayload, h]

/-- metrics / alerts ticks are inert in the model -/
theorem ticks_never_panic (s : RState) (id : Nat) :
    events s id .sendMeters = .ok s ∧ events s id .sendAlerts = .ok s := ⟨rfl, rfl⟩

/-- `router_never_panics`, as far as proved: in every reachable state, whatever op comes next (any
    event for any id — live, stale, never used —, any batch of decoded packets, any CONNECT,
    consume, link-side push / drain) and whatever the oracle, the step does not panic — with the
    sole possible exception of the two dev-profile assertions
    `debug_assert!(check_tracker_duplicates(..).is_none())`: the one in `handle_new_connection` can
    only fire on a CONNECT with `clean_session = false`, the one in `prepare_filter` only on a
    DeviceData event whose batch contains a SUBSCRIBE. Every `unwrap`, slab / vector index,
    `assert_eq!` in `Scheduler::pause`, `try_ready` assertion, `% 0` / empty-range site is
    excluded. Missing for the full statement `router_never_panics` (no hypothesis on `msg`): the
    request-conservation invariant (each (connection, filter) has exactly one `DataRequest`, in
    exactly one of tracker / waiters / notifications / saved session), which is what the two
    assertions check. -/
theorem router_never_panics_partial {cfg : Config} {s : RState} (hr : Reachable cfg s) (op : Op)
    (o : List Choice) (msg : String) (h : step { s with oracle := o } op = .error (.panic msg)) :
    ((∃ spec, op = .connect spec ∧ spec.clean = false) ∧
        msg = "debug_assert check_tracker_duplicates (new connection)") ∨
    ((∃ id, op = .event id .deviceData ∧ batchHasSubscribe s id) ∧
        msg = "debug_assert check_tracker_duplicates (prepare_filter)") := by
  have hg := step_good (op := op) ((Inv2.reachable hr).oracle o)
  have ha := hg.not_panic msg h
  cases op with
  | connect spec => exact .inl ⟨⟨spec, rfl, ha.1⟩, ha.2⟩
  | event id ev =>
    cases ev with
    | deviceData => exact .inr ⟨⟨id, rfl, ha.1⟩, ha.2⟩
    | _ => exact ha.elim
  | _ => exact ha.elim

/-- `consume()` never panics in a reachable state: the polled id is live, every request's filter
    index is valid (`forward_device_data`, `park`), shared groups are non-empty
    (`update_next_client`), and the polled id is still at the back of the ready queue when
    `Scheduler::pause` asserts it -/
theorem consume_never_panics {cfg : Config} {s : RState} (hr : Reachable cfg s) (o : List Choice) (msg : String) :
    step { s with oracle := o } .consume ≠ .error (.panic msg) := fun h => by
  rcases router_never_panics_partial hr .consume o msg h with ⟨⟨_, e, _⟩, _⟩ | ⟨⟨_, e, _⟩, _⟩ <;> cases e

/-- no event other than DeviceData ever panics in a reachable state, for any id: Ready, Disconnect,
    Shadow, PublishWill (append + wake-up of parked subscribers), metrics / alerts ticks -/
theorem control_events_never_panic {cfg : Config} {s : RState} (hr : Reachable cfg s) (o : List Choice)
    (id : Nat) (ev : Event) (hev : ev ≠ .deviceData) (msg : String) :
    step { s with oracle := o } (.event id ev) ≠ .error (.panic msg) := fun h => by
  rcases router_never_panics_partial hr _ o msg h with ⟨⟨_, e, _⟩, _⟩ | ⟨⟨_, e, _⟩, _⟩
  · cases e
  · simp only [Op.event.injEq] at e; exact hev e.2

/-- a DeviceData event never panics, for any id and ANY batch of decoded packets that contains no
    SUBSCRIBE: PUBLISH (any QoS, topic alias, invalid UTF-8), PUBACK / PUBREC / PUBREL / PUBCOMP
    (solicited or not), UNSUBSCRIBE, PINGREQ, DISCONNECT, in any order and number -/
theorem device_data_without_subscribe_never_panics {cfg : Config} {s : RState} (hr : Reachable cfg s)
    (o : List Choice) (id : Nat)
    (hns : ∀ c, getConn s id = some c → ∀ p ∈ (getLink s c.link).ibuf, ∀ a b f, p ≠ Packet.subscribe a b f)
    (msg : String) :
    step { s with oracle := o } (.event id .deviceData) ≠ .error (.panic msg) := fun h => by
  rcases router_never_panics_partial hr _ o msg h with ⟨⟨_, e, _⟩, _⟩ | ⟨⟨_, e, c, hc, p, hp, a, b, f, hs⟩, _⟩
  · cases e
  · simp only [Op.event.injEq] at e
    obtain ⟨rfl, _⟩ := e
    exact hns c hc p hp a b f hs

/-- with a SUBSCRIBE in the batch, the only site a DeviceData event can still panic at is
    `prepare_filter`'s duplicate-tracker debug assertion -/
theorem device_data_panics_only_in_duplicate_assertion {cfg : Config} {s : RState} (hr : Reachable cfg s)
    (o : List Choice) (id : Nat) (msg : String)
    (h : step { s with oracle := o } (.event id .deviceData) = .error (.panic msg)) :
    msg = "debug_assert check_tracker_duplicates (prepare_filter)" := by
  rcases router_never_panics_partial hr _ o msg h with ⟨⟨_, e, _⟩, _⟩ | ⟨_, e⟩
  · cases e
  · exact e

/-- a CONNECT with `clean_session = true` never panics in a reachable state (valid or invalid
    client id, takeover of a live connection, `max_connections` reached or not); with
    `clean_session = false` the only site left is the duplicate-tracker debug assertion on the
    restored tracker -/
theorem connect_never_panics_partial {cfg : Config} {s : RState} (hr : Reachable cfg s) (o : List Choice)
    (spec : ConnectSpec) (msg : String)
    (h : step { s with oracle := o } (.connect spec) = .error (.panic msg)) :
    spec.clean = false ∧ msg = "debug_assert check_tracker_duplicates (new connection)" := by
  rcases router_never_panics_partial hr _ o msg h with ⟨⟨_, e, hc⟩, hm⟩ | ⟨⟨_, e, _⟩, _⟩
  · simp only [Op.connect.injEq] at e; subst e; exact ⟨hc, hm⟩
  · cases e

/-- link-side pushes and drains never panic -/
theorem link_ops_never_panic {cfg : Config} {s : RState} (hr : Reachable cfg s) (o : List Choice) (op : Op)
    (hop : (∃ l p, op = .push l p) ∨ ∃ l, op = .drain l) (msg : String) :
    step { s with oracle := o } op ≠ .error (.panic msg) := fun h => by
  rcases router_never_panics_partial hr op o msg h with ⟨⟨_, e, _⟩, _⟩ | ⟨⟨_, e, _⟩, _⟩ <;>
    (subst e; rcases hop with ⟨_, _, e'⟩ | ⟨_, e'⟩ <;> cases e')

/-! ### request conservation and the full `router_never_panics` -/

/-- C03 (request conservation). In every reachable state, for every connection id: the data requests
    the connection owns — in its tracker, parked in the waiter lists of the filter logs, on their way
    back in `notifications` (`keysOf`, as `(filter, filter_idx)` pairs) — are at most one per filter,
    each for a filter the connection is subscribed to (so an id without connection owns none: a
    reused slot id finds no stale request), each carrying the index of the log its filter reads;
    a parked request sits in the waiter list of exactly that log; and the tracker saved for a
    persistent session has at most one request per filter, all for saved subscriptions. This is the
    invariant the two `debug_assert!(check_tracker_duplicates(..).is_none())` check. -/
theorem request_conservation {cfg : Config} {s : RState} (hr : Reachable cfg s) :
    (∀ id, ((keysOf s id).map (·.1)).Nodup) ∧
    (∀ id c, getConn s id = some c → ∀ k ∈ keysOf s id, k.1 ∈ c.subscriptions) ∧
    (∀ id, getConn s id = none → keysOf s id = []) ∧
    (∀ id, ∀ k ∈ keysOf s id, s.datalog.filterIdx? (logPath k.1) = some k.2) ∧
    (∀ (i : Nat) fd, s.datalog.native[i]? = some fd → ∀ w ∈ fd.waiters, w.2.filterIdx = i) ∧
    (∀ cid ss, (cid, some ss) ∈ s.graveyard →
      (ss.tracker.requests.map (·.filter)).Nodup ∧ ∀ r ∈ ss.tracker.requests, r.filter ∈ ss.subscriptions) := by
  obtain ⟨hK, hW, hG⟩ := (RC.iff s).mp (RC.reachable hr)
  refine ⟨hK.nodup, fun id c hc k hk => ?_, fun id hc => ?_, hK.idx, hW, fun cid ss hm => ?_⟩
  · have := hK.subs id k hk
    unfold subsOf at this; rw [hc] at this; exact this
  · cases hk : keysOf s id with
    | nil => rfl
    | cons k l =>
      have := hK.subs id k (by rw [hk]; simp)
      unfold subsOf at this; rw [hc] at this; simp at this
  · obtain ⟨a, b⟩ := hG (cid, some ss) hm ss rfl
    exact ⟨a, fun r hr' => (b r hr').1⟩

/-- what `keysOf` collects -/
theorem keysOf_spec (s : RState) (id : Nat) (k : String × Nat) :
    k ∈ keysOf s id ↔
      (∃ c, getConn s id = some c ∧ ∃ r ∈ c.tracker.requests, (r.filter, r.filterIdx) = k) ∨
      (∃ fd ∈ s.datalog.native, ∃ w ∈ fd.waiters, w.1 = id ∧ (w.2.filter, w.2.filterIdx) = k) ∨
      (∃ w ∈ s.notifications, w.1 = id ∧ (w.2.filter, w.2.filterIdx) = k) := by
  unfold keysOf
  simp only [List.mem_append, mem_waiterKeys, notifKeys, mem_pickK, or_assoc]
  refine or_congr ?_ Iff.rfl
  unfold trackerKeys
  cases hc : getConn s id with
  | none => simp
  | some c => simp [DataRequest.key]

/-- hence every tracker — of a live connection or saved in the graveyard — passes
    `check_tracker_duplicates`, in every reachable state -/
theorem trackers_have_no_duplicate_filters {cfg : Config} {s : RState} (hr : Reachable cfg s) :
    (∀ id c, getConn s id = some c → trackerNoDup c.tracker = true) ∧
    (∀ cid ss, (cid, some ss) ∈ s.graveyard → trackerNoDup ss.tracker = true) :=
  ⟨fun _ _ hc => (RC.reachable hr).tracker_nodup hc,
   fun cid ss hm => (trackerNoDup_iff _).mpr ((request_conservation hr).2.2.2.2.2 cid ss hm).1⟩

/-- C03 `router_never_panics`, in full: in every reachable state, whatever op comes next (any event
    for any id, any batch of decoded packets, any CONNECT, consume, link-side push / drain) and
    whatever the oracle, the step does not panic — no exception: the two dev-profile assertions
    `debug_assert!(check_tracker_duplicates(..).is_none())` are excluded by request conservation. -/
theorem router_never_panics {cfg : Config} {s : RState} (hr : Reachable cfg s) (op : Op) (o : List Choice)
    (msg : String) : step { s with oracle := o } op ≠ .error (.panic msg) :=
  step_no_panic ((Inv3.reachable hr).oracle o) op msg

/-- a CONNECT never panics in a reachable state: clean or not, valid or invalid client id, takeover,
    resumed session, `max_connections` reached or not -/
theorem connect_never_panics {cfg : Config} {s : RState} (hr : Reachable cfg s) (o : List Choice)
    (spec : ConnectSpec) (msg : String) : step { s with oracle := o } (.connect spec) ≠ .error (.panic msg) :=
  router_never_panics hr _ o msg

/-- a DeviceData event never panics in a reachable state, for any id and ANY batch of decoded
    packets, SUBSCRIBE included -/
theorem device_data_never_panics {cfg : Config} {s : RState} (hr : Reachable cfg s) (o : List Choice)
    (id : Nat) (msg : String) : step { s with oracle := o } (.event id .deviceData) ≠ .error (.panic msg) :=
  router_never_panics hr _ o msg

/-- non-vacuity of the two assertion sites (kernel-evaluated on the executable form): a persistent
    client subscribes to `t` twice (the second SUBSCRIBE creates no second request), its link drops,
    it resumes (the restored tracker passes `check_tracker_duplicates`) and subscribes to `u` (the
    `prepare_filter` assertion looks at a tracker with two requests): no step fails, and the tracker
    holds one request per filter -/
example :
    (match runX (init ⟨10, 1024, 2, 10, .roundRobin⟩)
        [(.connect ⟨0, "a", false, false, 0, none⟩, []),
         (.push 0 (.subscribe 1 none [⟨"t", 1⟩]), []), (.push 0 (.subscribe 2 none [⟨"t", 1⟩]), []),
         (.event 0 .deviceData, []), (.event 0 .disconnect, []),
         (.connect ⟨1, "a", false, false, 0, none⟩, []),
         (.push 1 (.subscribe 3 none [⟨"u", 0⟩]), []), (.event 0 .deviceData, [])] with
     | .ok s =>
       (match getConn s 0 with
        | some c => decide (c.tracker.requests.map (fun r => r.filter) = ["t", "u"] ∧ trackerNoDup c.tracker = true)
        | none => false)
     | .error _ => false) = true := by decide

/-- non-vacuity: reachable states exist in which these ops do something: two registered
    connections, then a stale Disconnect for a removed id and a Ready for a never-used id -/
example : ∃ s, Reachable ⟨2, 1024, 2, 10, .roundRobin⟩ s ∧ (getConn s 0).isSome = true ∧ (getConn s 1).isSome = false :=
  ⟨_, Reachable.ofX [(.connect { link := 0, clientId := "a", clean := true, dynamicFilters := false, aliasMax := 0, will := none }, []),
        (.connect { link := 1, clientId := "b", clean := true, dynamicFilters := false, aliasMax := 0, will := none }, []),
        (.event 1 .disconnect, []), (.event 1 .disconnect, []), (.event 7 .ready, []), (.consume, [])] rfl, rfl, rfl⟩

end C03
