/-
C09 — Broker outbound QoS>0 window is bounded, uniquely numbered, resumes on ack.
Theorems about the router model (Model/Router/Step.lean); the model is tied to
rumqttd/src/router/{iobufs,routing}.rs by the `vh router` correspondence.
-/
import Proofs.Lemmas.Router.Outgoing
import Generated.Consts
namespace C09
open Router

/-- the bound of the property text is the constant of the source: `MAX_INFLIGHT` regenerated from
    rumqttd/src/router/iobufs.rs on every run equals the model's constant and is 100 -/
theorem max_inflight_is_100 :
    Generated.MAX_INFLIGHT = 100 ∧ Router.MAX_INFLIGHT = Generated.MAX_INFLIGHT ∧
    Generated.MAX_PKID = Generated.MAX_INFLIGHT := by decide

/-- a sweep for a QoS>0 subscription is refused when the window is full -/
theorem free_slots_spec (o : Outgoing) : o.freeSlots = MAX_INFLIGHT - o.inflight.length := rfl

/-- numbering `k` publishes adds exactly `k` entries to the window and `k` notifications -/
theorem push_forwards_adds_exactly (o : Outgoing) (fi : Nat) (ps : List (Pub × Option Cursor)) :
    (numberForwards o fi ps []).1.inflight.length = o.inflight.length + ps.length ∧
    (numberForwards o fi ps []).2.length = ps.length := by
  have h := numberForwards_lengths fi ps o []
  simpa using h

/-- hence a sweep that pushes at most `free_slots` publishes never exceeds the window -/
theorem window_never_exceeded_by_push (o : Outgoing) (fi : Nat) (ps : List (Pub × Option Cursor))
    (hw : o.inflight.length ≤ MAX_INFLIGHT) (hk : ps.length ≤ o.freeSlots) :
    (numberForwards o fi ps []).1.inflight.length ≤ MAX_INFLIGHT := by
  have h := (numberForwards_lengths fi ps o []).1
  unfold Outgoing.freeSlots at hk
  omega

/-- an acknowledgement is accepted only for the head of the window and always removes the head:
    an out-of-order or unsolicited ack is reported (`false` ⇒ the caller closes that connection) -/
theorem register_ack_fifo (o : Outgoing) (pkid : Nat) :
    (o.registerAck pkid).1.inflight = o.inflight.drop 1 ∧
    ((o.registerAck pkid).2 = true ↔ ∃ fi c rest, o.inflight = (pkid, fi, c) :: rest) :=
  registerAck_spec o pkid

example : (numberForwards {} 0 [(default, none), (default, none)] []).1.inflight.map (·.1) = [1, 2] := by decide

end C09
