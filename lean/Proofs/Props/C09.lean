/-
C09 — Broker outbound QoS>0 window is bounded, uniquely numbered, resumes on ack.
Theorems about the router model (Model/Router/Step.lean); the model is tied to
rumqttd/src/router/{iobufs,routing}.rs by the `vh router` correspondence.
`Reachable cfg s` (Proofs/Lemmas/Router/Reach.lean): `s` is the state after some error-free list
of ops — connect / push / event / consume / drain, each under an arbitrary oracle — from `init cfg`.
-/
import Proofs.Lemmas.Router.Rp1_Ack
import Proofs.Lemmas.Router.Rp8_Idle
import Generated.Consts
namespace C09
open Router

/-- the bound of the property text is the constant of the source: `MAX_INFLIGHT` regenerated from
    rumqttd/src/router/iobufs.rs on every run equals the model's constant and is 100 -/
theorem max_inflight_is_100 :
    Generated.MAX_INFLIGHT = 100 ∧ Router.MAX_INFLIGHT = Generated.MAX_INFLIGHT ∧
    Generated.MAX_PKID = Generated.MAX_INFLIGHT := by decide

/-- a sweep for a QoS>0 subscription is refused when the window is full -/
theorem free_slots_spec (o : Outgoing) : o.freeSlots = MAX_INFLIGHT - o.inflight.length := rfl

/-- numbering `k` publishes adds exactly `k` entries to the window and `k` notifications -/
theorem push_forwards_adds_exactly (o : Outgoing) (fi : Nat) (ps : List (Pub × Option Cursor)) :
    (numberForwards o fi ps []).1.inflight.length = o.inflight.length + ps.length ∧
    (numberForwards o fi ps []).2.length = ps.length := by
  have h := numberForwards_lengths fi ps o []
  simpa using h

/-- hence a sweep that pushes at most `free_slots` publishes never exceeds the window -/
theorem window_never_exceeded_by_push (o : Outgoing) (fi : Nat) (ps : List (Pub × Option Cursor))
    (hw : o.inflight.length ≤ MAX_INFLIGHT) (hk : ps.length ≤ o.freeSlots) :
    (numberForwards o fi ps []).1.inflight.length ≤ MAX_INFLIGHT := by
  have h := (numberForwards_lengths fi ps o []).1
  unfold Outgoing.freeSlots at hk
  omega

/-- an acknowledgement is accepted exactly for the head of the window and then removes it; an
    out-of-order or unsolicited ack is reported (`false` ⇒ the caller closes that connection) and
    leaves the window as it is, so the unacknowledged head is retransmitted when a persistent
    session resumes -/
theorem register_ack_fifo (o : Outgoing) (pkid : Nat) :
    ((o.registerAck pkid).2 = true ↔ ∃ fi c rest, o.inflight = (pkid, fi, c) :: rest) ∧
    ((o.registerAck pkid).2 = true → (o.registerAck pkid).1.inflight = o.inflight.drop 1) ∧
    ((o.registerAck pkid).2 = false → (o.registerAck pkid).1 = o) :=
  registerAck_spec o pkid

/-- a read of the commit log for `n` slots returns at most `n` entries — for any log and cursor —
    so a sweep (retained replay `take slots` + log read with the remaining slots) never produces
    more QoS>0 publishes than there are free slots -/
theorem readv_returns_at_most {α : Type} (l : CLog.Log α) (cur : CLog.Cursor) (n : Nat) :
    (l.readv cur n).1.length ≤ n := CLog.Log.readv_length l cur n

/-- the window is bounded: in every reachable state every connection has at most `MAX_INFLIGHT`
    (= 100) unacknowledged QoS>0 publishes outstanding -/
theorem window_le_max_always {cfg : Config} {s : RState} (hr : Reachable cfg s) {id : Nat} {c : Conn}
    (hc : getConn s id = some c) : c.out.inflight.length ≤ Generated.MAX_INFLIGHT :=
  ((Inv1.reachable hr).out id c hc).1

/-- the window is uniquely numbered: in every reachable state the packet ids of a connection's
    outstanding publishes are non-zero, at most `MAX_INFLIGHT`, and pairwise distinct -/
theorem pkids_nonzero_distinct_always {cfg : Config} {s : RState} (hr : Reachable cfg s) {id : Nat} {c : Conn}
    (hc : getConn s id = some c) :
    (∀ e ∈ c.out.inflight, 0 < e.1 ∧ e.1 ≤ Generated.MAX_INFLIGHT) ∧ (c.out.inflight.map (·.1)).Nodup :=
  ((Inv1.reachable hr).out id c hc).pkids

/-- why they are distinct: strict FIFO acknowledgement makes the window a cyclic interval — its
    `n` ids are the `n` consecutive ids (in `1..=100`, wrapping from 100 to 1) ending at the id
    assigned last -/
theorem window_is_cyclic_interval {cfg : Config} {s : RState} (hr : Reachable cfg s) {id : Nat} {c : Conn}
    (hc : getConn s id = some c) (k : Nat) (hk : k < c.out.inflight.length) :
    c.out.lastPkid < 100 ∧
    (c.out.inflight[k]).1 = (c.out.lastPkid + 100 - c.out.inflight.length + k) % 100 + 1 :=
  ⟨((Inv1.reachable hr).out id c hc).2.1, ((Inv1.reachable hr).out id c hc).2.2 k _ (List.getElem?_eq_getElem hk)⟩

/-- an unsolicited / out-of-order acknowledgement (PUBACK or PUBREC whose packet id is not the head
    of the window) closes that connection and only that one: the connection is removed, and every
    other connection stays, unchanged except possibly for its tracker -/
theorem unsolicited_ack_closes_only_that_connection {s s' : RState} {id : Nat} {c : Conn} {pkid : Nat}
    {pkt : Packet} (hc : getConn s id = some c) (hib : (getLink s c.link).ibuf = [pkt])
    (hpkt : pkt = .puback pkid ∨ pkt = .pubrec pkid)
    (hhead : ∀ fi cur rest, c.out.inflight ≠ (pkid, fi, cur) :: rest)
    (h : events s id .deviceData = .ok s') :
    getConn s' id = none ∧
    ∀ j d, j ≠ id → getConn s j = some d → ∃ t, getConn s' j = some { d with tracker := t } :=
  ⟨(bad_ack_closes hc hib hpkt hhead h).1, fun _ _ hj hd => events_frame h hj hd⟩

/-- C09 "resumes on ack … without further stimulus" (state form). In every reachable state a
    connection that tracks data requests and whose window has room (fewer than `MAX_INFLIGHT`
    unacknowledged publishes — e.g. right after the acknowledgement of the head) is `Ready` and in
    the ready queue, so the next `consume` calls sweep its requests, or it is `Paused(Busy)`, i.e.
    waits for its own link to drain the buffer (`Ready` event). It is never left `Paused(InflightFull)`
    or `Paused(Caughtup)`: `Paused(InflightFull)` holds only while the window is full
    (`C01.scheduler_status_facts`), and the PUBACK / PUBREC that frees a slot reschedules the
    connection (`Scheduler::reschedule(IncomingAck)`). -/
theorem resumes_when_window_has_room {cfg : Config} {s : RState} (hr : Reachable cfg s) {id : Nat} {c : Conn}
    (hc : getConn s id = some c) (hreq : c.tracker.requests ≠ []) (hroom : c.out.inflight.length < MAX_INFLIGHT) :
    (c.tracker.status = .ready ∧ id ∈ s.readyqueue) ∨ c.tracker.status = .paused .busy := by
  rcases tracking_status hr hc hreq with h | ⟨_, h⟩ | h
  · exact .inl h
  · omega
  · exact .inr h

/-- C09: the acknowledgement itself — a PUBACK for the head of the window, handled in a state that
    satisfies the scheduler-status facts, leaves the connection neither `Paused(InflightFull)` nor
    `Paused(Caughtup)`: it is `Ready` (queued) unless it is `Paused(Busy)` -/
theorem puback_reschedules {s s' : RState} {id : Nat} {cid : String} {pkid : Nat} {fl fl' : Flags} {c : Conn}
    (hc : getConn s id = some c) (hhead : (c.out.registerAck pkid).2 = true)
    (h : handlePacket s id cid (.puback pkid) fl = .ok (s', fl')) :
    ∃ c', getConn s' id = some c' ∧ c'.out = (c.out.registerAck pkid).1 ∧ c'.tracker.requests = c.tracker.requests ∧
      c'.tracker.status ≠ .paused .inflightFull ∧ c'.tracker.status ≠ .paused .caughtup ∧
      (c'.tracker.status = .ready → c.tracker.status = .ready ∨ id ∈ s'.readyqueue) := by
  simp only [handlePacket, hc, hhead, Bool.not_true, Bool.false_eq_true, if_false] at h
  split at h
  · simp at h
  · rename_i s2 h2
    simp only [Except.ok.injEq, Prod.mk.injEq] at h; obtain ⟨rfl, _⟩ := h
    have hc1 : getConn ((setConn s id { c with out := (c.out.registerAck pkid).1 }).g (.clientAcked id pkid)) id =
        some { c with out := (c.out.registerAck pkid).1 } := (getConn_setConn_live hc _ id).trans (by simp)
    obtain ⟨c', hc', er, eo, _, hn1, hn2, _, _, hready⟩ := reschedule_spec hc1 h2
    exact ⟨c', hc', eo, er, hn2 rfl, hn1 (.inr (.inr rfl)), hready⟩

example : (numberForwards {} 0 [(default, none), (default, none)] []).1.inflight.map (·.1) = [1, 2] := by decide

/-- packet ids wrap from 100 to 1 -/
example : (numberForwards { lastPkid := 99 } 0 [(default, none), (default, none)] []).1.inflight.map (·.1) = [100, 1] := by
  decide

/-- non-vacuity: a full window (100 entries) satisfying the window invariant exists, and a further
    QoS>0 sweep is refused (`free_slots = 0`) -/
example : let o := (numberForwards {} 0 (List.replicate 100 (default, none)) []).1
    OutInv o ∧ o.inflight.length = 100 ∧ o.freeSlots = 0 := by
  have hl := (numberForwards_lengths 0 (List.replicate 100 (default, none)) {} []).1
  simp only [List.length_replicate] at hl
  refine ⟨OutInv.numberForwards 0 _ _ _ (OutInv.empty []) (by simp [MAX_INFLIGHT_eq]), by simpa using hl, ?_⟩
  unfold Outgoing.freeSlots
  rw [hl]; rfl

/-- non-vacuity of `Reachable`: a state with a registered connection -/
example : ∃ s, Reachable ⟨2, 1024, 2, 10, .roundRobin⟩ s ∧ (getConn s 0).isSome = true :=
  ⟨_, ⟨[(.connect { link := 0, clientId := "a", clean := true, dynamicFilters := false, aliasMax := 0, will := none }, [])], rfl⟩, rfl⟩

end C09
