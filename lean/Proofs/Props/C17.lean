/-
C17 — Shared subscriptions hand each message to exactly one group member.
-/
import Proofs.Lemmas.Router.Frame
import Proofs.Lemmas.Router.Rp3_ReqRun
import Proofs.Lemmas.Router.Rp1_Ack
import Proofs.Lemmas.Router.Rp2_Payload
import Proofs.Lemmas.Router.Rp5_Reach
import Proofs.Lemmas.Router.Rp9_Reach
import Proofs.Lemmas.Router.Rp10_Reach
import Proofs.Lemmas.Router.Rp12_Resume
namespace C17
open Router Router.Rp3 CommitLog

/-- the member whose turn it is, is a member -/
theorem current_is_member (g : SharedGroup) (c : String) (h : g.current = some c) : c ∈ g.clients := by
  unfold SharedGroup.current at h
  exact List.mem_of_getElem? h

/-- removing a client keeps the turn index inside the member list (when members remain) -/
theorem remove_client_keeps_turn_valid (g : SharedGroup) (c : String)
    (hne : (g.removeClient c).clients ≠ []) : (g.removeClient c).idx < (g.removeClient c).clients.length := by
  unfold SharedGroup.removeClient at hne ⊢
  simp only [] at hne ⊢
  have hpos : 0 < (g.clients.filter (· ≠ c)).length := List.length_pos_iff.mpr hne
  have hie : (g.clients.filter (· ≠ c)).isEmpty = false := by
    cases h : g.clients.filter (· ≠ c) with
    | nil => exact absurd h hne
    | cons _ _ => rfl
  simp only [hie, Bool.false_eq_true, if_false]
  exact Nat.mod_lt _ hpos

/-- the removed client is no longer a member (all its occurrences are dropped) -/
theorem removed_client_is_no_member (g : SharedGroup) (c : String) : c ∉ (g.removeClient c).clients := by
  simp [SharedGroup.removeClient]

/-- advancing the turn never leaves the member list, for the three strategies and every random draw -/
theorem next_turn_stays_valid (s s' : RState) (g g' : SharedGroup) (hv : g.idx < g.clients.length)
    (h : updateNextClient s g = .ok (s', g')) : g'.clients = g.clients ∧ g'.idx < g'.clients.length := by
  unfold updateNextClient at h
  split at h
  · simp only [Except.ok.injEq, Prod.mk.injEq] at h; obtain ⟨_, rfl⟩ := h; exact ⟨rfl, hv⟩
  · split at h
    · simp at h
    · simp only [Except.ok.injEq, Prod.mk.injEq] at h
      obtain ⟨_, rfl⟩ := h
      refine ⟨rfl, ?_⟩
      simp only []
      exact Nat.mod_lt _ (by omega)
  · split at h
    · simp at h
    · split at h
      · split at h
        · rename_i hn
          simp only [Except.ok.injEq, Prod.mk.injEq] at h
          obtain ⟨_, rfl⟩ := h
          exact ⟨rfl, hn⟩
        · simp at h
      · simp at h

/-! ### one sweep through a shared group -/

/-- C17 "never to a non-member through the group" / the skip rule. A sweep for a shared request by
    a connection whose client id is NOT the group's current member pushes nothing: links, groups,
    connections and logs are exactly as before (only the oracle may have been consumed). -/
theorem non_current_member_pushes_nothing (s s' : RState) (id : Nat) (c : Conn) (req req' : DataRequest)
    (st : ConsumeStatus) (gname : String) (g : SharedGroup)
    (hc : getConn s id = some c) (hgn : req.group = some gname) (hg : alookup gname s.shared = some g)
    (hturn : some c.clientId ≠ g.current)
    (h : forwardDeviceData s id req = .ok (s', req', st)) :
    s'.links = s.links ∧ s'.shared = s.shared ∧ s'.conns = s.conns ∧ s'.datalog = s.datalog ∧
    (st = .inflightFull ∨ st = .filterCaughtup ∨ st = .skipRequest) := by
  obtain ⟨ho, hs⟩ := sweep_shared_skip hc hgn hg hturn h
  refine ⟨?_, ?_, ?_, ?_, hs⟩ <;> rw [ho]

/-- C17.3 `only_members`. A connection whose client id is not listed in `group.clients` never
    pushes anything through that group — in any state, for any request. -/
theorem only_members (s s' : RState) (id : Nat) (c : Conn) (req req' : DataRequest)
    (st : ConsumeStatus) (gname : String) (g : SharedGroup)
    (hc : getConn s id = some c) (hgn : req.group = some gname) (hg : alookup gname s.shared = some g)
    (hnot : c.clientId ∉ g.clients)
    (h : forwardDeviceData s id req = .ok (s', req', st)) :
    s'.links = s.links ∧ s'.shared = s.shared ∧ s'.conns = s.conns ∧ s'.datalog = s.datalog :=  by
  have hturn : some c.clientId ≠ g.current := fun e => hnot (current_is_member g c.clientId e.symm)
  obtain ⟨a, b, c', d, _⟩ := non_current_member_pushes_nothing s s' id c req req' st gname g hc hgn hg hturn h
  exact ⟨a, b, c', d⟩

/-- C17 (the current member's sweep). When it is this member's turn (and its inflight window is
    not full) the sweep reads from the GROUP's cursor, pushes to this member's link — and to no
    other link — exactly the forwards of the entries read (after a retained replay, which shared
    requests never owe), and, whenever something was pushed — also when the sweep ends with
    `BufferFull` — stores the continuation as the group's cursor and advances the turn per
    strategy (sticky: same member; round robin: next member; random: any member, the oracle's
    draw); members, strategy and all other groups are unchanged. If nothing was pushed the group
    is unchanged. -/
theorem current_member_sweep_advances_group (s s' : RState) (id : Nat) (c : Conn) (req req' : DataRequest)
    (st : ConsumeStatus) (gname : String) (g : SharedGroup)
    (hc : getConn s id = some c) (hgn : req.group = some gname) (hg : alookup gname s.shared = some g)
    (hturn : some c.clientId = g.current)
    (h : forwardDeviceData s id req = .ok (s', req', st)) (hst : st ≠ .inflightFull) :
    ∃ (replay : List Pub) (n : Nat) (fd : FilterData),
      s.datalog.native[req.filterIdx]? = some fd ∧ s'.datalog = s.datalog ∧
      (req.forwardRetained = false → replay = []) ∧
      (getLink s' c.link).obuf.map Notif.noPkid =
        (getLink s c.link).obuf.map Notif.noPkid ++
        (replay.map (fun p => (p, none)) ++
          (fd.log.readv g.cursor n).1.map (fun e : Pub × Router.Cursor => (e.1, some e.2))).map
          (fwdOf req.qos (sweepAlias c req.filter).2
            ((aliasesFor c req.filter).bind (fun b => alookup req.filter b.aliases)).isSome
            (alookup req.filter c.subscriptionIds)) ++
        (if st = .bufferFull then [Notif.unschedule] else []) ∧
      (∀ l, l ≠ c.link → getLink s' l = getLink s l) ∧
      req'.cursor = (posNext (fd.log.readv g.cursor n).2).1 ∧
      ((replay = [] ∧ (fd.log.readv g.cursor n).1 = []) → s'.shared = s.shared) ∧
      (¬ (replay = [] ∧ (fd.log.readv g.cursor n).1 = []) →
        (∃ g', alookup gname s'.shared = some g' ∧ g'.cursor = (posNext (fd.log.readv g.cursor n).2).1 ∧
          g'.clients = g.clients ∧ g'.strategy = g.strategy ∧
          (g.strategy = .sticky → g'.idx = g.idx) ∧
          (g.strategy = .roundRobin → g'.idx = (g.idx + 1) % g.clients.length) ∧
          (g.strategy = .random → g'.idx < g.clients.length)) ∧
        (∀ other, other ≠ gname → alookup other s'.shared = alookup other s.shared)) := by
  obtain ⟨s1, rp, n, fd, hr, hfd, hreq, hobuf, hother, hdl, hemp, hne⟩ := sweep_shared_turn hc hgn hg hturn h hst
  obtain ⟨_, _, hnone, hfr⟩ := sweepRetained_spec hr
  have hrp : rp = (rp.map (·.1)).map (fun p => (p, none)) := by
    rw [List.map_map]
    conv => lhs; rw [← List.map_id rp]
    apply List.map_congr_left
    intro pc hpc
    have := hnone pc hpc
    obtain ⟨a, b⟩ := pc
    simp only at this; subst this; rfl
  have hpubs : sweepPubs rp (fd.log.readv g.cursor n) = [] ↔ (rp.map (·.1) = [] ∧ (fd.log.readv g.cursor n).1 = []) := by
    unfold sweepPubs
    simp [List.append_eq_nil_iff]
  refine ⟨rp.map (·.1), n, fd, hfd, hdl, ?_, ?_, hother, by rw [hreq]; rfl, ?_, ?_⟩
  · intro hf; rw [(hfr hf).1]; rfl
  · rw [hobuf, List.map_append, List.map_append, hreq, sweepNotifs_noPkid]
    unfold sweepPubs
    rw [← hrp]
    have : List.map Notif.noPkid (if st = .bufferFull then [Notif.unschedule] else []) =
        (if st = .bufferFull then [Notif.unschedule] else []) := by split <;> rfl
    rw [this]; rfl
  · intro he; exact (hemp (hpubs.mpr he)).1
  · intro hn
    obtain ⟨hg', hoth, _⟩ := hne (fun e => hn (hpubs.mp e))
    exact ⟨hg', hoth⟩

/-- C17.1 `at_most_one_member`, C17.2 `member_order` at sweep level. After a sweep by the current
    member that forwarded log entries, the group's cursor stands right behind them; therefore
    whatever the NEXT sweep through this group reads — by any member, with any window — has
    strictly larger log offsets than everything just forwarded: two consecutive group sweeps
    deliver disjoint, increasing offset ranges, and each sweep's own offsets are consecutive. -/
theorem at_most_one_member_sweeps (s s' : RState) (id : Nat) (c : Conn) (req req' : DataRequest)
    (st : ConsumeStatus) (gname : String) (g : SharedGroup)
    (hc : getConn s id = some c) (hgn : req.group = some gname) (hg : alookup gname s.shared = some g)
    (hturn : some c.clientId = g.current)
    (h : forwardDeviceData s id req = .ok (s', req', st)) (hst : st ≠ .inflightFull)
    (hlog : ∀ fd, s.datalog.native[req.filterIdx]? = some fd → ∃ hist, Rep (logC fd.log) hist ∧
      Issued (logC fd.log) g.cursor ∧ hist.length + (MAX_INFLIGHT + s.config.maxOutgoingPacketCount) < U64) :
    ∃ (n : Nat) (fd : FilterData),
      s.datalog.native[req.filterIdx]? = some fd ∧ s'.datalog.native[req.filterIdx]? = some fd ∧
      readOffsets fd g.cursor n = List.range' (cursorAbs (logC fd.log) g.cursor) (readOffsets fd g.cursor n).length ∧
      ((fd.log.readv g.cursor n).1 ≠ [] →
        ∃ g', alookup gname s'.shared = some g' ∧ Issued (logC fd.log) g'.cursor ∧
          ∀ (m : Nat), m ≤ MAX_INFLIGHT + s.config.maxOutgoingPacketCount →
            ∀ o1 ∈ readOffsets fd g.cursor n, ∀ o2 ∈ readOffsets fd g'.cursor m, o1 < o2) := by
  obtain ⟨s1, rp, n, fd, hr, hfd, hreq, hobuf, hother, hdl, hemp, hne⟩ := sweep_shared_turn hc hgn hg hturn h hst
  obtain ⟨hist, hrep, hiss, hU⟩ := hlog fd hfd
  obtain ⟨_, hlen, _, _⟩ := sweepRetained_spec hr
  have hslots : n ≤ MAX_INFLIGHT + s.config.maxOutgoingPacketCount := by
    have : sweepSlots s c { req with cursor := g.cursor } (some g) ≤ MAX_INFLIGHT + s.config.maxOutgoingPacketCount := by
      unfold sweepSlots Outgoing.freeSlots MAX_INFLIGHT
      simp only []
      split <;> (try split) <;> omega
    omega
  obtain ⟨_, v2, _⟩ := clog_readv_entries fd.log hist hrep g.cursor n hiss (by omega)
  obtain ⟨_, _, e3, _⟩ := clog_readv_spec fd.log hist hrep g.cursor n hiss (by omega)
  refine ⟨n, fd, hfd, by rw [hdl]; exact hfd, ?_, ?_⟩
  · unfold readOffsets; rw [List.length_map]; exact v2
  · intro hent
    have hpn : sweepPubs rp (fd.log.readv g.cursor n) ≠ [] := by
      unfold sweepPubs
      intro e
      have := (List.append_eq_nil_iff.mp e).2
      exact hent (by simpa using this)
    obtain ⟨⟨g', hl, hcur, _⟩, _, _⟩ := hne hpn
    refine ⟨g', hl, by rw [hcur]; exact e3, ?_⟩
    intro m hm
    rw [hcur]
    exact consecutive_reads_disjoint fd hist hrep g.cursor n m hiss (by omega) (by omega)

/-- C17.1 / C17.2 at sweep level for reachable states, WITHOUT the `Issued` / well-formedness
    hypothesis (`CursorSound`, `C01.cursor_sound`): the request is taken from the tracker of the
    connection that holds the turn, in a reachable state below the no-overflow bound. -/
theorem at_most_one_member_sweeps_reachable {cfg : Config} (h1 : 1 ≤ cfg.maxSegmentSize) (h2 : 1 ≤ cfg.maxSegmentCount)
    {s : RState} (hr : Reachable cfg s) (hno : NoOverflow s)
    (s' : RState) (id : Nat) (c : Conn) (req req' : DataRequest)
    (st : ConsumeStatus) (gname : String) (g : SharedGroup)
    (hc : getConn s id = some c) (hreq : req ∈ c.tracker.requests)
    (hgn : req.group = some gname) (hg : alookup gname s.shared = some g)
    (hturn : some c.clientId = g.current)
    (h : forwardDeviceData s id req = .ok (s', req', st)) (hst : st ≠ .inflightFull) :
    ∃ (n : Nat) (fd : FilterData),
      s.datalog.native[req.filterIdx]? = some fd ∧ s'.datalog.native[req.filterIdx]? = some fd ∧
      readOffsets fd g.cursor n = List.range' (cursorAbs (logC fd.log) g.cursor) (readOffsets fd g.cursor n).length ∧
      ((fd.log.readv g.cursor n).1 ≠ [] →
        ∃ g', alookup gname s'.shared = some g' ∧ Issued (logC fd.log) g'.cursor ∧
          ∀ (m : Nat), m ≤ MAX_INFLIGHT + s.config.maxOutgoingPacketCount →
            ∀ o1 ∈ readOffsets fd g.cursor n, ∀ o2 ∈ readOffsets fd g'.cursor m, o1 < o2) := by
  obtain ⟨fd, hist, hfd, hrep, _, hU, hgrp⟩ := tracked_request_sound h1 h2 hr hno hc hreq
  refine at_most_one_member_sweeps s s' id c req req' st gname g hc hgn hg hturn h hst fun fd' hfd' => ?_
  rw [hfd] at hfd'; cases hfd'
  exact ⟨hist, hrep, hgrp gname g hgn hg, hU⟩

/-- the start premise `GroupAt` of `at_most_one_member_partial` holds in every reachable state (below
    the no-overflow bound) for a group that a tracked request reads through, as long as the group
    cursor's segment is retained (the retention proviso is the only premise left) -/
theorem group_at_of_reachable {cfg : Config} (h1 : 1 ≤ cfg.maxSegmentSize) (h2 : 1 ≤ cfg.maxSegmentCount)
    {s : RState} (hr : Reachable cfg s) (hno : NoOverflow s) {id : Nat} {c : Conn} {req : DataRequest}
    {gname : String} {g : SharedGroup}
    (hc : getConn s id = some c) (hreq : req ∈ c.tracker.requests)
    (hgn : req.group = some gname) (hg : alookup gname s.shared = some g)
    (hret : ∀ fd, s.datalog.native[req.filterIdx]? = some fd → (logC fd.log).head ≤ g.cursor.1) :
    GroupAt gname req.filterIdx s g.cursor := by
  obtain ⟨fd, hist, hfd, hrep, _, hU, hgrp⟩ := tracked_request_sound h1 h2 hr hno hc hreq
  exact ⟨g, fd, hist, hg, rfl, hfd, hrep, hgrp gname g hgn hg, hret fd hfd, hU⟩

/-! ### history level -/

/-- C17.1 `at_most_one_member` + C17.2 `member_order`, history level, PARTIAL. Take any stretch of
    a run as seen from one group (`GroupRun`): sweeps of the group's requests by ANY connections,
    in any order and number, each contributing the log offsets it appended to its link's outgoing
    buffer (`linkOffsets`, an observable), interleaved with arbitrary other router steps that leave
    the group's cursor where it is and its log segment retained. If at the start the group's cursor
    is an issued, retained cursor of the (well-formed) filter log, then the offsets forwarded
    through the group, in push order and whoever the receiving member, are EXACTLY the consecutive
    log offsets from the starting cursor — strictly increasing, so no log entry is forwarded
    through the group twice, to the same or to different members, every member's share is
    increasing, and nothing in between is skipped.
    Missing for the unrestricted statement (every reachable run): a proof that each router step
    satisfies the `other` premise. It does not for (a) the disconnect of a persistent member with
    unacknowledged forwards of this filter — `handle_disconnection` rewinds the GROUP's cursor to
    the retransmission point, so those entries are forwarded again (to whoever is next: intended
    QoS 1/2 redelivery, but a second forward through the group); (b) removal of the last member
    and later re-creation of the group (fresh cursor at the log's tail: entries are skipped, none
    repeated); (c) eviction of the cursor's segment (C13: the read resumes at the oldest retained
    entry, later offsets only). -/
theorem at_most_one_member_partial (gname : String) (idx : Nat) (s s2 : RState) (offs : List Nat)
    (cur : Router.Cursor) (hat : GroupAt gname idx s cur) (hrun : GroupRun gname idx s offs s2) :
    offs = List.range' cur.2 offs.length ∧ offs.Pairwise (· < ·) ∧ offs.Nodup := by
  obtain ⟨h1, _, _⟩ := groupRun_increasing hrun hat
  exact ⟨(groupRun_contiguous hrun hat).1, h1, h1.imp (fun hlt => Nat.ne_of_lt hlt)⟩

/-- the full-strength history statement is NOT claimed, and is false for the code as it is: the
    rewind on disconnect re-forwards. What the rewind does (model level): the saved request and the
    group's cursor are both set to the least unacknowledged cursor of the filter's log. -/
theorem rewind_moves_group_cursor_back (sh : List (String × SharedGroup)) (gname : String) (grp : SharedGroup)
    (r : DataRequest) (c : Router.Cursor) (retx : List (Nat × Router.Cursor))
    (hr : nlookup r.filterIdx retx = some c) (hg : r.group = some gname) (hs : alookup gname sh = some grp) :
    alookup gname (rewindRequests sh retx [r] []).1 = some { grp with cursor := c } := by
  simp [rewindRequests, hr, hg, hs, alookup_ainsert_same]

/-- the retransmission cursor of a filter index is the LEAST cursor (tuple order) among the window entries
    with that index — whichever of the connection's requests on that log (a plain subscription, this
    group, another group on the same path) the entries were forwarded for: window entries do not record
    it, the minimum is taken over all of them.
    (Restated after the repair of `retransmission_map`; formerly `retransmission_cursor_is_first_of_index`.) -/
theorem retransmission_cursor_is_least_of_index (fi : Nat) (w : List (Nat × Nat × Option Router.Cursor)) (c : Router.Cursor) :
    nlookup fi (retransmissionMap w []) = some c ↔
      (∃ e ∈ w, e.2.1 = fi ∧ e.2.2 = some c) ∧
      ∀ e ∈ w, e.2.1 = fi → ∀ c', e.2.2 = some c' → Router.cursorLe c c' := by
  rw [retx_lookup_least]; exact leastCursor_some_iff fi c w

/-- C17 `rewind_can_skip_entries` (kernel-checked witness of the open defect; the model reproduces the
    code). The departing persistent client `a` has a plain subscription `t` and the shared one
    `$share/g/t` on the same log (index 0). It has acknowledged everything forwarded to it through the
    group; its window still holds pkid 4 = offset 2 of the PLAIN subscription; the group `g/t` (remaining
    member `b`) stands at `(0,1)`: offset 1 has not been forwarded through the group. The rewind takes the
    least cursor of index 0 — `(0,2)`, an entry of the OTHER subscription — for both saved requests AND
    for the group: the group's cursor jumps FORWARD from `(0,1)` to `(0,2)`, offset 1 (never forwarded
    through the group) is skipped for the group. Since `retransmission_map` takes the minimum, a forward
    jump needs the departing member to have no unacknowledged group forward below the group's cursor
    (before the repair the first window entry decided, and unacknowledged group forwards could be skipped
    too). (`group_liveness` / `quiescent_complete_group` are statements about the cursor: they hold, and do
    not say that skipped entries were handed out.) -/
theorem rewind_can_skip_entries :
    let window : List (Nat × Nat × Option Router.Cursor) := [(4, 0, some (0, 2))]
    let groups : List (String × SharedGroup) := [("g/t", ⟨["b"], 0, (0, 1), .roundRobin⟩)]
    let saved : List DataRequest := [⟨"$share/g/t", 0, 1, (0, 1), false, some "g/t"⟩, ⟨"t", 0, 1, (0, 3), false, none⟩]
    retransmissionMap window [] = [(0, (0, 2))] ∧
    (rewindRequests groups (retransmissionMap window []) saved []).1.map (fun p => (p.1, p.2.cursor)) = [("g/t", (0, 2))] ∧
    (rewindRequests groups (retransmissionMap window []) saved []).2.map (fun r => (r.filter, r.cursor)) =
      [("$share/g/t", (0, 2)), ("t", (0, 2))] ∧
    rewoundLogs groups (retransmissionMap window []) saved = [0] := by decide

/-- the window of the former witness (and of the corpus case `group-cursor-skipped-by-other-subscription`):
    pkid 3 = offset 2 of the plain subscription, then pkid 4 = offset 0 forwarded through the group,
    group at `(0,1)`. With the minimum the rewind now takes `(0,0)`: the group's cursor goes BACK from
    `(0,1)` to `(0,0)` (offset 0 is forwarded again through the group, nothing is skipped), and the saved
    PLAIN request goes back to `(0,0)` as well — below its own unacknowledged offset 2: offsets 0 and 1,
    which the client had acknowledged on the plain subscription, are sent to it again after a resume
    (the backward side of the conflation: duplicates, no loss) -/
theorem rewind_of_former_witness_goes_back :
    let window : List (Nat × Nat × Option Router.Cursor) := [(3, 0, some (0, 2)), (4, 0, some (0, 0))]
    let groups : List (String × SharedGroup) := [("g/t", ⟨["b"], 0, (0, 1), .roundRobin⟩)]
    let saved : List DataRequest := [⟨"$share/g/t", 0, 1, (0, 1), false, some "g/t"⟩, ⟨"t", 0, 1, (0, 3), false, none⟩]
    retransmissionMap window [] = [(0, (0, 0))] ∧
    (rewindRequests groups (retransmissionMap window []) saved []).1.map (fun p => (p.1, p.2.cursor)) = [("g/t", (0, 0))] ∧
    (rewindRequests groups (retransmissionMap window []) saved []).2.map (fun r => (r.filter, r.cursor)) =
      [("$share/g/t", (0, 0)), ("t", (0, 0))] := by decide

/-! ### a parked member is woken when the turn passes to it (repair of the shared-subscription stall)

A member of a shared group whose request found nothing to read — or whose turn it was not — is
parked on the group's log and is only woken by an append to that log. When the turn passes to a
parked member without an append (the current member's sweep advanced the turn; the current member
unsubscribed or disconnected) nobody would serve the group any more. The router therefore notes
the logs of the groups whose turn moved (`turn_moved`: `noteTurn`, `unsubscribeFilters`,
`turnMovedLogs`) and, at the end of the call, hands the requests parked on these logs back to their
trackers (`wake_parked`), exactly as an append would. -/

/-- C17 (`wake_parked`). After `wake_parked(logs)`: every request that was parked on one of these
    logs is in the tracker of its (live) connection again, and that connection's tracker is not
    `Paused(Caughtup)` — it is in the ready queue, or waits for its link (`Busy`) or for an
    acknowledgement (`InflightFull`), after which it is polled again —; the waiter lists of these logs
    are empty, those of all other logs are as before; no tracked request is lost -/
theorem wake_parked_hands_back_parked_requests {logs : List Nat} {s s' : RState} (h : wakeParked s logs = .ok s') :
    (∀ i ∈ logs, ∀ fd, s.datalog.native[i]? = some fd →
        ∀ w ∈ fd.waiters, Tracked s' w.1 w.2 ∧ NotCaughtup s' w.1) ∧
    (∀ (i : Nat) fd, s.datalog.native[i]? = some fd →
        ∃ fd', s'.datalog.native[i]? = some fd' ∧ fd'.waiters = (if i ∈ logs then [] else fd.waiters)) ∧
    (∀ j q, Tracked s j q → Tracked s' j q) ∧ (∀ j, NotCaughtup s j → NotCaughtup s' j) :=
  wakeParked_spec h

/-- what the two predicates say -/
theorem tracked_notCaughtup_spec (s : RState) (id : Nat) (r : DataRequest) :
    (Tracked s id r ↔ ∃ c, getConn s id = some c ∧ r ∈ c.tracker.requests) ∧
    (NotCaughtup s id ↔ ∃ c, getConn s id = some c ∧ c.tracker.status ≠ .paused .caughtup) := ⟨Iff.rfl, Iff.rfl⟩

/-- C17 (the end of `consume` / `handle_device_payload`). `wakeTurnMoved` wakes the requests parked
    on every log noted in `turn_moved` and forgets the note -/
theorem wake_turn_moved_spec {s s' : RState} (h : wakeTurnMoved s = .ok s') :
    s'.turnMoved = [] ∧
    ∀ i ∈ s.turnMoved, ∀ fd, s.datalog.native[i]? = some fd →
      (∀ w ∈ fd.waiters, Tracked s' w.1 w.2 ∧ NotCaughtup s' w.1) ∧
      ∃ fd', s'.datalog.native[i]? = some fd' ∧ fd'.waiters = [] := by
  refine ⟨wakeTurnMoved_turnMoved h, fun i hi fd hfd => ?_⟩
  obtain ⟨a, b, _, _⟩ := wakeParked_spec (s := { s with turnMoved := [] }) h
  refine ⟨a i hi fd hfd, ?_⟩
  obtain ⟨fd', h1, h2⟩ := b i fd hfd
  exact ⟨fd', h1, by simpa [hi] using h2⟩

/-- C17 (a sweep that passes the turn is noted). In the request loop of `consume`: if the sweep for
    the first request `req` changes whose turn it is in the request's group (`g0` before, `g1` after
    the sweep), the index of the group's log is in `turn_moved` when the loop ends — whatever the
    remaining iterations do -/
theorem sweep_that_passes_the_turn_is_noted {s s1 s2 : RState} {id fuel : Nat} {req req1 : DataRequest}
    {rest skipped : List DataRequest} {st : ConsumeStatus} {g0 g1 : SharedGroup}
    (hf : forwardDeviceData s id req = .ok (s1, req1, st))
    (h0 : req1.group.bind (fun g => alookup g s.shared) = some g0)
    (h1 : req1.group.bind (fun g => alookup g s1.shared) = some g1)
    (hmoved : g1.current ≠ g0.current)
    (h : consumeLoop s id (fuel + 1) (req :: rest) skipped = .ok s2) :
    req1.filterIdx ∈ s2.turnMoved := by
  have a : req1.filterIdx ∈ (noteTurn s s1 req1).turnMoved := by
    rw [noteTurn_turnMoved, h0, h1]
    simp [hmoved]
  simp only [consumeLoop, hf] at h
  cases st with
  | bufferFull =>
    simp only [] at h
    split at h
    · simp at h
    · rename_i s3 h3; rw [trackv_turnMoved h, pause_turnMoved h3]; exact a
  | inflightFull =>
    simp only [] at h
    split at h
    · simp at h
    · rename_i s3 h3; rw [trackv_turnMoved h, pause_turnMoved h3]; exact a
  | filterCaughtup =>
    simp only [] at h
    split at h
    · simp at h
    · rename_i s3 h3
      exact consumeLoop_turnMoved_sub fuel h _ (by rw [park_turnMoved h3]; exact a)
  | partialRead => exact consumeLoop_turnMoved_sub fuel h _ a
  | skipRequest => exact consumeLoop_turnMoved_sub fuel h _ a

/-- C17 (`consume` wakes the member the turn passed to). A `consume` that served a connection is its
    request loop (from some state `s0`, ending in `s2`) followed by the wake-up: in the final state
    `turn_moved` is empty again, and for every log noted during the loop (`s2.turnMoved`, see
    `sweep_that_passes_the_turn_is_noted`) every request that was parked on it — in particular the
    one of the member that now holds the turn — is back in its connection's tracker, that
    connection is not `Paused(Caughtup)`, and the log's waiter list is empty -/
theorem consume_wakes_members_the_turn_passed_to {s s' : RState} (h : consume s = .ok (s', true)) :
    ∃ s0 id reqs s2, consumeLoop s0 id MAX_SCHEDULE_ITERATIONS reqs [] = .ok s2 ∧
      s'.turnMoved = [] ∧
      ∀ i ∈ s2.turnMoved, ∀ fd, s2.datalog.native[i]? = some fd →
        (∀ w ∈ fd.waiters, Tracked s' w.1 w.2 ∧ NotCaughtup s' w.1) ∧
        ∃ fd', s'.datalog.native[i]? = some fd' ∧ fd'.waiters = [] := by
  unfold consume at h
  split at h
  · simp at h
  · simp only [] at h
    split at h
    · simp at h
    · split at h
      · simp at h
      · rename_i s2 hl
        split at h
        · simp at h
        · rename_i s3 hw
          simp only [Except.ok.injEq, Prod.mk.injEq, and_true] at h; subst h
          obtain ⟨e, sp⟩ := wake_turn_moved_spec hw
          exact ⟨_, _, _, s2, hl, e, sp⟩

/-- the note is local to one call: in every reachable state (between two steps) `turn_moved` is empty -/
theorem turn_moved_is_empty_between_steps {cfg : Config} {s : RState} (hr : Reachable cfg s) :
    s.turnMoved = [] := turnMoved_reachable hr

/-- which logs `handle_disconnection` wakes: those of the groups the closed client leaves that stay
    non-empty and whose turn passes to another member by that (group key `<share>/<path>`, the log is
    the one of `<path>`) -/
theorem mem_turnMovedLogs (d : DataLog) (sh : List (String × SharedGroup)) (client : String) (i : Nat) :
    i ∈ turnMovedLogs d sh client ↔
      ∃ p ∈ sh, (p.2.removeClient client).clients ≠ [] ∧ (p.2.removeClient client).current ≠ p.2.current ∧
        ∃ share path, extractGroup ("$share/" ++ p.1) = some (share, path) ∧ d.filterIdx? path = some i := by
  unfold turnMovedLogs
  simp only [List.mem_flatMap]
  constructor
  · rintro ⟨p, hp, hi⟩
    refine ⟨p, hp, ?_⟩
    split at hi
    · rename_i hc
      simp only [Bool.and_eq_true, Bool.not_eq_true', bne_iff_ne, ne_eq] at hc
      refine ⟨fun e => by simp [e] at hc, hc.2, ?_⟩
      split at hi
      · rename_i sh' path he
        exact ⟨sh', path, he, by simpa using hi⟩
      · simp at hi
    · simp at hi
  · rintro ⟨p, hp, hne, hcur, share, path, he, hfi⟩
    refine ⟨p, hp, ?_⟩
    have hc : (!(p.2.removeClient client).clients.isEmpty && (p.2.removeClient client).current != p.2.current) = true := by
      simp only [Bool.and_eq_true, Bool.not_eq_true', bne_iff_ne, ne_eq]
      exact ⟨by cases h : (p.2.removeClient client).clients with
                | nil => exact absurd h hne
                | cons _ _ => rfl, hcur⟩
    simp only [hc, if_true, he, hfi]
    simp

/-- C17 (`handle_disconnection` wakes the member the turn passed to). When connection `id` (client
    `c.clientId`) is closed, for every log of `turnMovedLogs` (computed on the datalog from which the
    closed connection's own parked requests have already been removed, `datalogClean`, and the shared
    groups before the client leaves them): every request still parked on it — they belong to other
    connections — is back in its connection's tracker afterwards, that connection is not
    `Paused(Caughtup)`, and the log's waiter list is empty -/
theorem disconnection_wakes_members_the_turn_passed_to {s s' : RState} {id : Nat} {r : Option String} {c : Conn}
    (hc : getConn s id = some c) (h : handleDisconnection s id r = .ok s') :
    ∀ i ∈ turnMovedLogs (datalogClean s.datalog id).1 s.shared c.clientId, ∀ fd,
      (datalogClean s.datalog id).1.native[i]? = some fd →
      (∀ w ∈ fd.waiters, Tracked s' w.1 w.2 ∧ NotCaughtup s' w.1) ∧
      ∃ fd', s'.datalog.native[i]? = some fd' ∧ fd'.waiters = [] := by
  intro i hi fd hfd
  rw [handleDisconnection_eq] at h
  simp only [hc] at h
  obtain ⟨a, b, _, _⟩ := wakeParked_spec h
  have hd : (hdFinal s id c r).datalog = (datalogClean s.datalog id).1 := (hdFinal_fields s id c r).2.2.2.2.2.2.2.1
  have hm : hdTurnMoved (hdNotify s c r) id c = turnMovedLogs (datalogClean s.datalog id).1 s.shared c.clientId := by
    unfold hdTurnMoved; cases r <;> rfl
  have hi' : i ∈ hdMoved (hdNotify s c r) id c := by
    unfold hdMoved
    split
    · exact List.mem_append_left _ (hm ▸ hi)
    · exact hm ▸ hi
  rw [hd] at a b
  refine ⟨a i hi' fd hfd, ?_⟩
  obtain ⟨fd', h1, h2⟩ := b i fd hfd
  exact ⟨fd', h1, by simpa [hi'] using h2⟩

/-! ### non-vacuity -/

/-- `GroupRun` is inhabited by the empty stretch, and a step that changes nothing is an `other` step -/
example (gname : String) (idx : Nat) (s : RState) : GroupRun gname idx s [] s :=
  GroupRun.other (s1 := s) (fun _ h => h) (GroupRun.done s)


/-- a group where it is `a`'s turn and `b` is a member waiting: both hypotheses shapes occur -/
example : (⟨["a", "b"], 0, (0, 0), .roundRobin⟩ : SharedGroup).current = some "a" ∧
    some "b" ≠ (⟨["a", "b"], 0, (0, 0), .roundRobin⟩ : SharedGroup).current ∧
    "c" ∉ (⟨["a", "b"], 0, (0, 0), .roundRobin⟩ : SharedGroup).clients := by decide

/-- non-vacuity on a concrete state (kernel-evaluated): `a` and `b` are the members of group `g/t`
    (round robin, `a`'s turn, cursor `(0, 0)`), the log of `t` holds two entries. A sweep by `b`
    pushes nothing and leaves the group alone (`SkipRequest`); a sweep by `a` pushes one forward
    (round robin reads one entry), after which the group's cursor is `(0, 1)` and it is `b`'s turn. -/
example :
    (match
       forwardDeviceData
        { config := ⟨10, 1024, 2, 10, .roundRobin⟩, links := [{}, {}],
          conns := ⟨[some { clientId := "a", link := 0, clean := true, dynamicFilters := false, tracker := { id := "a" } },
                     some { clientId := "b", link := 1, clean := true, dynamicFilters := false, tracker := { id := "b" } }], []⟩,
          shared := [("g/t", ⟨["a", "b"], 0, (0, 0), .roundRobin⟩)],
          datalog := { native := [{ filter := "t", log := (((CLog.Log.new 1024 2).append (⟨0, 0, false, false, [116], [1], none, [], false⟩ : Pub) 6).1.append
                                      (⟨0, 0, false, false, [116], [2], none, [], false⟩ : Pub) 6).1 }],
                       filterIndexes := [("t", 0)] } }
        1 ⟨"$share/g/t", 0, 0, (0, 0), false, some "g/t"⟩,
       forwardDeviceData
        { config := ⟨10, 1024, 2, 10, .roundRobin⟩, links := [{}, {}],
          conns := ⟨[some { clientId := "a", link := 0, clean := true, dynamicFilters := false, tracker := { id := "a" } },
                     some { clientId := "b", link := 1, clean := true, dynamicFilters := false, tracker := { id := "b" } }], []⟩,
          shared := [("g/t", ⟨["a", "b"], 0, (0, 0), .roundRobin⟩)],
          datalog := { native := [{ filter := "t", log := (((CLog.Log.new 1024 2).append (⟨0, 0, false, false, [116], [1], none, [], false⟩ : Pub) 6).1.append
                                      (⟨0, 0, false, false, [116], [2], none, [], false⟩ : Pub) 6).1 }],
                       filterIndexes := [("t", 0)] } }
        0 ⟨"$share/g/t", 0, 0, (0, 0), false, some "g/t"⟩ with
     | .ok (sb, _, stb), .ok (sa, ra, sta) =>
       decide (stb = .skipRequest ∧ (getLink sb 1).obuf.length = 0 ∧
         (alookup "g/t" sb.shared).map (fun g => (g.idx, g.cursor)) = some (0, (0, 0)) ∧
         sta = .partialRead ∧ (getLink sa 0).obuf.length = 1 ∧ ra.cursor = (0, 1) ∧
         (alookup "g/t" sa.shared).map (fun g => (g.clients, g.idx, g.cursor)) = some (["a", "b"], 1, (0, 1)))
     | _, _ => false) = true := by decide

/-! non-vacuity of the wake-up theorems: hand-built states in which the turn passes to a parked member -/

def stallReq : DataRequest := ⟨"$share/g/t", 0, 1, (0, 0), false, some "g/t"⟩

/-- `a` (id 0) and `b` (id 1) share `$share/g/t`; it is `a`'s turn; `b`'s request is parked on the
    log of `t` (index 0) and `b`'s tracker is `Paused(Caughtup)` -/
def stallState : RState :=
  { config := ⟨10, 1024, 2, 10, .roundRobin⟩, links := [{}, {}],
    conns := ⟨[some { clientId := "a", link := 0, clean := true, dynamicFilters := false,
                      subscriptions := ["$share/g/t"], tracker := { id := "a", status := .paused .caughtup } },
               some { clientId := "b", link := 1, clean := true, dynamicFilters := false,
                      subscriptions := ["$share/g/t"], tracker := { id := "b", status := .paused .caughtup } }], []⟩,
    connectionMap := [("a", 0), ("b", 1)],
    subscriptionMap := [("$share/g/t", [0, 1])],
    shared := [("g/t", ⟨["a", "b"], 0, (0, 0), .roundRobin⟩)],
    datalog := { native := [{ filter := "t", log := CLog.Log.new 1024 2, waiters := [(1, stallReq)] }],
                 filterIndexes := [("t", 0)] } }

/-- non-vacuity, disconnection (evaluated on the kernel-executable form, see Rp1_Decomp.lean): the
    turn passes from `a` to the parked `b`; `b`'s request is handed back and `b` is scheduled -/
example : turnMovedLogs stallState.datalog stallState.shared "a" = [0] := by decide

example : ∃ s', handleDisconnection stallState 0 none = .ok s' ∧
    (getConn s' 1).map (fun c => (c.tracker.requests, c.tracker.status)) = some ([stallReq], .ready) ∧
    s'.readyqueue = [1] ∧ s'.datalog.native.map (·.waiters) = [[]] ∧
    (alookup "g/t" s'.shared).map (fun g => (g.clients, g.current)) = some (["b"], some "b") :=
  ⟨_, (handleDisconnection_eqX _ _ _).trans rfl, by decide, by decide, by decide, by decide⟩

/-- non-vacuity, UNSUBSCRIBE: the same when `a` unsubscribes instead: the log is noted during the packet and woken at the end
    of `handle_device_payload` -/
example : ∃ s', events { stallState with links := [{ ibuf := [.unsubscribe 5 ["$share/g/t"]] }, {}] } 0 .deviceData = .ok s' ∧
    (getConn s' 1).map (fun c => (c.tracker.requests, c.tracker.status)) = some ([stallReq], .ready) ∧
    s'.readyqueue = [0, 1] ∧ s'.datalog.native.map (·.waiters) = [[]] ∧ s'.turnMoved = [] :=
  ⟨_, (events_eqX _ _ _).trans rfl, by decide, by decide, by decide, by decide⟩

def stallReqA : DataRequest := ⟨"$share/g/t", 0, 0, (0, 0), false, some "g/t"⟩
def stallReqB : DataRequest := ⟨"$share/g/t", 0, 0, (0, 0), false, some "g/t"⟩

/-- `a` is scheduled with its request, `b`'s request is parked; the log of `t` holds two entries -/
def stallState2 : RState :=
  { config := ⟨10, 1024, 2, 10, .roundRobin⟩, links := [{}, {}],
    conns := ⟨[some { clientId := "a", link := 0, clean := true, dynamicFilters := false,
                      subscriptions := ["$share/g/t"], tracker := { id := "a", requests := [stallReqA], status := .ready } },
               some { clientId := "b", link := 1, clean := true, dynamicFilters := false,
                      subscriptions := ["$share/g/t"], tracker := { id := "b", status := .paused .caughtup } }], []⟩,
    connectionMap := [("a", 0), ("b", 1)], readyqueue := [0],
    subscriptionMap := [("$share/g/t", [0, 1])],
    shared := [("g/t", ⟨["a", "b"], 0, (0, 0), .roundRobin⟩)],
    datalog := { native := [{ filter := "t",
                              log := (((CLog.Log.new 1024 2).append (⟨0, 0, false, false, [116], [1], none, [], false⟩ : Pub) 6).1.append
                                      (⟨0, 0, false, false, [116], [2], none, [], false⟩ : Pub) 6).1,
                              waiters := [(1, stallReqB)] }],
                 filterIndexes := [("t", 0)] } }

/-- non-vacuity, `consume`: `a`'s round-robin sweep forwards one entry and passes the turn to the
    parked `b`; at the end of `consume` `b`'s request is back in its tracker and `b` is scheduled
    (`a`, whose next sweep found it was not its turn and nothing more to read, was parked and is woken too) -/
example : ∃ s', consume stallState2 = .ok (s', true) ∧
    (getLink s' 0).obuf.length = 1 ∧
    (alookup "g/t" s'.shared).map (fun g => (g.current, g.cursor)) = some (some "b", (0, 1)) ∧
    (getConn s' 1).map (fun c => (c.tracker.requests, c.tracker.status)) = some ([stallReqB], .ready) ∧
    s'.readyqueue = [1, 0] ∧ s'.datalog.native.map (·.waiters) = [[]] ∧ s'.turnMoved = [] :=
  ⟨_, (consume_eqX _).trans rfl, by decide, by decide, by decide, by decide, by decide, by decide⟩

/-! ### completeness at idle for a shared group -/

/-- C17 (group liveness, invariant). In every reachable state below the no-overflow bound
    (`max_outgoing_packet_count > 0`), for every shared group `g` with log `i` (the log of the group's
    path): the group's cursor is at the END of log `i`, or the connection that holds the group's turn
    has NO request of the group parked on log `i` (its request is tracked — so its connection is
    `Ready` and queued, or waits for its own client, `C01.scheduler_status_facts` — or it is in
    `notifications` on its way to the tracker). Moreover the group table is well formed: group keys are
    distinct, the turn index is valid (the turn holder is a member), keys have the form
    `<share>/<path>`. Every way a group's cursor or turn changes is covered: a sweep of the turn holder
    (`noteTurn` → `wake_parked` at the end of `consume`), UNSUBSCRIBE and disconnection of a member
    (turn passed on → woken), the rewind of a departing persistent member's unacknowledged forwards
    (the repaired defect: the groups set back are woken), a new member, a resumed session re-creating
    or rejoining a group (its own requests are tracked), appends (wake all waiters of the log). -/
theorem group_liveness {cfg : Config} (h1 : 1 ≤ cfg.maxSegmentSize) (h2 : 1 ≤ cfg.maxSegmentCount)
    (hpos : 0 < cfg.maxOutgoingPacketCount) {s : RState} (hr : Reachable cfg s) (hno : NoOverflow s) :
    (s.shared.map (·.1)).Nodup ∧
    (∀ p ∈ s.shared, ∃ cid ∈ p.2.clients, p.2.current = some cid) ∧
    (∀ p ∈ s.shared, ∀ i, s.datalog.filterIdx? (gpath p.1) = some i →
      (∃ fd, s.datalog.native[i]? = some fd ∧ cursorAbs (logC fd.log) p.2.cursor = (logC fd.log).nextAbs) ∨
      (∀ id c r, getConn s id = some c → p.2.current = some c.clientId → r.group = some p.1 →
        ¬ ∃ fd, s.datalog.native[i]? = some fd ∧ (id, r) ∈ fd.waiters)) := by
  have hg := GL.reachable h1 h2 hpos hr hno
  have htm := turnMoved_reachable hr
  refine ⟨hg.nodup, fun p hp => ?_, fun p hp i hi => ?_⟩
  · have hw := hg.wf p hp
    refine ⟨p.2.clients[p.2.idx], List.getElem_mem hw, ?_⟩
    unfold SharedGroup.current
    exact List.getElem?_eq_getElem hw
  · rcases hg.lv p hp i hi with h | h | h
    · exact .inl h
    · rw [htm] at h; cases h
    · exact .inr h

/-- C17 `quiescent_complete_group`. In a reachable state, let `g` be a shared group whose turn holder is
    the live connection `id`, subscribed to the group's filter `f` (`extract_group f = (g, _)`), and
    idle: its tracker holds no request (it is `Paused(Caughtup)`, `C01.scheduler_status_facts`); between
    two router steps `notifications` is empty. Then the group's cursor is at the END of the log of the
    group's path: a read from it returns nothing. This is a statement about the CURSOR: with
    `at_most_one_member_partial` the entries between the position the cursor was last SET to (creation,
    re-creation, or a rewind on a member's disconnect — which can also set it forward,
    `rewind_can_skip_entries`) and the end have been forwarded through the group to some member; nothing
    is claimed about entries a rewind jumped over. In particular this holds when every member is idle. -/
theorem quiescent_complete_group {cfg : Config} (h1 : 1 ≤ cfg.maxSegmentSize) (h2 : 1 ≤ cfg.maxSegmentCount)
    (hpos : 0 < cfg.maxOutgoingPacketCount) {s : RState} (hr : Reachable cfg s) (hno : NoOverflow s)
    {g : String} {grp : SharedGroup} (hgm : (g, grp) ∈ s.shared)
    {id : Nat} {c : Conn} (hc : getConn s id = some c) (hturn : grp.current = some c.clientId)
    {f path : String} (hf : f ∈ c.subscriptions) (hfg : extractGroup f = some (g, path))
    (hidle : c.tracker.requests = []) :
    ∃ (i : Nat) (fd : FilterData) (hist : List Pub), s.datalog.filterIdx? (gpath g) = some i ∧
      s.datalog.native[i]? = some fd ∧ Rep (logC fd.log) hist ∧ Issued (logC fd.log) grp.cursor ∧
      cursorAbs (logC fd.log) grp.cursor = hist.length ∧
      ∀ n, n ≤ MAX_INFLIGHT + s.config.maxOutgoingPacketCount → (fd.log.readv grp.cursor n).1 = [] := by
  have hg := GL.reachable h1 h2 hpos hr hno
  have hq := QI.reachable h1 h2 hpos hr hno
  have hcs := CS.reachable h1 h2 hr hno
  have hi := reachable_inv h1 h2 hr
  have h3 := Inv3.reachable hr
  obtain ⟨_, hW, _⟩ := (RC.iff s).mp h3.rc
  have hn : s.notifications = [] := h3.inv2.binv.2
  have htm := turnMoved_reachable hr
  obtain ⟨i, hgi, fd, hfd, hiss⟩ := hcs.grp (g, grp) hgm
  have hgi' : s.datalog.filterIdx? (gpath g) = some i := hgi
  obtain ⟨hist, hrep⟩ := hi.logs fd.log (List.mem_map.mpr ⟨fd, List.mem_of_getElem? hfd, rfl⟩)
  have hU := hno fd (List.mem_of_getElem? hfd) hist hrep
  -- the turn holder's request of the group is parked on log `i`
  have hf' : f ∈ subsOf s id := by unfold subsOf; rw [hc]; exact hf
  obtain ⟨r, hown, hrf⟩ := hq.cover id f hf'
  have hrg : r.group = some g := by
    have := hq.gt id r hown
    unfold GT at this
    rw [this, hrf, hfg]; rfl
  have hend : AbsEnd fd grp.cursor := by
    rcases hg.lv (g, grp) hgm i hgi' with ⟨fd', a, b⟩ | h | h
    · rw [hfd] at a; cases a; exact b
    · rw [htm] at h; cases h
    · exfalso
      rcases hown with ⟨c', hc', hm⟩ | ⟨k, fdk, hfdk, hm⟩ | hnot
      · rw [hc] at hc'; cases hc'; rw [hidle] at hm; cases hm
      · have hk : r.filterIdx = k := hW k fdk hfdk (id, r) hm
        have hri := (hcs.req r (.inr (.inl ⟨fdk, List.mem_of_getElem? hfdk, (id, r), hm, rfl⟩))).2 g hrg
        rw [hgi'] at hri
        have : i = k := (Option.some.inj hri).trans hk
        subst this
        exact h id c r hc hturn hrg ⟨fdk, hfdk, hm⟩
      · unfold Notified at hnot; rw [hn] at hnot; cases hnot
  have hend' : cursorAbs (logC fd.log) grp.cursor = hist.length := by
    unfold AbsEnd at hend; rw [hend, hrep.nextAbs_eq]
  refine ⟨i, fd, hist, hgi', hfd, hrep, hiss, hend', fun n hn' => ?_⟩
  obtain ⟨v1, _, _⟩ := clog_readv_entries fd.log hist hrep grp.cursor n hiss (by omega)
  rw [hend', List.drop_length] at v1
  simpa using v1

/-- C17 (membership, invariant). In every reachable state every client id in a shared group's `clients` is
    the client id of a LIVE connection that holds a filter of that group (`$share/<key>`: `extract_group`
    of the filter gives the group's key) in its `subscriptions`. Groups gain members only in
    `prepare_filter` (the subscribing connection) and when a resumed session rejoins (`rejoinGroups`: the
    connection being registered, whose restored subscriptions contain the filters of its restored
    requests); they lose them in UNSUBSCRIBE (all entries of the client in that group) and at
    disconnection (`removeFromGroups`, before the takeover registers the new connection).
    `clients` CAN hold the same client id more than once — a second SUBSCRIBE to the same shared filter
    appends the client again (`add_client` is called before the "already subscribed" check): this skews
    round robin towards that client, but every entry still satisfies this invariant. -/
theorem members_are_live_subscribers {cfg : Config} (h1 : 1 ≤ cfg.maxSegmentSize) (h2 : 1 ≤ cfg.maxSegmentCount)
    (hpos : 0 < cfg.maxOutgoingPacketCount) {s : RState} (hr : Reachable cfg s) (hno : NoOverflow s) :
    ∀ p ∈ s.shared, ∀ cid ∈ p.2.clients, ∃ id c, getConn s id = some c ∧ c.clientId = cid ∧
      ∃ f ∈ c.subscriptions, ∃ path, extractGroup f = some (p.1, path) :=
  MI.reachable h1 h2 hpos hr hno

/-- C17 (members own a request of the group): with request conservation, every entry of a group's
    `clients` belongs to a live connection that holds a subscription `$share/<key>` of the group AND owns
    — in its tracker, parked, or in `notifications` — a data request with that filter whose `group` is the
    group's key (C03 `request_conservation`: exactly one such request per (connection, filter)) -/
theorem members_own_a_group_request {cfg : Config} (h1 : 1 ≤ cfg.maxSegmentSize) (h2 : 1 ≤ cfg.maxSegmentCount)
    (hpos : 0 < cfg.maxOutgoingPacketCount) {s : RState} (hr : Reachable cfg s) (hno : NoOverflow s) :
    ∀ p ∈ s.shared, ∀ cid ∈ p.2.clients, ∃ id c f r, getConn s id = some c ∧ c.clientId = cid ∧
      f ∈ c.subscriptions ∧ (∃ path, extractGroup f = some (p.1, path)) ∧
      Own s id r ∧ r.filter = f ∧ r.group = some p.1 := by
  intro p hp cid hcid
  obtain ⟨id, c, hc, e, f, hf, path, hx⟩ := MI.reachable h1 h2 hpos hr hno p hp cid hcid
  have hq := QI.reachable h1 h2 hpos hr hno
  obtain ⟨r, hown, hrf⟩ := hq.cover id f (by unfold subsOf; rw [hc]; exact hf)
  have hg : r.group = some p.1 := by
    have := hq.gt id r hown
    unfold GT at this
    rw [this, hrf, hx]; rfl
  exact ⟨id, c, f, r, hc, e, hf, ⟨path, hx⟩, hown, hrf, hg⟩

/-- `clients` can hold duplicates (kernel-evaluated): two SUBSCRIBEs of client `a` to `$share/g/t` -/
example :
    (match runX (init ⟨10, 1024, 2, 10, .roundRobin⟩)
        [(.connect ⟨0, "a", true, false, 0, none⟩, []),
         (.push 0 (.subscribe 1 none [⟨"$share/g/t", 0⟩]), []), (.push 0 (.subscribe 2 none [⟨"$share/g/t", 0⟩]), []),
         (.event 0 .deviceData, [])] with
     | .ok s => decide (s.shared.map (fun p => (p.1, p.2.clients)) = [("g/t", ["a", "a"])])
     | .error _ => false) = true := by decide

/-- C17 `quiescent_complete_group`, for reachable states WITHOUT the hypothesis on the turn holder: every
    group has a turn holder, it is a live connection subscribed to the group's filter
    (`group_liveness`, `members_are_live_subscribers`); if every connection that holds the turn of the group
    is idle (tracker empty — `Paused(Caughtup)`), the group's cursor is at the END of the log of the
    group's path and a read from it returns nothing. (A statement about the cursor, see
    `quiescent_complete_group`.) -/
theorem quiescent_complete_group_reachable {cfg : Config} (h1 : 1 ≤ cfg.maxSegmentSize) (h2 : 1 ≤ cfg.maxSegmentCount)
    (hpos : 0 < cfg.maxOutgoingPacketCount) {s : RState} (hr : Reachable cfg s) (hno : NoOverflow s)
    {g : String} {grp : SharedGroup} (hgm : (g, grp) ∈ s.shared)
    (hidle : ∀ id c, getConn s id = some c → grp.current = some c.clientId → c.tracker.requests = []) :
    ∃ (id : Nat) (c : Conn), getConn s id = some c ∧ grp.current = some c.clientId ∧
    ∃ (i : Nat) (fd : FilterData) (hist : List Pub), s.datalog.filterIdx? (gpath g) = some i ∧
      s.datalog.native[i]? = some fd ∧ Rep (logC fd.log) hist ∧ Issued (logC fd.log) grp.cursor ∧
      cursorAbs (logC fd.log) grp.cursor = hist.length ∧
      ∀ n, n ≤ MAX_INFLIGHT + s.config.maxOutgoingPacketCount → (fd.log.readv grp.cursor n).1 = [] := by
  obtain ⟨_, hcur, _⟩ := group_liveness h1 h2 hpos hr hno
  obtain ⟨cid, hcm, hcc⟩ := hcur (g, grp) hgm
  obtain ⟨id, c, hc, hci, f, hf, path, hx⟩ := members_are_live_subscribers h1 h2 hpos hr hno (g, grp) hgm cid hcm
  have hturn : grp.current = some c.clientId := by rw [hci]; exact hcc
  exact ⟨id, c, hc, hturn, quiescent_complete_group h1 h2 hpos hr hno hgm hc hturn hf hx (hidle id c hc hturn)⟩

/-! ### regression of the defect found by this invariant (evaluated, not kernel-checked: accepting a
    publish needs `String.fromUTF8?`, which the kernel cannot reduce) -/

/-- the round-5 counterexample: `a` (persistent) and `b` share `$share/g/t`; `a` is forwarded offset 0
    and disconnects without acknowledging it while `b` is parked and holds the turn -/
def regressionOps : List (Op × List Choice) :=
  [(.connect ⟨0, "a", false, false, 0, none⟩, []),
   (.connect ⟨1, "b", true, false, 0, none⟩, []),
   (.connect ⟨2, "p", true, false, 0, none⟩, []),
   (.push 0 (.subscribe 1 none [⟨"$share/g/t", 1⟩]), []), (.event 0 .deviceData, []),
   (.push 1 (.subscribe 1 none [⟨"$share/g/t", 1⟩]), []), (.event 1 .deviceData, []),
   (.consume, []), (.consume, []), (.consume, []), (.consume, []), (.consume, []), (.consume, []),
   (.push 2 (.publish ⟨0, 0, false, false, "t".toUTF8.toList, [120], none, [], false⟩), []),
   (.event 2 .deviceData, [.matches [0]]),
   (.consume, []), (.consume, []), (.consume, []), (.consume, []), (.consume, []), (.consume, []),
   (.event 0 .disconnect, []), (.consume, []), (.consume, [])]

/-- what is checked of a state: b's scheduler status is `Ready`, b is queued, b tracks its request; the
    group's cursor; the cursors of the forwards in b's link buffer -/
def regressionView (n : Nat) : Option (Bool × List Nat × Nat × Option Router.Cursor × List (Option Router.Cursor)) :=
  match run (init ⟨10, 1024, 2, 10, .roundRobin⟩) (regressionOps.take n) with
  | .error _ => none
  | .ok s =>
    some ((getConn s 1).any (fun c => c.tracker.status == .ready), s.readyqueue,
      ((getConn s 1).map (fun c => c.tracker.requests.length)).getD 0,
      (alookup "g/t" s.shared).map (·.cursor),
      (getLink s 1).obuf.filterMap (fun n => match n with | .forward _ c => some c | _ => none))

-- before the disconnect: everybody idle, the group's cursor at the end (0,1), nothing forwarded to b
#guard regressionView 21 == some (false, [], 0, some (0, 1), [])
-- right after `a`'s disconnect: the group is set back to (0,0) AND b is `Ready`, queued, tracking its request
#guard regressionView 22 == some (true, [1], 1, some (0, 0), [])
-- two `consume` calls later b has been forwarded offset 0 and the group's cursor is at the end again
#guard regressionView 24 == some (false, [], 0, some (0, 1), [some (0, 0)])

/-! ### the forward jump is still reachable after the repair of `retransmission_map` (evaluated) -/

/-- `a` (persistent) subscribes to `$share/g/t` and `t`, `b` to `$share/g/t`; three publishes 100, 101, 102;
    one sweep of `a`: offset 0 through the group (pkid 1; the turn passes to `b`, group cursor 1) and
    offsets 0, 1, 2 through the plain subscription (pkids 2, 3, 4); `a` acknowledges pkids 1, 2, 3 and its
    link drops before `b` is swept -/
def forwardJumpOps : List (Op × List Choice) :=
  let pub (x : UInt8) : Op × List Choice := (.push 2 (.publish ⟨0, 0, false, false, "t".toUTF8.toList, [x], none, [], false⟩), [])
  [(.connect ⟨0, "a", false, false, 0, none⟩, []), (.connect ⟨1, "b", true, false, 0, none⟩, []),
   (.connect ⟨2, "p", true, false, 0, none⟩, []),
   (.push 0 (.subscribe 1 none [⟨"$share/g/t", 1⟩, ⟨"t", 1⟩]), []), (.event 0 .deviceData, []),
   (.push 1 (.subscribe 1 none [⟨"$share/g/t", 1⟩]), []), (.event 1 .deviceData, [])] ++
  List.replicate 6 (.consume, [.retained []]) ++
  [pub 100, pub 101, pub 102, (.event 2 .deviceData, [.matches [0], .matches [0], .matches [0]]), (.consume, []),
   (.push 0 (.puback 1), []), (.push 0 (.puback 2), []), (.push 0 (.puback 3), []), (.event 0 .deviceData, []),
   (.event 0 .disconnect, [])] ++ List.replicate 6 (.consume, [])

/-- `a`'s window (pkid, offset); the group's cursor; the payloads forwarded to `b` -/
def forwardJumpView (n : Nat) : Option (List (Nat × Nat) × Option Router.Cursor × List (List UInt8)) :=
  match run (init ⟨10, 1024, 2, 10, .roundRobin⟩) (forwardJumpOps.take n) with
  | .error _ => none
  | .ok s =>
    some (((getConn s 0).map (fun c => c.out.inflight.filterMap (fun e => e.2.2.map (fun cur => (e.1, cur.2))))).getD [],
      (alookup "g/t" s.shared).map (·.cursor),
      (getLink s 1).obuf.filterMap (fun n => match n with | .forward p _ => some p.payload | _ => none))

-- after `a`'s sweep: window = group offset 0, plain offsets 0, 1, 2; the group stands at offset 1
#guard forwardJumpView 18 == some ([(1, 0), (2, 0), (3, 1), (4, 2)], some (0, 1), [])
-- after the three acks only the plain forward of offset 2 is unacknowledged
#guard forwardJumpView 22 == some ([(4, 2)], some (0, 1), [])
-- `a`'s link drops: the group's cursor jumps FORWARD to offset 2
#guard forwardJumpView 23 == some ([], some (0, 2), [])
-- `b` is sent 102 only: 101 (offset 1) is never handed to any member of the group
#guard forwardJumpView 29 == some ([], some (0, 3), [[102]])

end C17
