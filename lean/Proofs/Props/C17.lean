/-
C17 — Shared subscriptions hand each message to exactly one group member.
-/
import Proofs.Lemmas.Router.Frame
namespace C17
open Router

/-- the member whose turn it is, is a member -/
theorem current_is_member (g : SharedGroup) (c : String) (h : g.current = some c) : c ∈ g.clients := by
  unfold SharedGroup.current at h
  exact List.mem_of_getElem? h

/-- removing a client keeps the turn index inside the member list (when members remain) -/
theorem remove_client_keeps_turn_valid (g : SharedGroup) (c : String)
    (hne : (g.removeClient c).clients ≠ []) : (g.removeClient c).idx < (g.removeClient c).clients.length := by
  unfold SharedGroup.removeClient at hne ⊢
  simp only [] at hne ⊢
  have hpos : 0 < (g.clients.filter (· ≠ c)).length := List.length_pos_iff.mpr hne
  have hie : (g.clients.filter (· ≠ c)).isEmpty = false := by
    cases h : g.clients.filter (· ≠ c) with
    | nil => exact absurd h hne
    | cons _ _ => rfl
  simp only [hie, Bool.false_eq_true, if_false]
  exact Nat.mod_lt _ hpos

/-- the removed client is no longer a member (all its occurrences are dropped) -/
theorem removed_client_is_no_member (g : SharedGroup) (c : String) : c ∉ (g.removeClient c).clients := by
  simp [SharedGroup.removeClient]

/-- advancing the turn never leaves the member list, for the three strategies and every random draw -/
theorem next_turn_stays_valid (s s' : RState) (g g' : SharedGroup) (hv : g.idx < g.clients.length)
    (h : updateNextClient s g = .ok (s', g')) : g'.clients = g.clients ∧ g'.idx < g'.clients.length := by
  unfold updateNextClient at h
  split at h
  · simp only [Except.ok.injEq, Prod.mk.injEq] at h; obtain ⟨_, rfl⟩ := h; exact ⟨rfl, hv⟩
  · split at h
    · simp at h
    · simp only [Except.ok.injEq, Prod.mk.injEq] at h
      obtain ⟨_, rfl⟩ := h
      refine ⟨rfl, ?_⟩
      simp only []
      exact Nat.mod_lt _ (by omega)
  · split at h
    · simp at h
    · split at h
      · split at h
        · rename_i hn
          simp only [Except.ok.injEq, Prod.mk.injEq] at h
          obtain ⟨_, rfl⟩ := h
          exact ⟨rfl, hn⟩
        · simp at h
      · simp at h

end C17
