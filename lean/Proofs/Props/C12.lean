/-
C12 — Topic-filter matching and validation follow the MQTT rules in every copy.
Property theorems only; helper lemmas live in Proofs/Lemmas/Topic.lean.
The model (`Model/Topic.lean`) follows the Rust text; the spec (`Model/TopicSpec.lean`) is
written on level lists independently of it. The three Rust copies are each compared with
this one model by the correspondence check (`vh topic`), so agreement of the copies follows.
-/
import Proofs.Lemmas.Topic
namespace C12
open Topic

/-- C12.1 On every valid topic and valid filter, `matches` returns exactly the MQTT answer
    (with the `$` house rule). All strings, any Unicode. -/
theorem matches_spec (t f : Str) (ht : validTopic t = true) (hf : validFilterB f = true) :
    matchesImpl t f = true ↔ MatchesSpec t f := by
  have hT := (validTopic_iff t).mp ht
  have hF := ((validFilterB_iff f).mp hf).2
  unfold matchesImpl MatchesSpec
  by_cases hd : t.head? = some '$'
  · simp [hd]
  · simp only [hd, if_false, ne_eq, not_false_eq_true, true_and]
    exact matchLoop_iff _ _ hT hF

/-- C12.2a The broker's validator accepts exactly the valid filters. -/
theorem validFilter_broker_spec (f : Str) : validFilterB f = true ↔ ValidFilter f :=
  validFilterB_iff f

/-- C12.2b The client's validator (written differently: reverse iteration) computes the same
    function as the broker's, hence also the spec. -/
theorem validFilter_copies_agree (f : Str) : validFilterC f = validFilterB f :=
  validFilterC_eq_B f

theorem validFilter_client_spec (f : Str) : validFilterC f = true ↔ ValidFilter f := by
  rw [validFilterC_eq_B]; exact validFilterB_iff f

/-- C12.2c Topic names contain no wildcard in any level. -/
theorem validTopic_spec (t : Str) : validTopic t = true ↔ ValidTopic t := validTopic_iff t

/-- `has_wildcards` is the negation of `valid_topic`. -/
theorem hasWildcards_spec (t : Str) : hasWildcards t = !validTopic t := by
  simp [hasWildcards, validTopic]

/-- C12.4 A topic whose first character is `$` is matched by no filter whatsoever. -/
theorem dollar_rule (t f : Str) (h : t.head? = some '$') : matchesImpl t f = false := by
  simp [matchesImpl, h]

/-- consequences read off the spec: `+` is exactly one level, `#` matches the parent too -/
theorem plus_exactly_one_level (t : Level) (ts : List Level) :
    Matches (t :: ts) [['+']] ↔ ts = [] := by
  constructor
  · intro h
    cases h with
    | plus h => cases h; rfl
    | lit h _ _ => exact absurd rfl h
  · intro h; subst h; exact Matches.plus Matches.nil

theorem hash_matches_parent_and_below (p rest : List Level) (hp : ∀ l ∈ p, LevelPlain l) :
    Matches (p ++ rest) (p ++ [['#']]) := by
  induction p with
  | nil => exact Matches.hash _
  | cons a as ih =>
    have ha : LevelPlain a := hp a (by simp)
    exact Matches.lit (plain_ne_plus ha) (plain_ne_hash ha) (ih (fun l hl => hp l (by simp [hl])))

/-- C12.3 (repaired defect, recorded in KNOWN_FINDINGS as fixed): before the `fix:` commit
    `topic[..1]` panicked exactly on topics whose first character is multi-byte. The model is a
    total function, so "never panics" for the Rust is decided by the correspondence check. -/
theorem prefix_panic_witness : preFixPanics "é/a".toList = true := by decide

/- non-vacuity: concrete valid inputs on both sides of the iff -/
example : validTopic "a/é/c".toList = true ∧ validFilterB "a/+/#".toList = true ∧
    matchesImpl "a/é/c".toList "a/+/#".toList = true := by decide
example : validTopic "a/b".toList = true ∧ validFilterB "a/+/c".toList = true ∧
    matchesImpl "a/b".toList "a/+/c".toList = false := by decide
example : validFilterB "a/#/c".toList = false ∧ validFilterC "a+/b".toList = false := by decide

end C12
