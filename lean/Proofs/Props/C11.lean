/-
C11 — Resume retransmits in original order, with original id and content (state-machine part:
what `clean()` returns and what a replayed request puts on the wire; that `poll()` writes
`pending` before any request queued afterwards belongs to the `cloop` slice).
-/
import Proofs.Lemmas.ClientTheorems
namespace C11
open Client Client.Spec

/-- max = 3, eight publishes with strictly in-order acks (ids wrap twice), a failure with a full
    window, replay, more in-order acks -/
def runWrap : List LOp :=
  [.user (.publish 1 1), .user (.publish 1 2), .user (.publish 1 3), .inc (.puback 1 0), .user (.publish 1 4),
   .inc (.puback 2 0), .inc (.puback 3 0), .user (.publish 1 5), .user (.publish 1 6), .fail, .pend, .pend, .pend,
   .inc (.puback 1 0), .user (.publish 1 7), .inc (.puback 2 0), .inc (.puback 3 0), .user (.publish 1 8)]
/-- #19: max = 2: A(1); PUBACK 1; SUBSCRIBE takes id 2; B(1); C(2) — `clean()` lists C before B -/
def run19 : List LOp :=
  [.user (.publish 1 1), .inc (.puback 1 0), .user (.subscribe 1), .user (.publish 1 2), .user (.publish 1 3)]
/-- #23: max = 3: 1,2,3; PUBACK 1, 2; D(1); failure; session not resumed (pending dropped); E(2), F(3) —
    `clean()` lists F before E -/
def run23 : List LOp :=
  [.user (.publish 1 1), .user (.publish 1 2), .user (.publish 1 3), .inc (.puback 1 0), .inc (.puback 2 0),
   .user (.publish 1 4), .fail, .newSession, .user (.publish 1 5), .user (.publish 1 6)]

/-- C11.1 clean_order_v4: in the MQTT 3.1.1 client, as long as the broker acknowledged the QoS 1
    publishes in the order they were sent (the monitor's `inOrder` flag: only QoS ≤ 1 publishes
    sent, every PUBACK was for the oldest unacknowledged id, no PUBREC/PUBCOMP, no failure while a
    previous `pending` was still being replayed), `clean()` returns the unacknowledged publishes
    in the order they were originally sent — across id wrap-around, at every point of every run,
    every `max` — provided no SUBSCRIBE/UNSUBSCRIBE consumed a packet id (#19) and no pending
    publish was dropped by a session that was not resumed (#23). Cyclic-interval invariant:
    `OInv` (the unacknowledged ids are `idAt max last_puback 1..k`). -/
theorem clean_order_v4_partial (max : Nat) (m : Bool) (h1 : 1 ≤ max) (h2 : max ≤ u16Max) (ops : List LOp)
    (hn : Avoids c11Trigger (LState.new .v4 max m) ops) :
    Along (fun _ _ o _ g' => C11.order g' o = true) (LState.new .v4 max m) (Ghost.init .v4 max m) ops := by
  apply along_of_inv' B11 (fun l op => ¬ c11Trigger l op) B11.step _ _ _ _ _ (B11.new max m h1 h2) hn.not_not
  intro l g op o _ _ _ hi'
  exact C11_order_ok hi' o (step_fields g o).1.symm

/-- the clause as stated (in-order acks alone) is false (#19): a SUBSCRIBE in between shifts the ids -/
theorem clean_order_v4_fails_subscribe :
    ¬ Along (fun _ _ o _ g' => C11.order g' o = true) (LState.new .v4 2 false) (Ghost.init .v4 2 false) run19 := by
  rw [along_iff_alongB (fun _ o g' => C11.order g' o)]; decide

/-- … and (#23): `last_puback` is stale after a session that was not resumed -/
theorem clean_order_v4_fails_new_session :
    ¬ Along (fun _ _ o _ g' => C11.order g' o = true) (LState.new .v4 3 false) (Ghost.init .v4 3 false) run23 := by
  rw [along_iff_alongB (fun _ o g' => C11.order g' o)]; decide

/-- C11.3 original_id_and_content (full strength for both versions apart from #17): a request
    returned by `clean()` and replayed goes to the wire as the same publish — same id, QoS, content -/
theorem original_id_and_content_partial (ver : Version) (max : Nat) (m : Bool) (h1 : 1 ≤ max) (h2 : max ≤ u16Max)
    (ops : List LOp) (hn : Avoids unsafeConnack (LState.new ver max m) ops) :
    Along (fun _ _ o _ _ => C11.retransmitSame o = true) (LState.new ver max m) (Ghost.init ver max m) ops := by
  apply along_of_inv' B0 (fun l op => ¬ unsafeConnack l op) B0.step _ _ _ _ _ (B0.new ver max m h1 h2) hn.not_not
  intro l g op o hi _ ho _
  exact C11_retransmit_ok hi.inv0 op o ho

theorem original_id_and_content_v4 (max : Nat) (m : Bool) (h1 : 1 ≤ max) (h2 : max ≤ u16Max) (ops : List LOp) :
    Along (fun _ _ o _ _ => C11.retransmitSame o = true) (LState.new .v4 max m) (Ghost.init .v4 max m) ops :=
  original_id_and_content_partial .v4 max m h1 h2 ops (avoids_unsafe_v4 _ rfl ops)

/-- what `clean()` returns is what is stored: same publishes (C02.clean_moves_everything gives
    "exactly what a clone showed"); here: every returned publish is a stored one with its id -/
theorem clean_returns_stored (s : State) (r : Request) (h : r ∈ cleanRequests s) :
    (∃ p, r = .publish p ∧ some p ∈ s.outgoingPub) ∨ (∃ i, r = .pubrel i ∧ relContains s i = true) :=
  (mem_cleanRequests s r).mp h

/-- the loop's `clean` puts what the state held AFTER what was still pending: a second failure
    before `pending` is drained therefore reorders the retransmissions (observation for the
    `cloop` slice; this is why the monitor's in-order flag is dropped on a nested failure) -/
theorem nested_failure_reorders :
    pubIds (lrun (LState.new .v4 3 false)
      [.user (.publish 1 1), .user (.publish 1 2), .fail, .pend, .fail]).pending = [2, 1] := by decide

/-- the executable monitor `C11.check` accepts every v4 model trace that avoids #19 and #23 -/
theorem monitor_passes_partial (max : Nat) (m : Bool) (h1 : 1 ≤ max) (h2 : max ≤ u16Max) (ops : List LOp)
    (hn : Avoids c11Trigger (LState.new .v4 max m) ops) :
    C11.check (Ghost.init .v4 max m) (ltrace (LState.new .v4 max m) ops) = .ok :=
  runChecks_ok _ _ _ _ _ _ (c11_checks_along max m h1 h2 ops hn)

/-! non-vacuity: the hypothesis is met by a run with wrap-around, a failure with a full window and
    replay, and the in-order flag is still set at its end -/
example : Avoids c11Trigger (LState.new .v4 3 false) runWrap := by decide
example : alongB (fun _ _ g' => g'.inOrder && g'.gated) (LState.new .v4 3 false) (Ghost.init .v4 3 false) runWrap = true := by
  decide
example : pubIds (cleanRequests (lrun (LState.new .v4 3 false) (runWrap.take 5)).st) = [2, 3, 1] := by decide
example : ¬ Avoids subConsumesId (LState.new .v4 2 false) run19 := by decide
example : ¬ Avoids dropsPending (LState.new .v4 3 false) run23 := by decide

end C11
