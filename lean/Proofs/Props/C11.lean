/-
C11 — Resume retransmits in original order, with original id and content (state-machine part:
what `clean()` returns and what a replayed request puts on the wire; that `poll()` writes
`pending` before any request queued afterwards belongs to the `cloop` slice).

`MqttState` stamps every publish it stores with a running send counter and `clean()` sorts by that
stamp, so the order no longer depends on which ids are in use or on the order of acknowledgements.
-/
import Proofs.Lemmas.ClientTheorems
namespace C11
open Client Client.Spec

/-- max = 3, eight publishes with strictly in-order acks (ids wrap twice), a failure with a full
    window, replay, more in-order acks -/
def runWrap : List LOp :=
  [.user (.publish 1 1), .user (.publish 1 2), .user (.publish 1 3), .inc (.puback 1 0), .user (.publish 1 4),
   .inc (.puback 2 0), .inc (.puback 3 0), .user (.publish 1 5), .user (.publish 1 6), .fail, .pend, .pend, .pend,
   .inc (.puback 1 0), .user (.publish 1 7), .inc (.puback 2 0), .inc (.puback 3 0), .user (.publish 1 8)]
/-- max = 2: A(1); PUBACK 1; SUBSCRIBE takes id 2; B(1); C(2) (formerly #19: `clean()` listed C before B) -/
def run19 : List LOp :=
  [.user (.publish 1 1), .inc (.puback 1 0), .user (.subscribe 1), .user (.publish 1 2), .user (.publish 1 3)]
/-- max = 3: 1,2,3; PUBACK 1, 2; D(1); failure; session not resumed (pending dropped); E(2), F(3)
    (formerly #23: `clean()` listed F before E) -/
def run23 : List LOp :=
  [.user (.publish 1 1), .user (.publish 1 2), .user (.publish 1 3), .inc (.puback 1 0), .inc (.puback 2 0),
   .user (.publish 1 4), .fail, .newSession, .user (.publish 1 5), .user (.publish 1 6)]
/-- acknowledgements out of order and a QoS 2 flow in between: B(2) acked first, then A(1) received -/
def runAny : List LOp :=
  [.user (.publish 2 1), .user (.publish 1 2), .user (.publish 1 3), .inc (.puback 2 0), .user (.publish 1 4),
   .inc (.pubrec 1 0), .user (.publish 1 5)]

/-- C11.1 clean_order_v4 (full strength: every `max`, every op sequence of the loop, manual acks
    on/off): in the MQTT 3.1.1 client, as long as the broker acknowledged the QoS 1 publishes in the
    order they were sent (the monitor's `inOrder` flag: only QoS ≤ 1 publishes sent, every PUBACK was
    for the oldest unacknowledged id, no PUBREC/PUBCOMP), `clean()` returns the unacknowledged
    publishes in the order they were originally sent — across id wrap-around, SUBSCRIBE /
    UNSUBSCRIBE in between, sessions that were not resumed, failures during a replay -/
theorem clean_order_v4 (max : Nat) (m : Bool) (h1 : 1 ≤ max) (h2 : max ≤ u16Max) (ops : List LOp) :
    Along (fun _ _ o _ g' => C11.order g' o = true) (LState.new .v4 max m) (Ghost.init .v4 max m) ops := by
  apply along_of_inv' (fun l g => l.st.ver = .v4 ∧ B1 l g) (fun l op => ¬ unsafeConnack l op) _ _ _ _ _ _
    ⟨rfl, B1.new .v4 max m h1 h2⟩ (avoids_unsafe_v4 _ rfl ops).not_not
  · intro l g op hi hok
    have hv' := (lstep_ver l op).trans hi.1
    have hb := hi.2.step l g op hok
    cases ho : (lstep l op).2 with
    | none => rw [ho] at hb; exact ⟨hv', hb⟩
    | some o => rw [ho] at hb; exact ⟨hv', hb⟩
  · intro l g op o _ _ _ hi'
    exact C11_order_ok hi'.1 hi'.2 o (step_fields g o).1.symm

/-- C11.1+ (full strength) the same without any assumption on the acknowledgements (any order,
    QoS 2 flows in between): at every step the stored publishes `clean()` would return are exactly
    the publishes on the wire without PUBACK / PUBREC, in the order in which they were put there -/
theorem clean_order_any_acks_v4 (max : Nat) (m : Bool) (h1 : 1 ≤ max) (h2 : max ≤ u16Max) (ops : List LOp) :
    Along (fun _ _ o _ g' => pubIds (sentPubs o.view) = g'.unacked.map (·.1) ∧ pubTags (sentPubs o.view) = g'.unacked.map (·.2))
      (LState.new .v4 max m) (Ghost.init .v4 max m) ops := by
  apply along_of_inv' (fun l g => l.st.ver = .v4 ∧ B1 l g) (fun l op => ¬ unsafeConnack l op) _ _ _ _ _ _
    ⟨rfl, B1.new .v4 max m h1 h2⟩ (avoids_unsafe_v4 _ rfl ops).not_not
  · intro l g op hi hok
    have hv' := (lstep_ver l op).trans hi.1
    have hb := hi.2.step l g op hok
    cases ho : (lstep l op).2 with
    | none => rw [ho] at hb; exact ⟨hv', hb⟩
    | some o => rw [ho] at hb; exact ⟨hv', hb⟩
  · intro l g op o hi hok ho hi'
    have := clean_order_state hi'.1 hi'.2
    rw [← hi'.2.g0.view] at this
    exact this

/-- C11.2 (full strength, both versions) a failure keeps the order: what `state.clean()` returns
    goes in front of what was still waiting in `pending` (it was sent, or re-sent, earlier), and
    the publish that was parked on a collision — never sent — comes last -/
theorem failure_keeps_order (s : State) (pd : List Request) :
    (lstep ⟨s, pd⟩ .fail).1.pending = cleanPubs s ++ (relOnes s).map Request.pubrel ++ cleanParked s ++ pd := by
  simp [lstep, lop?, lpending, sstepObs, cleanPanics, mkObs, cleanRequests]

/-- C11.3 original_id_and_content (full strength, both versions, every state of the loop): a
    numbered request returned by `clean()` and replayed goes to the wire as the same publish — same
    id, QoS, content -/
theorem original_id_and_content (ver : Version) (max : Nat) (m : Bool) (ops : List LOp) :
    Along (fun _ _ o _ _ => C11.retransmitSame o = true) (LState.new ver max m) (Ghost.init ver max m) ops := by
  generalize LState.new ver max m = l
  generalize Ghost.init ver max m = g
  induction ops generalizing l g with
  | nil => trivial
  | cons op ops ih =>
    simp only [Along]
    cases ho : (lstep l op).2 with
    | none => exact ih _ _
    | some o => exact ⟨C11_retransmit_ok op o ho, ih _ _⟩

/-- what `clean()` returns is what is stored: every returned request is a stored publish with its
    id, a pending release, or the publish that was parked on a collision (unnumbered) -/
theorem clean_returns_stored (s : State) (hs : SInv s) (r : Request) (h : r ∈ cleanRequests s) :
    (∃ p, r = .publish p ∧ some p ∈ s.outgoingPub) ∨ (∃ i, r = .pubrel i ∧ relContains s i = true) ∨
      (∃ c, s.collision = some c ∧ r = .publish { c with pkid := 0 }) :=
  (mem_cleanRequests hs r).mp h

/-- a second failure before `pending` is drained keeps the original order (regression: with the
    loop order of before — `pending ++ state.clean()` — this was `[2, 1]`) -/
theorem nested_failure_keeps_order :
    pubIds (lrun (LState.new .v4 3 false)
      [.user (.publish 1 1), .user (.publish 1 2), .fail, .pend, .fail]).pending = [1, 2] := by decide

/-- the executable monitor `C11.check` accepts every trace of the MQTT 3.1.1 model (full strength) -/
theorem monitor_passes_v4 (max : Nat) (m : Bool) (h1 : 1 ≤ max) (h2 : max ≤ u16Max) (ops : List LOp) :
    C11.check (Ghost.init .v4 max m) (ltrace (LState.new .v4 max m) ops) = .ok :=
  runChecks_ok _ _ _ _ _ _ (c11_checks_along max m h1 h2 ops)

/-! regression examples: the runs on which the order clause used to fail, and the order itself -/
example : C11.check (Ghost.init .v4 2 false) (ltrace (LState.new .v4 2 false) run19) = .ok := by decide
example : C11.check (Ghost.init .v4 3 false) (ltrace (LState.new .v4 3 false) run23) = .ok := by decide
example : pubTags (cleanRequests (lrun (LState.new .v4 2 false) run19).st) = [2, 3] := by decide
example : pubTags (cleanRequests (lrun (LState.new .v4 3 false) run23).st) = [5, 6] := by decide
example : pubTags (cleanRequests (lrun (LState.new .v4 3 false) runAny).st) = [3, 4] := by decide

/-! non-vacuity: a run with wrap-around, a failure with a full window and replay keeps the in-order
    flag to its end -/
example : alongB (fun _ _ g' => g'.inOrder && g'.gated) (LState.new .v4 3 false) (Ghost.init .v4 3 false) runWrap = true := by
  decide
example : pubIds (cleanRequests (lrun (LState.new .v4 3 false) (runWrap.take 5)).st) = [2, 3, 1] := by decide

end C11
