HOOK_COMMITS = []

TB = ("Trusted: Lean 4.33.0 kernel; axioms propext/Classical.choice/Quot.sound only (audited per theorem on every run); "
      "the hand-written Lean model is tied to the code by the correspondence harness (differential execution of /repo's working tree "
      "against the model through a line protocol), so the assurance is min(theorem about the model, correspondence).")

CHECKS = [
    {"property_id": "C12",
     "text": "Theorems for all strings (any length, any Unicode): on valid topic/filter the model of matches() returns exactly the MQTT relation "
             "(+ one level, trailing # incl. parent, literal otherwise, $-topics never match); both validator variants equal the level-wise spec and each other; "
             "valid_topic = no wildcard in any level. The three Rust copies are compared with the model on every pair of strings of length <=3 (thorough <=4) over "
             "{a,b,/,+,#,$,2-byte,4-byte char} plus random long level-structured pairs, under catch_unwind (no-panic clause, copies agree).",
     "design_ref": "7 C12",
     "level_note": TB + " Modelled, not verified: Rust std str::split/contains/starts_with (tied by exhaustive small scope). Never-panics is decided by the correspondence (model is total).",
     "technique": "Lean 4 proof (induction over level lists, spec as inductive relation) + exhaustive small-scope differential correspondence"},
]

_pending = "machinery for this property is still being built in this session (see DESIGN.md section 10 build order); not claimed until its model, theorems and correspondence exist"
NOT_APPLICABLE = [{"property_id": f"C{n:02d}", "reason": _pending} for n in range(1, 21) if f"C{n:02d}" not in {c["property_id"] for c in CHECKS}]
