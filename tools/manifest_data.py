HOOK_COMMITS = []

TB = ("Trusted: Lean 4.33.0 kernel; axioms propext/Classical.choice/Quot.sound only (audited per theorem on every run); "
      "the hand-written Lean model is tied to the code by the correspondence harness (differential execution of /repo's working tree "
      "against the model through a line protocol), so the assurance is min(theorem about the model, correspondence).")

CHECKS = [
    {"property_id": "C12",
     "text": "Theorems for all strings (any length, any Unicode): on valid topic/filter the model of matches() returns exactly the MQTT relation "
             "(+ one level, trailing # incl. parent, literal otherwise, $-topics never match); both validator variants equal the level-wise spec and each other; "
             "valid_topic = no wildcard in any level. The three Rust copies are compared with the model on every pair of strings of length <=3 (thorough <=4) over "
             "{a,b,/,+,#,$,2-byte,4-byte char} plus random long level-structured pairs, under catch_unwind (no-panic clause, copies agree).",
     "design_ref": "7 C12",
     "level_note": TB + " Modelled, not verified: Rust std str::split/contains/starts_with (tied by exhaustive small scope). Never-panics is decided by the correspondence (model is total).",
     "technique": "Lean 4 proof (induction over level lists, spec as inductive relation) + exhaustive small-scope differential correspondence"},
    {"property_id": "C13",
     "text": "Theorems over a statement-by-statement model of CommitLog/Segment (all dev-profile panics explicit), for ALL configurations accepted by new(), ALL append sequences and entry sizes: "
             "the reached log represents the append history (non-empty segment list, count = tail-head+1 <= max segments, contiguous absolute offsets, every opened segment holds an entry; append never panics and returns (tail, |hist|+1)); "
             "retention drops nothing or exactly the whole oldest segment, only at the segment limit; for every issued cursor (tail at some moment, entry tag, append result, continuation; however old - issued_mono) and every count n with |hist|+n < 2^64 "
             "readv returns exactly take n (drop a) of the retained entries tagged with their own (segment, offset), offsets consecutive, values = history, continuation issued and non-stale at a+k, two reads compose to one, Done iff nothing remains; "
             "a stale cursor resumes at the oldest retained entry; for ANY cursor value readv does not panic and reads what the effective issued cursor reads. The unrestricted no-panic clause is refuted by a kernel-checked witness "
             "(readv((0,1), u64::MAX) after two appends overflows idx+len) which is reproduced on the real code and recorded as a known finding. "
             "The totalised copy of the commit log used inside the router model (namespace CLog) is proved equal to this model on every well-formed log (router_copy_agrees / router_copy_reachable), so the theorems carry over to Model/Router. "
             "Correspondence: vh clog drives the real CommitLog<(id,size)> under catch_unwind (random append/readv/next_offset/last sequences with issued, stale and fabricated cursors; exhaustively every sequence of <=7 (thorough <=10) appends over 3 sizes "
             "x max segments 1,2,3 followed by a read from every issued cursor x n=0..4); the driver compares every answer with the model and runs the C13 monitor on the implementation's answers against a ghost history.",
     "design_ref": "7 C13",
     "level_note": TB + " Modelled, not verified: u64 wrap-around of the log's own counters (needs about 2^63 appends), allocation. The read theorems carry the hypothesis |hist|+n < 2^64; Rust panic-freedom is by correspondence.",
     "technique": "Lean 4 proof (invariant over append sequences, refinement of readv to take/drop of the tagged retained history) + exhaustive small-scope and random differential correspondence with an implementation-side monitor"},
]

_pending = "machinery for this property is still being built in this session (see DESIGN.md section 10 build order); not claimed until its model, theorems and correspondence exist"
NOT_APPLICABLE = [{"property_id": f"C{n:02d}", "reason": _pending} for n in range(1, 21) if f"C{n:02d}" not in {c["property_id"] for c in CHECKS}]
