HOOK_COMMITS = []

TB = ("Trusted: Lean 4.33.0 kernel; axioms propext/Classical.choice/Quot.sound only (audited per theorem on every run); "
      "the hand-written Lean model is tied to the code by the correspondence harness (differential execution of /repo's working tree "
      "against the model through a line protocol), so the assurance is min(theorem about the model, correspondence).")

CHECKS = [
    {"property_id": "C12",
     "text": "Theorems for all strings (any length, any Unicode): on valid topic/filter the model of matches() returns exactly the MQTT relation "
             "(+ one level, trailing # incl. parent, literal otherwise, $-topics never match); both validator variants equal the level-wise spec and each other; "
             "valid_topic = no wildcard in any level. The three Rust copies are compared with the model on every pair of strings of length <=3 (thorough <=4) over "
             "{a,b,/,+,#,$,2-byte,4-byte char} plus random long level-structured pairs, under catch_unwind (no-panic clause, copies agree).",
     "design_ref": "7 C12",
     "level_note": TB + " Modelled, not verified: Rust std str::split/contains/starts_with (tied by exhaustive small scope). Never-panics is decided by the correspondence (model is total).",
     "technique": "Lean 4 proof (induction over level lists, spec as inductive relation) + exhaustive small-scope differential correspondence"},
    {"property_id": "C13",
     "text": "Theorems over a statement-by-statement model of CommitLog/Segment (all dev-profile panics explicit), for ALL configurations accepted by new(), ALL append sequences and entry sizes: "
             "the reached log represents the append history (non-empty segment list, count = tail-head+1 <= max segments, contiguous absolute offsets, every opened segment holds an entry; append never panics and returns (tail, |hist|+1)); "
             "retention drops nothing or exactly the whole oldest segment, only at the segment limit; for every issued cursor (tail at some moment, entry tag, append result, continuation; however old - issued_mono) and every count n with |hist|+n < 2^64 "
             "readv returns exactly take n (drop a) of the retained entries tagged with their own (segment, offset), offsets consecutive, values = history, continuation issued and non-stale at a+k, two reads compose to one, Done iff nothing remains; "
             "a stale cursor resumes at the oldest retained entry; for ANY cursor value readv does not panic and reads what the effective issued cursor reads. The unrestricted no-panic clause is refuted by a kernel-checked witness "
             "(readv((0,1), u64::MAX) after two appends overflows idx+len) which is reproduced on the real code and recorded as a known finding. "
             "The totalised copy of the commit log used inside the router model (namespace CLog) is proved equal to this model on every well-formed log (router_copy_agrees / router_copy_reachable), so the theorems carry over to Model/Router. "
             "Correspondence: vh clog drives the real CommitLog<(id,size)> under catch_unwind (random append/readv/next_offset/last sequences with issued, stale and fabricated cursors; exhaustively every sequence of <=7 (thorough <=10) appends over 3 sizes "
             "x max segments 1,2,3 followed by a read from every issued cursor x n=0..4); the driver compares every answer with the model and runs the C13 monitor on the implementation's answers against a ghost history.",
     "design_ref": "7 C13",
     "level_note": TB + " Modelled, not verified: u64 wrap-around of the log's own counters (needs about 2^63 appends), allocation. The read theorems carry the hypothesis |hist|+n < 2^64; Rust panic-freedom is by correspondence.",
     "technique": "Lean 4 proof (invariant over append sequences, refinement of readv to take/drop of the tagged retained history) + exhaustive small-scope and random differential correspondence with an implementation-side monitor"},
    {"property_id": "C05",
     "text": "Theorems for every byte list, every size limit (incl. c5's None), every copy (c4, c5, b4, b5) and an ARBITRARY packet-body reader: a packet is produced only from a "
             "complete within-limit frame, consumes exactly the declared frame and shows the body reader exactly the frame's bytes; InsufficientBytes(n) from the framing layer iff "
             "header or frame incomplete (with the exact n, never over-asking, nothing consumed); remaining length > max => PayloadSizeLimitExceeded as soon as the header is complete "
             "(never buffered, never accepted); every non-wait outcome is prefix-stable; hence Framed+Codec::decode (client) and Network::read/read_bytes/readv as driven by "
             "RemoteLink::start (broker, any max_connection_buffer_len) yield, for every chunking, exactly the packets / first error / kind of end of the concatenation; "
             "variable-byte-integer round trip, canonical length = len_len, <= 4 bytes, 4th continuation byte rejected, encoder limit, over constants regenerated from the four sources. "
             "Two clauses are FALSE on the as-is code and are stated as witness + _partial: (a) b5 read_mut panics (unreachable!) exactly on CONNACK/UNSUBACK frames with a body; "
             "(b) the v5 body readers (c5, b5) return InsufficientBytes for complete frames with a truncated property length, which the loops take for a wait after the frame has been "
             "dropped - a wait on a complete frame and, as a consequence, chunking-dependent results; the chunking theorems therefore carry the hypothesis 'body reader never answers "
             "InsufficientBytes' (true of the v4 readers). Correspondence: the four real decoders on every string <= 2 bytes, 3-byte strings (16 first bytes quick / all 16.8M thorough), "
             "every first byte x remaining-length prefixes over a boundary alphabet x body length declared-1/declared/declared+1, valid frames of all packet types from the repo's encoders "
             "mutated (truncate everywhere, bit flips, spliced, lying length, padded length), random bytes, 11 limits; the real Codec::decode driven as Framed does and the real "
             "rumqttd Network::read/readv over an in-memory socket on every split of short streams into <= 4 chunks (quick) / all splits <= 16 bytes, <= 5 chunks <= 24 bytes (thorough) "
             "plus random chunkings incl. 1-byte dribble, each compared with the one-chunk run, under catch_unwind.",
     "design_ref": "7 C05",
     "level_note": TB + " NOT modelled: packet body readers (C04) - the body is a universally quantified parameter, instantiated in the correspondence from the implementation's own per-frame answers; "
                   "tokio_util's Framed loop is mirrored in the harness (the repo's Codec is called for real), tokio/bytes internals trusted. Never-panics is decided by the correspondence (model total). "
                   "Thorough scope 'all splits of streams <= 24 bytes' is cut to all splits for <= 16 bytes and <= 5 chunks for <= 24 bytes (2^23 splits per stream otherwise).",
     "technique": "Lean 4 proof (prefix-stability => induction over chunk lists with fuel-indexed loop models; spec of the variable byte integer as independent function) + exhaustive small-scope and mutation-based differential correspondence with monitors on the implementation outputs"},
    {"property_id": "C04",
     "text": "Theorems (Lean, all proved, no sorry; names in Proofs/Props/C04.lean). MQTT 3.1.1, client and broker copy, all 14 packet types: for every well-formed value "
             "(explicit decidable wf: fields fit their width, String fields valid UTF-8, qos>0 <-> pkid!=0, non-empty SUBSCRIBE/SUBACK lists, remaining length <= 268435455, canonical representation where the broker's shared v4/v5 enum has spare values) "
             "encode succeeds, decode(encode p ++ rest) = (p, rest) for every rest and every max >= frame size, bytes produced = value returned by write = size(); client-encoded bytes decode in the broker model to the field-wise same content and conversely; oversize is refused. "
             "MQTT 5, both copies, all 14 packet types INCLUDING CONNECT/CONNACK/DISCONNECT with every property (property block modelled as the writer's fixed order + the reader's `while cursor < len` loop with the source's cursor accounting): the same four statements as `_partial` theorems whose extra hypotheses are exactly the shapes on which the unchanged code violates the property, "
             "each with a `decide`d counter-example theorem and a KNOWN_FINDINGS entry: (1) PUBLISH with >=3 subscription identifiers (cursor double count, both crates), (2) DISCONNECT with reason != Normal and no properties (declares 1 byte, writes 2, both crates), (3) client cannot read its own plain DISCONNECT e0 00, (4) broker V5::read_mut panics on CONNACK/UNSUBACK. "
             "Variable-byte integer round-trip/width lemma for all lengths (covers 127/128, 16383/16384, 2097151/2097152). Code tables (QoS, connect return codes, SubAck codes, PubAck/PubRec/PubRel/PubComp/UnsubAck/Disconnect reasons; 35 tables, decoders over all 256 bytes, encoders over all enum variants) are produced by executing the real code (`vh tables`) on every run and proved equal to the model's functions by `decide`. "
             "Correspondence (vh codec): ~20k (quick) / 1.5M (thorough) generated packet values per copy built from the repo's structs (all kinds, flag combinations, pkid/string-length/remaining-length boundaries incl. 2 MiB frames, every subset of optional v5 properties, 0-3 user properties / subscription ids, 1-4 filters/codes, ~15 % deliberately outside wf) pushed through the real write, size, read of the same copy and read of the other crate, each under catch_unwind; bytes, return value, size, decoded packets and consumed counts compared with the model, and the property evaluated directly on the implementation's outputs; plus exhaustive decode probes (all 256 v5 property ids x 13 property positions x 2 copies, all code bytes, all first bytes). "
             "Not covered: the client's write-only v5 Auth packet (no reader exists); Rust values no copy can hold.",
     "design_ref": "7 C04",
     "level_note": TB + " Strings are byte lists with an executable UTF-8 acceptance predicate (theorems use it abstractly through wf; tied to Rust std by every generated string). bytes::Bytes/BytesMut operations are modelled as list operations. Never-panics on well-formed values is decided by the correspondence (each real call under catch_unwind); v5 property identifier tables are compared exhaustively in the correspondence run, not by a kernel-checked table.",
     "technique": "Lean 4 proof (round-trip lemmas for wire primitives, property-block loop invariant, per-packet composition; tables by execution + decide) + differential correspondence with implementation-side property monitor"},
]

_pending = "machinery for this property is still being built in this session (see DESIGN.md section 10 build order); not claimed until its model, theorems and correspondence exist"
NOT_APPLICABLE = [{"property_id": f"C{n:02d}", "reason": _pending} for n in range(1, 21) if f"C{n:02d}" not in {c["property_id"] for c in CHECKS}]
