#!/usr/bin/env python3
"""Writes /verif/MANIFEST.json from tools/manifest_data.py (kept as code so it stays valid)."""
import json, os, sys
sys.path.insert(0, os.path.dirname(__file__))
from manifest_data import CHECKS, NOT_APPLICABLE, HOOK_COMMITS
ROOT = os.path.dirname(os.path.dirname(os.path.abspath(__file__)))
m = {
    "version": 1,
    "setup_cmd": "cd /verif && ./check --setup",
    "hooks": {
        "guard": "--cfg rumqtt_verif",
        "enable": "RUSTFLAGS='--cfg rumqtt_verif' via /verif/harness/.cargo/config.toml ([build] rustflags); the harness crate has path dependencies on /repo/rumqttc and /repo/rumqttd and is rebuilt from the working tree by every check",
        "baseline_off_cmd": "cd /repo && cargo test --workspace --no-fail-fast --offline",
        "source_commits": HOOK_COMMITS,
        "add_only": True,
    },
    "engines": [
        {"name": "lean-proofs", "path": "/verif/lean", "serves_properties": [c["property_id"] for c in CHECKS],
         "kind_free_text": "Lean 4 models (Model/), property theorems (Proofs/Props/), generated constants/tables (Generated/), native model driver (Driver/ -> mdriver)"},
        {"name": "vh", "path": "/verif/harness", "serves_properties": [c["property_id"] for c in CHECKS],
         "kind_free_text": "Rust correspondence harness executing the real rumqttc/rumqttd code in-process; emits the line protocol replayed by mdriver"},
        {"name": "check", "path": "/verif/check", "serves_properties": [c["property_id"] for c in CHECKS],
         "kind_free_text": "python orchestrator: regenerate, build+audit proofs, build harness, run correspondence, decide, write evidence"},
    ],
    "checks": [],
    "not_applicable": NOT_APPLICABLE,
    "notes": "Technique: machine-checked proof in Lean 4 over executable models + checked correspondence with the code on every run. See DESIGN.md.",
}
for c in CHECKS:
    pid = c["property_id"]
    m["checks"].append({
        "property_id": pid,
        "quick_cmd": f"./check {pid} --tier quick",
        "thorough_cmd": f"./check {pid} --tier thorough",
        "evidence_file": f"/verif/evidence/{pid}.json",
        "replay_cmd_template": f"./check {pid} --replay {{path}}",
        "engine": "lean-proofs + vh",
        "level_claimed": {"category": c.get("category", "proof"), "text": c["text"], "design_ref": c["design_ref"]},
        "level_note": c["level_note"],
        "technique": c["technique"],
    })
json.dump(m, open(os.path.join(ROOT, "MANIFEST.json"), "w"), indent=1)
print("MANIFEST.json written:", len(m["checks"]), "checks,", len(NOT_APPLICABLE), "not_applicable")
