#!/usr/bin/env python3
"""Development-time helper: file the wave-5 seeded changes under /verif/seeded.
A change is filed as seeded/<id>/ only when my own confirmation run (tools/mutant_confirm.sh ->
/root/w5c/<k>.txt) shows: demo passes on the clean tree, demo fails with the patch, every other
test passes with the patch. Everything else goes to seeded/w5-pending/<k>/ (agent-verified only).
Re-runnable: picks up whatever has finished."""
import json, os, re, shutil, sys

OUT = "/tmp/w5/out"
CONF = "/root/w5c"
RUNS = "/root/w5p"
SEED = "/verif/seeded"
NEWID = {"C02-1": "C02-4", "C02-2": "C02-5", "C07-1": "C07-4", "C07-2": "C07-5", "C10-1": "C10-4", "C10-2": "C10-5",
         "C11-1": "C11-4", "C11-2": "C11-5", "C13-1": "C13-5", "C13-2": "C13-6", "C04-1": "C04-5", "C04-2": "C04-6",
         "C05-1": "C05-5", "C05-2": "C05-6", "C18-1": "C18-4", "C18-2": "C18-5", "C06-1": "C06-5", "C06-2": "C06-6",
         "C01-1": "C01-8", "C01-2": "C01-9"}


def confirm(k):
    p = os.path.join(CONF, k + ".txt")
    if not os.path.exists(p):
        return None, "no confirmation run yet"
    t = open(p).read()
    if "## patch + demo" not in t:
        return None, "confirmation run unfinished"
    clean, mut = t.split("## patch + demo")
    mut_failed = re.findall(r"test (\S+) \.\.\. FAILED", mut)
    clean_failed = re.findall(r"test (\S+) \.\.\. FAILED", clean)
    if not mut_failed:
        return None, "unfinished or demo does not fail with the patch"
    demo_tests = set(mut_failed) - set(clean_failed)
    # failures on the clean tree are only accepted if they are the fixed-port reliability tests
    # (port clashes with other worktrees running the same suite) and do not include the demo
    noise = [f for f in clean_failed if f in mut_failed]
    ok = bool(demo_tests) and not noise
    info = {"demo_on_clean_tree": "passes (tests failing on the clean tree, fixed-port clashes with parallel suites: %s)" % clean_failed
            if clean_failed else "passes",
            "demo_on_mutated_tree": sorted(demo_tests),
            "other_failures_on_mutated_tree": sorted(set(mut_failed) - demo_tests),
            "result_lines_mutated": re.findall(r"test result: [^\n]*", mut)}
    if set(mut_failed) - demo_tests:
        ok = False
    return (info if ok else None), ("ok" if ok else "not clean: " + json.dumps(info)[:300])


def check_result(k):
    p = os.path.join(RUNS, k + ".out")
    if not os.path.exists(p):
        return {"result": "not run yet"}
    t = open(p).read()
    v = re.findall(r"^VIOLATION[^\n]*", t, re.M)
    s = re.findall(r"^\[C\d\d\][^\n]*", t, re.M)
    if not s:
        return {"result": "run unfinished"}
    kind = "missed" if not v else ("detected-no-failing-input" if "no-failing-input-found" in v[0] else "detected-concrete")
    return {"command": "tools/mutant_run.sh <slot> %s <patch.diff>  (= VERIF_REPO=<scratch worktree with the patch> ./check %s, quick tier, seed 1, from a scratch copy of /verif)" % (k[:3], k[:3]),
            "result": kind, "violation_line": v[0] if v else None, "summary_line": s[-1]}


def main():
    rows = []
    for k, nid in sorted(NEWID.items()):
        d = os.path.join(OUT, k)
        if not (os.path.exists(os.path.join(d, "patch.diff")) and os.path.exists(os.path.join(d, "demo.diff"))):
            continue
        info, why = confirm(k)
        dest = os.path.join(SEED, nid) if info else os.path.join(SEED, "w5-pending", nid)
        other = os.path.join(SEED, "w5-pending", nid) if info else os.path.join(SEED, nid)
        if os.path.isdir(other):
            shutil.rmtree(other)
        os.makedirs(dest, exist_ok=True)
        for f in ("patch.diff", "demo.diff", "NOTES.md"):
            if os.path.exists(os.path.join(d, f)):
                shutil.copy(os.path.join(d, f), os.path.join(dest, "README.md" if f == "NOTES.md" else f))
        title = ""
        n = os.path.join(d, "NOTES.md")
        if os.path.exists(n):
            title = open(n).readline().strip("# \n")
        files = re.findall(r"^diff --git a/(\S+)", open(os.path.join(d, "patch.diff")).read(), re.M)
        meta = {"id": nid, "agent_id": k, "property": k[:3],
                "origin": "fresh sub-agent given only the property text and a scratch worktree (wave 5)",
                "summary": title, "files_changed": files,
                "needs_to_manifest": "see README.md (the agent's notes: trigger section)",
                "confirmed_by_me": info if info else {"status": "NOT yet confirmed by me: " + why},
                "check_result": check_result(k)}
        json.dump(meta, open(os.path.join(dest, "meta.json"), "w"), indent=1)
        rows.append((nid, k, "confirmed" if info else "pending", meta["check_result"].get("result"), title))
    for r in rows:
        print(" | ".join(str(x) for x in r))


if __name__ == "__main__":
    main()
