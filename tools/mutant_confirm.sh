#!/bin/bash
# Development-time helper: confirm a seeded change myself in a scratch worktree.
#   tools/mutant_confirm.sh <worktree> <dir with patch.diff + demo.diff> <out.txt>
# 1. clean tree + demo  -> whole suite incl. the demo must pass
# 2. patch + demo       -> the demo test(s) must fail, every other test must pass
# Writes the per-binary "test result" lines and the FAILED test names of both runs to <out.txt>.
set -u
W=$1; D=$2; O=$3
export CARGO_TARGET_DIR=$W/target CARGO_NET_OFFLINE=true
reset() { git -C "$W" checkout -q -- . ; git -C "$W" clean -fdq -e target; }
run() { (cd "$W" && unshare -n sh -c "ip link set lo up; cargo test --workspace --no-fail-fast --offline" 2>&1) | grep -E '^test .*(FAILED|failed)|^test result|panicked at|error(\[|:)' | sort | uniq -c; }
reset
git -C "$W" apply "$D/demo.diff" || { echo "DEMO-DOES-NOT-APPLY" > "$O"; exit 2; }
{ echo "## clean tree + demo"; run; } > "$O"
git -C "$W" apply "$D/patch.diff" || { echo "PATCH-DOES-NOT-APPLY" >> "$O"; reset; exit 2; }
{ echo "## patch + demo"; run; } >> "$O"
reset
exit 0
