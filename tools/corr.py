#!/usr/bin/env python3
"""Debugging aid, not part of any registered check: run only the correspondence step of one
property (harness and driver as they are built now) and print the verdict tags per case.

  tools/corr.py <prop> [tier] [seed]
"""
import collections, importlib.machinery, importlib.util, os, re, sys

HERE = os.path.dirname(os.path.dirname(os.path.abspath(__file__)))
loader = importlib.machinery.SourceFileLoader("vcheck", os.path.join(HERE, "check"))
spec = importlib.util.spec_from_loader("vcheck", loader)
C = importlib.util.module_from_spec(spec)
loader.exec_module(C)

pid = sys.argv[1]
tier = sys.argv[2] if len(sys.argv) > 2 else "quick"
seed = int(sys.argv[3]) if len(sys.argv) > 3 else 1
verdicts, stats, summaries = C.correspondence(pid, tier, seed)
viol, known, div = C.classify(pid, verdicts)
cnt = collections.Counter()
for _, v in viol:
    m = re.search(r"case=(\S+)", v)
    cnt[(C.verdict_tag(v), m.group(1) if m else "-")] += 1
for (t, c), n in sorted(cnt.items()):
    print(f"{n:4d} {t} {c}")
print(f"violations={len(viol)} diverge={len(div)} known={sum(known.values())} evals={stats.get('evaluations', 0)}")
for _, v in div[:5]:
    print("DIV", v[:400])
