"""Per-property configuration for ./check (which Lean targets, which harness sub-commands)."""

PROPS = {
    "C12": {
        "runs": [{"vh": "topic", "shards_thorough": 16, "selftest": True}],
        "exhaustive_scope": True,
        "trusted_base": [
            "String model: Rust &str as List Char with str::len() = sum of Char.utf8Size; str::split('/') as Topic.splitLevels",
        ],
        "modelled": ["Rust std str::split / contains / starts_with semantics (tied by the exhaustive small-scope comparison)"],
        "assumptions": ["the three copies are compared with one model each on the same inputs; agreement of the copies is a by-product"],
    },
    "C13": {
        "runs": [{"vh": "clog", "shards_thorough": 16, "selftest": True}],
        "exhaustive_scope": True,
        "trusted_base": [
            "CommitLog model: Vec/VecDeque as List, u64/usize as Nat; every subtraction, index, slice, unwrap and the caller-controlled addition idx+len is an explicit panic result",
        ],
        "modelled": [
            "additions over the log's own counters (absolute offsets, segment ids, byte totals) are in Nat: they need about 2^63 appended entries or bytes to wrap",
            "allocation (Vec::with_capacity) is not modelled",
        ],
        "assumptions": [
            "readv takes &self, so interleavings of appends and reads are append sequences with reads at any moment (Reached quantifies over all of them)",
            "the read theorems assume |history| + n < 2^64 (the count cannot overflow u64); the unrestricted clause is refuted by C13.readv_panics_for_huge_count and recorded in KNOWN_FINDINGS",
        ],
    },
}
