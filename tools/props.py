"""Per-property configuration for ./check (which Lean targets, which harness sub-commands)."""

PROPS = {
    "C12": {
        "runs": [{"vh": "topic", "shards_thorough": 16, "selftest": True}],
        "exhaustive_scope": True,
        "trusted_base": [
            "String model: Rust &str as List Char with str::len() = sum of Char.utf8Size; str::split('/') as Topic.splitLevels",
        ],
        "modelled": ["Rust std str::split / contains / starts_with semantics (tied by the exhaustive small-scope comparison)"],
        "assumptions": ["the three copies are compared with one model each on the same inputs; agreement of the copies is a by-product"],
    },
    "C13": {
        "runs": [{"vh": "clog", "shards_thorough": 16, "selftest": True}],
        "exhaustive_scope": True,
        "trusted_base": [
            "CommitLog model: Vec/VecDeque as List, u64/usize as Nat; every subtraction, index, slice, unwrap and the caller-controlled addition idx+len is an explicit panic result",
        ],
        "modelled": [
            "additions over the log's own counters (absolute offsets, segment ids, byte totals) are in Nat: they need about 2^63 appended entries or bytes to wrap",
            "allocation (Vec::with_capacity) is not modelled",
        ],
        "assumptions": [
            "readv takes &self, so interleavings of appends and reads are append sequences with reads at any moment (Reached quantifies over all of them)",
            "the read theorems assume |history| + n < 2^64 (the count cannot overflow u64); the unrestricted clause is refuted by C13.readv_panics_for_huge_count and recorded in KNOWN_FINDINGS",
        ],
    },
    "C05": {
        "runs": [{"vh": "frame", "selftest": True, "shards_quick": 4, "shards_thorough": 16}],
        "exhaustive_scope": True,
        "trusted_base": [
            "Byte model: BytesMut as List UInt8, split_to(n) as (take n, drop n); usize arithmetic as Nat (no overflow possible: at most four 7-bit groups)",
            "Generated/Consts.lean: REMAINING_LIMIT_* and LEN_LEN_THRESHOLDS_* re-extracted from the four sources on every run (C05.generated_constants)",
            "packet body readers are NOT modelled (C04): every theorem is for an arbitrary body reader; in the correspondence the model's body parameter is instantiated with what the implementation's bare decoder answered per frame",
        ],
        "modelled": [
            "tokio_util Framed's read loop around Codec::decode/decode_eof (mirrored in the harness, real Codec called)",
            "tokio AsyncRead::read_buf chunk delivery (in-memory socket handing out one chunk per poll_read)",
            "BytesMut capacity/reserve behaviour (batch boundaries compared only for bursts <= 8000 bytes)",
        ],
        "assumptions": [
            "chunking independence and 'waits only while incomplete' are proved unconditionally for the v5 copies (c5, b5 seal a body reader's InsufficientBytes into MalformedPacket since 5359110) and, for the v4 copies (c4, b4 propagate the body reader's error unchanged), for body readers that never return InsufficientBytes (Honest) - true of the v4 readers by inspection (no length() call), watched by the monitor needmore-on-complete-frame",
            "never-panics of the whole decoders (body readers included) is decided by the correspondence under catch_unwind; for the framing/dispatch layer it is a theorem (decode1_never_panics; the b5 unreachable!() was repaired in c0aab5e)",
        ],
    },
    "C04": {
        "runs": [{"vh": "codec", "shards_thorough": 16, "max_parallel": 8, "selftest": True}],
        "generated_tables": True,
        "trusted_base": [
            "Packet values: one Lean type = union of the three Rust packet types; the field-wise maps struct <-> canonical text are harness/src/codec.rs (to_K / from_K), strings are byte lists with the executable validUtf8 predicate (tied to Rust std by every generated string)",
            "finite code tables (return / reason / QoS codes): tabulated by executing the real code (vh tables -> Generated/Tables.lean) and compared with the model by `decide` on every run; v5 property identifiers: compared exhaustively (256 ids x 13 positions x 2 copies) in the correspondence run",
        ],
        "modelled": ["bytes::BytesMut/Bytes buffer semantics (split_to, advance, put_*) as list operations", "Rust std String::from_utf8 acceptance (validUtf8)"],
        "assumptions": ["max packet size passed to the readers = 2^30; v5 client write with max_size None; two trailing bytes c0 00 follow every produced frame in the decoded stream",
                        "no known findings: the four defects this check found in the MQTT 5 codecs were repaired in /repo (c0aab5e, a5a3ef5, c89564d+95ce8d5, 86cba48, see KNOWN_FINDINGS.txt `fixed:`), the model follows the repaired code and the v5 theorems are stated at full strength"],
    },
    "C01": {
        "runs": [{"vh": "router", "shards_quick": 8, "driver": "router C01", "args": ["--profile", "c01"], "shards_thorough": 16, "selftest": True}],
        "trusted_base": ["Router model Model/Router/{Types,Step}.lean: one step = one Router::events(id, ev) or one Router::consume(); link-side pushes/drains are separate steps; Rust panic sites explicit (Fail.panic); HashMap iteration orders that are observable and the Random strategy's draw are oracle inputs recorded by hook H3 and checked for admissibility", "Monitors Model/Router/Monitors.lean (executable spec evaluated on the implementation's observable trace, using the model's ghost history, which is trustworthy while model and implementation agree on every output)"],
        "modelled": ['meters, alerts, tracing, print_status, tenant prefix, message expiry (generators keep expiry out of range)', 'thread interleavings inside one Router::consume() (link-side drain between two router-side lock acquisitions) are not generated: ops are atomic', "flume channel capacity of the router's event channel, parking_lot mutexes"],
        "assumptions": ["router driven single-threadedly through hooks H1-H3 (guard --cfg rumqtt_verif): Router::verif_events / verif_consume, link-side buffers via rumqttd::verif::new_buffers"],
    },
    "C03": {
        "runs": [{"vh": "router", "shards_quick": 8, "driver": "router C03", "args": ["--profile", "c03"], "shards_thorough": 16, "selftest": False}],
        "trusted_base": ["Router model Model/Router/{Types,Step}.lean: one step = one Router::events(id, ev) or one Router::consume(); link-side pushes/drains are separate steps; Rust panic sites explicit (Fail.panic); HashMap iteration orders that are observable and the Random strategy's draw are oracle inputs recorded by hook H3 and checked for admissibility", "Monitors Model/Router/Monitors.lean (executable spec evaluated on the implementation's observable trace, using the model's ghost history, which is trustworthy while model and implementation agree on every output)"],
        "modelled": ['meters, alerts, tracing, print_status, tenant prefix, message expiry (generators keep expiry out of range)', 'thread interleavings inside one Router::consume() (link-side drain between two router-side lock acquisitions) are not generated: ops are atomic', "flume channel capacity of the router's event channel, parking_lot mutexes"],
        "assumptions": ["router driven single-threadedly through hooks H1-H3 (guard --cfg rumqtt_verif): Router::verif_events / verif_consume, link-side buffers via rumqttd::verif::new_buffers"],
    },
    "C06": {
        "runs": [{"vh": "router", "shards_quick": 8, "driver": "router C06", "args": ["--profile", "c06"], "shards_thorough": 16, "selftest": False}],
        "trusted_base": ["Router model Model/Router/{Types,Step}.lean: one step = one Router::events(id, ev) or one Router::consume(); link-side pushes/drains are separate steps; Rust panic sites explicit (Fail.panic); HashMap iteration orders that are observable and the Random strategy's draw are oracle inputs recorded by hook H3 and checked for admissibility", "Monitors Model/Router/Monitors.lean (executable spec evaluated on the implementation's observable trace, using the model's ghost history, which is trustworthy while model and implementation agree on every output)"],
        "modelled": ['meters, alerts, tracing, print_status, tenant prefix, message expiry (generators keep expiry out of range)', 'thread interleavings inside one Router::consume() (link-side drain between two router-side lock acquisitions) are not generated: ops are atomic', "flume channel capacity of the router's event channel, parking_lot mutexes"],
        "assumptions": ["router driven single-threadedly through hooks H1-H3 (guard --cfg rumqtt_verif): Router::verif_events / verif_consume, link-side buffers via rumqttd::verif::new_buffers"],
    },
    "C08": {
        "runs": [{"vh": "router", "shards_quick": 8, "driver": "router C08", "args": ["--profile", "c08"], "shards_thorough": 16, "selftest": False}],
        "trusted_base": ["Router model Model/Router/{Types,Step}.lean: one step = one Router::events(id, ev) or one Router::consume(); link-side pushes/drains are separate steps; Rust panic sites explicit (Fail.panic); HashMap iteration orders that are observable and the Random strategy's draw are oracle inputs recorded by hook H3 and checked for admissibility", "Monitors Model/Router/Monitors.lean (executable spec evaluated on the implementation's observable trace, using the model's ghost history, which is trustworthy while model and implementation agree on every output)"],
        "modelled": ['meters, alerts, tracing, print_status, tenant prefix, message expiry (generators keep expiry out of range)', 'thread interleavings inside one Router::consume() (link-side drain between two router-side lock acquisitions) are not generated: ops are atomic', "flume channel capacity of the router's event channel, parking_lot mutexes"],
        "assumptions": ["router driven single-threadedly through hooks H1-H3 (guard --cfg rumqtt_verif): Router::verif_events / verif_consume, link-side buffers via rumqttd::verif::new_buffers"],
    },
    "C09": {
        "runs": [{"vh": "router", "shards_quick": 8, "driver": "router C09", "args": ["--profile", "c09"], "shards_thorough": 16, "selftest": False}],
        "trusted_base": ["Router model Model/Router/{Types,Step}.lean: one step = one Router::events(id, ev) or one Router::consume(); link-side pushes/drains are separate steps; Rust panic sites explicit (Fail.panic); HashMap iteration orders that are observable and the Random strategy's draw are oracle inputs recorded by hook H3 and checked for admissibility", "Monitors Model/Router/Monitors.lean (executable spec evaluated on the implementation's observable trace, using the model's ghost history, which is trustworthy while model and implementation agree on every output)"],
        "modelled": ['meters, alerts, tracing, print_status, tenant prefix, message expiry (generators keep expiry out of range)', 'thread interleavings inside one Router::consume() (link-side drain between two router-side lock acquisitions) are not generated: ops are atomic', "flume channel capacity of the router's event channel, parking_lot mutexes"],
        "assumptions": ["router driven single-threadedly through hooks H1-H3 (guard --cfg rumqtt_verif): Router::verif_events / verif_consume, link-side buffers via rumqttd::verif::new_buffers"],
    },
    "C14": {
        "runs": [{"vh": "router", "shards_quick": 8, "driver": "router C14", "args": ["--profile", "c14"], "shards_thorough": 16, "selftest": False}],
        "trusted_base": ["Router model Model/Router/{Types,Step}.lean: one step = one Router::events(id, ev) or one Router::consume(); link-side pushes/drains are separate steps; Rust panic sites explicit (Fail.panic); HashMap iteration orders that are observable and the Random strategy's draw are oracle inputs recorded by hook H3 and checked for admissibility", "Monitors Model/Router/Monitors.lean (executable spec evaluated on the implementation's observable trace, using the model's ghost history, which is trustworthy while model and implementation agree on every output)"],
        "modelled": ['meters, alerts, tracing, print_status, tenant prefix, message expiry (generators keep expiry out of range)', 'thread interleavings inside one Router::consume() (link-side drain between two router-side lock acquisitions) are not generated: ops are atomic', "flume channel capacity of the router's event channel, parking_lot mutexes"],
        "assumptions": ["router driven single-threadedly through hooks H1-H3 (guard --cfg rumqtt_verif): Router::verif_events / verif_consume, link-side buffers via rumqttd::verif::new_buffers"],
    },
    "C15": {
        "runs": [{"vh": "router", "shards_quick": 8, "driver": "router C15", "args": ["--profile", "c15"], "shards_thorough": 16, "selftest": False}],
        "trusted_base": ["Router model Model/Router/{Types,Step}.lean: one step = one Router::events(id, ev) or one Router::consume(); link-side pushes/drains are separate steps; Rust panic sites explicit (Fail.panic); HashMap iteration orders that are observable and the Random strategy's draw are oracle inputs recorded by hook H3 and checked for admissibility", "Monitors Model/Router/Monitors.lean (executable spec evaluated on the implementation's observable trace, using the model's ghost history, which is trustworthy while model and implementation agree on every output)"],
        "modelled": ['meters, alerts, tracing, print_status, tenant prefix, message expiry (generators keep expiry out of range)', 'thread interleavings inside one Router::consume() (link-side drain between two router-side lock acquisitions) are not generated: ops are atomic', "flume channel capacity of the router's event channel, parking_lot mutexes"],
        "assumptions": ["router driven single-threadedly through hooks H1-H3 (guard --cfg rumqtt_verif): Router::verif_events / verif_consume, link-side buffers via rumqttd::verif::new_buffers"],
    },
    "C16": {
        "runs": [{"vh": "router", "shards_quick": 8, "driver": "router C16", "args": ["--profile", "c16"], "shards_thorough": 16, "selftest": False}, {"vh": "stack", "driver": "stack C16", "args": ["--profile", "will"], "shards_thorough": 8}],
        "lean_extra_targets": ["Proofs.Props.C16srv"],
        "trusted_base": ["Router model Model/Router/{Types,Step}.lean: one step = one Router::events(id, ev) or one Router::consume(); link-side pushes/drains are separate steps; Rust panic sites explicit (Fail.panic); HashMap iteration orders that are observable and the Random strategy's draw are oracle inputs recorded by hook H3 and checked for admissibility", "Monitors Model/Router/Monitors.lean (executable spec evaluated on the implementation's observable trace, using the model's ghost history, which is trustworthy while model and implementation agree on every output)"],
        "modelled": ['meters, alerts, tracing, print_status, tenant prefix, message expiry (generators keep expiry out of range)', 'thread interleavings inside one Router::consume() (link-side drain between two router-side lock acquisitions) are not generated: ops are atomic', "flume channel capacity of the router's event channel, parking_lot mutexes"],
        "assumptions": ["router driven single-threadedly through hooks H1-H3 (guard --cfg rumqtt_verif): Router::verif_events / verif_consume, link-side buffers via rumqttd::verif::new_buffers"],
    },
    "C17": {
        "runs": [{"vh": "router", "shards_quick": 8, "driver": "router C17", "args": ["--profile", "c17"], "shards_thorough": 16, "selftest": False}],
        "trusted_base": ["Router model Model/Router/{Types,Step}.lean: one step = one Router::events(id, ev) or one Router::consume(); link-side pushes/drains are separate steps; Rust panic sites explicit (Fail.panic); HashMap iteration orders that are observable and the Random strategy's draw are oracle inputs recorded by hook H3 and checked for admissibility", "Monitors Model/Router/Monitors.lean (executable spec evaluated on the implementation's observable trace, using the model's ghost history, which is trustworthy while model and implementation agree on every output)"],
        "modelled": ['meters, alerts, tracing, print_status, tenant prefix, message expiry (generators keep expiry out of range)', 'thread interleavings inside one Router::consume() (link-side drain between two router-side lock acquisitions) are not generated: ops are atomic', "flume channel capacity of the router's event channel, parking_lot mutexes"],
        "assumptions": ["router driven single-threadedly through hooks H1-H3 (guard --cfg rumqtt_verif): Router::verif_events / verif_consume, link-side buffers via rumqttd::verif::new_buffers"],
    },
    "C19": {
        "runs": [{"vh": "router", "shards_quick": 8, "driver": "router C19", "args": ["--profile", "c19"], "shards_thorough": 16, "selftest": False}, {"vh": "admit", "selftest": True, "shards_thorough": 8}, {"vh": "stack", "driver": "stack C19", "args": ["--profile", "c19"], "shards_thorough": 8}],
        "lean_extra_targets": ["Proofs.Props.C19net"],
        "trusted_base": ["Router model Model/Router/{Types,Step}.lean: one step = one Router::events(id, ev) or one Router::consume(); link-side pushes/drains are separate steps; Rust panic sites explicit (Fail.panic); HashMap iteration orders that are observable and the Random strategy's draw are oracle inputs recorded by hook H3 and checked for admissibility", "Monitors Model/Router/Monitors.lean (executable spec evaluated on the implementation's observable trace, using the model's ghost history, which is trustworthy while model and implementation agree on every output)"],
        "modelled": ['meters, alerts, tracing, print_status, tenant prefix, message expiry (generators keep expiry out of range)', 'thread interleavings inside one Router::consume() (link-side drain between two router-side lock acquisitions) are not generated: ops are atomic', "flume channel capacity of the router's event channel, parking_lot mutexes"],
        "assumptions": ["router driven single-threadedly through hooks H1-H3 (guard --cfg rumqtt_verif): Router::verif_events / verif_consume, link-side buffers via rumqttd::verif::new_buffers"],
    },
    "C18": {
        # one run serves C18 and (until they are attached to C02/C07/C10/C11) the loop-level clauses:
        # `--profile c18` = keep-alive / zero / connection-timeout schedules, `--profile loop` = scripted
        # sessions x every cut position; no profile = both
        "runs": [{"vh": "cloop", "selftest": True, "shards_thorough": 16, "max_parallel": 6},
                 # state-machine run: the ping bookkeeping of MqttState (await_pingresp across collisions, acks,
                 # clean()) compared with the model op by op; monitor c18-ping-forgiven (wave-5 change C18-5)
                 {"vh": "cstate", "driver": "cstate-C18", "args": ["--focus", "C18"], "only_tags": "^(c18-ping-forgiven|impl-panic)$", "shards_thorough": 8}],
        "lean_extra_targets": ["Proofs.Props.CLoop"],
        "trusted_base": [
            "Timer model: time as Nat milliseconds = tokio's paused clock; `Timely` (a due timer fires before time moves on, the application keeps polling) is a hypothesis of ping_period / silent_broker_detected / connect_timeout",
            "the real EventLoop (v4 and v5) runs over tokio::io::duplex through hook H5 on a current-thread runtime with start_paused(true); the harness never sleeps on real time and runs every non-racing schedule twice (transcripts must be identical)",
            "MqttState is abstract in the loop model (StateOps); the driver predicts the wire with a small stand-in (Driver/CLoopD.lean, `Mini`: id allocation, window, collision slot, clean() order of the repaired state.rs / v5/state.rs) that no theorem depends on",
        ],
        "modelled": [
            "tokio's timer accuracy on a real clock and select! fairness under load are runtime behaviour the model cannot exhibit: simultaneity is an oracle (either order accepted), lateness is excluded by `Timely`",
            "flume channel internals and capacity, TCP/TLS/websocket transports, Framed's byte-level buffering (frames are packets here; codecs are C04/C05)",
        ],
        "assumptions": [
            "keep-alive values are whole seconds (v4 setter: 0 or >= 1 s, v5 setter: >= 5 s; v5 server_keep_alive any u16)",
            "an answer at exactly t+k is outside the hypothesis of no_false_alarm (both outcomes are accepted and recorded)",
            "request classification in the loop model: a carried-over request is a retransmission iff it owns a packet id (Publish with pkid != 0, PubRel); everything else in `pending` is a new request and obeys flow control like the channel",
        ],
    },
    "C20": {
        "runs": [{"vh": "stack", "driver": "stack C20", "args": ["--profile", "c20"], "selftest": True, "shards_thorough": 8}],
        "trusted_base": ["Admission model Model/Admission.lean (mqtt_connect + handle_auth on top of the codec model of the listener's decoder; external callback = parameter), spec Model/AdmissionSpec.lean", 'Server will model Model/ServerWill.lean (will-handler map, Fire/Cancel, will delay; Rust panics explicit), Encode model Model/Encode.lean (Notification -> Packet -> V4/V5::write via the codec model)', "Packet-level stack model Model/Stack.lean composed from these (used only for the correspondence); monitors in Driver/StackD.lean are written against the property text and evaluated on the implementation's observables", 'vh stack: real per-connection tasks (hook H4 verif_remote) + real router thread over tokio::io::duplex, client side = rumqttc v4/v5 codecs; paused clock with auto-advance inhibited, outcomes observed as events (bytes, EOF, JoinHandle), barrier = two PINGREQ/PINGRESP rounds; every scripted case executed twice, transcripts must be equal'],
        "modelled": ["tokio scheduling and timer accuracy (virtual time), flume channels, the router thread's interleaving with the connection tasks (ops are serialised by protocol-level barriers)", 'TLS / websocket listeners, tenant prefixes, uuid generation (assigned client ids masked)', 'QoS 2, retained messages, shared subscriptions and redelivery to resumed sessions are outside the stack scenarios (router-level checks cover them)'],
        "assumptions": ["Emittable: value ranges of the Rust field types (u16 packet ids and aliases, subscription ids within the variable-byte limit, topic through a 16-bit length prefix) and frames within the MQTT size limit; towards a v4 connection no broker alias / subscription id exists (they come from MQTT 5 CONNECT / SUBSCRIBE properties)",
                        "no known findings: the two defects this check found (V4::write unreachable!() on a PUBLISH with properties; broker topic alias keyed by a wildcard filter) were repaired in /repo (KNOWN_FINDINGS.txt `fixed:`), the models follow the repaired code (V4::write drops the properties; aliases only for filters without wildcards) and both clauses are proved at full strength (C20.router_emits_encodable_v4, C20.aliased_forwards_keep_topic)"],
    },
}

_CSTATE_TB = [
    "Client state model: rumqttc::MqttState (v4) and rumqttc::v5::MqttState as one Lean model (Model/Client/State.lean) with a Version parameter; u16 counters as Nat with explicit overflow/underflow panics; FixedBitSet as List Bool / List Nat; the v4 send stamps (outgoing_order / outgoing_count) as List Nat / Nat",
    "Loop model (Model/Client/StateLoop.lean): only the request gate of select! (pending_ready: a head of pending that owns a packet id is never held back, one without obeys flow control), next_request's preference for pending, EventLoop::clean (state.clean() in front of the waiting rest) and pending.clear(); the ghost wire view and the monitors (Model/Client/Spec.lean) read observations only",
]
_CSTATE_MOD = ["std::collections::VecDeque / Vec / HashMap semantics, Vec::sort_by_key (stable)", "fixedbitset 0.5.7 (insert panics out of bounds, contains returns false) — tied by the correspondence incl. an out-of-range pubrel case",
               "tokio / flume / the real EventLoop (poll, reconnect, timers, channel): NOT exercised by this sub-command — cloop slice"]

# the event-loop clause of each of these properties is judged on the real EventLoop by `vh cloop
# --profile loop` (scripted sessions x every cut position); only the monitor tags of that clause count
_LOOP_TAGS = {"C02": "^(loop-lost|harness-nondeterministic|impl-panic)$", "C07": "^(loop-gate|harness-nondeterministic|impl-panic)$",
              "C10": "^(loop-batch-order|harness-nondeterministic|impl-panic)$", "C11": "^(loop-order|loop-nosession|harness-nondeterministic|impl-panic)$"}

def _cstate(pid, extra_assume):
    return {
        "runs": [{"vh": "cstate", "driver": "cstate-" + pid, "args": ["--focus", pid], "selftest": True, "shards_thorough": 8},
                 {"vh": "cloop", "driver": "cloop", "args": ["--profile", "loop"], "only_tags": _LOOP_TAGS[pid]}],
        "lean_extra_targets": ["Proofs.Props.CLoop"],
        "exhaustive_scope": True,
        "trusted_base": _CSTATE_TB,
        "modelled": _CSTATE_MOD,
        "assumptions": [
            "theorems quantify over all op sequences of the loop-use model lstep (user requests only through the gate, head of pending first when pending_ready, pings and incoming packets ungated, failure = clean, session not resumed = pending.clear()), all max in 1..65535, manual acks on/off, both versions; outgoing publishes of the theorems carry no topic alias",
            "the harness drives MqttState directly (also ungated and with injected requests); clauses that presuppose the loop's discipline are judged only on traces that respected it (ghost flag gated: fresh requests through the gate, replays = head of pending, an unnumbered head only while the window is open)",
            "MQTT 5: the theorems that depend on the negotiated limit exclude runs in which a CONNACK lowers Receive Maximum under what is outstanding or waiting in pending (#17 residual; KNOWN_FINDINGS.txt)",
        ] + extra_assume,
    }

PROPS["C07"] = _cstate("C07", ["event-loop part (EventLoop::poll really applying the gate, requests drained from the channel into pending bypassing it) not covered: cloop slice"])
PROPS["C02"] = _cstate("C02", ["state part only: accepted\\done ⊆ held and clean() exactness; that poll() retransmits pending after a reconnect with session_present is NOT covered here: cloop slice"])
PROPS["C10"] = _cstate("C10", ["state part only: readb batching and what poll() yields are not covered here: cloop slice"])
PROPS["C11"] = _cstate("C11", ["state part only: order and content of clean() and of replayed requests, order of pending across failures; that pending is written before later requests belongs to the cloop slice"])
