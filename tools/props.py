"""Per-property configuration for ./check (which Lean targets, which harness sub-commands)."""

PROPS = {
    "C12": {
        "runs": [{"vh": "topic", "shards_thorough": 16, "selftest": True}],
        "exhaustive_scope": True,
        "trusted_base": [
            "String model: Rust &str as List Char with str::len() = sum of Char.utf8Size; str::split('/') as Topic.splitLevels",
        ],
        "modelled": ["Rust std str::split / contains / starts_with semantics (tied by the exhaustive small-scope comparison)"],
        "assumptions": ["the three copies are compared with one model each on the same inputs; agreement of the copies is a by-product"],
    },
}
