#!/usr/bin/env python3
"""Debugging aid, not part of any registered check: cut one case out of a kept line file, shrink it
for one monitor tag and print what is left.

  tools/triage.py <prop> <lines file> <case id> <tag> [budget seconds] [regex on the verdict]
"""
import importlib.machinery, importlib.util, os, sys

HERE = os.path.dirname(os.path.dirname(os.path.abspath(__file__)))
loader = importlib.machinery.SourceFileLoader("vcheck", os.path.join(HERE, "check"))
spec = importlib.util.spec_from_loader("vcheck", loader)
C = importlib.util.module_from_spec(spec)
loader.exec_module(C)


def main():
    pid, lines, case, tag = sys.argv[1:5]
    budget = int(sys.argv[5]) if len(sys.argv) > 5 else 300
    if len(sys.argv) > 6:
        # only verdicts whose text matches this regex count as "the" failure
        import re
        rx, orig = re.compile(sys.argv[6]), C.verdict_tag
        C.verdict_tag = lambda v: orig(v) if rx.search(v) else "other"
    run = [r for r in C.PROPS[pid]["runs"] if r["vh"].split()[0] == "router"][0]
    ops = C.case_ops(lines, case)
    # cut at the first op at which the tag fires
    opsf = os.path.join(C.WORK, f"{pid}.triage.ops")
    open(opsf, "w").write("\n".join(ops) + "\n")
    r = C.run_one(pid, run, "quick", 1, replay=opsf)
    cut = None
    for v in r["verdicts"]:
        if C.verdict_tag(v) == tag:
            cut = int(v.split("line=")[1].split()[0])
            break
    if cut is None:
        print("tag does not fire on the extracted case; verdicts:", [v[:200] for v in r["verdicts"]][:5])
        return 1
    ops = ops[: cut + 1]
    print(f"case has {len(ops)} ops up to the failing one; shrinking ({budget}s)")
    ops = C.shrink(pid, run, ops, tag, budget)
    out = os.path.join(C.WORK, f"{pid}.{case}.{tag}.ops")
    open(out, "w").write("\n".join(ops) + "\n")
    print(f"{len(ops)} ops left: {out}")
    return 0


if __name__ == "__main__":
    sys.exit(main())
