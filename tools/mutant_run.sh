#!/bin/bash
# Development-time helper (not a registered command): run the registered quick check of a property
# against a scratch worktree of /repo with a seeded change applied, from a scratch copy of /verif
# (so that /verif/evidence and /verif/lean/Generated are never touched by a mutated tree).
#
#   tools/mutant_run.sh <slot> <property> <patch.diff> [extra ./check args]
#
# <slot> names the scratch copy (/root/work/mt-<slot>: copy of /verif incl. build output, harness
# pointed at /root/work/mt-<slot>-repo, a detached worktree of /repo's HEAD). The patch is applied,
# the check is run, the patch is undone. Output: the check's stdout/stderr; exit code = the check's.
set -u
slot=$1; prop=$2; patch=$3; shift 3
V=/root/work/mt-$slot
R=/root/work/mt-$slot-repo
mkdir -p /root/work
if [ ! -d "$R" ]; then
  git -C /repo worktree add -q --detach "$R" HEAD || exit 3
fi
if [ ! -d "$V" ]; then
  rsync -a --exclude .git /verif/ "$V"/ || exit 3
  sed -i "s|/repo/rumqtt|$R/rumqtt|g" "$V/harness/Cargo.toml"
fi
# keep machinery in sync with /verif (sources only; build output stays)
rsync -a --exclude .git --exclude 'lean/.lake' --exclude 'harness/target' --exclude 'harness/Cargo.toml' \
      --exclude 'evidence' --exclude 'lean/Generated' /verif/ "$V"/
git -C "$R" checkout -q -- . && git -C "$R" clean -fdq -e target
git -C "$R" checkout -q --detach "$(git -C /repo rev-parse HEAD)"
if [ "$patch" != "-" ]; then
  git -C "$R" apply "$patch" || { echo "PATCH-DOES-NOT-APPLY"; exit 4; }
fi
cd "$V" && VERIF_REPO="$R" timeout 3000 ./check "$prop" "$@"
rc=$?
git -C "$R" checkout -q -- . && git -C "$R" clean -fdq -e target
exit $rc
