import Proofs.Lemmas.Router.Reach
open Router

def cfg : Config := ⟨10, 1024, 2, 10, .roundRobin⟩

def pubX : Pub := ⟨0, 0, false, false, "t".toUTF8.toList, [120], none, [], false⟩

def ops : List (Op × List Choice) :=
  [(.connect ⟨0, "a", false, false, 0, none⟩, []),
   (.connect ⟨1, "b", true, false, 0, none⟩, []),
   (.connect ⟨2, "p", true, false, 0, none⟩, []),
   (.push 0 (.subscribe 1 none [⟨"$share/g/t", 1⟩]), []), (.event 0 .deviceData, []),
   (.push 1 (.subscribe 1 none [⟨"$share/g/t", 1⟩]), []), (.event 1 .deviceData, []),
   (.consume, []), (.consume, []), (.consume, []), (.consume, []), (.consume, []), (.consume, []),
   (.push 2 (.publish pubX), []), (.event 2 .deviceData, [.matches [0]]),
   (.consume, []), (.consume, []), (.consume, []), (.consume, []), (.consume, []), (.consume, []),
   (.event 0 .disconnect, [])]

def showState (s : RState) : String :=
  let conns := (List.range 3).map (fun i => match getConn s i with
    | some c => s!"{i}:{c.clientId} status={repr c.tracker.status} reqs={repr (c.tracker.requests.map (fun (r : DataRequest) => (r.filter, r.cursor)))} inflight={repr c.out.inflight}"
    | none => s!"{i}:-")
  let logs := s.datalog.native.map (fun fd => s!"{fd.filter}: next={repr fd.log.nextOffset} waiters={repr (fd.waiters.map (fun w => (w.1, w.2.filter, w.2.cursor)))}")
  let groups := s.shared.map (fun p => s!"{p.1}: clients={p.2.clients} idx={p.2.idx} cursor={repr p.2.cursor}")
  s!"conns={conns}\nlogs={logs}\ngroups={groups}\nrq={s.readyqueue} notifs={s.notifications.length}\ngraveyard={repr (s.graveyard.map (fun p => (p.1, p.2.map (fun ss => ss.tracker.requests.map (fun r => (r.filter, r.cursor))))))}"

def runShow (n : Nat) : String :=
  match run (init cfg) (ops.take n) with
  | .ok s => showState s
  | .error e => s!"ERROR {repr e}"

#eval IO.println (runShow 15)
#eval IO.println (runShow 21)
#eval IO.println (runShow 22)
