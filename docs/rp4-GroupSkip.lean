import Proofs.Lemmas.Router.Reach
open Router

def cfgRR : Config := ⟨10, 1024, 2, 10, .roundRobin⟩
def pubT (b : UInt8) : Pub := ⟨0, 0, false, false, "t".toUTF8.toList, [b], none, [], false⟩

def showState (s : RState) : String :=
  let conns := (List.range 4).map (fun i => match getConn s i with
    | some c => s!"{i}:{c.clientId} status={repr c.tracker.status} reqs={repr (c.tracker.requests.map (fun (r : DataRequest) => (r.filter, r.cursor)))} inflight={repr c.out.inflight}"
    | none => s!"{i}:-")
  let logs := s.datalog.native.map (fun (fd : FilterData) => s!"{fd.filter}: next={repr fd.log.nextOffset} waiters={repr (fd.waiters.map (fun (w : Nat × DataRequest) => (w.1, w.2.filter, w.2.cursor)))}")
  let groups := s.shared.map (fun (p : String × SharedGroup) => s!"{p.1}: clients={p.2.clients} idx={p.2.idx} cursor={repr p.2.cursor}")
  s!"conns={conns}\nlogs={logs}\ngroups={groups}\nrq={s.readyqueue} notifs={s.notifications.length}\ngraveyard={repr (s.graveyard.map (fun (p : String × Option SessionState) => (p.1, p.2.map (fun ss => ss.tracker.requests.map (fun (r : DataRequest) => (r.filter, r.cursor))))))}\nlinks={repr (s.links.map (fun (l : LinkBuf) => l.obuf.filterMap (fun n => match n with | .forward p c => some (p.pkid, c) | _ => none)))}"

def runShow (cfg : Config) (ops : List (Op × List Choice)) (n : Nat) : String :=
  match run (init cfg) (ops.take n) with
  | .ok s => showState s
  | .error e => s!"ERROR {repr e}"
open Router
-- a has BOTH a plain subscription `t` and a shared one `$share/g/t` (same log); does the rewind move the group forward?
def ops : List (Op × List Choice) :=
  [(.connect ⟨0, "a", false, false, 0, none⟩, []),
   (.connect ⟨1, "b", true, false, 0, none⟩, []),
   (.connect ⟨2, "p", true, false, 0, none⟩, []),
   (.push 0 (.subscribe 1 none [⟨"t", 1⟩, ⟨"$share/g/t", 1⟩]), []), (.event 0 .deviceData, []),
   (.push 1 (.subscribe 1 none [⟨"$share/g/t", 1⟩]), []), (.event 1 .deviceData, []),
   (.consume, [.retained []]), (.consume, []), (.consume, []), (.consume, []), (.consume, []), (.consume, []),
   (.push 2 (.publish (pubT 1)), []), (.push 2 (.publish (pubT 2)), []), (.push 2 (.publish (pubT 3)), []),
   (.event 2 .deviceData, [.matches [0]]),
   (.consume, []),
   (.push 0 (.puback 1), []), (.push 0 (.puback 2), []), (.event 0 .deviceData, []),
   (.event 0 .disconnect, []),
   (.consume, []), (.consume, []), (.consume, []), (.consume, [])]
#eval IO.println (runShow cfgRR ops 17)
#eval IO.println "----- after first consume (a)"
#eval IO.println (runShow cfgRR ops 18)
#eval IO.println "----- after a acked 1,2"
#eval IO.println (runShow cfgRR ops 21)
#eval IO.println "----- after disconnect of a"
#eval IO.println (runShow cfgRR ops 22)
#eval IO.println "----- after consumes"
#eval IO.println (runShow cfgRR ops 26)
