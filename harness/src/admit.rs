//! C19 (network part): the real `rumqttd::verif::mqtt_connect` (+ `handle_auth`) over an in-memory
//! duplex stream, one first packet per op.
//!
//! Line:  `adm <4|5> <auth> <first bytes: hex> <eof|idle> => <bytes written back: hex> <class> [<ctf of the returned CONNECT>]`
//!   <4|5>   protocol of the listener (`V4` / `V5` decoder and encoder)
//!   <auth>  `none` | `static:<pairs>` | `ext:<pair>[@<cid>]` | `both:<pairs>|<pair>[@<cid>]`
//!           <pairs> = `.` (an empty map) | `<user hex>=<password hex>{,<user hex>=<password hex>}`
//!           `ext`: the external callback returns true exactly for this (user, password) pair (and,
//!           if `@<cid hex>` is given, this client id)
//!   tail    what the peer does after the bytes: `eof` = half-closes its side, `idle` = stays silent
//!           (the connection timeout then fires under paused tokio time; no real sleeping)
//!   class   `ok` | `notconnect` | `network` (decoder error) | `io` | `timeout` | `zerokeepalive` |
//!           `invalidclientid` | `invalidauth` | `PANIC`
//! Every op runs on a fresh current-thread runtime with paused time; no threads, no sockets.
use crate::codec::{ctf, kb};
use crate::util::*;
use rumqttd::protocol::v4::V4;
use rumqttd::protocol::v5::V5;
use rumqttd::protocol::Protocol;
use rumqttd::verif::{mqtt_connect, Network};
use rumqttd::ConnectionSettings;
use std::collections::HashMap;
use std::io::Write;
use std::sync::Arc;
use tokio::io::{AsyncReadExt, AsyncWriteExt};

pub const CONNECTION_TIMEOUT_MS: u16 = 100;
pub const MAX_PAYLOAD: usize = 2048;

fn hexs(b: &[u8]) -> String {
    hex(b)
}

fn parse_pairs(s: &str) -> Vec<(Vec<u8>, Vec<u8>)> {
    if s == "." {
        return vec![];
    }
    s.split(',')
        .map(|p| {
            let mut it = p.split('=');
            (unhex(it.next().unwrap()), unhex(it.next().unwrap()))
        })
        .collect()
}

fn st(b: &[u8]) -> String {
    String::from_utf8(b.to_vec()).expect("auth strings are utf8")
}

/// `ConnectionSettings` for an `<auth>` token
pub fn settings(auth: &str, dynamic_filters: bool) -> ConnectionSettings {
    let mut cfg = ConnectionSettings {
        connection_timeout_ms: CONNECTION_TIMEOUT_MS,
        max_payload_size: MAX_PAYLOAD,
        max_inflight_count: 100,
        auth: None,
        external_auth: None,
        dynamic_filters,
    };
    let set_static = |cfg: &mut ConnectionSettings, s: &str| {
        let mut m = HashMap::new();
        for (u, p) in parse_pairs(s) {
            m.insert(st(&u), st(&p));
        }
        cfg.auth = Some(m);
    };
    let set_ext = |cfg: &mut ConnectionSettings, s: &str| {
        let (pair, cid) = match s.split_once('@') {
            Some((p, c)) => (p, Some(st(&unhex(c)))),
            None => (s, None),
        };
        let (u, p) = parse_pairs(pair).pop().expect("ext pair");
        let (u, p) = (st(&u), st(&p));
        cfg.set_auth_handler(move |client_id: String, user: String, pass: String| {
            let ok = user == u && pass == p && cid.as_ref().map(|c| *c == client_id).unwrap_or(true);
            async move { ok }
        });
    };
    if auth == "none" {
    } else if let Some(s) = auth.strip_prefix("static:") {
        set_static(&mut cfg, s);
    } else if let Some(s) = auth.strip_prefix("ext:") {
        set_ext(&mut cfg, s);
    } else if let Some(s) = auth.strip_prefix("both:") {
        let (a, b) = s.split_once('|').expect("both:<pairs>|<pair>");
        set_static(&mut cfg, a);
        set_ext(&mut cfg, b);
    } else {
        panic!("bad auth token {auth}");
    }
    cfg
}

fn classify(dbg: &str) -> &'static str {
    if dbg.starts_with("ZeroKeepAlive") {
        "zerokeepalive"
    } else if dbg.starts_with("NotConnectPacket") {
        "notconnect"
    } else if dbg.starts_with("Network(Io") || dbg.starts_with("Io(") {
        "io"
    } else if dbg.starts_with("Network(KeepAlive") {
        "keepalive"
    } else if dbg.starts_with("Network(") {
        "network"
    } else if dbg.starts_with("Timeout") {
        "timeout"
    } else if dbg.starts_with("InvalidClientId") {
        "invalidclientid"
    } else if dbg.starts_with("InvalidAuth") {
        "invalidauth"
    } else {
        "other"
    }
}

async fn one<P: Protocol + Send + 'static>(cfg: ConnectionSettings, proto: P, lvl: u8, bytes: Vec<u8>, eof: bool) -> String {
    let (mut client, server) = tokio::io::duplex(1 << 16);
    let cfg = Arc::new(cfg);
    let task = tokio::spawn(async move {
        let mut network = Network::new(Box::new(server), cfg.max_payload_size, cfg.max_inflight_count, proto);
        let r = mqtt_connect(cfg, &mut network).await;
        match r {
            Ok(p) => format!("ok {}", ctf(&kb::from(&p, lvl))),
            Err(e) => classify(&format!("{e:?}")).to_string(),
        }
        // `network` (and with it the server end of the stream) is dropped here
    });
    client.write_all(&bytes).await.unwrap();
    if eof {
        client.shutdown().await.unwrap();
    }
    // the outcome is an event: completion of the task (the connection timeout is a paused-clock
    // timer that tokio fires as soon as every task is idle)
    let res = match task.await {
        Ok(s) => s,
        Err(_) => "PANIC".to_string(),
    };
    let mut back = vec![];
    client.read_to_end(&mut back).await.unwrap();
    format!("{} {}", hexs(&back), res)
}

pub fn exec(op: &str) -> String {
    let t: Vec<&str> = op.split_whitespace().collect();
    if t.len() != 5 || t[0] != "adm" {
        return "bad".into();
    }
    let cfg = settings(t[2], false);
    let bytes = unhex(t[3]);
    let eof = t[4] == "eof";
    let rt = tokio::runtime::Builder::new_current_thread().enable_time().start_paused(true).build().unwrap();
    match t[1] {
        "4" => rt.block_on(one(cfg, V4, 4, bytes, eof)),
        _ => rt.block_on(one(cfg, V5, 5, bytes, eof)),
    }
}

// ---------------------------------------------------------------------------------- generators

fn put_str(o: &mut Vec<u8>, s: &[u8]) {
    o.extend_from_slice(&(s.len() as u16).to_be_bytes());
    o.extend_from_slice(s);
}

pub fn varint(mut x: usize) -> Vec<u8> {
    let mut o = vec![];
    loop {
        let mut b = (x % 128) as u8;
        x /= 128;
        if x > 0 {
            b |= 128;
        }
        o.push(b);
        if x == 0 {
            return o;
        }
    }
}

pub fn frame(byte1: u8, body: &[u8]) -> Vec<u8> {
    let mut o = vec![byte1];
    o.extend(varint(body.len()));
    o.extend_from_slice(body);
    o
}

#[derive(Clone)]
pub struct Conn<'a> {
    pub v5body: bool,
    pub name: &'a [u8],
    pub level: u8,
    pub keep_alive: u16,
    pub client_id: &'a [u8],
    pub clean: bool,
    /// (topic, message, qos, retain, raw will property bytes (v5 body only))
    pub will: Option<(&'a [u8], &'a [u8], u8, bool, Vec<u8>)>,
    pub user: Option<&'a [u8]>,
    pub pass: Option<&'a [u8]>,
    /// raw connect property bytes (v5 body only)
    pub props: Vec<u8>,
    pub reserved_flag: bool,
}

impl<'a> Conn<'a> {
    pub fn new(v5body: bool, level: u8, client_id: &'a [u8]) -> Conn<'a> {
        Conn {
            v5body,
            name: b"MQTT",
            level,
            keep_alive: 10,
            client_id,
            clean: true,
            will: None,
            user: None,
            pass: None,
            props: vec![],
            reserved_flag: false,
        }
    }
    pub fn bytes(&self) -> Vec<u8> {
        let mut b = vec![];
        put_str(&mut b, self.name);
        b.push(self.level);
        let mut flags = 0u8;
        if self.reserved_flag {
            flags |= 1;
        }
        if self.clean {
            flags |= 2;
        }
        if let Some((_, _, q, r, _)) = &self.will {
            flags |= 4 | (q << 3) | ((*r as u8) << 5);
        }
        if self.pass.is_some() {
            flags |= 0x40;
        }
        if self.user.is_some() {
            flags |= 0x80;
        }
        b.push(flags);
        b.extend_from_slice(&self.keep_alive.to_be_bytes());
        if self.v5body {
            b.extend(varint(self.props.len()));
            b.extend_from_slice(&self.props);
        }
        put_str(&mut b, self.client_id);
        if let Some((t, m, _, _, wp)) = &self.will {
            if self.v5body {
                b.extend(varint(wp.len()));
                b.extend_from_slice(wp);
            }
            put_str(&mut b, t);
            put_str(&mut b, m);
        }
        if let Some(u) = self.user {
            put_str(&mut b, u);
        }
        if let Some(p) = self.pass {
            put_str(&mut b, p);
        }
        frame(0x10, &b)
    }
}

const AUTHS: [&str; 9] = [
    "none",
    "static:75=70",                 // {u -> p}
    "static:75=70,76=71",           // {u -> p, v -> q}
    "static:.",                     // Some(empty map)
    "ext:75=70",                    // callback accepts (u, p)
    "ext:75=70@63",                 // callback accepts (u, p) for client id "c" only
    "both:78=79|75=70",             // static {x -> y}, callback accepts (u, p): callback decides
    "both:75=70|78=79",             // static {u -> p}, callback accepts (x, y) only
    "static:75=",                   // {u -> ""}
];

/// (user, password) field combinations of the CONNECT
fn logins() -> Vec<(Option<&'static [u8]>, Option<&'static [u8]>, &'static str)> {
    vec![
        (None, None, "absent"),
        (Some(b"u"), Some(b"p"), "right"),
        (Some(b"u"), Some(b"P"), "wrong-pass"),
        (Some(b"U"), Some(b"p"), "wrong-user"),
        (Some(b"v"), Some(b"q"), "second"),
        (Some(b"x"), Some(b"y"), "xy"),
        (Some(b"u"), None, "user-only"),
        (None, Some(b"p"), "pass-only"),
        (Some(b""), Some(b""), "both-empty"),
        (Some(b"u"), Some(b""), "empty-pass"),
        (Some(b"u"), Some(b"pp"), "longer-pass"),
    ]
}

const IDS: [&[u8]; 10] = [b"", b"c", b"a+b", b"a$b", b"a#", b"a/b", b"+", "é".as_bytes(), b"client-0123456789", b"\xff\xfe"];

fn other_first_packets() -> Vec<(String, Vec<u8>)> {
    let mut v: Vec<(String, Vec<u8>)> = vec![];
    let push = |v: &mut Vec<(String, Vec<u8>)>, n: &str, b: Vec<u8>| v.push((n.to_string(), b));
    push(&mut v, "empty", vec![]);
    push(&mut v, "connack4", vec![0x20, 0x02, 0x00, 0x00]);
    push(&mut v, "connack5", vec![0x20, 0x03, 0x00, 0x00, 0x00]);
    push(&mut v, "publish4", vec![0x30, 0x04, 0x00, 0x01, b'a', b'x']);
    push(&mut v, "publish5", vec![0x30, 0x05, 0x00, 0x01, b'a', 0x00, b'x']);
    push(&mut v, "publish-q1", vec![0x32, 0x06, 0x00, 0x01, b'a', 0x00, 0x01, b'x']);
    push(&mut v, "puback", vec![0x40, 0x02, 0x00, 0x01]);
    push(&mut v, "pubrec", vec![0x50, 0x02, 0x00, 0x01]);
    push(&mut v, "pubrel", vec![0x62, 0x02, 0x00, 0x01]);
    push(&mut v, "pubcomp", vec![0x70, 0x02, 0x00, 0x01]);
    push(&mut v, "subscribe4", vec![0x82, 0x06, 0x00, 0x01, 0x00, 0x01, b'a', 0x00]);
    push(&mut v, "subscribe5", vec![0x82, 0x07, 0x00, 0x01, 0x00, 0x00, 0x01, b'a', 0x00]);
    push(&mut v, "suback4", vec![0x90, 0x03, 0x00, 0x01, 0x00]);
    push(&mut v, "suback5", vec![0x90, 0x04, 0x00, 0x01, 0x00, 0x00]);
    push(&mut v, "unsubscribe4", vec![0xa2, 0x05, 0x00, 0x01, 0x00, 0x01, b'a']);
    push(&mut v, "unsubscribe5", vec![0xa2, 0x06, 0x00, 0x01, 0x00, 0x00, 0x01, b'a']);
    push(&mut v, "unsuback4", vec![0xb0, 0x02, 0x00, 0x01]);
    push(&mut v, "unsuback5", vec![0xb0, 0x04, 0x00, 0x01, 0x00, 0x00]);
    push(&mut v, "pingreq", vec![0xc0, 0x00]);
    push(&mut v, "pingresp", vec![0xd0, 0x00]);
    push(&mut v, "disconnect", vec![0xe0, 0x00]);
    push(&mut v, "disconnect5", vec![0xe0, 0x02, 0x81, 0x00]);
    push(&mut v, "auth", vec![0xf0, 0x00]);
    push(&mut v, "type0", vec![0x00, 0x00]);
    push(&mut v, "type0-body", vec![0x00, 0x02, 0x00, 0x00]);
    push(&mut v, "bad-remaining-length", vec![0x10, 0xff, 0xff, 0xff, 0xff, 0x01]);
    push(&mut v, "oversize", frame(0x10, &vec![0u8; MAX_PAYLOAD + 1]));
    push(&mut v, "oversize-announced", vec![0x10, 0x81, 0x80, 0x01]);
    push(&mut v, "one-byte", vec![0x10]);
    push(&mut v, "connect-empty-body", vec![0x10, 0x00]);
    v
}

fn emit(w: &mut dyn Write, st: &mut Stats, ver: u8, auth: &str, bytes: &[u8], tail: &str, what: &str) {
    let op = format!("adm {ver} {auth} {} {tail}", hexs(bytes));
    let out = exec(&op);
    st.eval();
    let class = out.split(' ').nth(1).unwrap_or("?").to_string();
    st.tag(&format!("class-{class}"));
    st.tag(&format!("first-{what}"));
    if class == "PANIC" {
        st.impl_panics += 1;
    }
    // non-trivial: the listener's decoder produced a CONNECT (every class below is reached only
    // after a successful decode of a CONNECT)
    if matches!(class.as_str(), "ok" | "zerokeepalive" | "invalidclientid" | "invalidauth") {
        st.nontrivial(&(ver, auth.to_string(), bytes.to_vec()));
        if st.samples.len() < 12 && (st.evaluations % 97 == 0 || st.samples.len() < 3) {
            st.sample(format!("{op} => {out}"));
        }
    }
    writeln!(w, "{op} => {out}").unwrap();
}

pub fn run(o: &Opts) {
    let mut w = o.writer();
    let mut st = Stats::new(
        "first packets against the real mqtt_connect over tokio::io::duplex (paused time): every packet type and malformed header x listener {V4,V5} x tail {eof,idle}; CONNECT variants: body layout {3.1.1, 5} x protocol level {3,4,5,6} x protocol name x keep-alive {0,1,60} x 10 client ids (empty, each of + $ # /, non-ASCII, invalid UTF-8) x clean flag x 11 login shapes (absent, right, wrong password, wrong user, user only, password only, empty) x will x 9 auth configurations (none, static maps, external callback, both); truncations of a valid CONNECT at every length; plus random combinations. Non-trivial = the listener's decoder produced a CONNECT (classes ok / zerokeepalive / invalidclientid / invalidauth); distinct by (listener, auth configuration, bytes)",
    );
    if let Some(p) = &o.replay {
        for line in std::fs::read_to_string(p).expect("replay file").lines() {
            let op = line.split("=>").next().unwrap().trim();
            if op.is_empty() || op.starts_with('#') || op.starts_with("case") {
                continue;
            }
            writeln!(w, "{} => {}", op, exec(op)).unwrap();
        }
        w.flush().unwrap();
        if let Some(p) = &o.stats {
            st.write(p);
        }
        return;
    }
    let mut idx = 0u64;
    let mut mine = |idx: &mut u64| {
        *idx += 1;
        (*idx - 1) % o.shards == o.shard
    };
    // (1) every non-CONNECT first packet and malformed header
    for ver in [4u8, 5] {
        for (name, b) in other_first_packets() {
            for tail in ["eof", "idle"] {
                for auth in ["none", "static:75=70"] {
                    if mine(&mut idx) {
                        emit(&mut *w, &mut st, ver, auth, &b, tail, &name);
                    }
                }
            }
        }
    }
    // (2) CONNECT: layout x level x name x keep-alive (auth none / static), fixed id
    for ver in [4u8, 5] {
        for v5body in [false, true] {
            for level in [3u8, 4, 5, 6] {
                for name in [&b"MQTT"[..], b"MQIsdp", b"MQTX", b""] {
                    for ka in [0u16, 1, 60] {
                        for auth in ["none", "static:75=70"] {
                            let mut c = Conn::new(v5body, level, b"c");
                            c.name = name;
                            c.keep_alive = ka;
                            c.user = Some(b"u");
                            c.pass = Some(b"p");
                            if mine(&mut idx) {
                                emit(&mut *w, &mut st, ver, auth, &c.bytes(), "eof", "connect-level");
                            }
                        }
                    }
                }
            }
        }
    }
    // (3) the listener's own CONNECT: ids x clean x keep-alive x logins x auth configurations
    for ver in [4u8, 5] {
        for auth in AUTHS {
            for id in IDS {
                for clean in [false, true] {
                    for ka in [0u16, 7] {
                        for (u, p, _) in logins() {
                            let mut c = Conn::new(ver == 5, ver, id);
                            c.clean = clean;
                            c.keep_alive = ka;
                            c.user = u;
                            c.pass = p;
                            if mine(&mut idx) {
                                emit(&mut *w, &mut st, ver, auth, &c.bytes(), "eof", "connect");
                            }
                        }
                    }
                }
            }
        }
    }
    // (4) will, properties, reserved flag, trailing bytes, truncation at every length
    for ver in [4u8, 5] {
        let v5 = ver == 5;
        let mut base = Conn::new(v5, ver, b"c");
        base.user = Some(b"u");
        base.pass = Some(b"p");
        let mut variants: Vec<(&str, Vec<u8>)> = vec![];
        let mut c = base.clone();
        c.will = Some((b"w/t", b"bye", 1, true, vec![]));
        variants.push(("connect-will", c.bytes()));
        let mut c = base.clone();
        c.will = Some((b"w/t", b"", 3, false, vec![]));
        variants.push(("connect-will-qos3", c.bytes()));
        let mut c = base.clone();
        c.reserved_flag = true;
        variants.push(("connect-reserved-flag", c.bytes()));
        if v5 {
            let mut c = base.clone();
            // session expiry 30, receive max 5, topic alias max 3, user property k=v
            c.props = vec![0x11, 0, 0, 0, 30, 0x21, 0, 5, 0x22, 0, 3, 0x26, 0, 1, b'k', 0, 1, b'v'];
            c.will = Some((b"w/t", b"bye", 0, false, vec![0x18, 0, 0, 0, 5, 0x01, 1]));
            variants.push(("connect-props", c.bytes()));
            let mut c = base.clone();
            c.props = vec![0x23, 0, 1]; // topic alias (a publish property) in CONNECT
            variants.push(("connect-bad-prop", c.bytes()));
        }
        let mut b = base.bytes();
        b.extend_from_slice(&[0xc0, 0x00]);
        variants.push(("connect-then-ping", b));
        let mut b = base.bytes();
        b.extend_from_slice(&base.bytes());
        variants.push(("connect-twice", b));
        for (name, b) in &variants {
            for auth in ["none", "static:75=70", "ext:75=70"] {
                for tail in ["eof", "idle"] {
                    if mine(&mut idx) {
                        emit(&mut *w, &mut st, ver, auth, b, tail, name);
                    }
                }
            }
        }
        let full = base.bytes();
        for n in 0..full.len() {
            for tail in ["eof", "idle"] {
                if mine(&mut idx) {
                    emit(&mut *w, &mut st, ver, "static:75=70", &full[..n], tail, "connect-truncated");
                }
            }
        }
    }
    // (5) random combinations (and random byte mutations of valid CONNECTs)
    let nrand = if o.thorough() { 200_000 / o.shards } else { 4_000 / o.shards };
    let mut rng = Rng::new(o.seed ^ (o.shard << 32) ^ 0xAD17);
    let ls = logins();
    for _ in 0..nrand {
        let ver = if rng.chance(1, 2) { 4u8 } else { 5 };
        let v5body = if rng.chance(9, 10) { ver == 5 } else { ver != 5 };
        let level = if rng.chance(9, 10) { ver } else { *rng.pick(&[3u8, 4, 5, 6, 0, 255]) };
        let mut c = Conn::new(v5body, level, *rng.pick(&IDS));
        c.clean = rng.chance(1, 2);
        c.keep_alive = *rng.pick(&[0u16, 1, 2, 60, 65535]);
        let (u, p, _) = ls[rng.below(ls.len() as u64) as usize];
        c.user = u;
        c.pass = p;
        if rng.chance(1, 4) {
            c.will = Some((b"w", b"m", rng.below(3) as u8, rng.chance(1, 2), vec![]));
        }
        if v5body && rng.chance(1, 3) {
            c.props = vec![0x11, 0, 0, 0, rng.below(5) as u8, 0x22, 0, rng.below(4) as u8];
        }
        let mut b = c.bytes();
        let mut what = "connect-random";
        if rng.chance(1, 6) {
            let i = rng.below(b.len() as u64) as usize;
            b[i] ^= 1 << rng.below(8);
            what = "connect-mutated";
        }
        let auth = *rng.pick(&AUTHS);
        let tail = if rng.chance(1, 8) { "idle" } else { "eof" };
        emit(&mut *w, &mut st, ver, auth, &b, tail, what);
    }
    st.exhaustive = true;
    w.flush().unwrap();
    if let Some(p) = &o.stats {
        st.write(p);
    }
}
