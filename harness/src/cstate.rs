//! C02 / C07 / C10 / C11: the client protocol state machines `rumqttc::MqttState` (v4) and
//! `rumqttc::v5::MqttState` (v5), driven op by op.
//!
//! Lines (see the Lean model `Model/Client/State.lean` for the semantics of every op):
//!   case <id>
//!   new <v4|v5> <max> <0|1> => ok
//!   <op tokens> => <outcome> | ev=<events> | clean=<reqs> | col=<col> | inf=<n> | ping=<0|1>
//!   <op tokens> => PANIC            (ends the case)
//!   drop => -        inflight => <n>
//! `clean=` is `state.clone().clean()` computed after the op (`PANIC` should that clone's clean
//! panic); `ev=` drains `state.events`. Everything is rendered from the ACTUAL values returned by /
//! stored in the real state, never by echoing the op text.
//!
//! Case ids: `corpus-*`, `fixed-*`, `ex-<v>-<max>-<i>` / `ex2-v5-<max>-<i>` / `ex3-v5-<max>-<i>` (exhaustive, ungated),
//! `r-<kind>-<shard>-<n>` with kind in window|resume|order|hostile (respect the event-loop gate:
//! a fresh `out` request other than `out ping` only when inf < limit, no collision and nothing
//! pending) and `ungated` (does not).
//!
//! Notes for replay files: v4 ignores the reason / alias / receive-max / alias-max tokens of `in`
//! ops (there is no such field in the v4 packets); `in auth` is a BADOP on v4.
use crate::util::*;
use std::collections::{HashSet, VecDeque};
use std::io::Write;
use std::panic::{catch_unwind, AssertUnwindSafe};

use rumqttc::mqttbytes::v4 as p4;
use rumqttc::mqttbytes::QoS as Q4;
use rumqttc::v5::mqttbytes::v5 as p5;
use rumqttc::v5::mqttbytes::QoS as Q5;
use rumqttc::v5::{Event as Ev5, MqttState as St5, Request as Rq5, StateError as Er5};
use rumqttc::{Event as Ev4, MqttState as St4, Outgoing, Request as Rq4, StateError as Er4};

// ---------------------------------------------------------------------------------------------
// canonical values
// ---------------------------------------------------------------------------------------------

#[derive(Clone, Debug, PartialEq, Eq, Hash)]
pub struct PubC {
    pub q: u8,
    pub pkid: u16,
    /// None renders as BAD
    pub tag: Option<u64>,
    pub alias: Option<u16>,
}

fn opt<T: ToString>(x: &Option<T>) -> String {
    match x {
        Some(v) => v.to_string(),
        None => "-".to_string(),
    }
}

impl PubC {
    fn s(&self) -> String {
        let tag = match self.tag {
            Some(t) => t.to_string(),
            None => "BAD".to_string(),
        };
        format!("Publish({},{},{},{})", self.q, self.pkid, tag, opt(&self.alias))
    }
}

#[derive(Clone, Debug, PartialEq, Eq)]
pub enum Req {
    Publish(PubC),
    PubRel(u16),
    Other,
}

impl Req {
    fn s(&self) -> String {
        match self {
            Req::Publish(p) => p.s(),
            Req::PubRel(n) => format!("PubRel({n})"),
            Req::Other => "Other".to_string(),
        }
    }
}

#[derive(Clone, Debug, PartialEq, Eq)]
pub enum Pkt {
    Publish(PubC),
    PubAck(u16),
    PubRec(u16),
    PubRel(u16),
    PubComp(u16),
    Subscribe(u16),
    Unsubscribe(u16),
    PingReq,
    Disconnect(u8),
    Other,
}

impl Pkt {
    fn s(&self) -> String {
        match self {
            Pkt::Publish(p) => p.s(),
            Pkt::PubAck(n) => format!("PubAck({n})"),
            Pkt::PubRec(n) => format!("PubRec({n})"),
            Pkt::PubRel(n) => format!("PubRel({n})"),
            Pkt::PubComp(n) => format!("PubComp({n})"),
            Pkt::Subscribe(n) => format!("Subscribe({n})"),
            Pkt::Unsubscribe(n) => format!("Unsubscribe({n})"),
            Pkt::PingReq => "PingReq".to_string(),
            Pkt::Disconnect(r) => format!("Disconnect({r})"),
            Pkt::Other => "Other".to_string(),
        }
    }
}

#[derive(Clone, Debug)]
pub enum Outcome {
    OkNone,
    Ok(Pkt),
    /// error class, e.g. `Unsolicited(3)`
    Err(String),
    /// what the real `clean()` returned
    Reqs(Vec<Req>),
}

fn reqs_s(r: &[Req]) -> String {
    if r.is_empty() {
        return "-".to_string();
    }
    r.iter().map(|x| x.s()).collect::<Vec<_>>().join(";")
}

/// everything observed after one op
#[derive(Clone, Debug)]
pub struct Obs {
    pub outcome: Outcome,
    pub ev: Vec<String>,
    /// `state.clone().clean()`; None = that call panicked
    pub clean: Option<Vec<Req>>,
    pub col: Option<PubC>,
    pub inf: u16,
    pub ping: bool,
}

impl Obs {
    fn render(&self) -> String {
        let oc = match &self.outcome {
            Outcome::OkNone => "ok:-".to_string(),
            Outcome::Ok(p) => format!("ok:{}", p.s()),
            Outcome::Err(c) => format!("err:{c}"),
            Outcome::Reqs(r) => format!("reqs:{}", reqs_s(r)),
        };
        let ev = if self.ev.is_empty() { "-".to_string() } else { self.ev.join(";") };
        let clean = match &self.clean {
            Some(r) => reqs_s(r),
            None => "PANIC".to_string(),
        };
        let col = match &self.col {
            Some(p) => p.s(),
            None => "-".to_string(),
        };
        format!(
            "{oc} | ev={ev} | clean={clean} | col={col} | inf={} | ping={}",
            self.inf, self.ping as u8
        )
    }
}

fn tag_of(payload: &[u8]) -> Option<u64> {
    std::str::from_utf8(payload).ok()?.parse::<u64>().ok()
}

fn out_ev(o: &Outgoing) -> String {
    match o {
        Outgoing::Publish(n) => format!("O:Publish({n})"),
        Outgoing::Subscribe(n) => format!("O:Subscribe({n})"),
        Outgoing::Unsubscribe(n) => format!("O:Unsubscribe({n})"),
        Outgoing::PubAck(n) => format!("O:PubAck({n})"),
        Outgoing::PubRec(n) => format!("O:PubRec({n})"),
        Outgoing::PubRel(n) => format!("O:PubRel({n})"),
        Outgoing::PubComp(n) => format!("O:PubComp({n})"),
        Outgoing::PingReq => "O:PingReq".to_string(),
        Outgoing::PingResp => "O:PingResp".to_string(),
        Outgoing::Disconnect => "O:Disconnect".to_string(),
        Outgoing::AwaitAck(n) => format!("O:AwaitAck({n})"),
    }
}

// ---------------------------------------------------------------------------------------------
// v4 canonicalisation and op construction
// ---------------------------------------------------------------------------------------------

fn q4(q: Q4) -> u8 {
    match q {
        Q4::AtMostOnce => 0,
        Q4::AtLeastOnce => 1,
        Q4::ExactlyOnce => 2,
    }
}

fn qos4(s: &str) -> Option<Q4> {
    match s {
        "0" => Some(Q4::AtMostOnce),
        "1" => Some(Q4::AtLeastOnce),
        "2" => Some(Q4::ExactlyOnce),
        _ => None,
    }
}

/// an outgoing-side publish (returned packet, clean list, collision)
fn pubc4(p: &p4::Publish) -> PubC {
    let good = p.topic == "t" && !p.dup && !p.retain;
    PubC { q: q4(p.qos), pkid: p.pkid, tag: if good { tag_of(&p.payload) } else { None }, alias: None }
}

fn req4(r: &Rq4) -> Req {
    match r {
        Rq4::Publish(p) => Req::Publish(pubc4(p)),
        Rq4::PubRel(p) => Req::PubRel(p.pkid),
        _ => Req::Other,
    }
}

fn pkt4(p: &p4::Packet) -> Pkt {
    match p {
        p4::Packet::Publish(p) => Pkt::Publish(pubc4(p)),
        p4::Packet::PubAck(a) => Pkt::PubAck(a.pkid),
        p4::Packet::PubRec(a) => Pkt::PubRec(a.pkid),
        p4::Packet::PubRel(a) => Pkt::PubRel(a.pkid),
        p4::Packet::PubComp(a) => Pkt::PubComp(a.pkid),
        p4::Packet::Subscribe(s) => Pkt::Subscribe(s.pkid),
        p4::Packet::Unsubscribe(s) => Pkt::Unsubscribe(s.pkid),
        p4::Packet::PingReq => Pkt::PingReq,
        p4::Packet::Disconnect => Pkt::Disconnect(0),
        _ => Pkt::Other,
    }
}

fn err4(e: &Er4) -> String {
    match e {
        Er4::Unsolicited(n) => format!("Unsolicited({n})"),
        Er4::AwaitPingResp => "AwaitPingResp".to_string(),
        Er4::CollisionTimeout => "CollisionTimeout".to_string(),
        Er4::EmptySubscription => "EmptySubscription".to_string(),
        Er4::WrongPacket => "WrongPacket".to_string(),
        Er4::Deserialization(_) => "Deserialization".to_string(),
        _ => "Other".to_string(),
    }
}

/// incoming canon of the packet inside an `Event::Incoming`
fn inc4(p: &p4::Packet) -> String {
    match p {
        p4::Packet::Connect(_) => "connect".to_string(),
        p4::Packet::ConnAck(c) => format!(
            "connack({},{},-,-)",
            if c.code == p4::ConnectReturnCode::Success { 0 } else { 1 },
            c.session_present as u8
        ),
        p4::Packet::Publish(p) => format!(
            "publish({},{},{},{},-)",
            q4(p.qos),
            p.pkid,
            match tag_of(&p.payload) {
                Some(t) => t.to_string(),
                None => "BAD".to_string(),
            },
            if p.topic.is_empty() { "e" } else { "t" }
        ),
        p4::Packet::PubAck(a) => format!("puback({},0)", a.pkid),
        p4::Packet::PubRec(a) => format!("pubrec({},0)", a.pkid),
        p4::Packet::PubRel(a) => format!("pubrel({},0)", a.pkid),
        p4::Packet::PubComp(a) => format!("pubcomp({},0)", a.pkid),
        p4::Packet::Subscribe(_) => "subscribe".to_string(),
        p4::Packet::SubAck(a) => format!("suback({})", a.pkid),
        p4::Packet::Unsubscribe(_) => "unsubscribe".to_string(),
        p4::Packet::UnsubAck(a) => format!("unsuback({})", a.pkid),
        p4::Packet::PingReq => "pingreq".to_string(),
        p4::Packet::PingResp => "pingresp".to_string(),
        p4::Packet::Disconnect => "disconnect(0)".to_string(),
    }
}

fn u16_at(t: &[&str], i: usize) -> Option<u16> {
    t.get(i)?.parse::<u16>().ok()
}
fn u8_at(t: &[&str], i: usize) -> Option<u8> {
    t.get(i)?.parse::<u8>().ok()
}
fn u64_at(t: &[&str], i: usize) -> Option<u64> {
    t.get(i)?.parse::<u64>().ok()
}
/// optional trailing alias token: absent or `-` = none
fn alias_at(t: &[&str], i: usize) -> Option<Option<u16>> {
    match t.get(i) {
        None => Some(None),
        Some(&"-") => Some(None),
        Some(x) => x.parse::<u16>().ok().map(Some),
    }
}
fn flag(s: &str) -> Option<bool> {
    match s {
        "0" => Some(false),
        "1" => Some(true),
        _ => None,
    }
}

fn mk_pub4(q: Q4, pkid: u16, tag: u64, topic: &str) -> p4::Publish {
    let mut p = p4::Publish::new(topic, q, tag.to_string().into_bytes());
    p.pkid = pkid;
    p
}

/// tokens after `out`
fn build_out4(t: &[&str]) -> Option<Rq4> {
    let n = t.len();
    Some(match *t.first()? {
        "pub" if n == 3 || n == 4 => {
            alias_at(t, 3)?;
            Rq4::Publish(mk_pub4(qos4(t[1])?, 0, u64_at(t, 2)?, "t"))
        }
        "repub" if n == 4 || n == 5 => {
            alias_at(t, 4)?;
            Rq4::Publish(mk_pub4(qos4(t[1])?, u16_at(t, 2)?, u64_at(t, 3)?, "t"))
        }
        "pubrel" if n == 2 => Rq4::PubRel(p4::PubRel::new(u16_at(t, 1)?)),
        "sub" if n == 2 => {
            let k = u16_at(t, 1)?;
            let filters = (0..k).map(|i| p4::SubscribeFilter::new(format!("f{i}"), Q4::AtMostOnce)).collect();
            Rq4::Subscribe(p4::Subscribe { pkid: 0, filters })
        }
        "unsub" if n == 1 => Rq4::Unsubscribe(p4::Unsubscribe::new("f0")),
        "ping" if n == 1 => Rq4::PingReq(p4::PingReq),
        "disconnect" if n == 1 => Rq4::Disconnect(p4::Disconnect),
        "puback" if n == 2 => Rq4::PubAck(p4::PubAck::new(u16_at(t, 1)?)),
        "pubrec" if n == 2 => Rq4::PubRec(p4::PubRec::new(u16_at(t, 1)?)),
        "other" if n == 1 => Rq4::PubComp(p4::PubComp::new(1)),
        _ => return None,
    })
}

/// tokens after `in`
fn build_in4(t: &[&str]) -> Option<p4::Packet> {
    let n = t.len();
    Some(match *t.first()? {
        "connect" if n == 1 => p4::Packet::Connect(p4::Connect::new("c")),
        "connack" if n == 5 => {
            let code = if u8_at(t, 1)? == 0 {
                p4::ConnectReturnCode::Success
            } else {
                p4::ConnectReturnCode::BadUserNamePassword
            };
            alias_at(t, 3)?;
            alias_at(t, 4)?;
            p4::Packet::ConnAck(p4::ConnAck::new(code, flag(t[2])?))
        }
        "publish" if n == 6 => {
            let topic = match t[4] {
                "e" => "",
                "t" => "t",
                _ => return None,
            };
            alias_at(t, 5)?;
            p4::Packet::Publish(mk_pub4(qos4(t[1])?, u16_at(t, 2)?, u64_at(t, 3)?, topic))
        }
        "puback" if n == 3 => {
            u8_at(t, 2)?;
            p4::Packet::PubAck(p4::PubAck::new(u16_at(t, 1)?))
        }
        "pubrec" if n == 3 => {
            u8_at(t, 2)?;
            p4::Packet::PubRec(p4::PubRec::new(u16_at(t, 1)?))
        }
        "pubrel" if n == 3 => {
            u8_at(t, 2)?;
            p4::Packet::PubRel(p4::PubRel::new(u16_at(t, 1)?))
        }
        "pubcomp" if n == 3 => {
            u8_at(t, 2)?;
            p4::Packet::PubComp(p4::PubComp::new(u16_at(t, 1)?))
        }
        "subscribe" if n == 1 => p4::Packet::Subscribe(p4::Subscribe::new("f0", Q4::AtMostOnce)),
        "suback" if n == 2 => p4::Packet::SubAck(p4::SubAck::new(
            u16_at(t, 1)?,
            vec![p4::SubscribeReasonCode::Success(Q4::AtMostOnce)],
        )),
        "unsubscribe" if n == 1 => p4::Packet::Unsubscribe(p4::Unsubscribe::new("f0")),
        "unsuback" if n == 2 => p4::Packet::UnsubAck(p4::UnsubAck::new(u16_at(t, 1)?)),
        "pingreq" if n == 1 => p4::Packet::PingReq,
        "pingresp" if n == 1 => p4::Packet::PingResp,
        "disconnect" if n == 2 => {
            u8_at(t, 1)?;
            p4::Packet::Disconnect
        }
        _ => return None,
    })
}

fn conv4(r: Result<Option<p4::Packet>, Er4>) -> Outcome {
    match r {
        Ok(None) => Outcome::OkNone,
        Ok(Some(p)) => Outcome::Ok(pkt4(&p)),
        Err(e) => Outcome::Err(err4(&e)),
    }
}

/// None = BADOP, Some(Err(())) = the real code panicked
fn run4(s: &mut St4, t: &[&str]) -> Option<Result<Outcome, ()>> {
    match *t.first()? {
        "clean" if t.len() == 1 => Some(
            catch_unwind(AssertUnwindSafe(|| Outcome::Reqs(s.clean().iter().map(req4).collect()))).map_err(|_| ()),
        ),
        "out" => {
            let r = build_out4(&t[1..])?;
            Some(catch_unwind(AssertUnwindSafe(|| conv4(s.handle_outgoing_packet(r)))).map_err(|_| ()))
        }
        "in" => {
            let p = build_in4(&t[1..])?;
            Some(catch_unwind(AssertUnwindSafe(|| conv4(s.handle_incoming_packet(p)))).map_err(|_| ()))
        }
        _ => None,
    }
}

fn observe4(s: &mut St4, outcome: Outcome) -> Obs {
    let mut ev = vec![];
    while let Some(e) = s.events.pop_front() {
        ev.push(match &e {
            Ev4::Incoming(p) => format!("I:{}", inc4(p)),
            Ev4::Outgoing(o) => out_ev(o),
        });
    }
    let clean = catch_unwind(AssertUnwindSafe(|| s.clone().clean().iter().map(req4).collect::<Vec<_>>())).ok();
    Obs {
        outcome,
        ev,
        clean,
        col: s.collision.as_ref().map(pubc4),
        inf: s.inflight(),
        ping: s.await_pingresp,
    }
}

// ---------------------------------------------------------------------------------------------
// v5 canonicalisation and op construction
// ---------------------------------------------------------------------------------------------

fn q5(q: Q5) -> u8 {
    match q {
        Q5::AtMostOnce => 0,
        Q5::AtLeastOnce => 1,
        Q5::ExactlyOnce => 2,
    }
}

fn qos5(s: &str) -> Option<Q5> {
    match s {
        "0" => Some(Q5::AtMostOnce),
        "1" => Some(Q5::AtLeastOnce),
        "2" => Some(Q5::ExactlyOnce),
        _ => None,
    }
}

/// PubAck / PubRec reason bytes (same table for both)
pub const ACK_REASONS: [u8; 9] = [0, 16, 128, 131, 135, 144, 145, 151, 153];

fn puback_reason(b: u8) -> Option<p5::PubAckReason> {
    use p5::PubAckReason::*;
    Some(match b {
        0 => Success,
        16 => NoMatchingSubscribers,
        128 => UnspecifiedError,
        131 => ImplementationSpecificError,
        135 => NotAuthorized,
        144 => TopicNameInvalid,
        145 => PacketIdentifierInUse,
        151 => QuotaExceeded,
        153 => PayloadFormatInvalid,
        _ => return None,
    })
}
fn puback_byte(r: &p5::PubAckReason) -> u8 {
    use p5::PubAckReason::*;
    match r {
        Success => 0,
        NoMatchingSubscribers => 16,
        UnspecifiedError => 128,
        ImplementationSpecificError => 131,
        NotAuthorized => 135,
        TopicNameInvalid => 144,
        PacketIdentifierInUse => 145,
        QuotaExceeded => 151,
        PayloadFormatInvalid => 153,
    }
}
fn pubrec_reason(b: u8) -> Option<p5::PubRecReason> {
    use p5::PubRecReason::*;
    Some(match b {
        0 => Success,
        16 => NoMatchingSubscribers,
        128 => UnspecifiedError,
        131 => ImplementationSpecificError,
        135 => NotAuthorized,
        144 => TopicNameInvalid,
        145 => PacketIdentifierInUse,
        151 => QuotaExceeded,
        153 => PayloadFormatInvalid,
        _ => return None,
    })
}
fn pubrec_byte(r: &p5::PubRecReason) -> u8 {
    use p5::PubRecReason::*;
    match r {
        Success => 0,
        NoMatchingSubscribers => 16,
        UnspecifiedError => 128,
        ImplementationSpecificError => 131,
        NotAuthorized => 135,
        TopicNameInvalid => 144,
        PacketIdentifierInUse => 145,
        QuotaExceeded => 151,
        PayloadFormatInvalid => 153,
    }
}
fn pubrel_reason(b: u8) -> Option<p5::PubRelReason> {
    match b {
        0 => Some(p5::PubRelReason::Success),
        146 => Some(p5::PubRelReason::PacketIdentifierNotFound),
        _ => None,
    }
}
fn pubrel_byte(r: &p5::PubRelReason) -> u8 {
    match r {
        p5::PubRelReason::Success => 0,
        p5::PubRelReason::PacketIdentifierNotFound => 146,
    }
}
fn pubcomp_reason(b: u8) -> Option<p5::PubCompReason> {
    match b {
        0 => Some(p5::PubCompReason::Success),
        146 => Some(p5::PubCompReason::PacketIdentifierNotFound),
        _ => None,
    }
}
fn pubcomp_byte(r: &p5::PubCompReason) -> u8 {
    match r {
        p5::PubCompReason::Success => 0,
        p5::PubCompReason::PacketIdentifierNotFound => 146,
    }
}

fn alias5(p: &p5::Publish) -> Option<u16> {
    p.properties.as_ref().and_then(|x| x.topic_alias)
}

fn pubc5(p: &p5::Publish) -> PubC {
    let good = p.topic.as_ref() == b"t" && !p.dup && !p.retain;
    PubC { q: q5(p.qos), pkid: p.pkid, tag: if good { tag_of(&p.payload) } else { None }, alias: alias5(p) }
}

fn req5(r: &Rq5) -> Req {
    match r {
        Rq5::Publish(p) => Req::Publish(pubc5(p)),
        Rq5::PubRel(p) => Req::PubRel(p.pkid),
        _ => Req::Other,
    }
}

fn pkt5(p: &p5::Packet) -> Pkt {
    match p {
        p5::Packet::Publish(p) => Pkt::Publish(pubc5(p)),
        p5::Packet::PubAck(a) => Pkt::PubAck(a.pkid),
        p5::Packet::PubRec(a) => Pkt::PubRec(a.pkid),
        p5::Packet::PubRel(a) => Pkt::PubRel(a.pkid),
        p5::Packet::PubComp(a) => Pkt::PubComp(a.pkid),
        p5::Packet::Subscribe(s) => Pkt::Subscribe(s.pkid),
        p5::Packet::Unsubscribe(s) => Pkt::Unsubscribe(s.pkid),
        p5::Packet::PingReq(_) => Pkt::PingReq,
        // DisconnectReasonCode is `#[repr(u8)]` with the MQTT-5 bytes as discriminants
        p5::Packet::Disconnect(d) => Pkt::Disconnect(d.reason_code as u8),
        _ => Pkt::Other,
    }
}

fn err5(e: &Er5) -> String {
    match e {
        Er5::Unsolicited(n) => format!("Unsolicited({n})"),
        Er5::AwaitPingResp => "AwaitPingResp".to_string(),
        Er5::CollisionTimeout => "CollisionTimeout".to_string(),
        Er5::EmptySubscription => "EmptySubscription".to_string(),
        Er5::WrongPacket => "WrongPacket".to_string(),
        Er5::Deserialization(_) => "Deserialization".to_string(),
        Er5::InvalidAlias { .. } => "InvalidAlias".to_string(),
        Er5::ServerDisconnect { .. } => "ServerDisconnect".to_string(),
        Er5::ConnFail { .. } => "ConnFail".to_string(),
        _ => "Other".to_string(),
    }
}

fn inc5(p: &p5::Packet) -> String {
    match p {
        p5::Packet::Auth(_) => "auth".to_string(),
        p5::Packet::Connect(..) => "connect".to_string(),
        p5::Packet::ConnAck(c) => format!(
            "connack({},{},{},{})",
            if c.code == p5::ConnectReturnCode::Success { 0 } else { 1 },
            c.session_present as u8,
            opt(&c.properties.as_ref().and_then(|x| x.receive_max)),
            opt(&c.properties.as_ref().and_then(|x| x.topic_alias_max))
        ),
        p5::Packet::Publish(p) => format!(
            "publish({},{},{},{},{})",
            q5(p.qos),
            p.pkid,
            match tag_of(&p.payload) {
                Some(t) => t.to_string(),
                None => "BAD".to_string(),
            },
            if p.topic.is_empty() { "e" } else { "t" },
            opt(&alias5(p))
        ),
        p5::Packet::PubAck(a) => format!("puback({},{})", a.pkid, puback_byte(&a.reason)),
        p5::Packet::PubRec(a) => format!("pubrec({},{})", a.pkid, pubrec_byte(&a.reason)),
        p5::Packet::PubRel(a) => format!("pubrel({},{})", a.pkid, pubrel_byte(&a.reason)),
        p5::Packet::PubComp(a) => format!("pubcomp({},{})", a.pkid, pubcomp_byte(&a.reason)),
        p5::Packet::Subscribe(_) => "subscribe".to_string(),
        p5::Packet::SubAck(a) => format!("suback({})", a.pkid),
        p5::Packet::Unsubscribe(_) => "unsubscribe".to_string(),
        p5::Packet::UnsubAck(a) => format!("unsuback({})", a.pkid),
        p5::Packet::PingReq(_) => "pingreq".to_string(),
        p5::Packet::PingResp(_) => "pingresp".to_string(),
        p5::Packet::Disconnect(d) => format!("disconnect({})", d.reason_code as u8),
    }
}

fn mk_pub5(q: Q5, pkid: u16, tag: u64, topic: &str, alias: Option<u16>) -> p5::Publish {
    let props = alias.map(|a| p5::PublishProperties { topic_alias: Some(a), ..Default::default() });
    let mut p = p5::Publish::new(topic, q, tag.to_string(), props);
    p.pkid = pkid;
    p
}

fn build_out5(t: &[&str]) -> Option<Rq5> {
    let n = t.len();
    Some(match *t.first()? {
        "pub" if n == 3 || n == 4 => Rq5::Publish(mk_pub5(qos5(t[1])?, 0, u64_at(t, 2)?, "t", alias_at(t, 3)?)),
        "repub" if n == 4 || n == 5 => {
            Rq5::Publish(mk_pub5(qos5(t[1])?, u16_at(t, 2)?, u64_at(t, 3)?, "t", alias_at(t, 4)?))
        }
        "pubrel" if n == 2 => Rq5::PubRel(p5::PubRel::new(u16_at(t, 1)?, None)),
        "sub" if n == 2 => {
            let k = u16_at(t, 1)?;
            let filters = (0..k).map(|i| p5::Filter::new(format!("f{i}"), Q5::AtMostOnce)).collect();
            Rq5::Subscribe(p5::Subscribe { pkid: 0, filters, properties: None })
        }
        "unsub" if n == 1 => Rq5::Unsubscribe(p5::Unsubscribe::new("f0", None)),
        "ping" if n == 1 => Rq5::PingReq,
        "disconnect" if n == 1 => Rq5::Disconnect,
        "puback" if n == 2 => Rq5::PubAck(p5::PubAck::new(u16_at(t, 1)?, None)),
        "pubrec" if n == 2 => Rq5::PubRec(p5::PubRec::new(u16_at(t, 1)?, None)),
        "other" if n == 1 => Rq5::PubComp(p5::PubComp::new(1, None)),
        _ => return None,
    })
}

fn connack_props(rm: Option<u16>, am: Option<u16>) -> Option<p5::ConnAckProperties> {
    if rm.is_none() && am.is_none() {
        return None;
    }
    Some(p5::ConnAckProperties {
        session_expiry_interval: None,
        receive_max: rm,
        max_qos: None,
        retain_available: None,
        max_packet_size: None,
        assigned_client_identifier: None,
        topic_alias_max: am,
        reason_string: None,
        user_properties: vec![],
        wildcard_subscription_available: None,
        subscription_identifiers_available: None,
        shared_subscription_available: None,
        server_keep_alive: None,
        response_information: None,
        server_reference: None,
        authentication_method: None,
        authentication_data: None,
    })
}

fn build_in5(t: &[&str]) -> Option<p5::Packet> {
    let n = t.len();
    Some(match *t.first()? {
        "connect" if n == 1 => p5::Packet::Connect(
            p5::Connect { keep_alive: 10, client_id: "c".to_string(), clean_start: true, properties: None },
            None,
            None,
        ),
        "connack" if n == 5 => {
            let code = if u8_at(t, 1)? == 0 {
                p5::ConnectReturnCode::Success
            } else {
                p5::ConnectReturnCode::NotAuthorized
            };
            p5::Packet::ConnAck(p5::ConnAck {
                session_present: flag(t[2])?,
                code,
                properties: connack_props(alias_at(t, 3)?, alias_at(t, 4)?),
            })
        }
        "publish" if n == 6 => {
            let topic = match t[4] {
                "e" => "",
                "t" => "t",
                _ => return None,
            };
            p5::Packet::Publish(mk_pub5(qos5(t[1])?, u16_at(t, 2)?, u64_at(t, 3)?, topic, alias_at(t, 5)?))
        }
        "puback" if n == 3 => p5::Packet::PubAck(p5::PubAck {
            pkid: u16_at(t, 1)?,
            reason: puback_reason(u8_at(t, 2)?)?,
            properties: None,
        }),
        "pubrec" if n == 3 => p5::Packet::PubRec(p5::PubRec {
            pkid: u16_at(t, 1)?,
            reason: pubrec_reason(u8_at(t, 2)?)?,
            properties: None,
        }),
        "pubrel" if n == 3 => p5::Packet::PubRel(p5::PubRel {
            pkid: u16_at(t, 1)?,
            reason: pubrel_reason(u8_at(t, 2)?)?,
            properties: None,
        }),
        "pubcomp" if n == 3 => p5::Packet::PubComp(p5::PubComp {
            pkid: u16_at(t, 1)?,
            reason: pubcomp_reason(u8_at(t, 2)?)?,
            properties: None,
        }),
        "subscribe" if n == 1 => {
            p5::Packet::Subscribe(p5::Subscribe::new(p5::Filter::new("f0", Q5::AtMostOnce), None))
        }
        "suback" if n == 2 => p5::Packet::SubAck(p5::SubAck {
            pkid: u16_at(t, 1)?,
            return_codes: vec![p5::SubscribeReasonCode::Success(Q5::AtMostOnce)],
            properties: None,
        }),
        "unsubscribe" if n == 1 => p5::Packet::Unsubscribe(p5::Unsubscribe::new("f0", None)),
        "unsuback" if n == 2 => p5::Packet::UnsubAck(p5::UnsubAck {
            pkid: u16_at(t, 1)?,
            reasons: vec![p5::UnsubAckReason::Success],
            properties: None,
        }),
        "pingreq" if n == 1 => p5::Packet::PingReq(p5::PingReq),
        "pingresp" if n == 1 => p5::Packet::PingResp(p5::PingResp),
        "disconnect" if n == 2 => p5::Packet::Disconnect(p5::Disconnect {
            reason_code: p5::DisconnectReasonCode::try_from(u8_at(t, 1)?).ok()?,
            properties: None,
        }),
        // `AuthReasonCode` is not nameable from outside the crate, so the struct cannot be built
        // field by field; `Auth::read` is public and yields a genuine `Packet::Auth`
        // (reason Success, no properties) from its wire form f0 02 00 00.
        "auth" if n == 1 => {
            let raw = bytes::Bytes::from_static(&[0xF0, 0x02, 0x00, 0x00]);
            p5::Packet::Auth(p5::Auth::read(p5::FixedHeader::new(0xF0, 1, 2), raw).ok()?)
        }
        _ => return None,
    })
}

fn conv5(r: Result<Option<p5::Packet>, Er5>) -> Outcome {
    match r {
        Ok(None) => Outcome::OkNone,
        Ok(Some(p)) => Outcome::Ok(pkt5(&p)),
        Err(e) => Outcome::Err(err5(&e)),
    }
}

fn run5(s: &mut St5, t: &[&str]) -> Option<Result<Outcome, ()>> {
    match *t.first()? {
        "clean" if t.len() == 1 => Some(
            catch_unwind(AssertUnwindSafe(|| Outcome::Reqs(s.clean().iter().map(req5).collect()))).map_err(|_| ()),
        ),
        "out" => {
            let r = build_out5(&t[1..])?;
            Some(catch_unwind(AssertUnwindSafe(|| conv5(s.handle_outgoing_packet(r)))).map_err(|_| ()))
        }
        "in" => {
            let p = build_in5(&t[1..])?;
            Some(catch_unwind(AssertUnwindSafe(|| conv5(s.handle_incoming_packet(p)))).map_err(|_| ()))
        }
        _ => None,
    }
}

fn observe5(s: &mut St5, outcome: Outcome) -> Obs {
    let mut ev = vec![];
    while let Some(e) = s.events.pop_front() {
        ev.push(match &e {
            Ev5::Incoming(p) => format!("I:{}", inc5(p)),
            Ev5::Outgoing(o) => out_ev(o),
        });
    }
    let clean = catch_unwind(AssertUnwindSafe(|| s.clone().clean().iter().map(req5).collect::<Vec<_>>())).ok();
    Obs {
        outcome,
        ev,
        clean,
        col: s.collision.as_ref().map(pubc5),
        inf: s.inflight(),
        ping: s.await_pingresp,
    }
}

// ---------------------------------------------------------------------------------------------
// the interpreter (used by generation and by --replay)
// ---------------------------------------------------------------------------------------------

pub enum Sess {
    /// no state (before `new`, or after a PANIC)
    Dead,
    V4(Box<St4>),
    V5(Box<St5>),
}

pub struct Res {
    /// text after `=>`
    pub text: String,
    pub obs: Option<Obs>,
    pub panic: bool,
}

impl Sess {
    /// execute one op line, return the text after `=>`
    #[allow(dead_code)]
    pub fn exec(&mut self, op: &str) -> String {
        self.step(op).text
    }

    pub fn step(&mut self, op: &str) -> Res {
        let plain = |s: String| Res { text: s, obs: None, panic: false };
        let t: Vec<&str> = op.split_whitespace().collect();
        match t.as_slice() {
            ["new", v, max, m] => {
                let (Ok(max), Some(m)) = (max.parse::<u16>(), flag(m)) else {
                    return plain("BADOP".into());
                };
                match *v {
                    "v4" => *self = Sess::V4(Box::new(St4::new(max, m))),
                    "v5" => *self = Sess::V5(Box::new(St5::new(max, m))),
                    _ => return plain("BADOP".into()),
                }
                plain("ok".into())
            }
            ["drop"] => plain("-".into()),
            ["inflight"] => match self {
                Sess::V4(s) => plain(s.inflight().to_string()),
                Sess::V5(s) => plain(s.inflight().to_string()),
                Sess::Dead => plain("BADOP".into()),
            },
            _ => {
                let r = match self {
                    Sess::V4(s) => match run4(s, &t) {
                        None => None,
                        Some(Err(())) => Some(Err(())),
                        Some(Ok(oc)) => Some(Ok(observe4(s, oc))),
                    },
                    Sess::V5(s) => match run5(s, &t) {
                        None => None,
                        Some(Err(())) => Some(Err(())),
                        Some(Ok(oc)) => Some(Ok(observe5(s, oc))),
                    },
                    Sess::Dead => None,
                };
                match r {
                    None => plain("BADOP".into()),
                    Some(Err(())) => {
                        *self = Sess::Dead;
                        Res { text: "PANIC".into(), obs: None, panic: true }
                    }
                    Some(Ok(obs)) => Res { text: obs.render(), obs: Some(obs), panic: false },
                }
            }
        }
    }
}

fn replay(path: &str, w: &mut dyn Write) {
    let mut sess = Sess::Dead;
    let mut skipping = false;
    for line in std::fs::read_to_string(path).expect("replay file").lines() {
        let op = line.split("=>").next().unwrap().trim();
        if op.is_empty() || op.starts_with('#') {
            continue;
        }
        if op == "case" || op.starts_with("case ") {
            skipping = false;
            sess = Sess::Dead;
            writeln!(w, "{op}").unwrap();
            continue;
        }
        if skipping {
            continue;
        }
        let r = sess.step(op);
        writeln!(w, "{op} => {}", r.text).unwrap();
        if r.panic {
            skipping = true;
        }
    }
}

// ---------------------------------------------------------------------------------------------
// generation: shadow state kept from the observed outputs
// ---------------------------------------------------------------------------------------------

struct Shadow {
    v5: bool,
    max: u32,
    manual: bool,
    /// max, or for v5 min(max, last connack receive_max)
    limit: u32,
    /// (pkid, qos, tag) of stored outgoing publishes, oldest first (resynchronised from `clean=`)
    outstanding: Vec<(u16, u8, u64)>,
    /// ids awaiting PUBCOMP (resynchronised from `clean=`)
    awaiting: Vec<u16>,
    /// incoming QoS2 ids received and not yet released
    in_q2: Vec<u16>,
    /// ids acked earlier (for duplicates)
    acked: Vec<u16>,
    /// ids handed out so far (wrap-around detection, "never used" ids)
    used: HashSet<u16>,
    col: bool,
    inf: u32,
    /// `await_pingresp` as last observed
    ping: bool,
    /// v5: `topic_alias_max` of the last successful connack (0 before)
    alias_max: u32,
    /// "polite broker / polite user" case: no duplicate, unsolicited or above-limit acks, no ping
    /// while one is outstanding, no alias above the negotiated maximum
    polite: bool,
    /// returned by `clean`, not yet replayed
    pending: VecDeque<Req>,
    tag: u64,
    f_col: bool,
    f_wrap: bool,
    f_unsol: bool,
    f_err: bool,
    f_clean: bool,
    f_panic: bool,
}

impl Shadow {
    fn new(v5: bool, max: u16, manual: bool) -> Shadow {
        Shadow {
            v5,
            max: max as u32,
            manual,
            limit: max as u32,
            outstanding: vec![],
            awaiting: vec![],
            in_q2: vec![],
            acked: vec![],
            used: HashSet::new(),
            col: false,
            inf: 0,
            ping: false,
            alias_max: 0,
            polite: false,
            pending: VecDeque::new(),
            tag: 0,
            f_col: false,
            f_wrap: false,
            f_unsol: false,
            f_err: false,
            f_clean: false,
            f_panic: false,
        }
    }
    fn gate(&self) -> bool {
        self.inf < self.limit && !self.col && self.pending.is_empty()
    }
    fn next_tag(&mut self) -> u64 {
        self.tag += 1;
        self.tag
    }
    fn load(&self) -> usize {
        self.outstanding.len() + self.awaiting.len()
    }

    fn update(&mut self, t: &[&str], obs: &Obs) {
        let was_col = self.col;
        self.col = obs.col.is_some();
        if self.col {
            self.f_col = true;
        }
        self.inf = obs.inf as u32;
        self.ping = obs.ping;
        if let Some(list) = &obs.clean {
            let pubs: Vec<(u16, u8, u64)> = list
                .iter()
                .filter_map(|r| match r {
                    Req::Publish(p) => Some((p.pkid, p.q, p.tag.unwrap_or(u64::MAX))),
                    _ => None,
                })
                .collect();
            let set: HashSet<(u16, u8, u64)> = pubs.iter().cloned().collect();
            self.outstanding.retain(|x| set.contains(x));
            let have: HashSet<(u16, u8, u64)> = self.outstanding.iter().cloned().collect();
            for p in pubs {
                if !have.contains(&p) {
                    self.outstanding.push(p);
                }
            }
            self.awaiting = list
                .iter()
                .filter_map(|r| match r {
                    Req::PubRel(n) => Some(*n),
                    _ => None,
                })
                .collect();
        }
        let ok = matches!(obs.outcome, Outcome::OkNone | Outcome::Ok(_));
        if let Outcome::Err(c) = &obs.outcome {
            self.f_err = true;
            if c.starts_with("Unsolicited") {
                self.f_unsol = true;
            }
        }
        match (t.first().copied(), t.get(1).copied()) {
            (Some("out"), Some("pub" | "sub" | "unsub")) => {
                let id = match &obs.outcome {
                    Outcome::Ok(Pkt::Publish(p)) if p.q > 0 => Some(p.pkid),
                    Outcome::Ok(Pkt::Subscribe(n)) | Outcome::Ok(Pkt::Unsubscribe(n)) => Some(*n),
                    Outcome::OkNone if !was_col && self.col => obs.col.as_ref().map(|c| c.pkid),
                    _ => None,
                };
                if let Some(id) = id {
                    if !self.used.insert(id) {
                        self.f_wrap = true;
                    }
                }
            }
            (Some("in"), Some(k @ ("puback" | "pubrec" | "pubcomp"))) if ok => {
                if let Some(id) = u16_at(t, 2) {
                    if self.acked.len() < 16 && !(k == "pubrec" && self.awaiting.contains(&id)) {
                        self.acked.push(id);
                    }
                }
            }
            (Some("in"), Some("publish")) if ok && t.get(2) == Some(&"2") => {
                if let Some(id) = u16_at(t, 3) {
                    if !self.in_q2.contains(&id) {
                        self.in_q2.push(id);
                    }
                }
            }
            (Some("in"), Some("pubrel")) if ok => {
                if let Some(id) = u16_at(t, 2) {
                    self.in_q2.retain(|x| *x != id);
                }
            }
            (Some("in"), Some("connack")) if ok && self.v5 => {
                if let Some(Some(rm)) = alias_at(t, 4) {
                    self.limit = self.max.min(rm as u32);
                }
                if let Some(Some(am)) = alias_at(t, 5) {
                    self.alias_max = am as u32;
                }
            }
            (Some("clean"), _) => {
                self.f_clean = true;
                self.in_q2.clear();
                if let Outcome::Reqs(list) = &obs.outcome {
                    // EventLoop::clean: what the state held goes in front of what was still waiting
                    let waiting = std::mem::take(&mut self.pending);
                    self.pending.extend(list.iter().cloned());
                    self.pending.extend(waiting);
                }
            }
            _ => {}
        }
    }
}

/// one case being generated: executes ops on the real state, writes the lines, keeps the shadow
struct Run<'a> {
    w: &'a mut dyn Write,
    st: &'a mut Stats,
    id: String,
    kind: &'static str,
    sess: Sess,
    sh: Shadow,
    ops: Vec<String>,
    alive: bool,
}

fn op_kind(op: &str) -> String {
    let mut it = op.split_whitespace();
    let a = it.next().unwrap_or("");
    match a {
        "in" | "out" => format!("op:{a}-{}", it.next().unwrap_or("")),
        _ => format!("op:{a}"),
    }
}

impl<'a> Run<'a> {
    fn start(
        w: &'a mut dyn Write,
        st: &'a mut Stats,
        id: String,
        kind: &'static str,
        v5: bool,
        max: u16,
        manual: bool,
    ) -> Run<'a> {
        writeln!(w, "case {id}").unwrap();
        let mut r = Run { w, st, id, kind, sess: Sess::Dead, sh: Shadow::new(v5, max, manual), ops: vec![], alive: true };
        r.op(&format!("new {} {} {}", if v5 { "v5" } else { "v4" }, max, manual as u8));
        r
    }

    /// returns false when the case is over (the op panicked)
    fn op(&mut self, op: &str) -> bool {
        if !self.alive {
            return false;
        }
        let res = self.sess.step(op);
        writeln!(self.w, "{op} => {}", res.text).unwrap();
        self.st.eval();
        self.st.tag(&op_kind(op));
        self.ops.push(op.to_string());
        if res.panic {
            self.st.tag("out:PANIC");
            self.st.impl_panics += 1;
            self.sh.f_panic = true;
            self.alive = false;
            return false;
        }
        match &res.obs {
            Some(obs) => {
                let class = match &obs.outcome {
                    Outcome::OkNone => "out:ok-none".to_string(),
                    Outcome::Ok(_) => "out:ok-packet".to_string(),
                    Outcome::Err(c) => format!("out:err-{}", c.split('(').next().unwrap()),
                    Outcome::Reqs(_) => "out:reqs".to_string(),
                };
                self.st.tag(&class);
                let t: Vec<&str> = op.split_whitespace().collect();
                self.sh.update(&t, obs);
            }
            None => {
                if op == "drop" {
                    self.sh.pending.clear();
                }
                if res.text == "BADOP" {
                    eprintln!("cstate: generator produced a bad op: {op}");
                    self.st.tag("out:BADOP");
                }
            }
        }
        true
    }

    fn finish(self) {
        let k = self.kind;
        let sh = &self.sh;
        self.st.tag(&format!("kind:{k}"));
        self.st.tag(&format!("max:{}", sh.max));
        self.st.tag(if sh.v5 { "version:v5" } else { "version:v4" });
        if sh.manual {
            self.st.tag("manual-acks-cases");
        }
        for (f, name) in [
            (sh.f_col, "collision"),
            (sh.f_wrap, "wraparound"),
            (sh.f_unsol, "unsolicited"),
            (sh.f_clean, "clean"),
            (sh.f_panic, "panic"),
        ] {
            if f {
                self.st.tag(&format!("cases-with-{name}"));
                self.st.tag(&format!("kind:{k}:with-{name}"));
            }
        }
        if sh.f_col || sh.f_wrap || sh.f_unsol || sh.f_err || sh.f_panic {
            self.st.nontrivial(&self.ops);
        }
        // a few short interesting cases: up to 3 per feature
        let n = self.ops.len();
        for (f, name, cap) in
            [(sh.f_panic, "panic", 3u64), (sh.f_col, "collision", 3), (sh.f_wrap, "wraparound", 3), (sh.f_unsol, "unsolicited", 3)]
        {
            let key = format!("sampled:{name}");
            if f && n <= 9 && self.st.histogram.get(&key).copied().unwrap_or(0) < cap && k != "corpus" && (sh.max >= 2 || sh.f_panic) {
                self.st.tag(&key);
                self.st.sample(format!("{} [{name}]: {}", self.id, self.ops.join("; ")));
                break;
            }
        }
    }
}

// ---------------------------------------------------------------------------------------------
// op choosers
// ---------------------------------------------------------------------------------------------

fn reason_for(rng: &mut Rng, sh: &Shadow, kind: &str, nonzero_pct: u64) -> u8 {
    if !sh.v5 || !rng.chance(nonzero_pct, 100) {
        return 0;
    }
    match kind {
        "puback" | "pubrec" => *rng.pick(&ACK_REASONS[1..]),
        _ => 146,
    }
}

/// the ack a broker would send for an outstanding publish (5 %: the other kind of ack)
fn ack_for(rng: &mut Rng, sh: &Shadow, pkid: u16, q: u8, nz: u64) -> String {
    let wrong = rng.chance(1, 20);
    let kind = if (q == 2) != wrong { "pubrec" } else { "puback" };
    format!("in {kind} {pkid} {}", reason_for(rng, sh, kind, nz))
}

fn above_limit_id(rng: &mut Rng, sh: &Shadow) -> u16 {
    if sh.max < 65535 && rng.chance(1, 2) {
        (sh.max + 1) as u16
    } else {
        65535
    }
}

fn unused_id(rng: &mut Rng, sh: &Shadow) -> u16 {
    let hi = sh.limit.min(sh.max).max(1);
    let live = |i: u16| sh.outstanding.iter().any(|x| x.0 == i) || sh.awaiting.contains(&i);
    for _ in 0..8 {
        let i = rng.range(1, hi as u64) as u16;
        if !sh.used.contains(&i) && !live(i) {
            return i;
        }
    }
    for _ in 0..8 {
        let i = rng.range(1, sh.max.max(1) as u64) as u16;
        if !live(i) {
            return i;
        }
    }
    rng.range(1, sh.max.max(1) as u64) as u16
}

/// state-aware ack: in-order 30, out-of-order 40, duplicate 8, unsolicited 8, above-limit 4,
/// pubrec for a QoS2 outstanding 25, pubcomp for an awaiting id 25
fn gen_ack(rng: &mut Rng, sh: &Shadow, nz: u64) -> String {
    let o = &sh.outstanding;
    let q2: Vec<u16> = o.iter().filter(|x| x.1 == 2).map(|x| x.0).collect();
    let w = [
        if o.is_empty() { 0 } else { 30 },
        if o.len() >= 2 { 40 } else { 0 },
        if sh.acked.is_empty() || sh.polite { 0 } else { 8 },
        if sh.polite { 0 } else { 8 },
        if sh.polite { 0 } else { 4 },
        if q2.is_empty() { 0 } else { 25 },
        if sh.awaiting.is_empty() { 0 } else { 25 },
    ];
    if w.iter().sum::<u64>() == 0 {
        return "in pingresp".to_string();
    }
    match rng.weighted(&w) {
        0 => ack_for(rng, sh, o[0].0, o[0].1, nz),
        1 => {
            let i = if rng.chance(1, 10) { 0 } else { 1 + rng.below(o.len() as u64 - 1) as usize };
            ack_for(rng, sh, o[i].0, o[i].1, nz)
        }
        2 => {
            let id = *rng.pick(&sh.acked);
            let kind = ["puback", "puback", "puback", "pubrec", "pubcomp"][rng.below(5) as usize];
            format!("in {kind} {id} {}", reason_for(rng, sh, kind, nz))
        }
        3 => {
            let id = unused_id(rng, sh);
            let kind = ["puback", "puback", "pubrec", "pubcomp"][rng.below(4) as usize];
            format!("in {kind} {id} {}", reason_for(rng, sh, kind, nz))
        }
        4 => {
            let id = above_limit_id(rng, sh);
            let kind = ["puback", "pubrec", "pubcomp"][rng.below(3) as usize];
            format!("in {kind} {id} {}", reason_for(rng, sh, kind, nz))
        }
        5 => format!("in pubrec {} {}", rng.pick(&q2), reason_for(rng, sh, "pubrec", nz)),
        _ => format!("in pubcomp {} {}", rng.pick(&sh.awaiting), reason_for(rng, sh, "pubcomp", nz)),
    }
}

/// a fresh user request (only called when the gate is open, or by ungated cases)
fn gen_fresh(rng: &mut Rng, sh: &mut Shadow) -> String {
    match rng.weighted(&[45, 30, 6, 8, 5, if sh.v5 { 5 } else { 0 }]) {
        0 => format!("out pub 1 {}", sh.next_tag()),
        1 => format!("out pub 2 {}", sh.next_tag()),
        2 => format!("out pub 0 {}", sh.next_tag()),
        3 => "out sub 1".to_string(),
        4 => "out unsub".to_string(),
        _ => {
            let a = *rng.pick(&[1u16, 2, 7]);
            if sh.polite && a as u32 > sh.alias_max {
                format!("out pub {} {}", rng.range(0, 2), sh.next_tag())
            } else {
                format!("out pub {} {} {a}", rng.range(0, 2), sh.next_tag())
            }
        }
    }
}

fn gen_connack(rng: &mut Rng, sh: &Shadow, fail_pct: u64) -> String {
    let code = if rng.chance(fail_pct, 100) { 1 } else { 0 };
    let sp = rng.below(2);
    if !sh.v5 {
        return format!("in connack {code} {sp} - -");
    }
    let m = sh.max.to_string();
    let rm = *rng.pick(&["-", "0", "1", "2", m.as_str(), "65535"]);
    let am = *rng.pick(&["-", "-", "0", "1", "2", "7", "65535"]);
    format!("in connack {code} {sp} {rm} {am}")
}

fn gen_in_publish(rng: &mut Rng, sh: &mut Shadow, id: u16) -> String {
    let q = rng.weighted(&[3, 4, 4]);
    let pkid = if q == 0 { 0 } else { id };
    let (topic, alias) = if sh.v5 {
        (
            if rng.chance(35, 100) { "e" } else { "t" },
            if rng.chance(1, 2) { "-".to_string() } else { rng.pick(&[1u16, 2, 7]).to_string() },
        )
    } else {
        (if rng.chance(1, 10) { "e" } else { "t" }, "-".to_string())
    };
    format!("in publish {q} {pkid} {} {topic} {alias}", sh.next_tag())
}

/// harmless traffic that is legal at any time
fn gen_misc(rng: &mut Rng, sh: &mut Shadow) -> String {
    match rng.weighted(&[3, 3, 4, 3, 2, 1, if sh.v5 { 1 } else { 0 }]) {
        0 if sh.polite && (sh.ping || sh.col) => "in pingresp".to_string(),
        3 if sh.polite && sh.in_q2.is_empty() => format!("in publish 2 {} {} t -", rng.range(1, 5), sh.next_tag()),
        0 => "out ping".to_string(),
        1 => "in pingresp".to_string(),
        2 => {
            let id = rng.range(1, 5) as u16;
            let q = rng.below(3);
            format!("in publish {q} {} {} t -", if q == 0 { 0 } else { id }, sh.next_tag())
        }
        3 => {
            let id = if sh.in_q2.is_empty() { rng.range(1, 5) as u16 } else { *rng.pick(&sh.in_q2) };
            format!("in pubrel {id} 0")
        }
        4 => format!("in suback {}", rng.range(1, sh.max.max(1) as u64)),
        5 => format!("in unsuback {}", rng.range(1, sh.max.max(1) as u64)),
        _ => gen_connack(rng, sh, 0),
    }
}

fn step_window(rng: &mut Rng, sh: &mut Shadow) -> String {
    let gate = sh.gate();
    let load = sh.load();
    // keep the number of stored publishes small for big windows (line length), full for small ones
    let wf = if !gate {
        0
    } else if load < 6 {
        55
    } else {
        8
    };
    let wa = if load > 0 { 35 } else { 4 };
    match rng.weighted(&[wf, wa, 5]) {
        0 => gen_fresh(rng, sh),
        1 => gen_ack(rng, sh, 10),
        _ => gen_misc(rng, sh),
    }
}

/// next request of the pending list as an op (`out repub …` / `out pubrel …`); with `respect` a
/// head without a packet id is taken only while the window is open (the loop's `pending_ready`)
fn replay_head(sh: &mut Shadow, respect: bool) -> Option<String> {
    if respect {
        if let Some(Req::Publish(PubC { pkid: 0, .. })) = sh.pending.front() {
            if !(sh.inf < sh.limit && !sh.col) {
                return None;
            }
        }
    }
    while let Some(r) = sh.pending.pop_front() {
        match r {
            Req::Publish(PubC { q, pkid, tag: Some(tag), alias }) => {
                return Some(match alias {
                    Some(a) => format!("out repub {q} {pkid} {tag} {a}"),
                    None => format!("out repub {q} {pkid} {tag}"),
                })
            }
            Req::PubRel(n) => return Some(format!("out pubrel {n}")),
            _ => continue,
        }
    }
    None
}

fn step_resume(rng: &mut Rng, sh: &mut Shadow, just_cleaned: bool) -> String {
    if !sh.pending.is_empty() {
        if just_cleaned && rng.chance(12, 100) {
            return "drop".to_string();
        }
        match rng.weighted(&[70, 15, 4, 5]) {
            0 => {
                if let Some(op) = replay_head(sh, true) {
                    return op;
                }
                step_window(rng, sh)
            }
            1 => gen_ack(rng, sh, 10),
            2 => "clean".to_string(),
            _ => gen_misc(rng, sh),
        }
    } else if rng.chance(3, 100) {
        "clean".to_string()
    } else {
        step_window(rng, sh)
    }
}

fn hostile_id(rng: &mut Rng, sh: &Shadow) -> u16 {
    let mut live: Vec<u16> = sh.outstanding.iter().map(|x| x.0).collect();
    live.extend(sh.awaiting.iter());
    live.extend(sh.in_q2.iter());
    if !live.is_empty() && rng.chance(1, 2) {
        return *rng.pick(&live);
    }
    let m1 = (sh.max + 1).min(65535) as u16;
    *rng.pick(&[0, 1, 2, sh.max as u16, m1, 65535])
}

/// an arbitrary packet from the broker
fn gen_hostile_in(rng: &mut Rng, sh: &mut Shadow) -> String {
    let id = hostile_id(rng, sh);
    let w = [10, 8, 8, 8, 14, 7, 2, 3, 2, 2, 2, 3, 3, 3, if sh.v5 { 2 } else { 0 }];
    match rng.weighted(&w) {
        0 => format!("in puback {id} {}", reason_for(rng, sh, "puback", 30)),
        1 => format!("in pubrec {id} {}", reason_for(rng, sh, "pubrec", 30)),
        2 => format!("in pubrel {id} {}", reason_for(rng, sh, "pubrel", 30)),
        3 => format!("in pubcomp {id} {}", reason_for(rng, sh, "pubcomp", 30)),
        4 => gen_in_publish(rng, sh, id),
        5 => gen_connack(rng, sh, 10),
        6 => "in connect".to_string(),
        7 => {
            let r = if sh.v5 { *rng.pick(&[0u8, 4, 128, 130, 135, 139, 142, 147, 151, 162]) } else { 0 };
            format!("in disconnect {r}")
        }
        8 => "in subscribe".to_string(),
        9 => "in unsubscribe".to_string(),
        10 => "in pingreq".to_string(),
        11 => "in pingresp".to_string(),
        12 => format!("in suback {id}"),
        13 => format!("in unsuback {id}"),
        _ => "in auth".to_string(),
    }
}

fn step_hostile(rng: &mut Rng, sh: &mut Shadow, prev_in: &Option<String>) -> String {
    if let Some(p) = prev_in {
        if rng.chance(1, 5) {
            return p.clone();
        }
    }
    let gate = sh.gate();
    let w = [75, if gate { 12 } else { 0 }, 4, if sh.manual { 4 } else { 0 }, if gate { 1 } else { 0 }, 4];
    match rng.weighted(&w) {
        0 => gen_hostile_in(rng, sh),
        1 => gen_fresh(rng, sh),
        2 => "out ping".to_string(),
        3 => {
            // manual acknowledgements travel through the request channel: gated like any request
            if gate {
                format!("out {} {}", rng.pick(&["puback", "pubrec"]), hostile_id(rng, sh))
            } else {
                gen_hostile_in(rng, sh)
            }
        }
        4 => "out disconnect".to_string(),
        _ => gen_ack(rng, sh, 30),
    }
}

fn step_ungated(rng: &mut Rng, sh: &mut Shadow) -> String {
    if !sh.pending.is_empty() && rng.chance(2, 5) {
        if let Some(op) = replay_head(sh, false) {
            return op;
        }
    }
    match rng.weighted(&[22, 10, 25, 28, 3, 1, 1]) {
        0 => gen_fresh(rng, sh),
        1 => {
            let id = hostile_id(rng, sh);
            let inr = rng.range(1, sh.max.max(1).min(6) as u64) as u16;
            match rng.weighted(&[4, 3, 1, 2, 2, 1, 2, 2]) {
                0 => format!("out repub {} {} {}", rng.range(1, 2), if rng.chance(3, 4) { inr } else { id }, sh.next_tag()),
                // in range mostly: an id past the tables is a guaranteed panic
                1 => format!("out pubrel {}", if rng.chance(9, 10) { inr } else { id }),
                2 => "out pubrel 0".to_string(),
                3 => format!("out sub {}", rng.below(3)),
                4 => "out ping".to_string(),
                5 => "out disconnect".to_string(),
                6 => format!("out puback {id}"),
                _ => format!("out pubrec {id}"),
            }
        }
        2 => gen_ack(rng, sh, 20),
        3 => gen_hostile_in(rng, sh),
        4 => "clean".to_string(),
        5 => "drop".to_string(),
        _ => "inflight".to_string(),
    }
}

// ---------------------------------------------------------------------------------------------
// case generators
// ---------------------------------------------------------------------------------------------

const MAXES: [u16; 8] = [1, 2, 3, 4, 5, 10, 100, 65535];
const MAX_W: [u64; 8] = [2, 4, 4, 3, 3, 2, 1, 1];

/// 5..200 ops, biased short (about 80 % of the cases have <= 40 ops); small windows need few ops to
/// fill up and wrap, big ones get the longer cases
fn case_len(rng: &mut Rng, max: u16) -> u64 {
    if max <= 3 {
        match rng.weighted(&[90, 10]) {
            0 => rng.range(5, 25),
            _ => rng.range(26, 60),
        }
    } else if max <= 5 {
        match rng.weighted(&[75, 23, 2]) {
            0 => rng.range(5, 30),
            1 => rng.range(31, 70),
            _ => rng.range(71, 200),
        }
    } else {
        match rng.weighted(&[55, 37, 8]) {
            0 => rng.range(8, 40),
            1 => rng.range(41, 90),
            _ => rng.range(91, 200),
        }
    }
}

fn clean_and_replay(run: &mut Run) {
    if !run.op("clean") {
        return;
    }
    while let Some(op) = replay_head(&mut run.sh, true) {
        if !run.op(&op) {
            return;
        }
    }
}

fn random_case(w: &mut dyn Write, st: &mut Stats, rng: &mut Rng, kind: &'static str, id: String) {
    let mut v5 = rng.chance(1, 2);
    let mut max = MAXES[rng.weighted(&MAX_W)];
    let manual = rng.chance(if kind == "hostile" { 30 } else { 10 }, 100);
    if kind == "order" {
        v5 = rng.chance(3, 10);
        max = *rng.pick(&[2u16, 3, 4, 5]);
    }
    let mut len = case_len(rng, max);
    if max == 65535 {
        // every line clones a 65536-slot table (several ms with the page faults): keep only one
        // in ten of these cases (the others fall back to max=100) and keep them short
        if rng.chance(1, 10) {
            len = len.min(12);
        } else {
            max = 100;
        }
    }
    let mut run = Run::start(w, st, id, kind, v5, max, manual);
    match kind {
        "window" | "resume" => {
            // 40 % of these cases have a well-behaved broker and user, so that a good share of the
            // gated traces is free of errors (an error ends the connection in the real event loop)
            run.sh.polite = rng.chance(40, 100);
            if run.sh.polite {
                run.st.tag("polite-cases");
            }
            if v5 && rng.chance(35, 100) {
                let m = max.to_string();
                let rm = *rng.pick(&["-", "1", "2", "3", m.as_str(), "65535"]);
                let am = *rng.pick(&["-", "0", "2", "7"]);
                run.op(&format!("in connack 0 {} {rm} {am}", rng.below(2)));
            }
            let mut just_cleaned = false;
            for _ in 0..len {
                let op = if kind == "window" {
                    step_window(rng, &mut run.sh)
                } else {
                    step_resume(rng, &mut run.sh, just_cleaned)
                };
                just_cleaned = op == "clean";
                if !run.op(&op) {
                    break;
                }
            }
            // finish a replay that is under way
            while let Some(op) = replay_head(&mut run.sh, true) {
                if !run.op(&op) {
                    break;
                }
            }
        }
        "ungated" => {
            for _ in 0..len {
                let op = step_ungated(rng, &mut run.sh);
                if !run.op(&op) {
                    break;
                }
            }
        }
        "hostile" => {
            let mut prev_in: Option<String> = None;
            for _ in 0..len {
                let op = step_hostile(rng, &mut run.sh, &prev_in);
                if op.starts_with("in ") {
                    prev_in = Some(op.clone());
                }
                if !run.op(&op) {
                    break;
                }
            }
        }
        _ => {
            // "order": QoS1 publishes acked strictly in order, ids wrap, clean + full replay at a
            // random point and at the end
            let m = max as u64;
            let target = rng.range(2 * m, 4 * m);
            let clean_at = rng.below(2 * target);
            let mut pubs = 0;
            let mut i = 0;
            while i < 400 && run.alive {
                if i == clean_at {
                    clean_and_replay(&mut run);
                }
                let oldest = run.sh.outstanding.first().map(|x| x.0);
                let gate = run.sh.gate();
                if gate && pubs < target && (oldest.is_none() || rng.chance(6, 10)) {
                    if rng.chance(1, 20) {
                        run.op("out sub 1");
                    } else {
                        pubs += 1;
                        let t = run.sh.next_tag();
                        run.op(&format!("out pub 1 {t}"));
                    }
                } else if let Some(id) = oldest {
                    run.op(&format!("in puback {id} 0"));
                } else {
                    break;
                }
                if pubs >= target && rng.chance(1, 3) {
                    break;
                }
                i += 1;
            }
            clean_and_replay(&mut run);
        }
    }
    run.finish();
}

/// a fixed op list; `T` stands for the next fresh tag
fn scripted(w: &mut dyn Write, st: &mut Stats, id: String, kind: &'static str, v5: bool, max: u16, ops: &[&str]) {
    let mut run = Run::start(w, st, id, kind, v5, max, false);
    for op in ops {
        let op = match op.strip_suffix(" T") {
            Some(head) => format!("{head} {}", run.sh.next_tag()),
            None => op.to_string(),
        };
        if !run.op(&op) {
            break;
        }
    }
    run.finish();
}

fn corpus(w: &mut dyn Write, st: &mut Stats) {
    let f4 = ["out pub 2 1", "out pub 1 2", "out pub 1 3", "in puback 2 0", "out pub 1 4", "in pubrec 1 0", "in pubcomp 1 0", "in puback 1 0", "clean"];
    let f11 = ["out pub 2 1", "out pub 1 2", "out pub 1 3", "in pubrec 1 0", "in puback 2 0", "out pub 1 4"];
    let f12 = ["out pub 1 1", "out pub 1 2", "in puback 2 0", "out pub 1 3", "clean", "drop"];
    scripted(w, st, "corpus-f4".into(), "corpus", false, 3, &f4);
    scripted(w, st, "corpus-f11".into(), "corpus", false, 3, &f11);
    scripted(w, st, "corpus-f12".into(), "corpus", false, 2, &f12);
    scripted(w, st, "corpus-f13".into(), "corpus", true, 2, &["out pub 1 1", "out pub 1 2", "in puback 2 0", "out pub 1 3", "in pubcomp 1 0"]);
    scripted(w, st, "corpus-f14".into(), "corpus", true, 2, &["out pub 1 1", "out pub 1 2", "in puback 2 0", "out pub 1 3", "in puback 1 151"]);
    scripted(w, st, "corpus-f15".into(), "corpus", true, 2, &["out pub 2 1", "in pubrec 1 128", "out pub 2 2", "in pubrec 2 128"]);
    scripted(w, st, "corpus-f16".into(), "corpus", true, 2, &["out pub 2 1", "in pubrec 1 0", "in pubcomp 1 146"]);
    scripted(w, st, "corpus-f17".into(), "corpus", true, 3, &["out pub 1 1", "out pub 1 2", "in connack 0 0 2 -", "in puback 1 0", "out pub 1 3", "in puback 2 0", "out pub 1 4"]);
    scripted(w, st, "corpus-f17b".into(), "corpus", true, 3, &["out pub 1 1", "out pub 1 2", "in connack 0 0 1 -"]);
    // #16 with a parked publish: failure-reason PUBCOMP takes it, announces it, drops it
    scripted(w, st, "corpus-f16b".into(), "corpus", true, 2, &["out pub 2 1", "out pub 1 2", "in puback 2 0", "out pub 1 3", "in pubrec 1 0", "in pubcomp 1 146"]);
    // #18: after #11 the release bit is set twice, the counter drifts
    scripted(w, st, "corpus-f18".into(), "corpus", false, 3, &["out pub 2 1", "out pub 1 2", "out pub 1 3", "in pubrec 1 0", "in puback 2 0", "out pub 1 4", "clean", "out repub 1 3 3", "out repub 1 1 4", "in pubrec 1 0", "out pubrel 1", "in pubcomp 1 0", "in puback 3 0"]);
    // #19: in-order acks, but a SUBSCRIBE consumed id 2
    scripted(w, st, "corpus-f19".into(), "corpus", false, 2, &["out pub 1 1", "in puback 1 0", "out sub 1", "out pub 1 2", "out pub 1 3", "clean"]);
    // #20: v5 publish with a topic alias above the broker's maximum: Err(InvalidAlias) but stored and counted
    scripted(w, st, "corpus-f20".into(), "corpus", true, 2, &["out pub 1 1 5", "in puback 1 0", "out pub 1 2 5", "clean", "out repub 1 2 2 5"]);
    // #22: v5 PUBREL of a known id with reason 146 is not answered
    scripted(w, st, "corpus-f22".into(), "corpus", true, 3, &["in publish 2 9 1 t -", "in pubrel 9 146", "in pubrel 9 0"]);
    // #23: session not resumed, last_puback stale
    scripted(w, st, "corpus-f23".into(), "corpus", false, 3, &["out pub 1 1", "out pub 1 2", "out pub 1 3", "in puback 1 0", "in puback 2 0", "out pub 1 4", "clean", "drop", "out pub 1 5", "out pub 1 6", "out pub 1 7", "clean"]);
    // second failure before the unnumbered publish returned by clean() was replayed: the loop puts what the
    // state held in front of it, so it is still numbered after the releases it collides with and parks again
    scripted(w, st, "corpus-f24".into(), "corpus", false, 3, &["out pub 2 1", "in pubrec 1 0", "out pub 2 2", "in pubrec 2 0", "out pub 1 3", "in puback 3 0", "out pub 1 4", "clean", "out pubrel 1", "out pubrel 2", "clean", "out pubrel 1", "out pubrel 2", "out repub 1 0 4", "in pubcomp 2 0", "in pubcomp 1 0", "in puback 2 0"]);
    // the same with the loop order of before that repair (not what the loop does any more: judged as an ungated trace)
    scripted(w, st, "corpus-f24-old-order".into(), "corpus", false, 3, &["out pub 2 1", "in pubrec 1 0", "out pub 2 2", "in pubrec 2 0", "out pub 1 3", "in puback 3 0", "out pub 1 4", "clean", "out pubrel 1", "out pubrel 2", "clean", "out repub 1 0 4", "out pubrel 1", "out pubrel 2"]);
    // the parked publish comes back from clean() last and unnumbered, and is parked / sent again on replay
    scripted(w, st, "corpus-parked-replay".into(), "corpus", true, 2, &["out pub 1 1", "out pub 1 2", "in puback 2 0", "out pub 1 3", "clean", "out repub 1 1 1", "out repub 1 0 3", "in puback 1 0", "in puback 2 0"]);
    // nested failure: the retransmission already replayed goes in front of the one still waiting
    scripted(w, st, "corpus-nested-fail".into(), "corpus", false, 3, &["out pub 1 1", "out pub 1 2", "clean", "out repub 1 1 1", "clean", "out repub 1 1 1", "out repub 1 2 2"]);
    // PUBREC(0x10 No matching subscribers) accepts the publish like Success: PUBREL, release held until PUBCOMP, across a failure
    scripted(w, st, "corpus-pubrec-nms".into(), "corpus", true, 2, &["out pub 2 1", "in pubrec 1 16", "clean", "out pubrel 1", "in pubcomp 1 0", "out pub 2 2", "in pubrec 2 16", "in pubcomp 2 0"]);
    scripted(w, st, "corpus-alias".into(), "corpus", true, 3, &["in publish 1 5 9 e 7", "in publish 0 0 10 t 7", "in publish 0 0 11 e 7"]);
    scripted(w, st, "corpus-f4-v5".into(), "corpus", true, 3, &f4);
    scripted(w, st, "corpus-f11-v5".into(), "corpus", true, 3, &f11);
    scripted(w, st, "corpus-f12-v5".into(), "corpus", true, 2, &f12);
    // expected panics and the `inflight` op
    scripted(w, st, "fixed-other-v4".into(), "fixed", false, 3, &["out pub 1 1", "out other", "out pub 1 2"]);
    scripted(w, st, "fixed-other-v5".into(), "fixed", true, 3, &["out pub 1 1", "out other", "out pub 1 2"]);
    scripted(w, st, "fixed-pubrel-oob-v4".into(), "fixed", false, 3, &["out pubrel 65535", "out pub 1 1"]);
    scripted(w, st, "fixed-pubrel-oob-v5".into(), "fixed", true, 3, &["out pubrel 65535", "out pub 1 1"]);
    scripted(w, st, "fixed-inflight".into(), "fixed", false, 3, &["inflight", "out pub 1 1", "inflight", "in puback 1 0", "inflight"]);
}

const ALPHA_A: [&str; 9] = [
    "out pub 1 T",
    "out pub 2 T",
    "in puback 1 0",
    "in puback 2 0",
    "in pubrec 1 0",
    "in pubcomp 1 0",
    "in puback 3 0",
    "clean",
    "out sub 1",
];
const ALPHA_B: [&str; 9] = [
    "out pub 1 T",
    "in puback 1 0",
    "in puback 1 151",
    "in pubrec 1 128",
    "in pubcomp 1 146",
    "in pubcomp 1 0",
    "in pubrec 1 0",
    "in connack 0 0 1 -",
    "clean",
];

/// v5 reason codes on a stored QoS 2 publish: PUBREC with both accepting codes (0, 16) and a refusal,
/// PUBCOMP with and without a failure reason, PUBACK(16)
const ALPHA_C: [&str; 9] = [
    "out pub 2 T",
    "in pubrec 1 16",
    "in pubrec 1 0",
    "in pubrec 1 128",
    "in pubcomp 1 0",
    "in pubcomp 1 146",
    "in puback 1 16",
    "out pub 1 T",
    "clean",
];

/// all sequences of length exactly `len` over `alpha` (most significant digit first, so that
/// neighbouring cases share prefixes); case index mod shards selects the shard
#[allow(clippy::too_many_arguments)]
fn exhaustive(
    w: &mut dyn Write,
    st: &mut Stats,
    o: &Opts,
    prefix: &'static str,
    alpha: &[&str; 9],
    v5: bool,
    max: u16,
    len: u32,
) {
    let n = 9u64.pow(len);
    let v = if v5 { "v5" } else { "v4" };
    let mut ops: Vec<&str> = Vec::with_capacity(len as usize);
    for i in 0..n {
        if i % o.shards != o.shard {
            continue;
        }
        ops.clear();
        let mut div = n / 9;
        for _ in 0..len {
            ops.push(alpha[((i / div) % 9) as usize]);
            div = (div / 9).max(1);
        }
        scripted(w, st, format!("{prefix}-{v}-{max}-{i}"), prefix, v5, max, &ops);
    }
    st.tagn(&format!("exhaustive:{prefix}-{v}-{max}-len{len}"), n);
}

/// value of an extra option `--name value`
fn extra(o: &Opts, name: &str) -> Option<String> {
    let mut i = 0;
    while i + 1 < o.extra.len() {
        if o.extra[i] == name {
            return Some(o.extra[i + 1].clone());
        }
        i += 1;
    }
    None
}

pub fn run(o: &Opts) {
    let mut wbox = o.writer();
    let w: &mut dyn Write = &mut *wbox;
    if let Some(p) = &o.replay {
        replay(p, w);
        w.flush().unwrap();
        return;
    }
    let thorough = o.thorough();
    // exhaustive lengths per max (block A, both versions) and for block B
    // quick: 9^5 cases of 7 lines are about 30 MB per configuration, so only max=2 (collision AND
    // its resolution fit in 5 ops) gets L=5 in block A; `--exlen l1,l2,l3,lb` overrides
    let (mut l1, mut l2, mut l3, mut lb) = if thorough { (6, 6, 6, 6) } else { (4, 5, 4, 5) };
    if let Some(x) = extra(o, "--exlen") {
        let v: Vec<u32> = x.split(',').filter_map(|y| y.parse().ok()).collect();
        if v.len() == 4 {
            (l1, l2, l3, lb) = (v[0], v[1], v[2], v[3]);
        }
    }
    let mut st = Stats::new(&format!(
        "evaluations = op lines executed on the real MqttState (v4 and v5). Scope: fixed corpus; exhaustive block A = \
         all op sequences of length exactly L over 9 ops (out pub 1/2, in puback 1/2/3, in pubrec 1, in pubcomp 1, clean, \
         out sub 1) for v4 and v5 with L={l1} for max=1, L={l2} for max=2, L={l3} for max=3 (every prefix is compared line \
         by line; quick: only max=2, where a collision and its resolution fit, gets L=5 so that the run stays near 10 s / 160 MB; thorough is sharded); block \
         B = v5, max=2, L={lb} over (out pub 1, in puback 1 0/151, in pubrec 1 128/0, in pubcomp 1 146/0, in connack rm=1, \
         clean); block C = v5, max=2, L=max(3, L_B - 1) over (out pub 2, out pub 1, in pubrec 1 16/0/128, in pubcomp 1 0/146, \
         in puback 1 16, clean): both accepting PUBREC reason codes and a refusal on a stored QoS 2 publish; plus random state-aware cases of kinds window/resume/ungated/hostile/order (5..200 ops, biased short; max from \
         1,2,3,4,5,10,100,65535 with weights 2,4,4,3,3,2,1,1, except that only one in ten of the max=65535 draws is kept, at \
         <= 12 ops, the rest falling back to 100, because every line clones the 65536-slot table; 40 % of the window/resume \
         cases are 'polite', i.e. free of duplicate/unsolicited/above-limit acks). \
         distinct non-trivial = cases, by hash of the full op list, in which a collision was pending, a packet id was \
         handed out a second time (wrap-around), or some op returned an error (unsolicited ack etc.) or panicked"
    ));

    corpus(w, &mut st);

    for v5 in [false, true] {
        exhaustive(w, &mut st, o, "ex", &ALPHA_A, v5, 1, l1);
        exhaustive(w, &mut st, o, "ex", &ALPHA_A, v5, 2, l2);
        exhaustive(w, &mut st, o, "ex", &ALPHA_A, v5, 3, l3);
    }
    exhaustive(w, &mut st, o, "ex2", &ALPHA_B, true, 2, lb);
    exhaustive(w, &mut st, o, "ex3", &ALPHA_C, true, 2, lb.saturating_sub(1).max(3));

    let foc = extra(o, "--focus").unwrap_or_else(|| "C07".to_string());
    st.tag(&format!("focus:{foc}"));
    // window, resume, ungated, hostile, order
    let kinds: [&'static str; 5] = ["window", "resume", "ungated", "hostile", "order"];
    let mix: [u64; 5] = match foc.as_str() {
        "C02" => [25, 40, 10, 12, 13],
        "C10" => [15, 12, 11, 50, 12],
        "C11" => [17, 16, 10, 12, 45],
        _ => [50, 15, 10, 12, 13],
    };
    let nrand = match extra(o, "--nrand").and_then(|x| x.parse::<u64>().ok()) {
        Some(n) => n,
        None if thorough => 1_000_000 / o.shards.max(1),
        None => 20_000,
    };
    let mut rng = Rng::new(o.seed ^ (o.shard << 32) ^ 0xC57A7E);
    for n in 0..nrand {
        let kind = kinds[rng.weighted(&mix)];
        let mut crng = rng.fork();
        random_case(w, &mut st, &mut crng, kind, format!("r-{kind}-{}-{n}", o.shard));
    }

    // percentages per random kind (integers, for the report)
    for k in kinds {
        let total = st.histogram.get(&format!("kind:{k}")).copied().unwrap_or(0);
        if total == 0 {
            continue;
        }
        for f in ["collision", "wraparound", "unsolicited", "clean", "panic"] {
            let c = st.histogram.get(&format!("kind:{k}:with-{f}")).copied().unwrap_or(0);
            st.tagn(&format!("pct:{k}:with-{f}"), c * 100 / total);
        }
    }
    st.exhaustive = true;
    w.flush().unwrap();
    if let Some(p) = &o.stats {
        st.write(p);
    }
}
