//! `vh` — correspondence harness: runs the real rumqttc / rumqttd code in-process on
//! generated inputs and prints one line per operation (`<op tokens> => <observed output>`),
//! which the Lean driver `mdriver` replays on the model.
mod admit;
mod clog;
mod cloop;
mod codec;
mod cstate;
mod frame;
mod tables;
mod router;
mod stack;
mod routergen;
mod topic;
mod util;

fn main() {
    let args: Vec<String> = std::env::args().collect();
    if args.len() < 2 {
        eprintln!("usage: vh <topic|...> [--tier quick|thorough] [--seed N] [--out F] [--stats F] [--replay F] [--shard i/n]");
        std::process::exit(2);
    }
    let opts = util::Opts::parse(&args[2..]);
    util::quiet_panics();
    match args[1].as_str() {
        "topic" => topic::run(&opts),
        "router" => router::run(&opts),
        "clog" => clog::run(&opts),
        "admit" => admit::run(&opts),
        "stack" => stack::run(&opts),
        "cloop" => cloop::run(&opts),
        "cstate" => cstate::run(&opts),
        "frame" => frame::run(&opts),
        "codec" => codec::run(&opts),
        "tables" => tables::run(&opts),
        x => {
            eprintln!("unknown sub-command {x}");
            std::process::exit(2);
        }
    }
}
