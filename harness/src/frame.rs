//! C05: the four decoders and the framing loops around them.
//!
//! Copies: c4 = rumqttc::mqttbytes::v4::Packet::read, c5 = rumqttc::v5::mqttbytes::v5::Packet::read,
//!         b4 = rumqttd::protocol::v4::V4::read_mut,   b5 = rumqttd::protocol::v5::V5::read_mut.
//!
//! Lines
//!   dec <copy|all> <max|none> <bytes>           => <outcome>            (for `all`: c4 | c5 | b4 | b5)
//!       outcome: `P <consumed>` packet, `N <n> <consumed>` InsufficientBytes(n) (stats class S if consumed > 0),
//!                `L <consumed>` PayloadSizeLimitExceeded, `M <consumed>` any other error,
//!                `X <consumed>` panic.   <consumed> = bytes removed from the BytesMut by the call.
//!   stream <copy> <max|none> <k> <chunk>...     => <chunked run> // <same bytes as one chunk> // <walk>
//!       walk: the bare decoder called repeatedly on the whole stream (`P<consumed>`, `S<n>:<consumed>` =
//!             InsufficientBytes(n) although bytes were removed, then `N` | `L` | `M<consumed>` | `X<consumed>`)
//!       c4/c5: the client `Codec` driven exactly as tokio_util's `Framed` drives a `Decoder`
//!              (append a socket read, `decode` until `Ok(None)`, `decode_eof` at end of stream);
//!              tokens `P<consumed>:<hash>`, then `E` (clean end) | `R` (bytes remaining) | L | M | X.
//!       b4/b5: the real `rumqttd::verif::Network` over an in-memory socket that hands out one chunk
//!              per `poll_read`, driven as `RemoteLink::start` does: `read().await`, then `readv` into a
//!              drained buffer; k = max_connection_buffer_len; tokens `P:<hash>`, `|` after each
//!              read+readv batch, then `E` (ConnectionAborted) | `R` (ConnectionReset) | L | M | X.
//!   <bytes>/<chunk>: hex, `-` = empty, optional suffix `+z<n>` = n zero bytes appended.
//!   max `none` = no limit (`None` for c5, usize::MAX for the usize copies).
use crate::util::*;
use bytes::BytesMut;
use std::collections::VecDeque;
use std::io::Write;
use std::panic::{catch_unwind, AssertUnwindSafe};
use std::pin::Pin;
use std::task::{Context, Poll};
use tokio::io::{AsyncRead, AsyncWrite, ReadBuf};
use tokio_util::codec::Decoder;

use rumqttd::protocol::Protocol;

#[derive(Clone, Copy, PartialEq, Eq, Debug, Hash)]
pub enum Cp {
    C4,
    C5,
    B4,
    B5,
}
const COPIES: [Cp; 4] = [Cp::C4, Cp::C5, Cp::B4, Cp::B5];

impl Cp {
    fn name(self) -> &'static str {
        match self {
            Cp::C4 => "c4",
            Cp::C5 => "c5",
            Cp::B4 => "b4",
            Cp::B5 => "b5",
        }
    }
    fn parse(s: &str) -> Cp {
        match s {
            "c4" => Cp::C4,
            "c5" => Cp::C5,
            "b4" => Cp::B4,
            "b5" => Cp::B5,
            _ => panic!("bad copy {s}"),
        }
    }
}

// ------------------------------------------------------------------------------------ byte tokens
fn parse_bytes(tok: &str) -> Vec<u8> {
    match tok.split_once("+z") {
        Some((h, n)) => {
            let mut v = unhex(h);
            v.resize(v.len() + n.parse::<usize>().expect("zero count"), 0);
            v
        }
        None => unhex(tok),
    }
}

/// hex with a trailing run of >= 24 zero bytes compressed to `+z<n>`
fn show_bytes(b: &[u8]) -> String {
    let mut z = 0;
    while z < b.len() && b[b.len() - 1 - z] == 0 {
        z += 1;
    }
    if z >= 24 {
        format!("{}+z{}", hex(&b[..b.len() - z]), z)
    } else {
        hex(b)
    }
}

fn parse_max(s: &str) -> Option<u64> {
    if s == "none" {
        None
    } else {
        Some(s.parse().expect("max"))
    }
}
fn show_max(m: Option<u64>) -> String {
    match m {
        None => "none".into(),
        Some(x) => x.to_string(),
    }
}
fn max_usize(m: Option<u64>) -> usize {
    m.map(|x| x as usize).unwrap_or(usize::MAX)
}
fn max_u32(m: Option<u64>) -> Option<u32> {
    m.map(|x| x.min(u32::MAX as u64) as u32)
}

// ------------------------------------------------------------------------------------ outcomes
fn fnv(s: &str) -> String {
    let mut h: u64 = 0xcbf29ce484222325;
    for b in s.bytes() {
        h ^= b as u64;
        h = h.wrapping_mul(0x100000001b3);
    }
    format!("{:08x}", (h ^ (h >> 32)) as u32)
}

/// canonical identity of a decoded packet (only ever compared with another run of the same build)
fn id_c4(p: &rumqttc::mqttbytes::v4::Packet) -> String {
    // v4 client Publish has a lossy hand-written Debug: add what it leaves out
    match p {
        rumqttc::mqttbytes::v4::Packet::Publish(x) => fnv(&format!("{:?}|{:?}|{}", p, x.payload, x.dup)),
        _ => fnv(&format!("{:?}", p)),
    }
}
fn id_dbg<T: std::fmt::Debug>(p: &T) -> String {
    fnv(&format!("{:?}", p))
}

enum Oc {
    P(String),
    N(usize),
    L,
    M,
    /// io error produced by the loop itself (decode_eof with bytes left)
    R,
}

fn oc_c4(r: Result<rumqttc::mqttbytes::v4::Packet, rumqttc::mqttbytes::Error>) -> Oc {
    use rumqttc::mqttbytes::Error as E;
    match r {
        Ok(p) => Oc::P(id_c4(&p)),
        Err(E::InsufficientBytes(n)) => Oc::N(n),
        Err(E::PayloadSizeLimitExceeded(_)) => Oc::L,
        Err(E::Io(_)) => Oc::R,
        Err(_) => Oc::M,
    }
}
fn oc_c5(r: Result<rumqttc::v5::mqttbytes::v5::Packet, rumqttc::v5::mqttbytes::Error>) -> Oc {
    use rumqttc::v5::mqttbytes::Error as E;
    match r {
        Ok(p) => Oc::P(id_dbg(&p)),
        Err(E::InsufficientBytes(n)) => Oc::N(n),
        Err(E::PayloadSizeLimitExceeded { .. }) => Oc::L,
        Err(E::Io(_)) => Oc::R,
        Err(_) => Oc::M,
    }
}
fn oc_b(r: Result<rumqttd::protocol::Packet, rumqttd::protocol::Error>) -> Oc {
    use rumqttd::protocol::Error as E;
    match r {
        Ok(p) => Oc::P(id_dbg(&p)),
        Err(E::InsufficientBytes(n)) => Oc::N(n),
        Err(E::PayloadSizeLimitExceeded(_)) => Oc::L,
        Err(_) => Oc::M,
    }
}

/// one decoder call on `buf` under catch_unwind
fn dec_buf(cp: Cp, max: Option<u64>, buf: &mut BytesMut) -> Result<Oc, ()> {
    catch_unwind(AssertUnwindSafe(|| match cp {
        Cp::C4 => oc_c4(rumqttc::mqttbytes::v4::Packet::read(buf, max_usize(max))),
        Cp::C5 => oc_c5(rumqttc::v5::mqttbytes::v5::Packet::read(buf, max_u32(max))),
        Cp::B4 => oc_b(rumqttd::protocol::v4::V4.read_mut(buf, max_usize(max))),
        Cp::B5 => oc_b(rumqttd::protocol::v5::V5.read_mut(buf, max_usize(max))),
    }))
    .map_err(|_| ())
}

/// one call of the decoder on a fresh buffer; returns (class letter, printed outcome)
pub fn dec_one(cp: Cp, max: Option<u64>, bytes: &[u8]) -> (char, String) {
    let mut buf = BytesMut::from(bytes);
    let r = dec_buf(cp, max, &mut buf);
    let consumed = bytes.len() - buf.len();
    match r {
        Ok(Oc::P(_)) => ('P', format!("P {consumed}")),
        Ok(Oc::N(n)) => (if consumed > 0 { 'S' } else { 'N' }, format!("N {n} {consumed}")),
        Ok(Oc::L) => ('L', format!("L {consumed}")),
        Ok(Oc::M) | Ok(Oc::R) => ('M', format!("M {consumed}")),
        Err(_) => ('X', format!("X {consumed}")),
    }
}

/// the decoder called repeatedly on the whole stream in one buffer (no loop logic at all): which
/// frames it accepts (`P<consumed>`), rejects (`M<consumed>`, `L`, `X<consumed>`, stop), or answers
/// with InsufficientBytes *after* removing bytes (`S<n>:<consumed>`, go on); `N` = waits, stop.
pub fn walk(cp: Cp, max: Option<u64>, bytes: &[u8]) -> Vec<String> {
    let mut buf = BytesMut::from(bytes);
    let mut out = vec![];
    loop {
        let before = buf.len();
        let r = dec_buf(cp, max, &mut buf);
        let c = before - buf.len();
        match r {
            Ok(Oc::P(_)) => out.push(format!("P{c}")),
            Ok(Oc::N(n)) if c > 0 => out.push(format!("S{n}:{c}")),
            Ok(Oc::N(_)) => {
                out.push("N".into());
                return out;
            }
            Ok(Oc::L) => {
                out.push("L".into());
                return out;
            }
            Ok(Oc::M) | Ok(Oc::R) => {
                out.push(format!("M{c}"));
                return out;
            }
            Err(_) => {
                out.push(format!("X{c}"));
                return out;
            }
        }
    }
}

// ------------------------------------------------------------------------------------ client loop
/// `Framed`'s read loop around a `Decoder` (tokio-util 0.7 `FramedImpl::poll_next`): after every
/// socket read `decode` is called until it returns `Ok(None)`; an `Err` ends the stream; at end of
/// stream `decode_eof` is called until it returns `Ok(None)` or an error.
fn codec_loop<D, T, E>(codec: &mut D, chunks: &[Vec<u8>], id: impl Fn(&T) -> String, cls: impl Fn(E) -> Oc) -> Vec<String>
where
    D: Decoder<Item = T, Error = E>,
{
    let mut out = vec![];
    let mut buf = BytesMut::new();
    let step = |codec: &mut D, buf: &mut BytesMut, eof: bool, out: &mut Vec<String>| -> bool {
        // returns true if the loop should go on decoding
        let before = buf.len();
        let r = catch_unwind(AssertUnwindSafe(|| if eof { codec.decode_eof(buf) } else { codec.decode(buf) }));
        match r {
            Ok(Ok(Some(p))) => {
                out.push(format!("P{}:{}", before - buf.len(), id(&p)));
                true
            }
            Ok(Ok(None)) => {
                if eof {
                    out.push("E".into());
                }
                false
            }
            Ok(Err(e)) => {
                out.push(
                    match cls(e) {
                        Oc::L => "L",
                        Oc::R => "R",
                        Oc::N(_) => "N?",
                        _ => "M",
                    }
                    .into(),
                );
                false
            }
            Err(_) => {
                out.push("X".into());
                false
            }
        }
    };
    let ended = |out: &Vec<String>| matches!(out.last().map(|s| s.as_str()), Some("L" | "M" | "X" | "R" | "N?"));
    for ch in chunks.iter().filter(|c| !c.is_empty()) {
        buf.extend_from_slice(ch);
        while step(codec, &mut buf, false, &mut out) {}
        if ended(&out) {
            return out;
        }
    }
    while step(codec, &mut buf, true, &mut out) {}
    out
}

// ------------------------------------------------------------------------------------ broker loop
/// in-memory socket: every `poll_read` hands out (the rest of) one chunk, then end of stream
struct ChunkSock {
    chunks: VecDeque<Vec<u8>>,
}
impl AsyncRead for ChunkSock {
    fn poll_read(mut self: Pin<&mut Self>, _cx: &mut Context<'_>, buf: &mut ReadBuf<'_>) -> Poll<std::io::Result<()>> {
        while matches!(self.chunks.front(), Some(c) if c.is_empty()) {
            self.chunks.pop_front();
        }
        if let Some(front) = self.chunks.front_mut() {
            let n = front.len().min(buf.remaining());
            buf.put_slice(&front[..n]);
            front.drain(..n);
        }
        Poll::Ready(Ok(()))
    }
}
impl AsyncWrite for ChunkSock {
    fn poll_write(self: Pin<&mut Self>, _cx: &mut Context<'_>, b: &[u8]) -> Poll<std::io::Result<usize>> {
        Poll::Ready(Ok(b.len()))
    }
    fn poll_flush(self: Pin<&mut Self>, _cx: &mut Context<'_>) -> Poll<std::io::Result<()>> {
        Poll::Ready(Ok(()))
    }
    fn poll_shutdown(self: Pin<&mut Self>, _cx: &mut Context<'_>) -> Poll<std::io::Result<()>> {
        Poll::Ready(Ok(()))
    }
}

/// `link::network::Error` is not nameable from outside the crate: classify through
/// `std::error::Error::source()` (`Io(#[from] io::Error)`, `Protocol(#[from] protocol::Error)`,
/// `KeepAlive(#[from] Elapsed)`).
fn net_err<E: std::error::Error + 'static>(e: E) -> &'static str {
    use rumqttd::protocol::Error as PE;
    let src = match e.source() {
        Some(s) => s,
        None => return "?",
    };
    if let Some(io) = src.downcast_ref::<std::io::Error>() {
        return match io.kind() {
            std::io::ErrorKind::ConnectionAborted => "E",
            std::io::ErrorKind::ConnectionReset => "R",
            // readv wraps every protocol error into io::Error(InvalidData, text)
            std::io::ErrorKind::InvalidData => "M",
            _ => "I",
        };
    }
    if let Some(pe) = src.downcast_ref::<PE>() {
        return match pe {
            PE::PayloadSizeLimitExceeded(_) => "L",
            PE::InsufficientBytes(_) => "N?",
            _ => "M",
        };
    }
    "K"
}

fn net_loop<P: Protocol>(proto: P, max: usize, k: usize, chunks: &[Vec<u8>]) -> Vec<String> {
    let out = std::cell::RefCell::new(Vec::<String>::new());
    let sock = ChunkSock { chunks: chunks.iter().cloned().collect() };
    let r = catch_unwind(AssertUnwindSafe(|| {
        let rt = tokio::runtime::Builder::new_current_thread().enable_time().build().unwrap();
        rt.block_on(async {
            let mut net = rumqttd::verif::Network::new(Box::new(sock), max, k, proto);
            loop {
                match net.read().await {
                    Ok(p) => {
                        out.borrow_mut().push(format!("P:{}", id_dbg(&p)));
                        let mut batch = VecDeque::new();
                        batch.push_back(p);
                        let r = net.readv(&mut batch);
                        for q in batch.iter().skip(1) {
                            out.borrow_mut().push(format!("P:{}", id_dbg(q)));
                        }
                        match r {
                            Ok(_) => out.borrow_mut().push("|".into()),
                            Err(e) => {
                                out.borrow_mut().push(net_err(e).into());
                                return;
                            }
                        }
                    }
                    Err(e) => {
                        out.borrow_mut().push(net_err(e).into());
                        return;
                    }
                }
            }
        })
    }));
    if r.is_err() {
        out.borrow_mut().push("X".into());
    }
    out.into_inner()
}

pub fn stream_one(cp: Cp, max: Option<u64>, k: usize, chunks: &[Vec<u8>]) -> Vec<String> {
    match cp {
        Cp::C4 => {
            let mut c = rumqttc::mqttbytes::v4::Codec { max_incoming_size: max_usize(max), max_outgoing_size: usize::MAX };
            codec_loop(&mut c, chunks, id_c4, |e| oc_c4(Err(e)))
        }
        Cp::C5 => {
            let mut c = rumqttc::v5::mqttbytes::v5::Codec { max_incoming_size: max_u32(max), max_outgoing_size: None };
            codec_loop(&mut c, chunks, id_dbg, |e| oc_c5(Err(e)))
        }
        Cp::B4 => net_loop(rumqttd::protocol::v4::V4, max_usize(max), k, chunks),
        Cp::B5 => net_loop(rumqttd::protocol::v5::V5, max_usize(max), k, chunks),
    }
}

// ------------------------------------------------------------------------------------ op execution
pub fn exec(op: &str) -> String {
    let t: Vec<&str> = op.split_whitespace().collect();
    match t[0] {
        "dec" => {
            let max = parse_max(t[2]);
            let bytes = parse_bytes(t[3]);
            if t[1] == "all" {
                COPIES.iter().map(|c| dec_one(*c, max, &bytes).1).collect::<Vec<_>>().join(" | ")
            } else {
                dec_one(Cp::parse(t[1]), max, &bytes).1
            }
        }
        "stream" => {
            let cp = Cp::parse(t[1]);
            let max = parse_max(t[2]);
            let k: usize = t[3].parse().expect("k");
            let chunks: Vec<Vec<u8>> = t[4..].iter().map(|c| parse_bytes(c)).collect();
            let whole: Vec<u8> = chunks.concat();
            let a = stream_one(cp, max, k, &chunks);
            let b = stream_one(cp, max, k, &[whole.clone()]);
            format!("{} // {} // {}", a.join(" "), b.join(" "), walk(cp, max, &whole).join(" "))
        }
        _ => panic!("bad op {op}"),
    }
}

// ------------------------------------------------------------------------------------ frame pool
/// valid frames produced by the repository's own encoders, all packet types, both versions
pub fn pool() -> Vec<(String, Vec<u8>)> {
    let mut out: Vec<(String, Vec<u8>)> = vec![];
    {
        use rumqttc::mqttbytes::v4::*;
        use rumqttc::mqttbytes::QoS;
        let mut add = |name: &str, p: Packet| {
            let mut b = BytesMut::new();
            p.write(&mut b, usize::MAX).expect("c4 encode");
            out.push((format!("c4-{name}"), b.to_vec()));
        };
        let mut c = Connect::new("cid");
        add("connect", Packet::Connect(c.clone()));
        c.set_login("user", "pw");
        c.last_will = Some(LastWill::new("w/t", vec![1, 2, 3], QoS::AtLeastOnce, true));
        add("connect-full", Packet::Connect(c));
        add("connack", Packet::ConnAck(ConnAck::new(ConnectReturnCode::Success, true)));
        add("publish0", Packet::Publish(Publish::new("a/b", QoS::AtMostOnce, vec![9u8; 3])));
        let mut p = Publish::new("a/b/c", QoS::AtLeastOnce, vec![7u8; 200]);
        p.pkid = 10;
        add("publish1-2bytelen", Packet::Publish(p));
        let mut p = Publish::new("t", QoS::ExactlyOnce, vec![0u8; 16400]);
        p.pkid = 65535;
        p.retain = true;
        add("publish2-3bytelen", Packet::Publish(p));
        add("puback", Packet::PubAck(PubAck::new(1)));
        add("pubrec", Packet::PubRec(PubRec::new(2)));
        add("pubrel", Packet::PubRel(PubRel::new(3)));
        add("pubcomp", Packet::PubComp(PubComp::new(4)));
        add("subscribe", Packet::Subscribe(Subscribe::new("a/+", QoS::AtLeastOnce)));
        let mut s = Subscribe::new("a/#", QoS::ExactlyOnce);
        s.add("b".into(), QoS::AtMostOnce);
        s.pkid = 77;
        add("subscribe2", Packet::Subscribe(s));
        add("suback", Packet::SubAck(SubAck::new(5, vec![SubscribeReasonCode::Success(QoS::AtLeastOnce), SubscribeReasonCode::Failure])));
        let mut u = Unsubscribe::new("a/+");
        u.pkid = 6;
        add("unsubscribe", Packet::Unsubscribe(u));
        add("unsuback", Packet::UnsubAck(UnsubAck::new(7)));
        add("pingreq", Packet::PingReq);
        add("pingresp", Packet::PingResp);
        add("disconnect", Packet::Disconnect);
    }
    {
        use rumqttc::v5::mqttbytes::v5::*;
        use rumqttc::v5::mqttbytes::QoS;
        let mut add = |name: &str, p: Packet| {
            let mut b = BytesMut::new();
            p.write(&mut b, None).expect("c5 encode");
            out.push((format!("c5-{name}"), b.to_vec()));
        };
        let up = vec![("k".to_string(), "v".to_string())];
        add(
            "connect",
            Packet::Connect(Connect { keep_alive: 5, client_id: "cid5".into(), clean_start: true, properties: None }, None, None),
        );
        add(
            "connect-full",
            Packet::Connect(
                Connect {
                    keep_alive: 5,
                    client_id: "cid5".into(),
                    clean_start: false,
                    properties: Some(ConnectProperties {
                        session_expiry_interval: Some(60),
                        receive_maximum: Some(10),
                        max_packet_size: Some(1000),
                        topic_alias_max: Some(4),
                        request_response_info: Some(1),
                        request_problem_info: Some(0),
                        user_properties: up.clone(),
                        authentication_method: Some("m".into()),
                        authentication_data: Some(bytes::Bytes::from_static(b"dd")),
                    }),
                },
                Some(LastWill { topic: "w".into(), message: "bye".into(), qos: QoS::AtLeastOnce, retain: false, properties: None }),
                Some(Login::new("u", "p")),
            ),
        );
        add("connack", Packet::ConnAck(ConnAck { session_present: false, code: ConnectReturnCode::Success, properties: None }));
        add(
            "publish0",
            Packet::Publish(Publish { topic: "a/b".into(), payload: "xyz".into(), ..Default::default() }),
        );
        add(
            "publish1-props",
            Packet::Publish(Publish {
                dup: true,
                qos: QoS::AtLeastOnce,
                retain: true,
                topic: "a/b/c".into(),
                pkid: 9,
                payload: vec![5u8; 180].into(),
                properties: Some(PublishProperties {
                    payload_format_indicator: Some(1),
                    message_expiry_interval: Some(30),
                    topic_alias: Some(2),
                    response_topic: Some("r".into()),
                    correlation_data: Some(bytes::Bytes::from_static(b"cd")),
                    user_properties: up.clone(),
                    subscription_identifiers: vec![1, 200],
                    content_type: Some("ct".into()),
                }),
            }),
        );
        add("puback", Packet::PubAck(PubAck { pkid: 1, reason: PubAckReason::Success, properties: None }));
        add(
            "puback-reason",
            Packet::PubAck(PubAck {
                pkid: 1,
                reason: PubAckReason::NoMatchingSubscribers,
                properties: Some(PubAckProperties { reason_string: Some("why".into()), user_properties: up.clone() }),
            }),
        );
        add("pubrec", Packet::PubRec(PubRec { pkid: 2, reason: PubRecReason::Success, properties: None }));
        add("pubrel", Packet::PubRel(PubRel { pkid: 3, reason: PubRelReason::PacketIdentifierNotFound, properties: None }));
        add("pubcomp", Packet::PubComp(PubComp { pkid: 4, reason: PubCompReason::Success, properties: None }));
        add(
            "subscribe",
            Packet::Subscribe(Subscribe {
                pkid: 5,
                filters: vec![Filter::new("a/+", QoS::AtLeastOnce), Filter::new("#", QoS::ExactlyOnce)],
                properties: Some(SubscribeProperties { id: Some(3), user_properties: vec![] }),
            }),
        );
        add(
            "suback",
            Packet::SubAck(SubAck {
                pkid: 5,
                return_codes: vec![SubscribeReasonCode::Success(QoS::AtMostOnce), SubscribeReasonCode::NotAuthorized],
                properties: None,
            }),
        );
        add(
            "unsubscribe",
            Packet::Unsubscribe(Unsubscribe { pkid: 6, filters: vec!["a/+".into()], properties: None }),
        );
        add(
            "unsuback",
            Packet::UnsubAck(UnsubAck { pkid: 6, reasons: vec![UnsubAckReason::Success], properties: None }),
        );
        add("pingreq", Packet::PingReq(PingReq));
        add("pingresp", Packet::PingResp(PingResp));
        add(
            "disconnect",
            Packet::Disconnect(Disconnect { reason_code: DisconnectReasonCode::NormalDisconnection, properties: None }),
        );
        add(
            "disconnect-props",
            Packet::Disconnect(Disconnect {
                reason_code: DisconnectReasonCode::UnspecifiedError,
                properties: Some(DisconnectProperties {
                    session_expiry_interval: Some(1),
                    reason_string: Some("rs".into()),
                    user_properties: up.clone(),
                    server_reference: None,
                }),
            }),
        );
    }
    // AUTH cannot be built from outside rumqttc (its reason-code type is private): written by hand
    out.push(("hand-auth".into(), vec![0xf0, 0x02, 0x18, 0x00]));
    {
        // a few frames from the broker's encoders (its packet structs are only partly constructible
        // from outside the crate)
        use rumqttd::protocol::{self as bp, Packet};
        let mut add = |name: &str, v5: bool, p: Packet| {
            let mut b = BytesMut::new();
            let r = if v5 { bp::v5::V5.write(p, &mut b) } else { bp::v4::V4.write(p, &mut b) };
            r.expect("broker encode");
            out.push((format!("{}-{name}", if v5 { "b5" } else { "b4" }), b.to_vec()));
        };
        for v5 in [false, true] {
            add("connack", v5, Packet::ConnAck(bp::ConnAck { session_present: true, code: bp::ConnectReturnCode::Success }, None));
            add("pingresp", v5, Packet::PingResp(bp::PingResp));
            add("pingreq", v5, Packet::PingReq(bp::PingReq));
            add("publish", v5, Packet::Publish(bp::Publish::new("b/t", "payload", false), None));
        }
    }
    out
}

/// remaining-length field of a valid frame: (header length, remaining length)
fn header_of(frame: &[u8]) -> (usize, usize) {
    let mut len = 0usize;
    let mut i = 1;
    loop {
        let b = frame[i] as usize;
        len += (b & 0x7f) << (7 * (i - 1));
        i += 1;
        if b & 0x80 == 0 {
            break;
        }
    }
    (i, len)
}

/// MQTT variable byte integer written by hand (input generation only, not an oracle)
fn enc_len(mut x: usize) -> Vec<u8> {
    let mut v = vec![];
    loop {
        let mut b = (x % 128) as u8;
        x /= 128;
        if x > 0 {
            b |= 128;
        }
        v.push(b);
        if x == 0 {
            return v;
        }
    }
}

// ------------------------------------------------------------------------------------ generation
struct Gen<'a> {
    w: Box<dyn Write + 'a>,
    st: Stats,
    lines: u64,
}

impl<'a> Gen<'a> {
    fn dec(&mut self, copy: Option<Cp>, max: Option<u64>, bytes: &[u8]) {
        let b = show_bytes(bytes);
        let m = show_max(max);
        self.st.eval();
        self.lines += 1;
        let mut interesting = false;
        match copy {
            None => {
                let mut outs = vec![];
                for c in COPIES {
                    let (cls, o) = dec_one(c, max, bytes);
                    self.st.tag(&format!("dec.{}.{}", c.name(), cls));
                    if cls == 'X' {
                        self.st.impl_panics += 1;
                    }
                    if cls != 'N' || bytes.len() >= 6 || o.split(' ').nth(1).map(|n| n != "1" && n != "2").unwrap_or(false) {
                        interesting = true;
                    }
                    outs.push(o);
                }
                writeln!(self.w, "dec all {m} {b} => {}", outs.join(" | ")).unwrap();
            }
            Some(c) => {
                let (cls, o) = dec_one(c, max, bytes);
                self.st.tag(&format!("dec.{}.{}", c.name(), cls));
                if cls == 'X' {
                    self.st.impl_panics += 1;
                }
                interesting = cls != 'N' || bytes.len() >= 6;
                if self.st.samples.len() < 6 && cls == 'P' && bytes.len() > 4 && bytes.len() < 40 {
                    self.st.sample(format!("dec {} {m} {b} => {o}", c.name()));
                }
                writeln!(self.w, "dec {} {m} {b} => {o}", c.name()).unwrap();
            }
        }
        if interesting {
            self.st.nontrivial(&(copy.map(|c| c.name()), max, bytes));
        }
    }

    fn stream(&mut self, cp: Cp, max: Option<u64>, k: usize, chunks: &[Vec<u8>]) {
        let whole: Vec<u8> = chunks.concat();
        let a = stream_one(cp, max, k, chunks);
        let b = stream_one(cp, max, k, &[whole.clone()]);
        let wk = walk(cp, max, &whole);
        if wk.iter().any(|t| t.starts_with('S')) {
            self.st.tag(&format!("stream.{}.has-swallowed-frame", cp.name()));
        }
        self.st.eval();
        self.lines += 1;
        let npk = a.iter().filter(|t| t.starts_with('P')).count();
        let last = a.last().cloned().unwrap_or_default();
        self.st.tag(&format!("stream.{}.end-{}", cp.name(), last));
        self.st.tag(&format!("stream.{}.packets-{}", cp.name(), npk.min(4)));
        self.st.tag(&format!("stream.chunks-{}", chunks.len().min(8)));
        if last == "X" {
            self.st.impl_panics += 1;
        }
        if chunks.len() >= 2 && npk >= 1 {
            self.st.nontrivial(&("s", cp.name(), max, k, chunks));
        }
        let cs: Vec<String> = chunks.iter().map(|c| show_bytes(c)).collect();
        let line = format!("stream {} {} {k} {} => {} // {} // {}", cp.name(), show_max(max), cs.join(" "), a.join(" "), b.join(" "), wk.join(" "));
        if self.st.samples.len() < 12 && chunks.len() == 3 && npk >= 2 && line.len() < 200 {
            self.st.sample(line.clone());
        }
        writeln!(self.w, "{line}").unwrap();
    }
}

const LARGE: u64 = 268_435_455;

fn maxes_for(rl: usize, flen: usize) -> Vec<Option<u64>> {
    let mut v: Vec<Option<u64>> = [0u64, 1, 2, 127, 128, 16383, 16384, LARGE, u32::MAX as u64].iter().map(|x| Some(*x)).collect();
    v.push(None);
    for x in [rl.wrapping_sub(1), rl, rl + 1, flen.wrapping_sub(1), flen] {
        if x < (1 << 40) {
            v.push(Some(x as u64));
        }
    }
    v
}

/// all ways to cut `len` bytes into at most `maxchunks` non-empty chunks, as sorted cut positions
fn cuts_upto(len: usize, maxchunks: usize, f: &mut dyn FnMut(&[usize])) {
    fn rec(len: usize, left: usize, start: usize, cur: &mut Vec<usize>, f: &mut dyn FnMut(&[usize])) {
        f(cur);
        if left == 0 {
            return;
        }
        for p in start..len {
            cur.push(p);
            rec(len, left - 1, p + 1, cur, f);
            cur.pop();
        }
    }
    if len == 0 {
        f(&[]);
        return;
    }
    rec(len, maxchunks.saturating_sub(1), 1, &mut vec![], f);
}

fn split_at(bytes: &[u8], cuts: &[usize]) -> Vec<Vec<u8>> {
    let mut out = vec![];
    let mut prev = 0;
    for c in cuts {
        out.push(bytes[prev..*c].to_vec());
        prev = *c;
    }
    out.push(bytes[prev..].to_vec());
    out
}

pub fn run(o: &Opts) {
    if let Some(p) = &o.replay {
        let mut w = o.writer();
        for line in std::fs::read_to_string(p).expect("replay file").lines() {
            let op = line.split("=>").next().unwrap().trim();
            if op.is_empty() || op.starts_with('#') || op.starts_with("case") {
                continue;
            }
            writeln!(w, "{} => {}", op, exec(op)).unwrap();
        }
        w.flush().unwrap();
        return;
    }
    let thorough = o.thorough();
    let mine = |i: u64| i % o.shards == o.shard;
    let mut g = Gen {
        w: o.writer(),
        st: Stats::new(
            "dec: one decoder call on a fresh buffer (4 copies); non-trivial = the outcome is not a wait for an incomplete fixed header of a short input (i.e. header complete, oversize, malformed, packet, or an incomplete frame); distinct by (copy, max, bytes). stream: chunk-by-chunk run of a framing loop compared with the one-chunk run; non-trivial = at least 2 chunks and at least 1 packet decoded; distinct by (copy, max, k, chunks)",
        ),
        lines: 0,
    };
    let pool = pool();
    let mut rng = Rng::new(o.seed ^ (o.shard << 32) ^ 0xC05);

    // (0) fixed inputs, always first: the byte strings of the repaired defects (b5 CONNACK/UNSUBACK
    //     unreachable!(), v5 InsufficientBytes on a complete frame, c5 bodiless DISCONNECT) and borders
    if o.shard == 0 {
        for (cp, hexs) in [
            (Cp::B5, "20020000"),
            (Cp::B5, "b0020001"),
            (Cp::B5, "2000"),
            (Cp::C4, "c000"),
            (Cp::C4, "c00100"),
            (Cp::C5, "e000"),
            (Cp::B4, "e00100"),
            (Cp::C4, "30ffffffff"),
            (Cp::C4, "30ffffff7f"),
            (Cp::C4, "00"),
            (Cp::C4, "-"),
        ] {
            for m in [Some(1024u64), Some(0), None] {
                g.dec(Some(cp), m, &unhex(hexs));
            }
        }
    }

    // (i-a) every first byte x remaining-length prefixes over a boundary set x body length
    //       in {declared-1, declared, declared+1} (zero body)
    {
        let first_all: Vec<u8> = (0..=255u8).collect();
        let first_sel: Vec<u8> = vec![0x00, 0x10, 0x20, 0x30, 0x32, 0x3d, 0x40, 0x50, 0x62, 0x70, 0x82, 0x90, 0xa2, 0xb0, 0xc0, 0xd0, 0xe0, 0xf0];
        let b7: [u8; 7] = [0x00, 0x01, 0x02, 0x7f, 0x80, 0x81, 0xff];
        let b5: [u8; 5] = [0x00, 0x01, 0x7f, 0x80, 0xff];
        let mut idx: u64 = 0;
        let mut sweep = |g: &mut Gen, firsts: &[u8], alpha: &[u8], lens: std::ops::RangeInclusive<usize>| {
            for l in lens {
                let total = alpha.len().pow(l as u32);
                for code in 0..total {
                    let mut pre = Vec::with_capacity(l);
                    let mut c = code;
                    for _ in 0..l {
                        pre.push(alpha[c % alpha.len()]);
                        c /= alpha.len();
                    }
                    // what the prefix declares, if it is a complete length
                    let mut declared: Option<usize> = None;
                    let mut acc = 0usize;
                    for (i, b) in pre.iter().enumerate().take(4) {
                        acc += ((*b & 0x7f) as usize) << (7 * i);
                        if b & 0x80 == 0 {
                            declared = Some(acc);
                            // bytes after the terminator belong to the body
                            break;
                        }
                    }
                    for f in firsts {
                        idx += 1;
                        if !mine(idx) {
                            continue;
                        }
                        let mut base = vec![*f];
                        base.extend_from_slice(&pre);
                        let hdr = 1 + pre.iter().take(4).position(|b| b & 0x80 == 0).map(|p| p + 1).unwrap_or(pre.len());
                        let extra_in_pre = base.len().saturating_sub(hdr);
                        let bodies: Vec<usize> = match declared {
                            Some(d) if d <= 70_000 => {
                                let want = [d.wrapping_sub(1), d, d + 1];
                                want.iter().filter(|x| **x != usize::MAX && **x >= extra_in_pre).map(|x| x - extra_in_pre).collect()
                            }
                            Some(_) => vec![0, 1, 64],
                            None => vec![0, 1],
                        };
                        let rl = declared.unwrap_or(0);
                        let ms = maxes_for(rl, hdr + rl);
                        for (bi, extra) in bodies.iter().enumerate() {
                            let mut bytes = base.clone();
                            bytes.resize(base.len() + extra, 0);
                            // two limits per input: a rotating fixed one and one relative to the frame
                            let m1 = ms[((idx as usize) + bi) % 10];
                            let m2 = ms[10 + ((idx as usize) + bi) % (ms.len() - 10)];
                            g.dec(None, m1, &bytes);
                            g.dec(None, m2, &bytes);
                        }
                    }
                }
            }
        };
        if thorough {
            sweep(&mut g, &first_all, &b7, 1..=5);
        } else {
            sweep(&mut g, &first_all, &b7, 1..=2);
            sweep(&mut g, &first_sel, &b5, 3..=5);
        }
    }

    // (i-b) every short byte string
    {
        let ms: [Option<u64>; 6] = [Some(LARGE), Some(0), Some(1), Some(2), Some(127), None];
        let mut idx: u64 = 0;
        if o.shard == 0 {
            g.dec(None, Some(LARGE), &[]);
            g.dec(None, Some(0), &[]);
        }
        for a in 0..=255u8 {
            idx += 1;
            if mine(idx) {
                g.dec(None, ms[a as usize % 6], &[a]);
            }
            for b in 0..=255u8 {
                idx += 1;
                if mine(idx) {
                    g.dec(None, ms[(a as usize + b as usize) % 6], &[a, b]);
                    g.dec(None, Some(LARGE), &[a, b]);
                }
            }
        }
        // quick: one first byte per valid packet type (with the flag variants the MQTT spec requires)
        // x all 65536 continuations; every other first byte with a valid type nibble x every second
        // byte x a boundary alphabet for the third. thorough: all 2^24 strings.
        let reps: [u8; 16] = [0x10, 0x20, 0x30, 0x32, 0x3b, 0x40, 0x50, 0x62, 0x70, 0x82, 0x90, 0xa2, 0xb0, 0xc0, 0xd0, 0xe0];
        let third_small: [u8; 8] = [0x00, 0x01, 0x02, 0x7f, 0x80, 0x81, 0xfe, 0xff];
        for a in 0..=255u8 {
            let full = thorough || reps.contains(&a);
            let valid_type = (1..=14).contains(&(a >> 4));
            if !full && !valid_type {
                continue;
            }
            for b in 0..=255u8 {
                idx += 1;
                if !mine(idx) {
                    continue;
                }
                if full {
                    for c in 0..=255u8 {
                        g.dec(None, ms[(b as usize + c as usize) % 6], &[a, b, c]);
                    }
                } else {
                    for c in third_small {
                        g.dec(None, ms[(b as usize + c as usize) % 6], &[a, b, c]);
                    }
                }
            }
        }
    }

    // (ii) valid frames from the repository's encoders, then mutated
    {
        let mut idx: u64 = 0;
        for (_name, f) in &pool {
            let (hl, rl) = header_of(f);
            assert_eq!(hl + rl, f.len());
            idx += 1;
            if !mine(idx) {
                continue;
            }
            // intact, under every limit, every copy
            for m in maxes_for(rl, f.len()) {
                for c in COPIES {
                    g.dec(Some(c), m, f);
                }
            }
            // with trailing bytes of the next frame
            let mut two = f.clone();
            two.extend_from_slice(&pool[(idx as usize * 7) % pool.len()].1);
            g.dec(None, Some(LARGE), &two);
            // truncated at every position (long frames: every position near both ends + samples)
            let positions: Vec<usize> = if f.len() <= 300 {
                (0..f.len()).collect()
            } else {
                let mut v: Vec<usize> = (0..40).chain(f.len() - 40..f.len()).collect();
                for _ in 0..40 {
                    v.push(rng.range(40, (f.len() - 41) as u64) as usize);
                }
                v
            };
            for p in &positions {
                g.dec(None, Some(LARGE), &f[..*p]);
                if *p % 3 == 0 {
                    g.dec(None, Some(rl as u64), &f[..*p]);
                    g.dec(None, Some(rl.saturating_sub(1) as u64), &f[..*p]);
                }
            }
            // one bit flipped: every bit of the first 48 bytes, random bits beyond
            let nbits = f.len().min(48) * 8;
            for bit in 0..nbits {
                let mut x = f.clone();
                x[bit / 8] ^= 1 << (bit % 8);
                g.dec(None, Some(LARGE), &x);
            }
            for _ in 0..(if thorough { 200 } else { 20 }) {
                let mut x = f.clone();
                let bit = rng.below((f.len() * 8) as u64) as usize;
                x[bit / 8] ^= 1 << (bit % 8);
                g.dec(None, if rng.chance(1, 3) { Some(rl as u64) } else { Some(LARGE) }, &x);
            }
            // lie in the length field
            for lie in [0usize, 1, 2, rl.saturating_sub(2), rl.saturating_sub(1), rl + 1, rl + 2, 127, 128, 16383, 16384, 2_097_151, 2_097_152, LARGE as usize] {
                let mut x = vec![f[0]];
                x.extend_from_slice(&enc_len(lie));
                x.extend_from_slice(&f[hl..]);
                g.dec(None, Some(LARGE), &x);
                g.dec(None, Some(rl as u64), &x);
            }
            // non-canonical (padded) length encodings of the true length
            if rl < 128 {
                for pad in 1..=4usize {
                    let mut x = vec![f[0], (rl as u8) | 0x80];
                    for i in 0..pad {
                        x.push(if i + 1 == pad { 0x00 } else { 0x80 });
                    }
                    x.extend_from_slice(&f[hl..]);
                    g.dec(None, Some(LARGE), &x);
                }
            }
            // splice with another frame
            for _ in 0..(if thorough { 40 } else { 6 }) {
                let other = &rng.pick(&pool).1;
                let a = rng.below(f.len().min(64) as u64 + 1) as usize;
                let b = rng.below(other.len().min(64) as u64 + 1) as usize;
                let mut x = f[..a].to_vec();
                x.extend_from_slice(&other[b..]);
                g.dec(None, Some(LARGE), &x);
            }
        }
    }

    // (iii) random bytes
    {
        let n = if thorough { 800_000 / o.shards } else { 60_000 / o.shards };
        for _ in 0..n {
            let len = rng.below(40) as usize;
            let mut x: Vec<u8> = (0..len).map(|_| rng.next() as u8).collect();
            if len >= 2 && rng.chance(2, 3) {
                // steer towards complete frames
                x[1] = rng.below(len as u64 + 2) as u8;
            }
            if len >= 3 && rng.chance(1, 8) {
                x[1] |= 0x80;
                x[2] &= 0x01;
            }
            let m = match rng.below(5) {
                0 => Some(rng.below(40)),
                1 => None,
                _ => Some(LARGE),
            };
            g.dec(None, m, &x);
        }
    }

    // (v) streams and chunkings
    {
        // small frames for exhaustive chunkings, everything for random ones
        let small: Vec<&Vec<u8>> = pool.iter().map(|p| &p.1).filter(|f| f.len() <= 12).collect();
        let ks = [0usize, 1, 2, 3, 100];
        let mut streams: Vec<(Vec<u8>, usize)> = vec![]; // (bytes, largest remaining length)
        let nstreams = if thorough { 120 } else { 42 };
        for i in 0..nstreams {
            let nfr = 1 + (i % 3);
            let mut s = vec![];
            let mut big = 0;
            for _ in 0..nfr {
                let f = *rng.pick(&small);
                big = big.max(header_of(f).1);
                s.extend_from_slice(f);
            }
            match i % 7 {
                3 => s.truncate(s.len() - 1),                    // last frame incomplete
                4 => s.extend_from_slice(&[0x30, 0x80]),         // header incomplete at the end
                5 => s.extend_from_slice(&[0x30, 0xff, 0xff, 0xff, 0xff, 0x00]), // malformed length at the end
                6 => s.extend_from_slice(&[0x00, 0x00]),         // invalid packet type
                _ => {}
            }
            if s.len() <= 24 {
                streams.push((s, big));
            }
        }
        let mut idx: u64 = 0;
        for (s, big) in &streams {
            let maxchunks = if thorough { if s.len() <= 16 { 16 } else { 5 } } else { 4 };
            let mut all_cuts: Vec<Vec<usize>> = vec![];
            cuts_upto(s.len(), maxchunks, &mut |c| all_cuts.push(c.to_vec()));
            for cuts in &all_cuts {
                idx += 1;
                if !mine(idx) {
                    continue;
                }
                let chunks = split_at(s, cuts);
                let cp = COPIES[(idx % 4) as usize];
                let m = match (idx / 4) % 4 {
                    0 => Some(*big as u64),
                    1 => Some((*big as u64).saturating_sub(1)),
                    2 => None,
                    _ => Some(LARGE),
                };
                let m = if cp != Cp::C5 && m.is_none() { Some(LARGE) } else { m };
                g.stream(cp, m, ks[(idx % 5) as usize], &chunks);
            }
            // and every copy on the 1-byte dribble and the whole stream
            idx += 1;
            if mine(idx) {
                let dribble: Vec<Vec<u8>> = s.iter().map(|b| vec![*b]).collect();
                for cp in COPIES {
                    g.stream(cp, Some(LARGE), 2, &dribble);
                    g.stream(cp, Some(*big as u64), 100, &[s.clone()]);
                }
            }
        }
        // random chunkings of longer streams built from the whole pool (valid, mutated tail, garbage)
        let n = if thorough { 60_000 / o.shards } else { 6_000 / o.shards };
        for i in 0..n {
            let nfr = rng.range(1, 12) as usize;
            let mut s = vec![];
            let mut big = 0;
            for _ in 0..nfr {
                let f = &rng.pick(&pool).1;
                if f.len() > 1000 && !rng.chance(1, 6) {
                    continue;
                }
                big = big.max(header_of(f).1);
                s.extend_from_slice(f);
            }
            match rng.below(8) {
                0 if !s.is_empty() => {
                    let cut = rng.below(s.len() as u64) as usize;
                    s.truncate(cut);
                }
                1 => s.extend((0..rng.below(6)).map(|_| rng.next() as u8)),
                2 if !s.is_empty() => {
                    let bit = rng.below((s.len() * 8) as u64) as usize;
                    s[bit / 8] ^= 1 << (bit % 8);
                }
                _ => {}
            }
            let mut chunks: Vec<Vec<u8>> = vec![];
            let mode = rng.below(4);
            let mut pos = 0;
            while pos < s.len() {
                let n = match mode {
                    0 => 1,
                    1 => rng.range(1, 4) as usize,
                    2 => rng.range(1, 64) as usize,
                    _ => rng.range(1, 2000) as usize,
                }
                .min(s.len() - pos);
                chunks.push(s[pos..pos + n].to_vec());
                pos += n;
            }
            if mode == 0 && s.len() > 400 {
                continue; // keep dribble lines short
            }
            let cp = COPIES[i as usize % 4];
            let m = match rng.below(4) {
                0 => Some(big as u64),
                1 => Some((big as u64).saturating_sub(1)),
                _ => Some(LARGE),
            };
            g.stream(cp, m, *rng.pick(&ks), &chunks);
        }
    }

    g.st.exhaustive = true;
    g.w.flush().unwrap();
    if let Some(p) = &o.stats {
        g.st.write(p);
    }
}
