//! C12: the three copies of `matches`, `valid_filter`, `valid_topic`, `has_wildcards`.
//! Lines: `m <hex topic> <hex filter> => c4 c5 b`, `vf <hex> => …`, `vt <hex> => …`, `hw <hex> => …`
//! where each result is T, F or P (panic).
use crate::util::*;
use std::io::Write;
use std::panic::catch_unwind;

fn r(f: impl FnOnce() -> bool + std::panic::UnwindSafe) -> char {
    match catch_unwind(f) {
        Ok(true) => 'T',
        Ok(false) => 'F',
        Err(_) => 'P',
    }
}

pub fn exec(op: &str) -> String {
    let t: Vec<&str> = op.split_whitespace().collect();
    let s = |i: usize| String::from_utf8(unhex(t[i])).expect("utf8 in op");
    let (a, b, c) = match t[0] {
        "m" => {
            let (tp, fl) = (s(1), s(2));
            (
                r(|| rumqttc::mqttbytes::matches(&tp, &fl)),
                r(|| rumqttc::v5::mqttbytes::matches(&tp, &fl)),
                r(|| rumqttd::protocol::matches(&tp, &fl)),
            )
        }
        "vf" => {
            let x = s(1);
            (
                r(|| rumqttc::mqttbytes::valid_filter(&x)),
                r(|| rumqttc::v5::mqttbytes::valid_filter(&x)),
                r(|| rumqttd::protocol::valid_filter(&x)),
            )
        }
        "vt" => {
            let x = s(1);
            (
                r(|| rumqttc::mqttbytes::valid_topic(&x)),
                r(|| rumqttc::v5::mqttbytes::valid_topic(&x)),
                r(|| rumqttd::protocol::valid_topic(&x)),
            )
        }
        "hw" => {
            let x = s(1);
            (
                r(|| rumqttc::mqttbytes::has_wildcards(&x)),
                r(|| rumqttc::v5::mqttbytes::has_wildcards(&x)),
                r(|| rumqttd::protocol::has_wildcards(&x)),
            )
        }
        _ => panic!("bad op {op}"),
    };
    format!("{a} {b} {c}")
}

const ALPHA: [&str; 8] = ["a", "b", "/", "+", "#", "$", "é", "😀"];

fn all_strings(maxlen: usize) -> Vec<String> {
    let mut out = vec![String::new()];
    let mut layer = vec![String::new()];
    for _ in 0..maxlen {
        let mut next = Vec::with_capacity(layer.len() * 8);
        for s in &layer {
            for a in ALPHA {
                let mut x = s.clone();
                x.push_str(a);
                next.push(x);
            }
        }
        out.extend(next.iter().cloned());
        layer = next;
    }
    out
}

fn rand_levels(rng: &mut Rng, filter: bool) -> String {
    let n = rng.range(1, 6);
    let mut ls: Vec<String> = vec![];
    for i in 0..n {
        let k = rng.below(if filter { 12 } else { 9 });
        let l = match k {
            0 => "a".to_string(),
            1 => "b".to_string(),
            2 => "ab".to_string(),
            3 => "é".to_string(),
            4 => "".to_string(),
            5 => "A".to_string(),
            6 => "😀x".to_string(),
            7 => {
                if i == 0 {
                    "$sys".to_string()
                } else {
                    "c$".to_string()
                }
            }
            8 => "abc".repeat(rng.range(1, 4) as usize),
            9 | 10 => "+".to_string(),
            _ => {
                if i == n - 1 || rng.chance(1, 8) {
                    "#".to_string()
                } else {
                    "a+".to_string()
                }
            }
        };
        ls.push(l);
    }
    ls.join("/")
}

/// derive a topic from a filter so that matches are frequent
fn topic_from_filter(rng: &mut Rng, f: &str) -> String {
    let mut ls: Vec<String> = vec![];
    for l in f.split('/') {
        match l {
            "+" => ls.push(rng.pick(&["a", "b", "é", "", "zz"]).to_string()),
            "#" => {
                for _ in 0..rng.below(3) {
                    ls.push(rng.pick(&["a", "b", "é", ""]).to_string());
                }
            }
            x => ls.push(x.to_string()),
        }
    }
    if rng.chance(1, 6) {
        ls.push("x".into());
    }
    if rng.chance(1, 6) && !ls.is_empty() {
        ls.pop();
    }
    ls.join("/")
}

fn nontrivial(t: &str, f: &str) -> bool {
    rumqttd::protocol::valid_topic(t)
        && rumqttd::protocol::valid_filter(f)
        && (f.contains('+') || f.contains('#') || t.starts_with('$'))
}

pub fn run(o: &Opts) {
    let mut w = o.writer();
    if let Some(p) = &o.replay {
        for line in std::fs::read_to_string(p).expect("replay file").lines() {
            let op = line.split("=>").next().unwrap().trim();
            if op.is_empty() || op.starts_with('#') {
                continue;
            }
            writeln!(w, "{} => {}", op, exec(op)).unwrap();
        }
        return;
    }
    let mut st = Stats::new(
        "all (topic,filter) pairs over {a,b,/,+,#,$,é,😀} up to the length bound, all strings for the validators, plus random level-structured pairs; non-trivial = valid topic, valid filter and (filter has a wildcard or topic starts with $); distinct by (topic,filter)",
    );
    let maxlen = if o.thorough() { 4 } else { 3 };
    let strs = all_strings(maxlen);
    // validators on all strings up to length 5 (quick) / 6 (thorough); shard 0 only
    if o.shard == 0 {
        for s in all_strings(if o.thorough() { 6 } else { 5 }) {
            for op in ["vf", "vt", "hw"] {
                let line = format!("{op} {}", hex(s.as_bytes()));
                let out = exec(&line);
                writeln!(w, "{line} => {out}").unwrap();
                st.eval();
                st.tag(op);
            }
        }
    }
    for (i, t) in strs.iter().enumerate() {
        if (i as u64) % o.shards != o.shard {
            continue;
        }
        for f in strs.iter() {
            let line = format!("m {} {}", hex(t.as_bytes()), hex(f.as_bytes()));
            let out = exec(&line);
            st.eval();
            if out.contains('P') {
                st.impl_panics += 1;
            }
            if nontrivial(t, f) {
                st.nontrivial(&(t, f));
                st.tag(if out.starts_with('T') { "m-nontrivial-true" } else { "m-nontrivial-false" });
                if st.samples.len() < 6 && out.starts_with('T') && f.len() > 2 {
                    st.sample(format!("matches({t:?},{f:?}) => {out}"));
                }
            } else {
                st.tag("m-other");
            }
            writeln!(w, "{line} => {out}").unwrap();
        }
    }
    // random longer pairs
    let nrand = if o.thorough() { 1_000_000 / o.shards } else { 20_000 };
    let mut rng = Rng::new(o.seed ^ (o.shard << 32) ^ 0x7071);
    for _ in 0..nrand {
        let f = rand_levels(&mut rng, true);
        let t = if rng.chance(3, 4) { topic_from_filter(&mut rng, &f) } else { rand_levels(&mut rng, false) };
        let line = format!("m {} {}", hex(t.as_bytes()), hex(f.as_bytes()));
        let out = exec(&line);
        st.eval();
        if nontrivial(&t, &f) {
            st.nontrivial(&(&t, &f));
            st.tag(if out.starts_with('T') { "rand-nontrivial-true" } else { "rand-nontrivial-false" });
            if st.samples.len() < 12 && out.starts_with('T') {
                st.sample(format!("matches({t:?},{f:?}) => {out}"));
            }
        } else {
            st.tag("rand-other");
        }
        writeln!(w, "{line} => {out}").unwrap();
        let line = format!("vf {}", hex(f.as_bytes()));
        writeln!(w, "{line} => {}", exec(&line)).unwrap();
        st.eval();
    }
    st.exhaustive = true;
    w.flush().unwrap();
    if let Some(p) = &o.stats {
        st.write(p);
    }
}
