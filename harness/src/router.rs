//! Router correspondence harness (C01 C03 C06 C08 C09 C14 C15 C16 C17 C19 router part).
//! Drives the real `rumqttd::Router` single-threadedly through the H1/H2 hooks: one event or
//! one `consume()` per op, link-side pushes and drains on the real shared buffers.
//!
//! Ops (one per line; hex for byte strings, `-` = empty):
//!   new <max_conn> <seg_size> <seg_count> <max_out_pkts> <rr|rnd|sticky>
//!   connect <L> <client_id> <clean> <dyn> <alias_max> <will: - | topic payload qos retain>
//!   push <L> <packet…>                      link side: push into the incoming buffer
//!   ev <id> data|ready|disc|will <cid>|shadow <filter>|meters|alerts      Router::events(id, …)
//!   consume                                 one Router::consume()
//!   drain <L>                               link side: take one wake token (if any) and swap the buffer out
//!   idle                                    marker emitted by the generator when it drove the router to idle
//! Output after `=>`: op result, then `; <choice>` for every nondeterministic choice recorded.
use crate::util::*;
use bytes::{BufMut, Bytes, BytesMut};
use rumqttd::protocol::*;
use rumqttd::verif::{self, Connection, Event, LinkEnds, ShadowRequest};
use rumqttd::{Notification, Router, RouterConfig, Strategy};
use std::io::Write;
use std::panic::{catch_unwind, AssertUnwindSafe};

pub struct Link {
    pub ends: LinkEnds,
    pub client_id: String,
}

pub struct World {
    pub router: Option<Router>,
    pub links: Vec<Option<Link>>,
    pub dead: bool,
}

fn hx(s: &str) -> Vec<u8> {
    unhex(s)
}
fn hs(s: &str) -> String {
    String::from_utf8_lossy(&unhex(s)).into_owned()
}

pub fn mk_publish(qos: u8, pkid: u16, retain: bool, dup: bool, topic: &[u8], payload: &[u8]) -> Publish {
    // dup/qos/pkid are crate-private: go through the crate's own (de)serialisation
    let mut o = BytesMut::new();
    o.put_u8(0b0011_0000 | (retain as u8) | (qos << 1) | ((dup as u8) << 3));
    o.put_u16(pkid);
    o.put_u16(topic.len() as u16);
    o.extend_from_slice(topic);
    o.extend_from_slice(payload);
    Publish::deserialize(o.freeze())
}

/// (qos, pkid, retain, dup) of a publish, read back through `serialize`
pub fn publish_fields(p: &Publish) -> (u8, u16, bool, bool) {
    let b = p.serialize();
    let h = b[0];
    ((h >> 1) & 3, u16::from_be_bytes([b[1], b[2]]), h & 1 != 0, h & 8 != 0)
}

fn qos_of(n: &str) -> QoS {
    match n {
        "0" => QoS::AtMostOnce,
        "1" => QoS::AtLeastOnce,
        _ => QoS::ExactlyOnce,
    }
}

pub fn parse_packet(t: &[&str]) -> Packet {
    match t[0] {
        "pub" => {
            let p = mk_publish(
                t[1].parse().unwrap(),
                t[2].parse().unwrap(),
                t[3] == "1",
                t[4] == "1",
                &hx(t[5]),
                &hx(t[6]),
            );
            let alias = if t[7] == "-" { None } else { Some(t[7].parse::<u16>().unwrap()) };
            let sid = if t[8] == "-" { vec![] } else { vec![t[8].parse::<usize>().unwrap()] };
            let props = if t[9] == "1" || alias.is_some() || !sid.is_empty() {
                Some(PublishProperties { topic_alias: alias, subscription_identifiers: sid, ..Default::default() })
            } else {
                None
            };
            Packet::Publish(p, props)
        }
        "sub" => {
            let pkid = t[1].parse().unwrap();
            let id = if t[2] == "-" { None } else { Some(t[2].parse::<usize>().unwrap()) };
            let n: usize = t[3].parse().unwrap();
            let mut filters = vec![];
            for i in 0..n {
                filters.push(Filter {
                    path: hs(t[4 + 2 * i]),
                    qos: qos_of(t[5 + 2 * i]),
                    nolocal: false,
                    preserve_retain: false,
                    retain_forward_rule: RetainForwardRule::OnEverySubscribe,
                });
            }
            let props = id.map(|id| SubscribeProperties { id: Some(id), user_properties: vec![] });
            Packet::Subscribe(Subscribe { pkid, filters }, props)
        }
        "unsub" => {
            let pkid = t[1].parse().unwrap();
            let n: usize = t[2].parse().unwrap();
            let filters = (0..n).map(|i| hs(t[3 + i])).collect();
            Packet::Unsubscribe(Unsubscribe { pkid, filters }, None)
        }
        "puback" => Packet::PubAck(PubAck { pkid: t[1].parse().unwrap(), reason: PubAckReason::Success }, None),
        "pubrec" => Packet::PubRec(PubRec { pkid: t[1].parse().unwrap(), reason: PubRecReason::Success }, None),
        "pubrel" => Packet::PubRel(PubRel { pkid: t[1].parse().unwrap(), reason: PubRelReason::Success }, None),
        "pubrelp" => Packet::PubRel(
            PubRel { pkid: t[1].parse().unwrap(), reason: PubRelReason::Success },
            Some(PubRelProperties { reason_string: None, user_properties: vec![] }),
        ),
        "pubcomp" => Packet::PubComp(PubComp { pkid: t[1].parse().unwrap(), reason: PubCompReason::Success }, None),
        "ping" => Packet::PingReq(PingReq),
        "pingresp" => Packet::PingResp(PingResp),
        "disc" => Packet::Disconnect(Disconnect { reason_code: DisconnectReasonCode::NormalDisconnection }, None),
        "connack" => Packet::ConnAck(ConnAck { session_present: false, code: ConnectReturnCode::Success }, None),
        "suback" => Packet::SubAck(SubAck { pkid: t[1].parse().unwrap(), return_codes: vec![] }, None),
        "unsuback" => Packet::UnsubAck(UnsubAck { pkid: t[1].parse().unwrap(), reasons: vec![] }, None),
        "connectpkt" => Packet::Connect(
            Connect { keep_alive: 10, client_id: "x".into(), clean_session: true },
            None,
            None,
            None,
            None,
        ),
        x => panic!("bad packet {x}"),
    }
}

fn code_name(c: &SubscribeReasonCode) -> String {
    match c {
        SubscribeReasonCode::QoS0 => "0".into(),
        SubscribeReasonCode::QoS1 => "1".into(),
        SubscribeReasonCode::QoS2 => "2".into(),
        x => format!("{x:?}"),
    }
}

pub fn show_notification(n: &Notification) -> String {
    match n {
        Notification::Forward(f) => {
            let (q, id, r, d) = publish_fields(&f.publish);
            let (alias, sids, has) = match &f.properties {
                None => ("-".to_string(), "-".to_string(), 0),
                Some(p) => (
                    p.topic_alias.map(|a| a.to_string()).unwrap_or("-".into()),
                    if p.subscription_identifiers.is_empty() {
                        "-".into()
                    } else {
                        p.subscription_identifiers.iter().map(|x| x.to_string()).collect::<Vec<_>>().join(",")
                    },
                    1,
                ),
            };
            format!(
                "fwd {q} {id} {} {} {} {} {alias} {sids} {has}",
                r as u8,
                d as u8,
                hex(&f.publish.topic),
                hex(&f.publish.payload)
            )
        }
        Notification::DeviceAck(a) => match a {
            verif::Ack::ConnAck(id, c, _) => format!("connack {id} {} {:?}", c.session_present as u8, c.code),
            verif::Ack::PubAck(p) | verif::Ack::PubAckWithProperties(p, _) => format!("puback {}", p.pkid),
            verif::Ack::PubRec(p) | verif::Ack::PubRecWithProperties(p, _) => format!("pubrec {}", p.pkid),
            verif::Ack::PubRel(p) | verif::Ack::PubRelWithProperties(p, _) => format!("pubrel {}", p.pkid),
            verif::Ack::PubComp(p) | verif::Ack::PubCompWithProperties(p, _) => format!("pubcomp {}", p.pkid),
            verif::Ack::SubAck(s) | verif::Ack::SubAckWithProperties(s, _) => format!(
                "suback {} {}",
                s.pkid,
                if s.return_codes.is_empty() {
                    "-".to_string()
                } else {
                    s.return_codes.iter().map(code_name).collect::<Vec<_>>().join(",")
                }
            ),
            verif::Ack::UnsubAck(u) => format!(
                "unsuback {} {}",
                u.pkid,
                if u.reasons.is_empty() {
                    "-".to_string()
                } else {
                    u.reasons.iter().map(|r| if *r == UnsubAckReason::Success { 'S' } else { 'N' }).collect::<String>()
                }
            ),
            verif::Ack::PingResp(_) => "pingresp".into(),
        },
        Notification::Unschedule => "unsched".into(),
        Notification::Disconnect(d, _) => format!("disconnect {:?}", d.reason_code),
        Notification::Shadow(s) => format!("shadow {} {}", hex(&s.topic), hex(&s.payload)),
        _ => "other".into(),
    }
}

impl World {
    pub fn new() -> World {
        World { router: None, links: vec![], dead: false }
    }

    /// execute one op on the real code; returns the observed output
    pub fn exec(&mut self, op: &str) -> String {
        // replay files carry, behind ` ;; `, the choices (hash-map orders, random draws) the
        // implementation made when the case was recorded: they are made again (hook H6), so
        // that a replay does not depend on this process's hash seeds and random numbers
        let (op, forced) = match op.split_once(" ;; ") {
            Some((o, f)) => (o, f.split(" ; ").map(|x| x.trim().to_string()).collect::<Vec<_>>()),
            None => (op, vec![]),
        };
        verif::force_choices(forced);
        let out = self.exec_op(op);
        verif::force_choices(vec![]);
        out
    }

    fn exec_op(&mut self, op: &str) -> String {
        // a trailing `@L` names the link on whose behalf a signal is sent (for the monitors only)
        let t: Vec<&str> = op.split_whitespace().filter(|x| !x.starts_with('@')).collect();
        if t.is_empty() {
            return "bad".into();
        }
        if t[0] == "new" {
            let strategy = match t[5] {
                "rr" => Strategy::RoundRobin,
                "rnd" => Strategy::Random,
                _ => Strategy::Sticky,
            };
            let config = RouterConfig {
                max_connections: t[1].parse().unwrap(),
                max_segment_size: t[2].parse().unwrap(),
                max_segment_count: t[3].parse().unwrap(),
                max_outgoing_packet_count: t[4].parse().unwrap(),
                custom_segment: None,
                initialized_filters: None,
                shared_subscriptions_strategy: strategy,
            };
            verif::take_choices();
            self.router = Some(Router::new(0, config));
            self.links.clear();
            self.dead = false;
            return "ok".into();
        }
        if t[0] == "idle" || t[0] == "note" {
            return "ok".into();
        }
        if self.dead {
            return "DEAD".into();
        }
        crate::util::watch_op(Some(op));
        let r = catch_unwind(AssertUnwindSafe(|| self.exec_inner(&t)));
        crate::util::watch_op(None);
        let choices = verif::take_choices();
        let mut out = match r {
            Ok(s) => s,
            Err(_) => {
                self.dead = true;
                format!("PANIC {}", last_panic().replace(" => ", " -> ").replace(';', ","))
            }
        };
        for c in choices {
            out.push_str(" ; ");
            out.push_str(&c);
        }
        out
    }

    fn exec_inner(&mut self, t: &[&str]) -> String {
        let router = self.router.as_mut().expect("new first");
        match t[0] {
            "connect" => {
                let l: usize = t[1].parse().unwrap();
                let cid = hs(t[2]);
                let mut connection = Connection::new(None, cid.clone(), t[3] == "1", t[4] == "1");
                let will = if t[6] == "-" {
                    None
                } else {
                    Some(LastWill { topic: Bytes::from(hx(t[6])), message: Bytes::from(hx(t[7])), qos: qos_of(t[8]), retain: t[9] == "1" })
                };
                connection.last_will(will, None).topic_alias_max(t[5].parse().unwrap());
                let (incoming, outgoing, ends) = verif::new_buffers(&connection.client_id);
                while self.links.len() <= l {
                    self.links.push(None);
                }
                self.links[l] = Some(Link { ends, client_id: cid });
                router.verif_events(0, Event::Connect { connection, incoming, outgoing });
                "ok".into()
            }
            "push" => {
                let l: usize = t[1].parse().unwrap();
                let p = parse_packet(&t[2..]);
                match self.links.get(l).and_then(|x| x.as_ref()) {
                    Some(link) => {
                        let mut b = link.ends.incoming.lock();
                        b.push_back(p);
                        format!("{}", b.len())
                    }
                    None => "nolink".into(),
                }
            }
            "ev" => {
                let id: usize = t[1].parse().unwrap();
                let e = match t[2] {
                    "data" => Event::DeviceData,
                    "ready" => Event::Ready,
                    "disc" => Event::Disconnect,
                    "will" => Event::PublishWill((hs(t[3]), None)),
                    "shadow" => Event::Shadow(ShadowRequest { filter: hs(t[3]) }),
                    "meters" => Event::SendMeters,
                    "alerts" => Event::SendAlerts,
                    x => panic!("bad event {x}"),
                };
                router.verif_events(id, e);
                "ok".into()
            }
            "consume" => {
                if router.verif_consume() {
                    "1".into()
                } else {
                    "0".into()
                }
            }
            "drain" => {
                let l: usize = t[1].parse().unwrap();
                match self.links.get(l).and_then(|x| x.as_ref()) {
                    Some(link) => {
                        if link.ends.wake.try_recv().is_ok() {
                            let mut v = std::collections::VecDeque::new();
                            std::mem::swap(&mut *link.ends.outgoing.lock(), &mut v);
                            let items: Vec<String> = v.iter().map(show_notification).collect();
                            let mut s = format!("tok=1 n={}", items.len());
                            for i in items {
                                s.push_str(" | ");
                                s.push_str(&i);
                            }
                            s
                        } else {
                            "tok=0 n=0".into()
                        }
                    }
                    None => "nolink".into(),
                }
            }
            "snap" => router.verif_snapshot().replace(" => ", " -> ").replace(';', ","),
            x => panic!("bad op {x}"),
        }
    }
}

pub fn run(o: &Opts) {
    let mut w = o.writer();
    crate::util::start_watchdog(20);
    if let Some(p) = &o.replay {
        let mut world = World::new();
        for line in std::fs::read_to_string(p).expect("replay file").lines() {
            let op = line.split(" => ").next().unwrap().trim();
            if op.is_empty() || op.starts_with('#') {
                continue;
            }
            if op.starts_with("case ") {
                writeln!(w, "{op}").unwrap();
                world = World::new();
                continue;
            }
            let shown = op.split(" ;; ").next().unwrap();
            writeln!(w, "{} => {}", shown, world.exec(op)).unwrap();
        }
        return;
    }
    crate::routergen::generate(o, &mut *w);
    w.flush().unwrap();
}
