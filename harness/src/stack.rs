//! Full-stack harness (C20, C19 network part, C16 server part): real per-connection tasks
//! (`rumqttd::verif::verif_remote` = `server::broker::remote`) over `tokio::io::duplex`, a real
//! router thread (`Router::new(0, cfg).spawn()`), the CLIENT crate's codecs (rumqttc v4 / v5) on
//! the client side of every stream.
//!
//! Determinism: one current-thread tokio runtime per case with the clock paused from the start;
//! auto-advance of the paused clock is inhibited for the whole case (a parked `spawn_blocking`
//! task), so virtual time moves only through the `advance` op. Nothing sleeps on real time and
//! every outcome is an event: bytes read from a duplex end, EOF, completion of a task's
//! `JoinHandle`. "Nothing more arrives" is decided by a protocol-level barrier (`sync`:
//! PINGREQ/PINGRESP twice; the router handles a connection's packets in order and pushes a
//! connection's pending forwards in the `consume` round that pushes the first PINGRESP, so
//! everything caused by earlier ops is on the stream before the second PINGRESP).
//! A watchdog thread aborts the process if no op completes within 60 s of real time (safety
//! net against a hang of the harness itself, never used as an observation).
//!
//! Ops (packets in the canonical text form of harness/src/codec.rs, byte strings hex):
//!   case <id>
//!   new <max_connections> <auth>                    fresh router, will-handler map, runtime
//!   conn <c> <4|5> <connect CTF…>                   open stream c on a V4 / V5 listener, send CONNECT,
//!                                                   read one packet        => <CTF> | eof
//!   connclose <c> <4|5> <connect CTF…>              like conn, but the client end is dropped right after the
//!                                                   CONNECT was written (the broker cannot answer) => ok
//!   send <c> <packet CTF…>                          client encoder + write => ok | closed | unencodable
//!   raw <c> <hex>                                   write raw bytes        => ok | closed
//!   recv <c>                                        read one packet        => <CTF> | eof | undecodable:<hex>
//!   sync <c>                                        barrier                => ok|eof <n> { | <CTF>}
//!   shut <c>                                        half-close (EOF for the broker)  => ok
//!   eof <c>                                         read until EOF, bounded (only where the broker's side ends
//!                                                   the stream by itself) => eof|open <n> { | <CTF>}
//!   join <c>                                        the connection task, bounded => done | panic:<class> | running
//!   advance <ms>                                    tokio::time::advance   => ok
//!   wills                                           size of the will-handler map => <n> | poisoned
//!   end                                             end of the case (the driver's will monitors run) => ok
//!   enc <4|5> <fwd|ack|ackp|disc|unsched> [<CTF…>]  pure: Notification -> Packet -> V::write under
//!                                                   catch_unwind           => W<hex> | E | P | -
//! Assigned client identifiers (uuid) in a v5 CONNACK are masked as `2a`.
use crate::codec::{ctf, k4, k5, kb, parse_ctf, UPacket, UVal};
use crate::util::*;
use bytes::BytesMut;
use rumqttd::protocol::v4::V4;
use rumqttd::protocol::v5::V5;
use rumqttd::protocol::{Packet, Protocol};
use rumqttd::verif::{verif_remote, Ack, Event, WillHandlers};
use rumqttd::{ConnectionSettings, Forward, Notification, Router, RouterConfig};
use std::io::Write;
use std::panic::{catch_unwind, AssertUnwindSafe};
use std::sync::atomic::{AtomicU64, Ordering};
use std::sync::Arc;
use tokio::io::{AsyncRead, AsyncReadExt, AsyncWriteExt, DuplexStream};
use tokio::task::JoinHandle;

static PROGRESS: AtomicU64 = AtomicU64::new(0);

fn start_watchdog() {
    std::thread::spawn(|| {
        let mut last = PROGRESS.load(Ordering::Relaxed);
        let mut stale = 0u32;
        loop {
            std::thread::sleep(std::time::Duration::from_secs(1));
            let now = PROGRESS.load(Ordering::Relaxed);
            if now == u64::MAX {
                return;
            }
            if now == last {
                stale += 1;
                if stale >= 60 {
                    eprintln!("vh stack: watchdog: no op completed for 60 s (op #{now}); aborting");
                    std::process::exit(97);
                }
            } else {
                stale = 0;
                last = now;
            }
        }
    });
}

struct ConnH {
    client: Option<DuplexStream>,
    task: Option<JoinHandle<()>>,
    ver: u8,
    rbuf: BytesMut,
    eof: bool,
}

enum Rd {
    Packet(UPacket),
    Eof,
    Bad(String),
}

pub struct World {
    router_tx: Option<flume::Sender<(usize, Event)>>,
    wills: WillHandlers,
    cfg: Arc<ConnectionSettings>,
    conns: Vec<Option<ConnH>>,
    stop: Option<std::sync::mpsc::Sender<()>>,
}

pub struct Stack {
    rt: Option<tokio::runtime::Runtime>,
    w: World,
}

fn frame_len(b: &[u8]) -> Option<usize> {
    if b.len() < 2 {
        return None;
    }
    let mut n = 0usize;
    let mut shift = 0;
    for i in 0..4 {
        let x = *b.get(1 + i)? as usize;
        n |= (x & 127) << shift;
        shift += 7;
        if x & 128 == 0 {
            let total = 2 + i + n;
            return if b.len() >= total { Some(total) } else { None };
        }
    }
    Some(usize::MAX) // malformed remaining length: let the decoder say so
}

fn client_decode(ver: u8, frame: &[u8]) -> Option<UPacket> {
    let mut b = BytesMut::from(frame);
    let r = catch_unwind(AssertUnwindSafe(|| match ver {
        4 => rumqttc::mqttbytes::v4::Packet::read(&mut b, 1 << 30).ok().map(|p| k4::from(&p)),
        _ => rumqttc::v5::mqttbytes::v5::Packet::read(&mut b, None).ok().map(|p| k5::from(&p)),
    }));
    match r {
        Ok(Some(u)) if b.is_empty() => Some(u),
        _ => None,
    }
}

fn client_encode(ver: u8, u: &UPacket) -> Option<Vec<u8>> {
    let r = catch_unwind(AssertUnwindSafe(|| {
        let mut b = BytesMut::new();
        match ver {
            4 => k4::to(u)?.write(&mut b, usize::MAX).ok()?,
            _ => k5::to(u)?.write(&mut b, None).ok()?,
        };
        Some(b.to_vec())
    }));
    r.ok().flatten()
}

fn mask(mut u: UPacket) -> UPacket {
    if let UPacket::ConnAck { props: Some(ps), .. } = &mut u {
        for p in ps.iter_mut() {
            if p.id == 18 {
                p.val = UVal::S(b"*".to_vec());
            }
        }
    }
    u
}

fn panic_class() -> String {
    let m = last_panic();
    if m.contains("PoisonError") {
        "will-handlers-poisoned".into()
    } else if m.contains("not possible in v4") {
        "v4-write-properties".into()
    } else if m.contains("broker.rs") && (m.contains("Disconnected") || m.contains("SendError") || m.contains("TrySendError")) {
        "will-handler-send".into()
    } else if m.contains("unreachable") {
        "unreachable".into()
    } else {
        "other".into()
    }
}

impl World {
    fn empty() -> World {
        World {
            router_tx: None,
            wills: WillHandlers::default(),
            cfg: Arc::new(crate::admit::settings("none", false)),
            conns: vec![],
            stop: None,
        }
    }

    async fn read_one(c: &mut ConnH) -> Rd {
        loop {
            if !c.rbuf.is_empty() {
                match frame_len(&c.rbuf) {
                    Some(n) if n <= c.rbuf.len() => {
                        let f = c.rbuf.split_to(n);
                        return match client_decode(c.ver, &f) {
                            Some(u) => Rd::Packet(mask(u)),
                            None => Rd::Bad(hex(&f)),
                        };
                    }
                    Some(_) => {
                        let f = c.rbuf.split();
                        return Rd::Bad(hex(&f));
                    }
                    None => {}
                }
            }
            if c.eof {
                if !c.rbuf.is_empty() {
                    let f = c.rbuf.split();
                    return Rd::Bad(hex(&f));
                }
                return Rd::Eof;
            }
            if !c.rbuf.is_empty() {
                // part of a frame is buffered. The broker writes whole batches of whole packets with
                // one `write_all` into a pipe with room for all of it, and this runtime is
                // single-threaded, so a reader never sees half a batch: if nothing more is readable
                // right now, the rest of this "frame" will never come — the announced length is
                // wrong / the stream is desynchronised. Reported, not waited for.
                let more = match c.client.as_mut() {
                    Some(s) => {
                        let mut tmp = [0u8; 4096];
                        let r = std::future::poll_fn(|cx| {
                            let mut rb = tokio::io::ReadBuf::new(&mut tmp);
                            match std::pin::Pin::new(&mut *s).poll_read(cx, &mut rb) {
                                std::task::Poll::Ready(Ok(())) => std::task::Poll::Ready(Some(rb.filled().len())),
                                std::task::Poll::Ready(Err(_)) => std::task::Poll::Ready(Some(0)),
                                std::task::Poll::Pending => std::task::Poll::Ready(None),
                            }
                        })
                        .await;
                        match r {
                            Some(0) => {
                                c.eof = true;
                                true
                            }
                            Some(k) => {
                                c.rbuf.extend_from_slice(&tmp[..k]);
                                true
                            }
                            None => false,
                        }
                    }
                    None => {
                        c.eof = true;
                        true
                    }
                };
                if !more {
                    let f = c.rbuf.split();
                    c.eof = true;
                    c.client = None;
                    let shown = &f[..f.len().min(48)];
                    return Rd::Bad(format!("{}..({}B,stream-desynchronised)", hex(shown), f.len()));
                }
                continue;
            }
            let n = match c.client.as_mut() {
                Some(s) => s.read_buf(&mut c.rbuf).await,
                None => Ok(0),
            };
            match n {
                Ok(0) | Err(_) => c.eof = true,
                Ok(_) => {}
            }
        }
    }

    async fn write(c: &mut ConnH, b: &[u8]) -> bool {
        match c.client.as_mut() {
            Some(s) => s.write_all(b).await.is_ok(),
            None => false,
        }
    }

    fn conn(&mut self, i: usize) -> Option<&mut ConnH> {
        self.conns.get_mut(i).and_then(|c| c.as_mut())
    }

    async fn exec(&mut self, t: &[&str]) -> String {
        match t[0] {
            "conn" => {
                let c: usize = t[1].parse().unwrap();
                let ver: u8 = t[2].parse().unwrap();
                let Some(u) = parse_ctf(&t[3..]) else { return "bad-ctf".into() };
                let Some(bytes) = client_encode(ver, &u) else { return "unencodable".into() };
                let (client, server) = tokio::io::duplex(1 << 20);
                let tx = self.router_tx.clone().expect("new first");
                let cfg = self.cfg.clone();
                let wills = self.wills.clone();
                let task = if ver == 4 {
                    tokio::spawn(verif_remote(cfg, tx, Box::new(server), V4, wills))
                } else {
                    tokio::spawn(verif_remote(cfg, tx, Box::new(server), V5, wills))
                };
                let mut h = ConnH { client: Some(client), task: Some(task), ver, rbuf: BytesMut::new(), eof: false };
                let ok = World::write(&mut h, &bytes).await;
                let out = if !ok {
                    "closed".to_string()
                } else {
                    match World::read_one(&mut h).await {
                        Rd::Packet(u) => ctf(&u),
                        Rd::Eof => "eof".into(),
                        Rd::Bad(h) => format!("undecodable:{h}"),
                    }
                };
                while self.conns.len() <= c {
                    self.conns.push(None);
                }
                self.conns[c] = Some(h);
                out
            }
            "connclose" => {
                // CONNECT, then the peer is gone before the broker can answer: both halves of the
                // client end are dropped right after the write (the bytes stay readable for the broker)
                let c: usize = t[1].parse().unwrap();
                let ver: u8 = t[2].parse().unwrap();
                let Some(u) = parse_ctf(&t[3..]) else { return "bad-ctf".into() };
                let Some(bytes) = client_encode(ver, &u) else { return "unencodable".into() };
                let (client, server) = tokio::io::duplex(1 << 20);
                let tx = self.router_tx.clone().expect("new first");
                let cfg = self.cfg.clone();
                let wills = self.wills.clone();
                let task = if ver == 4 {
                    tokio::spawn(verif_remote(cfg, tx, Box::new(server), V4, wills))
                } else {
                    tokio::spawn(verif_remote(cfg, tx, Box::new(server), V5, wills))
                };
                let mut h = ConnH { client: Some(client), task: Some(task), ver, rbuf: BytesMut::new(), eof: true };
                let ok = World::write(&mut h, &bytes).await;
                h.client = None;
                while self.conns.len() <= c {
                    self.conns.push(None);
                }
                self.conns[c] = Some(h);
                if ok { "ok".into() } else { "closed".into() }
            }
            "send" => {
                let c: usize = t[1].parse().unwrap();
                let Some(u) = parse_ctf(&t[2..]) else { return "bad-ctf".into() };
                let Some(h) = self.conn(c) else { return "noconn".into() };
                let Some(bytes) = client_encode(h.ver, &u) else { return "unencodable".into() };
                if World::write(h, &bytes).await { "ok".into() } else { "closed".into() }
            }
            "raw" => {
                let c: usize = t[1].parse().unwrap();
                let Some(h) = self.conn(c) else { return "noconn".into() };
                if World::write(h, &unhex(t[2])).await { "ok".into() } else { "closed".into() }
            }
            "recv" => {
                let c: usize = t[1].parse().unwrap();
                let Some(h) = self.conn(c) else { return "noconn".into() };
                match World::read_one(h).await {
                    Rd::Packet(u) => ctf(&u),
                    Rd::Eof => "eof".into(),
                    Rd::Bad(h) => format!("undecodable:{h}"),
                }
            }
            "sync" | "eof" => {
                let c: usize = t[1].parse().unwrap();
                let until_eof = t[0] == "eof";
                let Some(h) = self.conn(c) else { return "noconn".into() };
                if until_eof {
                    // used only where the broker's side ends the stream without outside help
                    // (EOF, keep-alive, malformed bytes, refusal): bounded, see `join`
                    let mut items: Vec<String> = vec![];
                    let mut turns = 0;
                    let status = loop {
                        let r = tokio::select! {
                            biased;
                            r = World::read_one(h) => Some(r),
                            _ = async {
                                tokio::time::sleep(std::time::Duration::ZERO).await;
                                tokio::task::yield_now().await;
                            } => None,
                        };
                        match r {
                            Some(Rd::Packet(u)) => items.push(ctf(&u)),
                            Some(Rd::Bad(x)) => items.push(format!("undecodable:{x}")),
                            Some(Rd::Eof) => break "eof",
                            None => {
                                turns += 1;
                                if turns >= 8 {
                                    break "open";
                                }
                            }
                        }
                    };
                    let mut o = format!("{status} {}", items.len());
                    for i in items {
                        o.push_str(" | ");
                        o.push_str(&i);
                    }
                    return o;
                }
                let ping: &[u8] = &[0xc0, 0x00];
                let mut items: Vec<String> = vec![];
                let mut status = "ok";
                let rounds = if until_eof { 1 } else { 2 };
                'outer: for _ in 0..rounds {
                    if !until_eof && !World::write(h, ping).await {
                        // the stream is closed for writing: whatever is still readable, then EOF
                        loop {
                            match World::read_one(h).await {
                                Rd::Packet(UPacket::PingResp) => {}
                                Rd::Packet(u) => items.push(ctf(&u)),
                                Rd::Bad(x) => items.push(format!("undecodable:{x}")),
                                Rd::Eof => break,
                            }
                        }
                        status = "eof";
                        break 'outer;
                    }
                    loop {
                        match World::read_one(h).await {
                            Rd::Packet(UPacket::PingResp) if !until_eof => break,
                            Rd::Packet(u) => items.push(ctf(&u)),
                            Rd::Bad(x) => items.push(format!("undecodable:{x}")),
                            Rd::Eof => {
                                status = "eof";
                                break 'outer;
                            }
                        }
                    }
                }
                let mut o = format!("{status} {}", items.len());
                for i in items {
                    o.push_str(" | ");
                    o.push_str(&i);
                }
                o
            }
            "shut" => {
                let c: usize = t[1].parse().unwrap();
                let Some(h) = self.conn(c) else { return "noconn".into() };
                if let Some(s) = h.client.as_mut() {
                    let _ = s.shutdown().await;
                }
                // let the connection task see the EOF and run to its next suspension point
                // (single-threaded runtime: everything it does there is synchronous)
                tokio::task::yield_now().await;
                "ok".into()
            }
            "join" => {
                let c: usize = t[1].parse().unwrap();
                let Some(h) = self.conn(c) else { return "noconn".into() };
                // the task is expected to be over or to get there without outside help (a timer
                // that is already due): give it a bounded number of scheduler / timer-driver turns
                // instead of awaiting it, so that a connection that unexpectedly lives on is an
                // observation (`running`) and not a hang
                let finished = match h.task.as_ref() {
                    None => return "joined".into(),
                    Some(j) => {
                        let mut turns = 0;
                        while !j.is_finished() && turns < 8 {
                            tokio::time::sleep(std::time::Duration::ZERO).await;
                            tokio::task::yield_now().await;
                            turns += 1;
                        }
                        j.is_finished()
                    }
                };
                if !finished {
                    return "running".into();
                }
                match h.task.take().unwrap().await {
                    Ok(()) => "done".into(),
                    Err(e) if e.is_panic() => format!("panic:{}", panic_class()),
                    Err(_) => "cancelled".into(),
                }
            }
            "advance" => {
                let ms: u64 = t[1].parse().unwrap();
                tokio::time::advance(std::time::Duration::from_millis(ms)).await;
                tokio::task::yield_now().await;
                "ok".into()
            }
            "wills" => match catch_unwind(AssertUnwindSafe(|| self.wills.len())) {
                Ok(n) => format!("{n}"),
                Err(_) => "poisoned".into(),
            },
            _ => "bad-op".into(),
        }
    }
}

/// pure: `Notification -> MaybePacket -> Protocol::write`
pub fn exec_enc(t: &[&str]) -> String {
    let ver: u8 = t[1].parse().unwrap();
    let lvl = 5; // the shared packet enum is built with every field available
    let notif: Option<Notification> = match t[2] {
        "unsched" => Some(Notification::Unschedule),
        kind => {
            let Some(u) = parse_ctf(&t[3..]) else { return "bad-ctf".into() };
            let Some(p) = kb::to(&u, lvl) else { return "U".into() };
            match (kind, p) {
                ("fwd", Packet::Publish(publish, properties)) => {
                    Some(Notification::Forward(Forward { cursor: Some((0, 0)), size: 0, publish, properties }))
                }
                ("disc", Packet::Disconnect(d, props)) => Some(Notification::Disconnect(d, props)),
                ("ack", Packet::ConnAck(c, props)) => Some(Notification::DeviceAck(Ack::ConnAck(0, c, props))),
                ("ack", Packet::PubAck(a, None)) => Some(Notification::DeviceAck(Ack::PubAck(a))),
                ("ack", Packet::PubRec(a, None)) => Some(Notification::DeviceAck(Ack::PubRec(a))),
                ("ack", Packet::PubRel(a, None)) => Some(Notification::DeviceAck(Ack::PubRel(a))),
                ("ack", Packet::PubComp(a, None)) => Some(Notification::DeviceAck(Ack::PubComp(a))),
                ("ack", Packet::SubAck(a, None)) => Some(Notification::DeviceAck(Ack::SubAck(a))),
                ("ack", Packet::UnsubAck(a, None)) => Some(Notification::DeviceAck(Ack::UnsubAck(a))),
                ("ack", Packet::PingResp(a)) => Some(Notification::DeviceAck(Ack::PingResp(a))),
                ("ackp", Packet::PubAck(a, Some(p))) => Some(Notification::DeviceAck(Ack::PubAckWithProperties(a, p))),
                ("ackp", Packet::PubRec(a, Some(p))) => Some(Notification::DeviceAck(Ack::PubRecWithProperties(a, p))),
                ("ackp", Packet::PubRel(a, Some(p))) => Some(Notification::DeviceAck(Ack::PubRelWithProperties(a, p))),
                ("ackp", Packet::PubComp(a, Some(p))) => Some(Notification::DeviceAck(Ack::PubCompWithProperties(a, p))),
                ("ackp", Packet::SubAck(a, Some(p))) => Some(Notification::DeviceAck(Ack::SubAckWithProperties(a, p))),
                _ => None,
            }
        }
    };
    let Some(n) = notif else { return "U".into() };
    let r = catch_unwind(AssertUnwindSafe(|| {
        let p: Option<Packet> = n.into();
        match p {
            None => None,
            Some(p) => {
                let mut b = BytesMut::new();
                let r = if ver == 4 { V4.write(p, &mut b) } else { V5.write(p, &mut b) };
                Some(r.ok().map(|_| b.to_vec()))
            }
        }
    }));
    match r {
        Err(_) => "P".into(),
        Ok(None) => "-".into(),
        Ok(Some(None)) => "E".into(),
        Ok(Some(Some(b))) => format!("W{}", hex(&b)),
    }
}

impl Stack {
    pub fn new() -> Stack {
        Stack { rt: None, w: World::empty() }
    }

    fn teardown(&mut self) {
        // drop the client ends, the router handle and the runtime (which cancels the tasks); the
        // router thread ends when its last sender is gone
        self.w.conns.clear();
        self.w.router_tx = None;
        self.w.stop = None;
        if let Some(rt) = self.rt.take() {
            rt.shutdown_background();
        }
    }

    pub fn exec(&mut self, op: &str) -> String {
        PROGRESS.fetch_add(1, Ordering::Relaxed);
        let t: Vec<&str> = op.split_whitespace().collect();
        if t.is_empty() {
            return "bad".into();
        }
        match t[0] {
            "new" => {
                self.teardown();
                let max_conn: usize = t[1].parse().unwrap();
                let rt = tokio::runtime::Builder::new_current_thread().enable_time().start_paused(true).build().unwrap();
                // a parked blocking task inhibits auto-advance of the paused clock for the whole case
                let (stop_tx, stop_rx) = std::sync::mpsc::channel::<()>();
                rt.spawn_blocking(move || {
                    let _ = stop_rx.recv();
                });
                let config = RouterConfig {
                    max_connections: max_conn,
                    max_outgoing_packet_count: 200,
                    max_segment_size: 1 << 20,
                    max_segment_count: 10,
                    custom_segment: None,
                    initialized_filters: None,
                    shared_subscriptions_strategy: Default::default(),
                };
                let mut cs = crate::admit::settings(t[2], false);
                cs.connection_timeout_ms = 60_000;
                cs.max_payload_size = 1 << 20;
                self.w = World {
                    router_tx: Some(Router::new(0, config).spawn()),
                    wills: WillHandlers::default(),
                    cfg: Arc::new(cs),
                    conns: vec![],
                    stop: Some(stop_tx),
                };
                self.rt = Some(rt);
                "ok".into()
            }
            "enc" => exec_enc(&t),
            "note" | "end" => "ok".into(),
            _ => {
                let Some(rt) = self.rt.as_ref() else { return "nonew".into() };
                let w = &mut self.w;
                rt.block_on(w.exec(&t))
            }
        }
    }
}

impl Drop for Stack {
    fn drop(&mut self) {
        self.teardown();
    }
}

// ================================================================================== generators

pub struct Out<'a> {
    pub w: &'a mut dyn Write,
    pub st: &'a mut Stats,
    pub stack: Stack,
    /// transcript of the current case (for the run-twice determinism check)
    pub transcript: Vec<String>,
}

impl<'a> Out<'a> {
    fn case(&mut self, id: &str) {
        // everything up to the previous case is on disk even if the watchdog has to abort
        self.w.flush().unwrap();
        writeln!(self.w, "case {id}").unwrap();
        self.transcript.clear();
    }
    pub fn op(&mut self, op: &str) -> String {
        let out = self.stack.exec(op);
        self.st.eval();
        let kind = op.split(' ').next().unwrap();
        self.st.tag(&format!("op-{kind}"));
        if out.starts_with("panic") {
            self.st.impl_panics += 1;
            self.st.tag(&format!("task-{out}"));
        }
        let line = format!("{op} => {out}");
        writeln!(self.w, "{line}").unwrap();
        self.transcript.push(line);
        out
    }
}

pub const KA_LONG: u16 = 60000;

fn hx(s: &str) -> String {
    hex(s.as_bytes())
}

/// CONNECT CTF. `will` = (topic, message, qos, retain, will properties CTF)
pub fn connect_ctf(ver: u8, ka: u16, cid: &str, clean: bool, props: &str, will: Option<(&str, &str, u8, bool, &str)>, login: Option<(&str, &str)>) -> String {
    let w = match will {
        None => "-".to_string(),
        Some((t, m, q, r, wp)) => format!("W{},{},{},{},{}", hx(t), hx(m), q, r as u8, wp),
    };
    let l = match login {
        None => "-".to_string(),
        Some((u, p)) => format!("L{},{}", hx(u), hx(p)),
    };
    format!("connect {ver} {ka} {} {} {props} {w} {l}", hx(cid), clean as u8)
}

/// the eight PUBLISH properties of `PublishProperties`, as CTF items; bit i of `mask` selects item i
pub const PUB_PROPS: [&str; 8] = [
    "1=b1",          // payload_format_indicator
    "2=d100",        // message_expiry_interval
    "35=w3",         // topic_alias (inbound: consumed by the router)
    "8=s722f74",     // response_topic "r/t"
    "9=x0102",       // correlation_data
    "38=p6b:76",     // one user property k=v
    "11=v9",         // subscription identifier (a client must not send it)
    "3=s74657874",   // content_type "text"
];

pub fn props_ctf(mask: u32) -> String {
    let items: Vec<&str> = (0..8).filter(|i| mask & (1 << i) != 0).map(|i| PUB_PROPS[i]).collect();
    if items.is_empty() { "N".into() } else { format!("S[{}]", items.join(";")) }
}

fn sub_ctf(pkid: u16, filter: &str, qos: u8, subid: Option<u32>) -> String {
    let props = match subid {
        None => "N".to_string(),
        Some(i) => format!("S[11=v{i}]"),
    };
    format!("subscribe {pkid} {props} {}/{qos}/0/0/0", hx(filter))
}

fn pub_ctf(qos: u8, pkid: u16, topic: &str, payload: &str, props: &str) -> String {
    format!("publish 0 {qos} 0 {} {pkid} {} {props}", hx(topic), hx(payload))
}

/// C20: publisher on a `pv` listener, subscriber on an `sv` listener, one PUBLISH with the
/// property subset `mask`, then a second PUBLISH on another topic matched by the same filter
fn case_cross(o: &mut Out, id: &str, pv: u8, sv: u8, mask: u32, qos: u8, subqos: u8, subid: Option<u32>, alias_max: u16, wildcard: bool) {
    o.case(id);
    o.op("new 10 none");
    let sprops = if sv == 5 && alias_max > 0 { format!("S[34=w{alias_max}]") } else { "N".into() };
    o.op(&format!("conn 0 {sv} {}", connect_ctf(sv, KA_LONG, "sub", true, &sprops, None, None)));
    let filter = if wildcard { "t/#" } else { "t/a" };
    o.op(&format!("send 0 {}", sub_ctf(1, filter, subqos, if sv == 5 { subid } else { None })));
    o.op("sync 0");
    o.op(&format!("conn 1 {pv} {}", connect_ctf(pv, KA_LONG, "pub", true, "N", None, None)));
    let props = if pv == 5 { props_ctf(mask) } else { "N".into() };
    let topics: &[&str] = if wildcard { &["t/a", "t/b", "t/a"] } else { &["t/a", "t/a"] };
    for (i, topic) in topics.iter().enumerate() {
        let pkid = if qos == 0 { 0 } else { (i + 1) as u16 };
        // the second and later publishes reuse the publisher's alias with the full topic
        o.op(&format!("send 1 {}", pub_ctf(qos, pkid, topic, &format!("m{i}"), &props)));
        // barrier on the publisher (a QoS 1 PUBACK shows up among the items), then on the subscriber
        let rp = o.op("sync 1");
        let rs = o.op("sync 0");
        if rp.starts_with("eof") {
            o.op("join 1");
        }
        if rs.starts_with("eof") {
            o.op("join 0");
        }
        if rp.starts_with("eof") || rs.starts_with("eof") {
            break;
        }
    }
    o.st.tag(&format!("cross-{pv}to{sv}"));
    o.op("end");
    o.st.nontrivial(&("cross", pv, sv, mask, qos, subqos, subid, alias_max, wildcard));
}

/// `n` printable bytes (position-dependent, so that a truncation or a shift shows)
fn pad(n: usize) -> String {
    (0..n).map(|i| (b'a' + (i % 26) as u8) as char).collect()
}

/// C20, free form: subscriber on an `sv` listener (optional subscription identifier / alias
/// maximum), publisher on a `pv` listener sending the given publishes (QoS, topic, payload,
/// properties CTF); a barrier on both streams after each, so that a frame whose announced length is
/// wrong shows up as a garbled or missing packet at the latest with the next message
#[allow(clippy::too_many_arguments)]
fn case_custom(o: &mut Out, id: &str, pv: u8, sv: u8, subqos: u8, subid: Option<u32>, alias_max: u16, filter: &str, pubs: &[(u8, String, String, String)]) {
    o.case(id);
    o.op("new 10 none");
    let sprops = if sv == 5 && alias_max > 0 { format!("S[34=w{alias_max}]") } else { "N".into() };
    o.op(&format!("conn 0 {sv} {}", connect_ctf(sv, KA_LONG, "sub", true, &sprops, None, None)));
    o.op(&format!("send 0 {}", sub_ctf(1, filter, subqos, if sv == 5 { subid } else { None })));
    o.op("sync 0");
    o.op(&format!("conn 1 {pv} {}", connect_ctf(pv, KA_LONG, "pub", true, "N", None, None)));
    for (i, (qos, topic, payload, props)) in pubs.iter().enumerate() {
        let pkid = if *qos == 0 { 0 } else { (i + 1) as u16 };
        let props = if pv == 5 { props.as_str() } else { "N" };
        o.op(&format!("send 1 {}", pub_ctf(*qos, pkid, topic, payload, props)));
        let rp = o.op("sync 1");
        let rs = o.op("sync 0");
        if rp.starts_with("eof") {
            o.op("join 1");
        }
        if rs.starts_with("eof") {
            o.op("join 0");
        }
        if rp.starts_with("eof") || rs.starts_with("eof") {
            break;
        }
    }
    o.st.tag(&format!("custom-{pv}to{sv}"));
    o.op("end");
    o.st.nontrivial(&("custom", id.to_string()));
}

/// the seven forwardable PUBLISH properties together (everything but a publisher-side
/// subscription identifier), with two user properties
const ALL_PROPS: &str = "S[1=b1;2=d100;35=w3;8=s722f74;9=x0102;38=p6b:76;38=p6b32:7632;3=s74657874]";

/// subscription identifier on the SUBSCRIBE x properties on the PUBLISH (x alias, x QoS): the
/// forward must carry the publisher's properties AND the identifier
fn subid_cases(out: &mut Out, mine: &mut dyn FnMut() -> bool, thorough: bool) {
    let prop_sets: Vec<String> = if thorough {
        (1..256u32).filter(|m| m & 64 == 0).map(props_ctf).chain(std::iter::once(ALL_PROPS.to_string())).collect()
    } else {
        vec![ALL_PROPS.to_string(), props_ctf(1), props_ctf(32), props_ctf(128 | 8 | 16), props_ctf(4)]
    };
    for (k, props) in prop_sets.iter().enumerate() {
        for qos in [0u8, 1] {
            for (alias_max, filter) in [(0u16, "t/#"), (2, "t/a")] {
                for pv in [5u8, 4] {
                    if pv == 4 && k > 0 {
                        continue;
                    }
                    if mine() {
                        let id = format!("sid{pv}5-p{k}-q{qos}-a{alias_max}");
                        let pubs: Vec<(u8, String, String, String)> =
                            (0..2).map(|i| (qos, "t/a".to_string(), format!("m{i}"), props.clone())).collect();
                        run_twice(out, &|o| case_custom(o, &id, pv, 5, 1, Some(7), alias_max, filter, &pubs));
                    }
                }
            }
        }
    }
}

/// sizes at which the variable-byte integers of a frame change width: subscription identifier,
/// property section, remaining length at 127/128/129 and 16383/16384 (and the identifier also at
/// 2097151/2097152); each boundary message is followed by a small one
fn boundary_cases(out: &mut Out, mine: &mut dyn FnMut() -> bool, thorough: bool) {
    let small = |qos: u8| (qos, "t/a".to_string(), "z".to_string(), "N".to_string());
    // (a) subscription identifier values
    for sid in [127u32, 128, 129, 16383, 16384, 2097151, 2097152, 268435455] {
        for (pv, qos) in [(4u8, 0u8), (5, 1)] {
            if mine() {
                let id = format!("bsid{pv}5-{sid}-q{qos}");
                let props = if pv == 5 { props_ctf(1 | 128) } else { "N".to_string() };
                let pubs = vec![(qos, "t/a".to_string(), "m0".to_string(), props), small(qos)];
                run_twice(out, &|o| case_custom(o, &id, pv, 5, 1, Some(sid), 0, "t/a", &pubs));
            }
        }
    }
    // (b) property section of exactly n bytes towards a v5 subscriber: one user property
    //     `k` = <L bytes> takes 6 + L bytes, a content type of L bytes 3 + L
    let mut sections: Vec<usize> = vec![127, 128, 129];
    if thorough {
        sections.extend([126, 130, 16383, 16384, 16385]);
    } else {
        sections.extend([16383, 16384]);
    }
    for n in sections {
        for (kind, props) in [("u", format!("S[38=p6b:{}]", hx(&pad(n - 6)))), ("c", format!("S[3=s{}]", hx(&pad(n - 3))))] {
            for (subid, extra) in [(None, 0usize), (Some(7u32), 2)] {
                // with a subscription identifier 7 the section grows by 2 bytes: shrink the value
                if n - 6 < extra + 1 {
                    continue;
                }
                let props = if extra == 0 {
                    props.clone()
                } else if kind == "u" {
                    format!("S[38=p6b:{}]", hx(&pad(n - 6 - extra)))
                } else {
                    format!("S[3=s{}]", hx(&pad(n - 3 - extra)))
                };
                for qos in [0u8, 1] {
                    if !thorough && qos == 1 && n > 1000 {
                        continue;
                    }
                    if mine() {
                        let id = format!("bprop55-{kind}{n}-s{}-q{qos}", subid.unwrap_or(0));
                        let pubs = vec![(qos, "t/a".to_string(), "m0".to_string(), props.clone()), small(qos)];
                        run_twice(out, &|o| case_custom(o, &id, 5, 5, 1, subid, 0, "t/a", &pubs));
                    }
                }
            }
        }
    }
    // (c) remaining length: PUBLISH QoS 0 to a QoS 0 subscription on topic `t/a` has
    //     remaining length 5 + payload (3.1.1) / 6 + payload (MQTT 5, no properties);
    //     with QoS 1 two more
    let mut lens: Vec<usize> = vec![119, 120, 121, 122, 123, 124, 16375, 16376, 16377, 16378, 16379];
    if thorough {
        lens.extend([125, 126, 127, 128, 129, 16380, 16383, 16384]);
    }
    for n in lens {
        for (pv, sv) in [(4u8, 5u8), (5, 5), (5, 4), (4, 4)] {
            for subqos in [0u8, 1] {
                if !thorough && n > 1000 && (subqos == 1 || pv != sv) {
                    continue;
                }
                if mine() {
                    let id = format!("blen{pv}{sv}-{n}-q{subqos}");
                    let pubs = vec![(subqos, "t/a".to_string(), pad(n), "N".to_string()), small(subqos)];
                    run_twice(out, &|o| case_custom(o, &id, pv, sv, subqos, None, 0, "t/a", &pubs));
                }
            }
        }
    }
    // (d) topic length at the boundary (remaining length 2 + topic + 1 + 1 payload byte = 128 for 124)
    for n in [122usize, 123, 124, 125] {
        if mine() {
            let id = format!("btopic55-{n}");
            let topic = format!("t/{}", pad(n - 2));
            let pubs = vec![(0u8, topic, "p".to_string(), "N".to_string()), small(0)];
            run_twice(out, &|o| case_custom(o, &id, 5, 5, 0, None, 0, "t/#", &pubs));
        }
    }
}

/// how a connection with a will ends
#[derive(Clone, Copy, Debug, PartialEq)]
pub enum EndCause {
    Eof,
    KeepAlive,
    Malformed,
    UnsolicitedAck,
    DisconnectFirst,
}

#[derive(Clone, Copy, Debug, PartialEq)]
pub enum Reconnect {
    None,
    Clean,
    NonClean,
    CleanNewWill,
    NonCleanNoWill,
}

/// barrier on every subscriber that is still alive; a dead one is joined (its task's fate is an observable)
fn sync_subs(o: &mut Out, alive: &mut Vec<bool>) {
    for i in 0..alive.len() {
        if alive[i] {
            let r = o.op(&format!("sync {i}"));
            if r.starts_with("eof") {
                alive[i] = false;
                o.op(&format!("join {i}"));
            }
        }
    }
}

/// C16 x the will-handler map (regression): a client id the router refuses (here `a/b`) connects
/// twice (this used to panic while holding the will-handler mutex and poison it); afterwards a live
/// client with a will ends abnormally and its will must be published
fn case_poison_will(o: &mut Out, id: &str, wv: u8, sv: u8) {
    o.case(id);
    o.op("new 10 none");
    o.op(&format!("conn 0 {sv} {}", connect_ctf(sv, KA_LONG, "s0", true, "N", None, None)));
    o.op(&format!("send 0 {}", sub_ctf(1, "w/#", 1, None)));
    o.op("sync 0");
    o.op(&format!("conn 1 {wv} {}", connect_ctf(wv, KA_LONG, "w", true, "N", Some(("w/1", "gone", 1, false, "N")), None)));
    for c in [2, 3] {
        o.op(&format!("conn {c} {wv} {}", connect_ctf(wv, KA_LONG, "a/b", true, "N", None, None)));
        o.op(&format!("join {c}"));
    }
    o.op("wills");
    o.op("shut 1");
    o.op("eof 1");
    o.op("join 1");
    o.op("sync 0");
    o.op("end");
    o.st.nontrivial(&("poison", wv, sv));
}

/// C16: the client sends DISCONNECT and, in the same write, bytes the decoder refuses: it did send
/// DISCONNECT first, so the will must not be published
fn case_disconnect_then_garbage(o: &mut Out, id: &str, wv: u8, sv: u8, garbage: &str) {
    o.case(id);
    o.op("new 10 none");
    o.op(&format!("conn 0 {sv} {}", connect_ctf(sv, KA_LONG, "s0", true, "N", None, None)));
    o.op(&format!("send 0 {}", sub_ctf(1, "w/#", 1, None)));
    o.op("sync 0");
    o.op(&format!("conn 1 {wv} {}", connect_ctf(wv, KA_LONG, "w", true, "N", Some(("w/1", "gone", 1, false, "N")), None)));
    o.op(&format!("raw 1 e000{garbage}"));
    o.op("eof 1");
    o.op("join 1");
    o.op("sync 0");
    o.op("end");
    o.st.nontrivial(&("disc-garbage", wv, sv, garbage.to_string()));
}

/// C16 + C19: the peer sends a CONNECT with a will and is gone before the CONNACK can be written.
/// The connection ended without DISCONNECT: the will is owed; and its slot must be free again:
/// with `max_connections = 2` and only the watcher really connected a fresh client is admitted.
fn case_connect_then_gone(o: &mut Out, id: &str, wv: u8, sv: u8, with_will: bool) {
    o.case(id);
    o.op("new 2 none");
    o.op(&format!("conn 0 {sv} {}", connect_ctf(sv, KA_LONG, "s0", true, "N", None, None)));
    o.op(&format!("send 0 {}", sub_ctf(1, "w/#", 1, None)));
    o.op("sync 0");
    let will = if with_will { Some(("w/1", "gone", 1, false, "N")) } else { None };
    o.op(&format!("connclose 1 {wv} {}", connect_ctf(wv, KA_LONG, "w", true, "N", will, None)));
    o.op("join 1");
    o.op("sync 0");
    // only the watcher is connected: there is room for one more
    let r = o.op(&format!("conn 2 {wv} {}", connect_ctf(wv, KA_LONG, "fresh", true, "N", None, None)));
    if r.starts_with("connack") {
        o.op("sync 2");
    } else {
        o.op("join 2");
    }
    o.op("sync 0");
    o.op("end");
    o.st.nontrivial(&("connect-gone", wv, sv, with_will));
}

/// C16: a willing client (client id `cid`, may be empty = broker-assigned) ends either by an
/// MQTT DISCONNECT with the given reason (the will must NOT be published, whatever the reason:
/// "if the client sent DISCONNECT first, the will is never published") or, with `reason = None`,
/// by closing the stream (the will must be published exactly once)
fn case_will_simple(o: &mut Out, id: &str, wv: u8, sv: u8, cid: &str, reason: Option<&str>) {
    o.case(id);
    o.op("new 10 none");
    o.op(&format!("conn 0 {sv} {}", connect_ctf(sv, KA_LONG, "s0", true, "N", None, None)));
    o.op(&format!("send 0 {}", sub_ctf(1, "w/#", 1, None)));
    o.op("sync 0");
    o.op(&format!("conn 1 {wv} {}", connect_ctf(wv, KA_LONG, cid, true, "N", Some(("w/1", "gone", 1, false, "N")), None)));
    match reason {
        Some(r) => {
            o.op(&format!("send 1 disconnect {r} N"));
            o.op("sync 1");
        }
        None => {
            o.op("shut 1");
            o.op("eof 1");
        }
    }
    o.op("join 1");
    o.op("sync 0");
    o.op("end");
    o.st.nontrivial(&("will-simple", wv, sv, cid.to_string(), reason.map(|r| r.to_string())));
}

/// C20: broker topic aliases across UNSUBSCRIBE / re-SUBSCRIBE. Subscriber (MQTT 5,
/// `topic_alias_max`) on the plain filters `t/a` and `t/b`; traffic, unsubscribe `t/a`, traffic on
/// `t/b` (which may take over the freed alias), re-subscribe `t/a`, traffic on both: every message
/// must resolve to its own topic
fn case_alias_resubscribe(o: &mut Out, id: &str, pv: u8, alias_max: u16, qos: u8) {
    o.case(id);
    o.op("new 10 none");
    o.op(&format!("conn 0 5 {}", connect_ctf(5, KA_LONG, "sub", true, &format!("S[34=w{alias_max}]"), None, None)));
    o.op(&format!("send 0 {}", sub_ctf(1, "t/a", qos, None)));
    o.op(&format!("send 0 {}", sub_ctf(2, "t/b", qos, None)));
    o.op("sync 0");
    o.op(&format!("conn 1 {pv} {}", connect_ctf(pv, KA_LONG, "pub", true, "N", None, None)));
    let mut n = 0u16;
    let mut publish = |o: &mut Out, topic: &str| {
        n += 1;
        o.op(&format!("send 1 {}", pub_ctf(0, 0, topic, &format!("m{n}"), "N")));
        o.op("sync 1");
        o.op("sync 0")
    };
    publish(o, "t/a");
    publish(o, "t/b");
    publish(o, "t/a");
    o.op(&format!("send 0 unsubscribe 3 N {}", hx("t/a")));
    o.op("sync 0");
    publish(o, "t/b");
    publish(o, "t/a"); // nobody subscribed: nothing arrives
    o.op(&format!("send 0 {}", sub_ctf(4, "t/a", qos, None)));
    o.op("sync 0");
    let r = publish(o, "t/a");
    if r.starts_with("ok") {
        publish(o, "t/b");
        publish(o, "t/a");
    } else {
        o.op("join 0");
    }
    o.op("end");
    o.st.nontrivial(&("alias-resub", pv, alias_max, qos));
}

/// C16 (server part): willing client W on a `wv` listener, `nsub` subscribers to the will topic,
/// W ends by `cause`; with a will delay the same client id may reconnect before it elapses.
#[allow(clippy::too_many_arguments)]
fn case_will(o: &mut Out, id: &str, wv: u8, svs: &[u8], cause: EndCause, delay: u32, reconnect: Reconnect, has_will: bool, will_qos: u8) {
    o.case(id);
    o.op("new 10 none");
    for (i, sv) in svs.iter().enumerate() {
        o.op(&format!("conn {i} {sv} {}", connect_ctf(*sv, KA_LONG, &format!("s{i}"), true, "N", None, None)));
        o.op(&format!("send {i} {}", sub_ctf(1, "w/#", 1, None)));
        o.op(&format!("sync {i}"));
    }
    let wc = svs.len();
    let mut alive = vec![true; svs.len()];
    let ka = if cause == EndCause::KeepAlive { 2 } else { KA_LONG };
    // MQTT 5: will delay needs will properties and a session expiry at least as long
    let (cprops, wprops) = if wv == 5 && delay > 0 {
        (format!("S[17=d{}]", delay + 10), format!("S[24=d{delay}]"))
    } else {
        ("N".to_string(), "N".to_string())
    };
    let will = if has_will { Some(("w/1", "gone", will_qos, false, wprops.as_str())) } else { None };
    let clean_first = !(reconnect == Reconnect::NonClean || reconnect == Reconnect::NonCleanNoWill);
    o.op(&format!("conn {wc} {wv} {}", connect_ctf(wv, ka, "w", clean_first, &cprops, will, None)));
    match cause {
        EndCause::Eof => {
            o.op(&format!("shut {wc}"));
            o.op(&format!("eof {wc}"));
        }
        EndCause::KeepAlive => {
            o.op("advance 3001");
            o.op(&format!("eof {wc}"));
        }
        EndCause::Malformed => {
            o.op(&format!("raw {wc} f000"));
            o.op(&format!("eof {wc}"));
        }
        // the router ends these: a barrier, not a bounded wait
        EndCause::UnsolicitedAck => {
            o.op(&format!("send {wc} puback 9 Success N"));
            o.op(&format!("sync {wc}"));
        }
        EndCause::DisconnectFirst => {
            o.op(&format!("send {wc} disconnect NormalDisconnection N"));
            o.op(&format!("sync {wc}"));
        }
    }
    // what the subscribers see before the delay has elapsed
    sync_subs(o, &mut alive);
    let rc = wc + 1;
    if wv == 5 && delay > 0 && reconnect != Reconnect::None {
        let (clean, will2): (bool, Option<(&str, &str, u8, bool, &str)>) = match reconnect {
            Reconnect::Clean => (true, None),
            Reconnect::NonClean => (false, will.clone()),
            Reconnect::CleanNewWill => (true, Some(("w/2", "second", will_qos, false, "N"))),
            Reconnect::NonCleanNoWill => (false, None),
            Reconnect::None => unreachable!(),
        };
        o.op("advance 1000");
        o.op(&format!("conn {rc} {wv} {}", connect_ctf(wv, KA_LONG, "w", clean, &cprops, will2, None)));
        o.op(&format!("join {wc}"));
        sync_subs(o, &mut alive);
        o.op(&format!("advance {}", delay as u64 * 1000));
        sync_subs(o, &mut alive);
        // the reconnected client now ends abnormally
        o.op(&format!("shut {rc}"));
        o.op(&format!("eof {rc}"));
        o.op(&format!("advance {}", delay as u64 * 1000 + 1));
        o.op(&format!("join {rc}"));
        sync_subs(o, &mut alive);
    } else {
        if delay > 0 && wv == 5 {
            o.op(&format!("advance {}", delay as u64 * 1000 - 1));
            sync_subs(o, &mut alive);
            o.op("advance 2");
        }
        o.op(&format!("join {wc}"));
        sync_subs(o, &mut alive);
    }
    o.op("wills");
    o.st.tag(&format!("will-{cause:?}"));
    o.st.tag(&format!("will-delay-{}", if delay > 0 && wv == 5 { "pos" } else { "zero" }));
    o.st.tag(&format!("will-reconnect-{reconnect:?}"));
    o.op("end");
    o.st.nontrivial(&("will", wv, svs.to_vec(), format!("{cause:?}"), delay, format!("{reconnect:?}"), has_will, will_qos));
}

/// C19 (stack part): connect / disconnect / takeover histories against a small connection limit
fn case_limit(o: &mut Out, id: &str, rng: &mut Rng, max_conn: usize, auth: &str, steps: usize) {
    o.case(id);
    o.op(&format!("new {max_conn} {auth}"));
    let ids = ["a", "b", "c", "d", "", "x/y", "a"];
    let mut open: Vec<usize> = vec![];
    let mut next = 0usize;
    for _ in 0..steps {
        let k = rng.weighted(&[5, 2, 2, 1]);
        match k {
            0 => {
                let ver = if rng.chance(1, 2) { 4u8 } else { 5 };
                // (client ids the router refused earlier are used again on purpose)
                let cid = *rng.pick(&ids);
                let clean = cid.is_empty() || rng.chance(2, 3);
                let login = match (auth, rng.below(4)) {
                    ("none", 0) => Some(("u", "p")),
                    ("none", _) => None,
                    (_, 0) => None,
                    (_, 1) => Some(("u", "P")),
                    _ => Some(("u", "p")),
                };
                let r = o.op(&format!("conn {next} {ver} {}", connect_ctf(ver, KA_LONG, cid, clean, "N", None, login)));
                if r.starts_with("connack") {
                    open.push(next);
                } else {
                    o.op(&format!("join {next}"));
                }
                next += 1;
            }
            1 if !open.is_empty() => {
                let i = rng.below(open.len() as u64) as usize;
                let c = open.remove(i);
                o.op(&format!("send {c} disconnect NormalDisconnection N"));
                o.op(&format!("sync {c}"));
                o.op(&format!("join {c}"));
            }
            2 if !open.is_empty() => {
                let i = rng.below(open.len() as u64) as usize;
                let c = open.remove(i);
                o.op(&format!("shut {c}"));
                o.op(&format!("eof {c}"));
                o.op(&format!("join {c}"));
            }
            _ => {}
        }
        // liveness probe of every stream that got a CONNACK and was not closed by us
        let mut still = vec![];
        for c in open.clone() {
            let r = o.op(&format!("sync {c}"));
            if r.starts_with("ok") {
                still.push(c);
            } else {
                o.op(&format!("join {c}"));
            }
        }
        open = still;
    }
    o.st.tag(&format!("limit-{max_conn}"));
    o.op("end");
    o.st.nontrivial(&("limit", id.to_string()));
}

/// scripted C19 cases: rejected clients never reach the routing core; stale will handler
fn case_rejected(o: &mut Out, id: &str, ver: u8, auth: &str, login: Option<(&str, &str)>, cid: &str, ka: u16, clean: bool) {
    o.case(id);
    o.op(&format!("new 3 {auth}"));
    o.op(&format!("conn 0 4 {}", connect_ctf(4, KA_LONG, "probe", true, "N", None, Some(("u", "p")))));
    o.op(&format!("send 0 {}", sub_ctf(1, "#", 0, None)));
    o.op("sync 0");
    let r = o.op(&format!("conn 1 {ver} {}", connect_ctf(ver, ka, cid, clean, "N", Some(("w/x", "will", 0, false, "N")), login)));
    let admitted = r.starts_with("connack") && r.contains(" Success ");
    if !admitted {
        // the broker ends the stream (after a failure CONNACK, if any)
        o.op("eof 1");
        o.op("join 1");
    }
    // whatever the outcome, the client then sends a SUBSCRIBE and a PUBLISH
    o.op(&format!("send 1 {}", sub_ctf(2, "#", 0, None)));
    o.op(&format!("send 1 {}", pub_ctf(0, 0, "from/rejected", "x", "N")));
    if admitted {
        o.op("sync 1");
    }
    o.op("sync 0");
    o.op("end");
    o.st.nontrivial(&("rejected", ver, auth.to_string(), login.map(|l| l.1.to_string()), cid.to_string(), ka, clean));
}

/// C19: a CONNECT whose protocol level is not the listener's (written with the listener's layout)
/// must not become a session; also with an empty client id
fn case_wrong_level(o: &mut Out, id: &str, ver: u8, level: u8) {
    o.case(id);
    o.op("new 3 none");
    for (c, cid) in ["c", ""].iter().enumerate() {
        let ctf = connect_ctf(ver, 10, cid, true, "N", None, None).replacen(&format!("connect {ver} "), &format!("connect {level} "), 1);
        let r = o.op(&format!("conn {c} {ver} {ctf}"));
        if r.starts_with("connack") {
            o.op(&format!("sync {c}"));
        } else {
            o.op(&format!("eof {c}"));
            o.op(&format!("join {c}"));
        }
    }
    o.op("end");
    o.st.nontrivial(&("wrong-level", ver, level));
}

/// regression: a client id refused by the router (limit reached) must not leave a will handler behind
/// that breaks the next CONNECT with that id
fn case_stale_handler(o: &mut Out, id: &str, ver: u8) {
    o.case(id);
    o.op("new 1 none");
    o.op(&format!("conn 0 {ver} {}", connect_ctf(ver, KA_LONG, "a", true, "N", None, None)));
    o.op(&format!("conn 1 {ver} {}", connect_ctf(ver, KA_LONG, "b", true, "N", None, None)));
    o.op("join 1");
    o.op("wills");
    o.op(&format!("send 0 disconnect NormalDisconnection N"));
    o.op("sync 0");
    o.op("join 0");
    // there is room now
    o.op(&format!("conn 2 {ver} {}", connect_ctf(ver, KA_LONG, "b", true, "N", None, None)));
    o.op("join 2");
    // and any later connection, whatever its client id
    o.op(&format!("conn 3 {ver} {}", connect_ctf(ver, KA_LONG, "c", true, "N", None, None)));
    o.op("join 3");
    o.op("wills");
    o.op("end");
    o.st.nontrivial(&("stale", ver));
}

/// the pure sweep: every notification form x V4::write / V5::write
fn sweep(o: &mut Out) {
    o.case("sweep");
    let mut forms: Vec<String> = vec![];
    for mask in 0..256u32 {
        for (qos, pkid) in [(0u8, 0u16), (1, 7)] {
            forms.push(format!("fwd publish 0 {qos} 0 {} {pkid} {} {}", hx("t/a"), hx("m"), props_ctf(mask)));
        }
    }
    // forwards as the router builds them: empty topic with alias, several subscription ids, empty props
    forms.push(format!("fwd publish 0 1 0 - 1 {} S[35=w1]", hx("m")));
    forms.push(format!("fwd publish 0 0 1 {} 0 - S[]", hx("t")));
    forms.push(format!("fwd publish 1 2 0 {} 65535 {} S[11=v1;11=v268435455]", hx("t"), hx("m")));
    forms.push(format!("fwd publish 0 1 0 {} 0 {} N", hx("t"), hx("m")));
    // sizes at which a variable-byte integer changes width: subscription identifier, property
    // section, remaining length, topic
    for sid in [127u32, 128, 129, 16383, 16384, 2097151, 2097152, 268435455] {
        forms.push(format!("fwd publish 0 1 0 {} 7 {} S[11=v{sid}]", hx("t/a"), hx("m")));
        forms.push(format!("fwd publish 0 0 0 {} 0 {} S[1=b1;11=v7;11=v{sid};3=s74657874]", hx("t/a"), hx("m")));
    }
    for n in [126usize, 127, 128, 129, 130, 16383, 16384, 16385] {
        forms.push(format!("fwd publish 0 1 0 {} 7 {} S[38=p6b:{}]", hx("t/a"), hx("m"), hx(&pad(n - 6))));
        forms.push(format!("fwd publish 0 0 0 {} 0 {} S[3=s{}]", hx("t/a"), hx("m"), hx(&pad(n - 3))));
        forms.push(format!("fwd publish 0 0 0 {} 0 {} S[11=v7;3=s{}]", hx("t/a"), hx("m"), hx(&pad(n - 5))));
    }
    for n in [119usize, 120, 121, 122, 123, 124, 125, 16375, 16376, 16377, 16378, 16379, 16380] {
        forms.push(format!("fwd publish 0 0 0 {} 0 {} N", hx("t/a"), hx(&pad(n))));
        forms.push(format!("fwd publish 0 1 0 {} 9 {} N", hx("t/a"), hx(&pad(n))));
    }
    for n in [121usize, 122, 123, 124, 125, 126] {
        forms.push(format!("fwd publish 0 0 0 {} 0 {} N", hx(&format!("t/{}", pad(n - 2))), hx("p")));
    }
    // QoS 0 forwards of messages published at QoS 1/2: the publisher's packet id is still in the struct
    for pkid in [1u32, 5, 65535] {
        for n in [1usize, 120, 121, 122, 123] {
            forms.push(format!("fwd publish 0 0 0 {} {pkid} {} N", hx("t/a"), hx(&pad(n))));
        }
        forms.push(format!("fwd publish 0 0 0 {} {pkid} {} S[1=b1;11=v7]", hx("t/a"), hx("m")));
    }
    for sp in [0, 1] {
        forms.push(format!("ack connack {sp} Success S[34=w4096]"));
        forms.push(format!("ack connack {sp} Success S[34=w4096;18=s72756d717474]"));
        forms.push(format!("ack connack {sp} Success N"));
    }
    forms.push("ack connack 0 ClientIdentifierNotValid N".into());
    for k in ["puback", "pubrec", "pubrel", "pubcomp"] {
        for pkid in [1u32, 65535] {
            forms.push(format!("ack {k} {pkid} Success N"));
            forms.push(format!("ackp {k} {pkid} Success S[31=s6f6b]"));
        }
    }
    forms.push("ack puback 1 NoMatchingSubscribers N".into());
    forms.push("ack pubrel 1 PacketIdentifierNotFound N".into());
    for codes in [".", "QoS0", "QoS1", "QoS2", "QoS0,QoS1,QoS2", "Unspecified", "Success0", "Failure", "NotAuthorized"] {
        forms.push(format!("ack suback 3 N {codes}"));
    }
    forms.push("ackp suback 3 S[31=s6f6b] QoS0".into());
    for rs in [".", "Success", "NoSubscriptionExisted", "Success,NoSubscriptionExisted"] {
        forms.push(format!("ack unsuback 4 N {rs}"));
    }
    forms.push("ack pingresp".into());
    for r in ["NormalDisconnection", "ProtocolError", "MalformedPacket", "TopicAliasInvalid", "SessionTakenOver", "KeepAliveTimeout"] {
        forms.push(format!("disc disconnect {r} N"));
    }
    forms.push("disc disconnect ProtocolError S[31=s6f6b]".into());
    forms.push("unsched".into());
    for f in &forms {
        for ver in [4, 5] {
            o.op(&format!("enc {ver} {f}"));
        }
    }
    o.st.tagn("sweep-forms", forms.len() as u64);
}

fn run_twice(o: &mut Out, f: &dyn Fn(&mut Out)) {
    // deterministic? the same scripted case is executed twice; the transcripts must be equal
    f(o);
    let first = o.transcript.clone();
    let mut sink: Vec<u8> = vec![];
    let mut st2 = Stats::new("");
    {
        let mut o2 = Out { w: &mut sink, st: &mut st2, stack: Stack::new(), transcript: vec![] };
        f(&mut o2);
        if o2.transcript != first {
            let k = first.iter().zip(o2.transcript.iter()).position(|(a, b)| a != b).unwrap_or(first.len().min(o2.transcript.len()));
            writeln!(
                o.w,
                "nondet {} => first={} second={}",
                k,
                first.get(k).cloned().unwrap_or_default().replace(" => ", " -> "),
                o2.transcript.get(k).cloned().unwrap_or_default().replace(" => ", " -> ")
            )
            .unwrap();
            o.st.tag("nondeterministic-case");
        }
    }
}

pub fn run(o: &Opts) {
    // a panic of the harness itself (not of the code under test) must be visible
    if let Err(_) = catch_unwind(AssertUnwindSafe(|| run_inner(o))) {
        eprintln!("vh stack: harness panicked: {}", last_panic());
        std::process::exit(101);
    }
}

fn run_inner(o: &Opts) {
    let mut w = o.writer();
    let mut st = Stats::new(
        "full-stack cases on the real per-connection task (verif_remote) + real router thread over tokio::io::duplex with paused time: (c20) publisher x subscriber on every listener version pair x every subset of the 8 PublishProperties fields x QoS x subscription id x broker topic alias; pure sweep of every notification form x V4::write/V5::write; (will) 5 end causes x 0..2 subscribers x will delay 0/>0 x reconnect clean/non-clean/with new will before the delay elapses; (c19) random connect/disconnect/takeover histories against max_connections 1..3 with and without authentication, rejected clients probed for any effect on the routing core. Non-trivial = every case (each is a distinct scenario); distinct by scenario parameters",
    );
    start_watchdog();
    if let Some(p) = &o.replay {
        let mut s = Stack::new();
        for line in std::fs::read_to_string(p).expect("replay file").lines() {
            let op = line.split("=>").next().unwrap().trim();
            if op.is_empty() || op.starts_with('#') {
                continue;
            }
            if op.starts_with("case") {
                writeln!(w, "{op}").unwrap();
                continue;
            }
            writeln!(w, "{} => {}", op, s.exec(op)).unwrap();
        }
        w.flush().unwrap();
        if let Some(p) = &o.stats {
            st.write(p);
        }
        PROGRESS.store(u64::MAX, Ordering::Relaxed);
        return;
    }
    let profile = o
        .extra
        .iter()
        .position(|a| a == "--profile")
        .and_then(|i| o.extra.get(i + 1))
        .cloned()
        .unwrap_or_else(|| "c20".to_string());
    let thorough = o.thorough();
    let mut idx = 0u64;
    let (shard, shards) = (o.shard, o.shards);
    let mut mine = move || {
        idx += 1;
        (idx - 1) % shards == shard
    };
    {
        let mut out = Out { w: &mut *w, st: &mut st, stack: Stack::new(), transcript: vec![] };
        match profile.as_str() {
            "c20" => {
                // first (small cases, and the driver's report budget goes to them first)
                // publisher QoS 1 towards a QoS 0 subscription (the stored publish keeps the
                // publisher's packet id; the forward has QoS 0) on every version pair
                for (pv, sv) in [(4u8, 4u8), (5, 4), (4, 5), (5, 5)] {
                    for n in [2usize, 121, 122, 123] {
                        if mine() {
                            let id = format!("down{pv}{sv}-{n}");
                            let pubs: Vec<(u8, String, String, String)> =
                                (0..3).map(|i| (1u8, "t/a".to_string(), if i == 0 { pad(n) } else { format!("m{i}") }, "N".to_string())).collect();
                            run_twice(&mut out, &|o| case_custom(o, &id, pv, sv, 0, None, 0, "t/a", &pubs));
                        }
                    }
                }
                // broker aliases across unsubscribe / re-subscribe
                for pv in [4u8, 5] {
                    for alias_max in [1u16, 2] {
                        for qos in [0u8, 1] {
                            if mine() {
                                let id = format!("realias{pv}-a{alias_max}-q{qos}");
                                run_twice(&mut out, &|o| case_alias_resubscribe(o, &id, pv, alias_max, qos));
                            }
                        }
                    }
                }
                subid_cases(&mut out, &mut mine, thorough);
                boundary_cases(&mut out, &mut mine, thorough);
                for (pv, sv) in [(4u8, 4u8), (4, 5), (5, 4), (5, 5)] {
                    let masks: Vec<u32> = if pv == 5 { (0..256).collect() } else { vec![0] };
                    for mask in masks {
                        // quick: every subset once (QoS alternating); thorough: every subset x QoS x sub QoS
                        let variants: Vec<(u8, u8)> = if thorough { vec![(0, 0), (0, 1), (1, 0), (1, 1)] } else { vec![((mask & 1) as u8 ^ ((mask >> 3) & 1) as u8, 1)] };
                        for (qos, subqos) in variants {
                            if mine() {
                                let id = format!("x{pv}{sv}-m{mask}-q{qos}{subqos}");
                                run_twice(&mut out, &|o| case_cross(o, &id, pv, sv, mask, qos, subqos, None, 0, false));
                            }
                        }
                    }
                    // subscription identifier / broker topic alias / wildcard filter towards the subscriber
                    for (mask, subid, alias_max, wildcard) in [(0u32, Some(7u32), 0u16, false), (2, Some(7), 0, true), (0, None, 2, false), (0, None, 2, true), (1, Some(5), 3, true), (4, None, 0, true), (4, None, 2, false)] {
                        if pv == 4 && mask != 0 {
                            continue;
                        }
                        for qos in [0u8, 1] {
                            if mine() {
                                let id = format!("x{pv}{sv}-m{mask}-s{}-a{alias_max}-w{}-q{qos}", subid.unwrap_or(0), wildcard as u8);
                                run_twice(&mut out, &|o| case_cross(o, &id, pv, sv, mask, qos, 1, subid, alias_max, wildcard));
                            }
                        }
                    }
                }
                // last, so that the driver's report budget goes to the scenario cases first
                if shard == 0 {
                    sweep(&mut out);
                }
            }
            "will" => {
                for wv in [4u8, 5] {
                    for sv in [4u8, 5] {
                        if mine() {
                            let id = format!("poison{wv}{sv}");
                            run_twice(&mut out, &|o| case_poison_will(o, &id, wv, sv));
                        }
                        for (k, garbage) in ["f000", "0000", "3000", "ffffffffff", "1000"].iter().enumerate() {
                            if mine() {
                                let id = format!("discgarbage{wv}{sv}-{k}");
                                run_twice(&mut out, &|o| case_disconnect_then_garbage(o, &id, wv, sv, garbage));
                            }
                        }
                        for with_will in [true, false] {
                            if mine() {
                                let id = format!("connectgone{wv}{sv}-w{}", with_will as u8);
                                run_twice(&mut out, &|o| case_connect_then_gone(o, &id, wv, sv, with_will));
                            }
                        }
                        // DISCONNECT with every kind of reason (MQTT 5 only has reasons), named
                        // and broker-assigned client id; and the same clients just hanging up
                        let reasons: &[&str] = if wv == 5 {
                            &["NormalDisconnection", "DisconnectWithWillMessage", "MalformedPacket", "UnspecifiedError", "ServerShuttingDown"]
                        } else {
                            &["NormalDisconnection"]
                        };
                        for cid in ["w", ""] {
                            for (k, r) in reasons.iter().enumerate() {
                                if mine() {
                                    let id = format!("disc{wv}{sv}-{}-r{k}", if cid.is_empty() { "assigned" } else { "named" });
                                    run_twice(&mut out, &|o| case_will_simple(o, &id, wv, sv, cid, Some(r)));
                                }
                            }
                            if mine() {
                                let id = format!("hangup{wv}{sv}-{}", if cid.is_empty() { "assigned" } else { "named" });
                                run_twice(&mut out, &|o| case_will_simple(o, &id, wv, sv, cid, None));
                            }
                        }
                    }
                }
                let causes = [EndCause::Eof, EndCause::KeepAlive, EndCause::Malformed, EndCause::UnsolicitedAck, EndCause::DisconnectFirst];
                let recs = [Reconnect::None, Reconnect::Clean, Reconnect::NonClean, Reconnect::CleanNewWill, Reconnect::NonCleanNoWill];
                let subsets: Vec<Vec<u8>> = vec![vec![], vec![5], vec![4], vec![5, 5], vec![4, 5]];
                for wv in [4u8, 5] {
                    for cause in causes {
                        for svs in &subsets {
                            for delay in [0u32, 5] {
                                if wv == 4 && delay > 0 {
                                    continue;
                                }
                                for rec in recs {
                                    if rec != Reconnect::None && !(wv == 5 && delay > 0) {
                                        continue;
                                    }
                                    for has_will in [true, false] {
                                        if !has_will && !(svs.len() == 1 && rec == Reconnect::None) {
                                            continue;
                                        }
                                        let qoss: &[u8] = if thorough { &[0, 1] } else { &[1] };
                                        for &wq in qoss {
                                            if mine() {
                                                let id = format!("w{wv}-{cause:?}-s{}-d{delay}-{rec:?}-w{}-q{wq}", svs.iter().map(|v| v.to_string()).collect::<String>(), has_will as u8);
                                                run_twice(&mut out, &|o| case_will(o, &id, wv, svs, cause, delay, rec, has_will, wq));
                                            }
                                        }
                                    }
                                }
                            }
                        }
                    }
                }
            }
            "c19" => {
                for wv in [4u8, 5] {
                    for sv in [4u8, 5] {
                        if mine() {
                            let id = format!("poison{wv}{sv}");
                            run_twice(&mut out, &|o| case_poison_will(o, &id, wv, sv));
                        }
                        for with_will in [true, false] {
                            if mine() {
                                let id = format!("connectgone{wv}{sv}-w{}", with_will as u8);
                                run_twice(&mut out, &|o| case_connect_then_gone(o, &id, wv, sv, with_will));
                            }
                        }
                    }
                }
                // scripted: rejected clients have no effect
                let logins: [Option<(&str, &str)>; 3] = [None, Some(("u", "p")), Some(("u", "P"))];
                for ver in [4u8, 5] {
                    for auth in ["none", "static:75=70", "ext:75=70"] {
                        for login in logins {
                            for (cid, ka, clean) in [("c", 10u16, true), ("c", 0, true), ("", 10, false), ("", 10, true), ("a/b", 10, true), ("a+", 10, true)] {
                                if mine() {
                                    let id = format!("rej{ver}-{}-{}-{}-{ka}-{}", auth.replace(':', "_"), login.map(|l| l.1).unwrap_or("none"), hx(cid), clean as u8);
                                    run_twice(&mut out, &|o| case_rejected(o, &id, ver, auth, login, cid, ka, clean));
                                }
                            }
                        }
                    }
                    // each metacharacter at the first, a middle and the last position of the client id
                    for ch in ['+', '$', '#', '/'] {
                        for cid in [format!("{ch}dev1"), format!("dev{ch}1"), format!("dev1{ch}"), format!("{ch}")] {
                            if mine() {
                                let id = format!("meta{ver}-{}", hx(&cid));
                                run_twice(&mut out, &|o| case_rejected(o, &id, ver, "none", None, &cid, 10, true));
                            }
                        }
                    }
                    // a CONNECT of the other protocol level on this listener (client-side encoder of
                    // this listener's version, level byte of the other one)
                    // (only the 3.1.1 client encoder can write a foreign level byte; both listeners
                    // get every level x layout from `vh admit`)
                    if ver == 4 && mine() {
                        let id = "level5-on-4".to_string();
                        run_twice(&mut out, &|o| case_wrong_level(o, &id, 4, 5));
                    }
                    if mine() {
                        let id = format!("stale{ver}");
                        run_twice(&mut out, &|o| case_stale_handler(o, &id, ver));
                    }
                }
                let n = if thorough { 4000 / shards } else { 30 / shards.max(1) };
                let mut rng = Rng::new(o.seed ^ (shard << 32) ^ 0xC19);
                for i in 0..n {
                    let max_conn = 1 + (i % 3) as usize;
                    let auth = if i % 4 == 3 { "static:75=70" } else { "none" };
                    let seed = rng.next();
                    let id = format!("lim{shard}-{i}");
                    run_twice(&mut out, &|o| {
                        let mut r = Rng(seed);
                        case_limit(o, &id, &mut r, max_conn, auth, 14)
                    });
                }
            }
            x => {
                eprintln!("unknown profile {x}");
                std::process::exit(2);
            }
        }
    }
    st.exhaustive = true;
    w.flush().unwrap();
    if let Some(p) = &o.stats {
        st.write(p);
    }
    PROGRESS.store(u64::MAX, Ordering::Relaxed);
}
