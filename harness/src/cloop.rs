//! C18 + loop-level clauses of C02/C07/C10/C11: the REAL `rumqttc::EventLoop` (v4) and
//! `rumqttc::v5::EventLoop` run over `tokio::io::duplex` supplied through hook H5, on a
//! current-thread runtime with paused (virtual) time; the harness plays user, broker, transport
//! and clock from a script.
//!
//! Lines (one case = `case <id>` followed by ops, every op at the current virtual instant):
//!   new <v4|v5> ka=<s> ct=<s> max=<n> cap=<n> thr=<ms> ma=<0|1> clean=<0|1>   => ok
//!   xport ok|refuse                  queue a transport / a refused attempt     => ok
//!   run <until_ms>                   poll the loop until virtual time `until`
//!                                    (or the first error)                      => <obs>*
//!   wait <until_ms>                  the clock moves to `until`, nobody polls  => ok
//!   in <packet …>                    broker writes one complete packet         => ok
//!   inraw <hex>                      broker writes raw bytes (part of a frame) => ok
//!   close                            broker drops its end of the transport     => ok
//!   req <request …>                  user request through AsyncClient::try_*   => ok|full
//! Observations of `run`, in order of occurrence, each stamped with virtual ms since `new`:
//!   <t>:w:<packet>     a packet the scripted broker read from the wire
//!   <t>:e:<event>      `poll()` returned Ok(event)
//!   <t>:x:<class>      `poll()` returned Err (error class, not message)
//!   <t>:s:<n>/<i>/<c>/<a>[/<pending…>]  snapshot taken when `poll()` returned: pending.len(),
//!                      state.inflight, collision pending, await_pingresp (after an error the
//!                      pending list itself is printed: it is what `EventLoop::clean` kept)
//! Nothing is ever slept on real time: the only timers are tokio's virtual ones; a `run` is
//! `select!{biased; loop.poll(), sleep_until(until)}` and the paused clock jumps to the next
//! timer when everything is idle. Every case is executed twice and the transcripts compared.
use crate::util::*;
use bytes::BytesMut;
use std::future::Future;
use std::io::Write;
use std::pin::Pin;
use std::task::Poll;
use std::time::Duration;
use tokio::io::{AsyncRead, AsyncWrite, DuplexStream, ReadBuf};
use tokio::time::Instant;

#[derive(Clone, Debug)]
pub struct Cfg {
    pub v5: bool,
    pub ka: u64,
    pub ct: u64,
    pub max: u16,
    pub cap: usize,
    pub thr: u64,
    pub ma: bool,
    pub clean: bool,
}

pub struct Snap {
    pub pending: Vec<String>,
    pub inflight: u16,
    pub collision: bool,
    pub await_ping: bool,
}

type PollFut<E> = Pin<Box<dyn Future<Output = (E, Result<String, String>)>>>;

/// what differs between the two protocol versions
pub trait Ver: 'static {
    type El: 'static;
    type Cl;
    fn make(cfg: &Cfg) -> (Self::Cl, Self::El);
    fn poll(el: Self::El) -> PollFut<Self::El>;
    fn snap(el: &Self::El) -> Snap;
    /// user request; Ok(false) = channel full
    fn req(cl: &Self::Cl, t: &[&str]) -> Result<bool, String>;
    /// broker side: encode a packet
    fn enc(t: &[&str]) -> Result<Vec<u8>, String>;
    /// broker side: decode the next complete packet, None = need more bytes
    fn dec(buf: &mut BytesMut) -> Option<String>;
}

fn qos4(n: &str) -> rumqttc::QoS {
    match n {
        "0" => rumqttc::QoS::AtMostOnce,
        "1" => rumqttc::QoS::AtLeastOnce,
        _ => rumqttc::QoS::ExactlyOnce,
    }
}
fn qos5(n: &str) -> rumqttc::v5::mqttbytes::QoS {
    use rumqttc::v5::mqttbytes::QoS;
    match n {
        "0" => QoS::AtMostOnce,
        "1" => QoS::AtLeastOnce,
        _ => QoS::ExactlyOnce,
    }
}

fn kv<'a>(t: &[&'a str], k: &str) -> Option<&'a str> {
    t.iter().find_map(|x| x.strip_prefix(k).and_then(|r| r.strip_prefix('=')))
}

// ------------------------------------------------------------------------------------- v4
pub struct V4;
mod n4 {
    use rumqttc::*;
    pub fn packet(p: &Packet) -> String {
        match p {
            Packet::Connect(c) => format!("connect({},{})", c.keep_alive, c.clean_session as u8),
            Packet::ConnAck(c) => format!("connack({},{})", c.session_present as u8, c.code as u8),
            Packet::Publish(p) => format!(
                "publish({},{},{},{})",
                p.qos as u8,
                p.pkid,
                p.dup as u8,
                String::from_utf8_lossy(&p.payload)
            ),
            Packet::PubAck(a) => format!("puback({})", a.pkid),
            Packet::PubRec(a) => format!("pubrec({})", a.pkid),
            Packet::PubRel(a) => format!("pubrel({})", a.pkid),
            Packet::PubComp(a) => format!("pubcomp({})", a.pkid),
            Packet::Subscribe(s) => format!("subscribe({})", s.pkid),
            Packet::SubAck(s) => format!("suback({})", s.pkid),
            Packet::Unsubscribe(s) => format!("unsubscribe({})", s.pkid),
            Packet::UnsubAck(s) => format!("unsuback({})", s.pkid),
            Packet::PingReq => "pingreq".into(),
            Packet::PingResp => "pingresp".into(),
            Packet::Disconnect => "disconnect".into(),
        }
    }
    pub fn outgoing(o: &Outgoing) -> String {
        match o {
            Outgoing::Publish(i) => format!("publish({i})"),
            Outgoing::Subscribe(i) => format!("subscribe({i})"),
            Outgoing::Unsubscribe(i) => format!("unsubscribe({i})"),
            Outgoing::PubAck(i) => format!("puback({i})"),
            Outgoing::PubRec(i) => format!("pubrec({i})"),
            Outgoing::PubRel(i) => format!("pubrel({i})"),
            Outgoing::PubComp(i) => format!("pubcomp({i})"),
            Outgoing::PingReq => "pingreq".into(),
            Outgoing::PingResp => "pingresp".into(),
            Outgoing::Disconnect => "disconnect".into(),
            Outgoing::AwaitAck(i) => format!("awaitack({i})"),
        }
    }
    pub fn request(r: &Request) -> String {
        match r {
            Request::Publish(p) => format!(
                "publish({},{},{})",
                p.qos as u8,
                p.pkid,
                String::from_utf8_lossy(&p.payload)
            ),
            Request::PubRel(p) => format!("pubrel({})", p.pkid),
            Request::PubAck(p) => format!("puback({})", p.pkid),
            Request::PubRec(p) => format!("pubrec({})", p.pkid),
            Request::PubComp(p) => format!("pubcomp({})", p.pkid),
            Request::Subscribe(_) => "subscribe".into(),
            Request::Unsubscribe(_) => "unsubscribe".into(),
            Request::Disconnect(_) => "disconnect".into(),
            Request::PingReq(_) => "pingreq".into(),
            _ => "other".into(),
        }
    }
    pub fn error(e: &ConnectionError) -> String {
        match e {
            ConnectionError::MqttState(s) => match s {
                StateError::AwaitPingResp => "awaitpingresp".into(),
                StateError::ConnectionAborted => "aborted".into(),
                StateError::Unsolicited(_) => "unsolicited".into(),
                StateError::WrongPacket => "wrongpacket".into(),
                StateError::CollisionTimeout => "collisiontimeout".into(),
                StateError::EmptySubscription => "emptysub".into(),
                StateError::Deserialization(_) => "deser".into(),
                StateError::Io(e) => format!("stateio-{:?}", e.kind()).to_lowercase(),
                _ => "state-other".into(),
            },
            ConnectionError::NetworkTimeout => "timeout".into(),
            ConnectionError::FlushTimeout => "flushtimeout".into(),
            ConnectionError::Io(e) => format!("io-{:?}", e.kind()).to_lowercase(),
            ConnectionError::ConnectionRefused(c) => format!("refused({})", *c as u8),
            ConnectionError::NotConnAck(_) => "notconnack".into(),
            ConnectionError::RequestsDone => "requestsdone".into(),
        }
    }
}

impl Ver for V4 {
    type El = rumqttc::EventLoop;
    type Cl = rumqttc::AsyncClient;
    fn make(cfg: &Cfg) -> (Self::Cl, Self::El) {
        let mut o = rumqttc::MqttOptions::new("verif", "verif.invalid", 1883);
        o.set_keep_alive(Duration::from_secs(cfg.ka));
        o.set_inflight(cfg.max);
        o.set_pending_throttle(Duration::from_millis(cfg.thr));
        o.set_manual_acks(cfg.ma);
        o.set_clean_session(cfg.clean);
        let (c, mut el) = rumqttc::AsyncClient::new(o, cfg.cap);
        let mut n = rumqttc::NetworkOptions::new();
        n.set_connection_timeout(cfg.ct);
        el.set_network_options(n);
        (c, el)
    }
    fn poll(mut el: Self::El) -> PollFut<Self::El> {
        Box::pin(async move {
            let r = el.poll().await;
            let r = match r {
                Ok(rumqttc::Event::Incoming(p)) => Ok(format!("in:{}", n4::packet(&p))),
                Ok(rumqttc::Event::Outgoing(o)) => Ok(format!("out:{}", n4::outgoing(&o))),
                Err(e) => Err(n4::error(&e)),
            };
            (el, r)
        })
    }
    fn snap(el: &Self::El) -> Snap {
        Snap {
            pending: el.pending.iter().map(n4::request).collect(),
            inflight: el.state.inflight(),
            collision: el.state.collision.is_some(),
            await_ping: el.state.await_pingresp,
        }
    }
    fn req(cl: &Self::Cl, t: &[&str]) -> Result<bool, String> {
        use rumqttc::ClientError;
        let r = match t[0] {
            "pub" => cl.try_publish("t", qos4(t[1]), false, t[2].as_bytes().to_vec()),
            "sub" => cl.try_subscribe("t", qos4(t[1])),
            "unsub" => cl.try_unsubscribe("t"),
            "disc" => cl.try_disconnect(),
            "ack" => {
                let mut p = rumqttc::Publish::new("t", qos4(t[1]), vec![]);
                p.pkid = t[2].parse().map_err(|_| "pkid")?;
                cl.try_ack(&p)
            }
            x => return Err(format!("bad request {x}")),
        };
        match r {
            Ok(()) => Ok(true),
            Err(ClientError::TryRequest(_)) => Ok(false),
            Err(_) => Ok(false),
        }
    }
    fn enc(t: &[&str]) -> Result<Vec<u8>, String> {
        use rumqttc::*;
        let id = |i: usize| -> Result<u16, String> { t.get(i).ok_or("arg")?.parse().map_err(|_| "num".to_string()) };
        let p = match t[0] {
            "connack" => Packet::ConnAck(ConnAck {
                session_present: kv(t, "sp") == Some("1"),
                code: match kv(t, "code").unwrap_or("0") {
                    "0" => ConnectReturnCode::Success,
                    "2" => ConnectReturnCode::BadClientId,
                    "3" => ConnectReturnCode::ServiceUnavailable,
                    _ => ConnectReturnCode::NotAuthorized,
                },
            }),
            "pingresp" => Packet::PingResp,
            "puback" => Packet::PubAck(PubAck::new(id(1)?)),
            "pubrec" => Packet::PubRec(PubRec::new(id(1)?)),
            "pubrel" => Packet::PubRel(PubRel::new(id(1)?)),
            "pubcomp" => Packet::PubComp(PubComp::new(id(1)?)),
            "suback" => Packet::SubAck(SubAck::new(id(1)?, vec![SubscribeReasonCode::Success(QoS::AtMostOnce)])),
            "unsuback" => Packet::UnsubAck(UnsubAck::new(id(1)?)),
            "publish" => {
                let mut p = Publish::new("t", qos4(t[1]), t.get(3).unwrap_or(&"x").as_bytes().to_vec());
                p.pkid = id(2)?;
                Packet::Publish(p)
            }
            "pingreq" => Packet::PingReq,
            "disconnect" => Packet::Disconnect,
            x => return Err(format!("bad packet {x}")),
        };
        let mut b = BytesMut::new();
        p.write(&mut b, 1 << 20).map_err(|e| format!("{e:?}"))?;
        Ok(b.to_vec())
    }
    fn dec(buf: &mut BytesMut) -> Option<String> {
        match rumqttc::Packet::read(buf, 1 << 20) {
            Ok(p) => Some(n4::packet(&p)),
            Err(rumqttc::mqttbytes::Error::InsufficientBytes(_)) => None,
            Err(e) => {
                buf.clear();
                Some(format!("undecodable({e:?})").replace(' ', ""))
            }
        }
    }
}

// ------------------------------------------------------------------------------------- v5
pub struct V5;
mod n5 {
    use rumqttc::v5::mqttbytes::v5::*;
    use rumqttc::v5::*;
    pub fn packet(p: &Packet) -> String {
        match p {
            Packet::Connect(c, _, _) => format!("connect({},{})", c.keep_alive, c.clean_start as u8),
            Packet::ConnAck(c) => format!("connack({},{})", c.session_present as u8, (c.code != ConnectReturnCode::Success) as u8),
            Packet::Publish(p) => format!(
                "publish({},{},{},{})",
                p.qos as u8,
                p.pkid,
                p.dup as u8,
                String::from_utf8_lossy(&p.payload)
            ),
            Packet::PubAck(a) => format!("puback({})", a.pkid),
            Packet::PubRec(a) => format!("pubrec({})", a.pkid),
            Packet::PubRel(a) => format!("pubrel({})", a.pkid),
            Packet::PubComp(a) => format!("pubcomp({})", a.pkid),
            Packet::Subscribe(s) => format!("subscribe({})", s.pkid),
            Packet::SubAck(s) => format!("suback({})", s.pkid),
            Packet::Unsubscribe(s) => format!("unsubscribe({})", s.pkid),
            Packet::UnsubAck(s) => format!("unsuback({})", s.pkid),
            Packet::PingReq(_) => "pingreq".into(),
            Packet::PingResp(_) => "pingresp".into(),
            Packet::Disconnect(_) => "disconnect".into(),
            Packet::Auth(_) => "auth".into(),
        }
    }
    pub fn outgoing(o: &rumqttc::Outgoing) -> String {
        super::n4::outgoing(o)
    }
    pub fn request(r: &Request) -> String {
        match r {
            Request::Publish(p) => format!(
                "publish({},{},{})",
                p.qos as u8,
                p.pkid,
                String::from_utf8_lossy(&p.payload)
            ),
            Request::PubRel(p) => format!("pubrel({})", p.pkid),
            Request::PubAck(p) => format!("puback({})", p.pkid),
            Request::PubRec(p) => format!("pubrec({})", p.pkid),
            Request::PubComp(p) => format!("pubcomp({})", p.pkid),
            Request::Subscribe(_) => "subscribe".into(),
            Request::Unsubscribe(_) => "unsubscribe".into(),
            Request::Disconnect => "disconnect".into(),
            Request::PingReq => "pingreq".into(),
            _ => "other".into(),
        }
    }
    pub fn error(e: &ConnectionError) -> String {
        match e {
            ConnectionError::MqttState(s) => match s {
                StateError::AwaitPingResp => "awaitpingresp".into(),
                StateError::ConnectionAborted => "aborted".into(),
                StateError::Unsolicited(_) => "unsolicited".into(),
                StateError::WrongPacket => "wrongpacket".into(),
                StateError::CollisionTimeout => "collisiontimeout".into(),
                StateError::EmptySubscription => "emptysub".into(),
                StateError::Deserialization(_) => "deser".into(),
                StateError::Io(e) => format!("stateio-{:?}", e.kind()).to_lowercase(),
                StateError::ServerDisconnect { .. } => "serverdisconnect".into(),
                StateError::ConnFail { .. } => "connfail".into(),
                _ => "state-other".into(),
            },
            ConnectionError::Timeout(_) => "timeout".into(),
            ConnectionError::Io(e) => format!("io-{:?}", e.kind()).to_lowercase(),
            ConnectionError::ConnectionRefused(_) => "refused(5)".into(),
            ConnectionError::NotConnAck(_) => "notconnack".into(),
            ConnectionError::RequestsDone => "requestsdone".into(),
        }
    }
}

impl Ver for V5 {
    type El = rumqttc::v5::EventLoop;
    type Cl = rumqttc::v5::AsyncClient;
    fn make(cfg: &Cfg) -> (Self::Cl, Self::El) {
        let mut o = rumqttc::v5::MqttOptions::new("verif", "verif.invalid", 1883);
        // the v5 setter rejects < 5 s (asserts); ka=0 in a script means "leave the default and
        // let the broker's server_keep_alive decide"
        if cfg.ka >= 5 {
            o.set_keep_alive(Duration::from_secs(cfg.ka));
        }
        o.set_outgoing_inflight_upper_limit(cfg.max);
        o.set_pending_throttle(Duration::from_millis(cfg.thr));
        o.set_manual_acks(cfg.ma);
        o.set_clean_start(cfg.clean);
        o.set_connection_timeout(cfg.ct);
        rumqttc::v5::AsyncClient::new(o, cfg.cap)
    }
    fn poll(mut el: Self::El) -> PollFut<Self::El> {
        Box::pin(async move {
            let r = el.poll().await;
            let r = match r {
                Ok(rumqttc::v5::Event::Incoming(p)) => Ok(format!("in:{}", n5::packet(&p))),
                Ok(rumqttc::v5::Event::Outgoing(o)) => Ok(format!("out:{}", n5::outgoing(&o))),
                Err(e) => Err(n5::error(&e)),
            };
            (el, r)
        })
    }
    fn snap(el: &Self::El) -> Snap {
        Snap {
            pending: el.pending.iter().map(n5::request).collect(),
            inflight: el.state.inflight(),
            collision: el.state.collision.is_some(),
            await_ping: el.state.await_pingresp,
        }
    }
    fn req(cl: &Self::Cl, t: &[&str]) -> Result<bool, String> {
        let r = match t[0] {
            "pub" => cl.try_publish("t", qos5(t[1]), false, t[2].as_bytes().to_vec()),
            "sub" => cl.try_subscribe("t", qos5(t[1])),
            "unsub" => cl.try_unsubscribe("t"),
            "disc" => cl.try_disconnect(),
            "ack" => {
                let mut p = rumqttc::v5::mqttbytes::v5::Publish::new("t", qos5(t[1]), vec![], None);
                p.pkid = t[2].parse().map_err(|_| "pkid")?;
                cl.try_ack(&p)
            }
            x => return Err(format!("bad request {x}")),
        };
        Ok(r.is_ok())
    }
    fn enc(t: &[&str]) -> Result<Vec<u8>, String> {
        use rumqttc::v5::mqttbytes::v5::*;
        use rumqttc::v5::mqttbytes::QoS;
        let id = |i: usize| -> Result<u16, String> { t.get(i).ok_or("arg")?.parse().map_err(|_| "num".to_string()) };
        let p = match t[0] {
            "connack" => {
                let ska = kv(t, "ska").and_then(|x| x.parse::<u16>().ok());
                let rmax = kv(t, "rmax").and_then(|x| x.parse::<u16>().ok());
                let props = if ska.is_some() || rmax.is_some() {
                    Some(ConnAckProperties {
                        session_expiry_interval: None,
                        receive_max: rmax,
                        max_qos: None,
                        retain_available: None,
                        max_packet_size: None,
                        assigned_client_identifier: None,
                        topic_alias_max: None,
                        reason_string: None,
                        user_properties: vec![],
                        wildcard_subscription_available: None,
                        subscription_identifiers_available: None,
                        shared_subscription_available: None,
                        server_keep_alive: ska,
                        response_information: None,
                        server_reference: None,
                        authentication_method: None,
                        authentication_data: None,
                    })
                } else {
                    None
                };
                Packet::ConnAck(ConnAck {
                    session_present: kv(t, "sp") == Some("1"),
                    code: match kv(t, "code").unwrap_or("0") {
                        "0" => ConnectReturnCode::Success,
                        "3" => ConnectReturnCode::ServerUnavailable,
                        _ => ConnectReturnCode::NotAuthorized,
                    },
                    properties: props,
                })
            }
            "pingresp" => Packet::PingResp(PingResp),
            "puback" => Packet::PubAck(PubAck::new(id(1)?, None)),
            "pubrec" => Packet::PubRec(PubRec::new(id(1)?, None)),
            "pubrel" => Packet::PubRel(PubRel::new(id(1)?, None)),
            "pubcomp" => Packet::PubComp(PubComp::new(id(1)?, None)),
            "suback" => Packet::SubAck(SubAck {
                pkid: id(1)?,
                return_codes: vec![SubscribeReasonCode::Success(QoS::AtMostOnce)],
                properties: None,
            }),
            "unsuback" => Packet::UnsubAck(UnsubAck { pkid: id(1)?, reasons: vec![UnsubAckReason::Success], properties: None }),
            "publish" => {
                let mut p = Publish::new("t", qos5(t[1]), t.get(3).unwrap_or(&"x").as_bytes().to_vec(), None);
                p.pkid = id(2)?;
                Packet::Publish(p)
            }
            "pingreq" => Packet::PingReq(PingReq),
            "disconnect" => Packet::Disconnect(Disconnect::new(DisconnectReasonCode::NormalDisconnection)),
            x => return Err(format!("bad packet {x}")),
        };
        let mut b = BytesMut::new();
        p.write(&mut b, None).map_err(|e| format!("{e:?}"))?;
        Ok(b.to_vec())
    }
    fn dec(buf: &mut BytesMut) -> Option<String> {
        match rumqttc::v5::mqttbytes::v5::Packet::read(buf, None) {
            Ok(p) => Some(n5::packet(&p)),
            Err(rumqttc::v5::mqttbytes::Error::InsufficientBytes(_)) => None,
            Err(e) => {
                buf.clear();
                Some(format!("undecodable({e:?})").replace(' ', ""))
            }
        }
    }
}

// ------------------------------------------------------------------------------------- world
pub struct World<V: Ver> {
    cfg: Cfg,
    t0: Instant,
    cl: Option<V::Cl>,
    el: Option<V::El>,
    fut: Option<PollFut<V::El>>,
    srv: Option<DuplexStream>,
    /// transports queued through H5 whose broker end is not yet in use
    queued: std::collections::VecDeque<Option<DuplexStream>>,
    rbuf: BytesMut,
    connected: bool,
    dead: bool,
}

/// move everything readable from the broker end into `rbuf`; (bytes moved, eof seen)
fn pump(srv: &mut DuplexStream, rbuf: &mut BytesMut, cx: &mut std::task::Context<'_>) -> (usize, bool) {
    let mut tmp = [0u8; 4096];
    let mut n = 0;
    loop {
        let mut rb = ReadBuf::new(&mut tmp);
        match Pin::new(&mut *srv).poll_read(cx, &mut rb) {
            Poll::Ready(Ok(())) => {
                if rb.filled().is_empty() {
                    return (n, true);
                }
                n += rb.filled().len();
                rbuf.extend_from_slice(rb.filled());
            }
            Poll::Ready(Err(_)) => return (n, true),
            Poll::Pending => return (n, false),
        }
    }
}

pub const DUPLEX_CAP: usize = 1 << 16;

impl<V: Ver> World<V> {
    pub fn new(cfg: Cfg) -> Self {
        let (cl, el) = V::make(&cfg);
        World {
            cfg,
            t0: Instant::now(),
            cl: Some(cl),
            el: Some(el),
            fut: None,
            srv: None,
            queued: Default::default(),
            rbuf: BytesMut::new(),
            connected: false,
            dead: false,
        }
    }

    fn now(&self) -> u64 {
        (Instant::now() - self.t0).as_millis() as u64
    }

    /// read whatever the client wrote, without waiting
    async fn drain(&mut self, obs: &mut Vec<String>) {
        let now = self.now();
        if let Some(srv) = self.srv.as_mut() {
            let rbuf = &mut self.rbuf;
            let eof = tokio::task::unconstrained(std::future::poll_fn(|cx| Poll::Ready(pump(srv, rbuf, cx).1))).await;
            self.decode(now, eof, obs);
        }
    }

    fn decode(&mut self, now: u64, eof: bool, obs: &mut Vec<String>) {
        while let Some(p) = V::dec(&mut self.rbuf) {
            obs.push(format!("{now}:w:{p}"));
        }
        if eof {
            if !self.rbuf.is_empty() {
                obs.push(format!("{now}:w:partial({})", self.rbuf.len()));
                self.rbuf.clear();
            }
            obs.push(format!("{now}:w:eof"));
            self.srv = None;
        }
    }

    async fn write(&mut self, bytes: &[u8]) -> String {
        let Some(srv) = self.srv.as_mut() else { return "nosrv".into() };
        let r = tokio::task::unconstrained(std::future::poll_fn(|cx| {
            match Pin::new(&mut *srv).poll_write(cx, bytes) {
                Poll::Ready(Ok(n)) if n == bytes.len() => Poll::Ready("ok"),
                Poll::Ready(Ok(_)) => Poll::Ready("short"),
                Poll::Ready(Err(_)) => Poll::Ready("epipe"),
                Poll::Pending => Poll::Ready("wouldblock"),
            }
        }))
        .await;
        r.into()
    }

    async fn run(&mut self, until: u64) -> String {
        self.run_dyn(until, None).await.0
    }

    /// `run`, optionally cut short: with `ping_delay = Some(d)` the run ends at `p + d` when a
    /// PINGREQ is seen on the wire at `p` (so that the scripted broker can answer it then).
    /// Returns the observations, the instant the run really ended and the PINGREQ instants.
    async fn run_dyn(&mut self, until: u64, ping_delay: Option<u64>) -> (String, u64, Vec<u64>) {
        let mut obs: Vec<String> = vec![];
        let mut pings: Vec<u64> = vec![];
        let mut seen = 0usize;
        let mut until = until.max(self.now());
        let sleep = tokio::time::sleep_until(self.t0 + Duration::from_millis(until));
        tokio::pin!(sleep);
        let mut guard = 0u32;
        loop {
            // reactive broker: a PINGREQ observed since the last look moves the end of the run
            for o in &obs[seen..] {
                if o.ends_with(":w:pingreq") {
                    let p: u64 = o.split(':').next().unwrap().parse().unwrap();
                    pings.push(p);
                    if let Some(d) = ping_delay {
                        if p + d < until {
                            until = p + d;
                            sleep.as_mut().reset(self.t0 + Duration::from_millis(until));
                        }
                    }
                }
            }
            seen = obs.len();
            guard += 1;
            if guard > 100_000 {
                obs.push(format!("{}:livelock", self.now()));
                self.dead = true;
                break;
            }
            if self.fut.is_none() {
                if !self.connected && rumqttc::verif::queued() == 0 {
                    // a poll() now would open a real socket: nobody polls, time just passes
                    (&mut sleep).await;
                    break;
                }
                let el = self.el.take().expect("event loop present");
                if !self.connected {
                    // the attempt takes the head of the hook's queue: its broker end becomes ours
                    self.srv = self.queued.pop_front().flatten();
                    self.rbuf.clear();
                }
                self.fut = Some(V::poll(el));
            }
            let fut = self.fut.as_mut().unwrap();
            let srv = &mut self.srv;
            let rbuf = &mut self.rbuf;
            // the scripted broker reads the wire as soon as there is something on it (so that
            // wire observations carry the instant of the write, not of the next poll() return)
            let wire = tokio::task::unconstrained(std::future::poll_fn(|cx| match srv.as_mut() {
                None => Poll::Pending,
                Some(s) => {
                    let (n, eof) = pump(s, rbuf, cx);
                    if n > 0 || eof { Poll::Ready(eof) } else { Poll::Pending }
                }
            }));
            tokio::select! {
                biased;
                (el, r) = fut => {
                    self.fut = None;
                    let now = self.now();
                    let s = V::snap(&el);
                    self.el = Some(el);
                    // first what reached the wire during this poll, then what poll returned
                    self.drain(&mut obs).await;
                    match r {
                        Ok(ev) => {
                            // any Ok means the network is up (v5 may surface notifications
                            // left over from the previous connection before the CONNACK)
                            self.connected = true;
                            obs.push(format!("{now}:e:{ev}"));
                            obs.push(format!("{now}:s:{}/{}/{}/{}", s.pending.len(), s.inflight, s.collision as u8, s.await_ping as u8));
                        }
                        Err(c) => {
                            self.connected = false;
                            obs.push(format!("{now}:x:{c}"));
                            let mut l = format!("{now}:s:{}/{}/{}/{}", s.pending.len(), s.inflight, s.collision as u8, s.await_ping as u8);
                            for p in &s.pending { l.push('/'); l.push_str(p); }
                            obs.push(l);
                            break;
                        }
                    }
                }
                eof = wire => {
                    let now = self.now();
                    self.decode(now, eof, &mut obs);
                }
                _ = &mut sleep => {
                    self.drain(&mut obs).await;
                    break;
                }
            }
        }
        for o in &obs[seen..] {
            if o.ends_with(":w:pingreq") {
                pings.push(o.split(':').next().unwrap().parse().unwrap());
            }
        }
        let end = self.now();
        (if obs.is_empty() { "-".into() } else { obs.join(" ") }, end, pings)
    }

    pub async fn exec(&mut self, op: &str) -> String {
        let t: Vec<&str> = op.split_whitespace().collect();
        if t.is_empty() {
            return "bad".into();
        }
        if self.dead {
            return "DEAD".into();
        }
        match t[0] {
            "xport" => {
                match t.get(1).copied() {
                    Some("ok") => {
                        let (a, b) = tokio::io::duplex(DUPLEX_CAP);
                        rumqttc::verif::push_transport(a);
                        self.queued.push_back(Some(b));
                    }
                    _ => {
                        rumqttc::verif::push_refusal();
                        self.queued.push_back(None);
                    }
                }
                "ok".into()
            }
            "run" => {
                let until: u64 = t[1].parse().unwrap_or(0);
                self.run(until).await
            }
            "in" => match V::enc(&t[1..]) {
                Ok(b) => self.write(&b).await,
                Err(e) => format!("bad:{e}"),
            },
            "inraw" => {
                let b = unhex(t[1]);
                self.write(&b).await
            }
            "close" => {
                self.srv = None;
                "ok".into()
            }
            "req" => match V::req(self.cl.as_ref().unwrap(), &t[1..]) {
                Ok(true) => "ok".into(),
                Ok(false) => "full".into(),
                Err(e) => format!("bad:{e}"),
            },
            "wait" => {
                // the clock moves, nobody polls the loop
                let until: u64 = t[1].parse().unwrap_or(0);
                tokio::time::sleep_until(self.t0 + Duration::from_millis(until)).await;
                "ok".into()
            }
            _ => "bad".into(),
        }
    }
}

/// take (and drop) whatever this thread still has queued in the hook: a throw-away loop polls once
/// per queued entry (refusals return at once, transports are dropped with the cancelled attempt)
async fn drain_hook() {
    while rumqttc::verif::queued() > 0 {
        let o = rumqttc::MqttOptions::new("drain", "verif.invalid", 1883);
        let mut el = rumqttc::EventLoop::new(o, 1);
        let _ = tokio::time::timeout(Duration::from_millis(1), el.poll()).await;
    }
}

pub fn parse_new(t: &[&str]) -> Option<Cfg> {
    if t.first() != Some(&"new") {
        return None;
    }
    let n = |k: &str, d: u64| kv(t, k).and_then(|x| x.parse::<u64>().ok()).unwrap_or(d);
    Some(Cfg {
        v5: t.get(1) == Some(&"v5"),
        ka: n("ka", 60),
        ct: n("ct", 5),
        max: n("max", 100) as u16,
        cap: n("cap", 10) as usize,
        thr: n("thr", 0),
        ma: n("ma", 0) == 1,
        clean: n("clean", 0) == 1,
    })
}

pub enum Any {
    A(World<V4>),
    B(World<V5>),
}
impl Any {
    async fn exec(&mut self, op: &str) -> String {
        match self {
            Any::A(w) => w.exec(op).await,
            Any::B(w) => w.exec(op).await,
        }
    }
    async fn run_dyn(&mut self, until: u64, d: Option<u64>) -> (String, u64, Vec<u64>) {
        match self {
            Any::A(w) => w.run_dyn(until, d).await,
            Any::B(w) => w.run_dyn(until, d).await,
        }
    }
}

fn paused_rt() -> tokio::runtime::Runtime {
    tokio::runtime::Builder::new_current_thread()
        .enable_all()
        .start_paused(true)
        .build()
        .expect("runtime")
}

/// a session being recorded: every op that is executed is logged as `<op> => <output>`
pub struct Sess {
    w: Any,
    pub lines: Vec<String>,
    /// broker's view of the wire: (pkid, qos, pubrec written, pubrel seen)
    unacked: Vec<(u16, u8, bool, bool)>,
    last_sub: u16,
    pub failed: bool,
    pub pings: u32,
    /// `pending.len()` of the last snapshot
    pub last_pending: usize,
}

impl Sess {
    pub async fn new(first: &str) -> Sess {
        drain_hook().await;
        let t: Vec<&str> = first.split_whitespace().collect();
        let cfg = parse_new(&t).expect("first op must be `new`");
        let w = if cfg.v5 { Any::B(World::<V5>::new(cfg)) } else { Any::A(World::<V4>::new(cfg)) };
        Sess { w, lines: vec![format!("{first} => ok")], unacked: vec![], last_sub: 0, failed: false, pings: 0, last_pending: 0 }
    }
    fn note(&mut self, op: &str, out: &str) {
        if op.starts_with("run ") {
            self.failed = false;
            for o in out.split(' ') {
                let mut it = o.splitn(3, ':');
                let (_, k, b) = (it.next(), it.next().unwrap_or(""), it.next().unwrap_or(""));
                if k == "x" {
                    self.failed = true;
                }
                if k == "s" {
                    self.last_pending = b.split('/').next().and_then(|x| x.parse().ok()).unwrap_or(0);
                }
                if k == "w" {
                    if b == "pingreq" {
                        self.pings += 1;
                    }
                    if let Some(r) = b.strip_prefix("publish(") {
                        let f: Vec<&str> = r.trim_end_matches(')').split(',').collect();
                        let (q, id): (u8, u16) = (f[0].parse().unwrap_or(0), f[1].parse().unwrap_or(0));
                        if q > 0 && !self.unacked.iter().any(|u| u.0 == id) {
                            self.unacked.push((id, q, false, false));
                        }
                    }
                    if let Some(r) = b.strip_prefix("pubrel(") {
                        let id: u16 = r.trim_end_matches(')').parse().unwrap_or(0);
                        for u in self.unacked.iter_mut() {
                            if u.0 == id {
                                u.3 = true;
                            }
                        }
                    }
                    if let Some(r) = b.strip_prefix("subscribe(") {
                        self.last_sub = r.trim_end_matches(')').parse().unwrap_or(0);
                    }
                }
            }
        }
    }
    pub async fn op(&mut self, op: &str) -> String {
        let out = self.w.exec(op).await;
        self.note(op, &out);
        self.lines.push(format!("{op} => {out}"));
        out
    }
    /// run until `until`, or until `delay` after a PINGREQ; returns (end instant, PINGREQ instants)
    pub async fn run_react(&mut self, until: u64, delay: Option<u64>) -> (u64, Vec<u64>) {
        let (out, end, pings) = self.w.run_dyn(until, delay).await;
        let op = format!("run {end}");
        self.note(&op, &out);
        self.lines.push(format!("{op} => {out}"));
        (end, pings)
    }
    pub async fn finish(self) -> Vec<String> {
        drop(self.w);
        drain_hook().await;
        self.lines
    }
}

/// execute one case from concrete op lines (replay) on a fresh paused runtime
pub fn run_case(ops: &[String]) -> Vec<String> {
    let rt = paused_rt();
    let ops = ops.to_vec();
    let r = std::panic::catch_unwind(std::panic::AssertUnwindSafe(|| {
        rt.block_on(async {
            let t: Vec<&str> = ops[0].split_whitespace().collect();
            if parse_new(&t).is_none() {
                return vec![format!("{} => bad-first-op", ops[0])];
            }
            let mut s = Sess::new(&ops[0]).await;
            for op in &ops[1..] {
                s.op(op).await;
            }
            s.finish().await
        })
    }));
    match r {
        Ok(l) => l,
        Err(_) => vec![format!("{} => PANIC {}", ops[0], last_panic().replace(" => ", " -> "))],
    }
}

// ------------------------------------------------------------------------------------- schedules

#[derive(Clone, Debug, Hash)]
pub enum Delay {
    /// PINGRESP written `ms` after the PINGREQ was seen
    Ms(u64),
    /// excluded boundary, deterministic: written at `t + k` after the loop ran at that instant
    AtDeadline,
    /// excluded boundary, racing: written at `t + k` BEFORE the loop is polled at that instant
    /// (timer and network ready in the same `select!`: tokio picks either)
    Race,
}

#[derive(Clone, Copy, Debug, Hash, PartialEq)]
pub enum Traffic {
    None,
    Up,
    Down,
}

#[derive(Clone, Debug, Hash)]
pub enum Step {
    U(u8, String),
    Sub,
    Unsub,
    AckOld,
    AckNew,
    AckAll,
    RecOld,
    CompOld,
    SubAck,
    In(u8, u16, String),
    InRel(u16),
    Batch(u16),
    Bogus,
    /// manual acknowledgement through the request channel (`try_ack`)
    MAck(u8, u16),
}

#[derive(Clone, Debug, Hash)]
pub enum Conn {
    Silent,
    Partial(u64),
    AckAt(u64),
    AckRace,
    Refuse,
    BadCode(u64),
    NotConnAck(u64),
    CloseAt(u64),
}

#[derive(Clone, Debug, Hash)]
pub enum Spec {
    Ka { v5: bool, k: u64, delay: Delay, answered: u32, traffic: Traffic, t0: u64, phase: u64, ska: Option<u16> },
    Conn { v5: bool, ct: u64, sc: Conn },
    Zero { v5: bool, ska: Option<u16>, traffic: Traffic },
    Loop { v5: bool, max: u16, ma: bool, thr: u64, script: Vec<Step>, cut: usize, mid: u8, sp: bool, second: Option<u64>, race_queue: bool,
        /// MQTT 5: every CONNACK carries `receive_maximum = rmax` (below the client's limit `max`)
        rmax: Option<u16>,
        /// a user request is sitting in the channel when the second failure happens
        late: bool },
    /// keep-alive across a reconnect: the first connection ends while a PINGREQ is unanswered
    /// (`cause` 0: the broker closes `f` ms after the PINGREQ, 1: the broker stays silent until
    /// AwaitPingResp), the next connection's broker answers every PINGREQ after `delay` ms
    KaRe { v5: bool, k: u64, cause: u8, f: u64, delay: u64 },
}

impl Spec {
    pub fn race(&self) -> bool {
        match self {
            Spec::Ka { delay: Delay::Race, .. } => true,
            Spec::Loop { race_queue, .. } => *race_queue,
            _ => false,
        }
    }
    pub fn id(&self) -> String {
        let v = |b: &bool| if *b { "v5" } else { "v4" };
        match self {
            Spec::Ka { v5, k, delay, answered, traffic, t0, phase, ska } => format!(
                "ka-{}-k{}-{}-a{}-{:?}-t{}-p{}{}",
                v(v5),
                k,
                match delay {
                    Delay::Ms(d) => format!("d{d}"),
                    Delay::AtDeadline => "dK".into(),
                    Delay::Race => "race".into(),
                },
                answered,
                traffic,
                t0,
                phase,
                ska.map(|s| format!("-ska{s}")).unwrap_or_default()
            ),
            Spec::Conn { v5, ct, sc } => format!("conn-{}-ct{}-{:?}", v(v5), ct, sc).replace(['(', ')'], "_"),
            Spec::Zero { v5, ska, traffic } => format!("zero-{}-{:?}-{:?}", v(v5), ska, traffic).replace(['(', ')'], "_"),
            Spec::KaRe { v5, k, cause, f, delay } => format!("kare-{}-k{}-c{}-f{}-d{}", v(v5), k, cause, f, delay),
            Spec::Loop { v5, max, thr, script, cut, mid, sp, second, race_queue, rmax, late, .. } => {
                let mut h = std::collections::hash_map::DefaultHasher::new();
                use std::hash::{Hash, Hasher};
                script.hash(&mut h);
                format!(
                    "loop-{}-m{}-s{:08x}-c{}-f{}-sp{}-t{}{}{}{}{}",
                    v(v5),
                    max,
                    h.finish() as u32,
                    cut,
                    mid,
                    *sp as u8,
                    thr,
                    second.map(|j| format!("-second{j}")).unwrap_or_default(),
                    if *race_queue { "-race" } else { "" },
                    rmax.map(|r| format!("-rmax{r}")).unwrap_or_default(),
                    if *late { "-late" } else { "" }
                )
            }
        }
    }
}

const PUBACK1: [&str; 3] = ["", "40", "400200"];

async fn play(spec: &Spec) -> Vec<String> {
    match spec {
        Spec::Ka { v5, k, delay, answered, traffic, t0, phase, ska } => {
            let ver = if *v5 { "v5" } else { "v4" };
            let mut s = Sess::new(&format!("new {ver} ka={k} ct=5 max=10 cap=10 thr=0")).await;
            s.op("xport ok").await;
            s.op(&format!("run {t0}")).await;
            match ska {
                Some(x) => s.op(&format!("in connack sp=0 ska={x}")).await,
                None => s.op("in connack sp=0").await,
            };
            let keff = ska.map(|x| x as u64).unwrap_or(*k) * 1000;
            let t_end = t0 + (*answered as u64 + 2) * keff + keff / 2;
            let d = match delay {
                Delay::Ms(d) => *d,
                _ => keff,
            };
            // other traffic: three events per interval, shifted off the timer's instants
            let mut traffic_at: std::collections::VecDeque<u64> = Default::default();
            if *traffic != Traffic::None {
                let mut t = t0 + phase + 1;
                while t < t_end {
                    traffic_at.push_back(t);
                    t += keff / 3 + 1;
                }
            }
            let mut answers: std::collections::VecDeque<u64> = Default::default();
            let mut count = 0u32;
            let mut n = 0u32;
            loop {
                let racing = matches!(delay, Delay::Race);
                let na = answers.front().map(|a| if racing { a - 1 } else { *a });
                let mut next = t_end;
                if let Some(a) = na {
                    next = next.min(a);
                }
                if let Some(t) = traffic_at.front() {
                    next = next.min(*t);
                }
                let react = if count < *answered && !racing { Some(d) } else { None };
                let (end, pings) = s.run_react(next, react).await;
                if s.failed {
                    break;
                }
                for p in pings {
                    if count < *answered {
                        answers.push_back(p + d);
                        count += 1;
                    }
                }
                // due actions, fixed order: answers, then traffic
                while let Some(a) = answers.front().copied() {
                    if racing && a - 1 <= end {
                        s.op(&format!("wait {a}")).await;
                        s.op("in pingresp").await;
                        answers.pop_front();
                    } else if !racing && a <= end {
                        s.op("in pingresp").await;
                        answers.pop_front();
                    } else {
                        break;
                    }
                }
                while let Some(t) = traffic_at.front().copied() {
                    if t <= end {
                        n += 1;
                        match traffic {
                            Traffic::Up => s.op(&format!("req pub 0 u{n}")).await,
                            _ => s.op(&format!("in publish 0 0 d{n}")).await,
                        };
                        traffic_at.pop_front();
                    } else {
                        break;
                    }
                }
                if end >= t_end {
                    break;
                }
            }
            s.finish().await
        }
        Spec::Zero { v5, ska, traffic } => {
            let ver = if *v5 { "v5" } else { "v4" };
            let mut s = Sess::new(&format!("new {ver} ka=0 ct=5 max=10 cap=10 thr=0")).await;
            s.op("xport ok").await;
            s.op("run 3").await;
            match ska {
                Some(x) => s.op(&format!("in connack sp=0 ska={x}")).await,
                None => s.op("in connack sp=0").await,
            };
            let mut t = 3u64;
            for i in 0..12u64 {
                t += 17_000 + i;
                s.op(&format!("run {t}")).await;
                if s.failed {
                    break;
                }
                match traffic {
                    Traffic::Up => {
                        s.op(&format!("req pub 0 u{i}")).await;
                    }
                    Traffic::Down => {
                        s.op(&format!("in publish 0 0 d{i}")).await;
                    }
                    Traffic::None => {}
                }
            }
            s.finish().await
        }
        Spec::Conn { v5, ct, sc } => {
            let ver = if *v5 { "v5" } else { "v4" };
            let ctm = ct * 1000;
            let mut s = Sess::new(&format!("new {ver} ka=5 ct={ct} max=10 cap=10 thr=0")).await;
            let mut t = 7u64; // the attempt starts at 7 ms, not at 0
            s.op(&format!("run {t}")).await;
            match sc {
                Conn::Refuse => {
                    s.op("xport refuse").await;
                    s.op(&format!("run {}", t + 5)).await;
                }
                _ => {
                    s.op("xport ok").await;
                    match sc {
                        Conn::Silent => {}
                        Conn::Partial(at) => {
                            s.op(&format!("run {}", t + at)).await;
                            s.op("inraw 2002").await;
                        }
                        Conn::AckAt(at) => {
                            s.op(&format!("run {}", t + at)).await;
                            s.op("in connack sp=0").await;
                        }
                        Conn::AckRace => {
                            s.op(&format!("run {}", t + ctm - 1)).await;
                            s.op(&format!("wait {}", t + ctm)).await;
                            s.op("in connack sp=0").await;
                        }
                        Conn::BadCode(at) => {
                            s.op(&format!("run {}", t + at)).await;
                            s.op("in connack sp=0 code=5").await;
                        }
                        Conn::NotConnAck(at) => {
                            s.op(&format!("run {}", t + at)).await;
                            s.op("in pingresp").await;
                        }
                        Conn::CloseAt(at) => {
                            s.op(&format!("run {}", t + at)).await;
                            s.op("close").await;
                        }
                        Conn::Refuse => unreachable!(),
                    }
                    s.op(&format!("run {}", t + ctm + 2000)).await;
                }
            }
            t += ctm + 2000;
            if s.failed {
                // the next attempt succeeds and the keep-alive runs from its CONNACK
                s.op("xport ok").await;
                s.op(&format!("run {}", t + 40)).await;
                s.op("in connack sp=0").await;
                s.op(&format!("run {}", t + 40 + 5000 + 10)).await;
            } else {
                s.op(&format!("run {}", t + 5000)).await;
            }
            s.finish().await
        }
        Spec::KaRe { v5, k, cause, f, delay } => {
            let ver = if *v5 { "v5" } else { "v4" };
            let km = k * 1000;
            let mut s = Sess::new(&format!("new {ver} ka={k} ct=5 max=10 cap=10 thr=0")).await;
            s.op("xport ok").await;
            s.op("run 0").await;
            s.op("in connack sp=0").await;
            let mut t;
            if *cause == 0 {
                // the PINGREQ leaves at k; the broker drops the connection f ms later, unanswered
                t = km + f;
                s.op(&format!("run {t}")).await;
                s.op("close").await;
                t += 1;
                s.op(&format!("run {t}")).await;
            } else {
                // silent broker: AwaitPingResp at 2k
                t = 2 * km + f;
                s.op(&format!("run {t}")).await;
            }
            s.op("xport ok").await;
            t += 50;
            s.op(&format!("run {t}")).await;
            s.op("in connack sp=0").await;
            // a healthy broker from here on: every PINGREQ answered after `delay`
            let t_end = t + 3 * km + km / 2;
            let mut answers: std::collections::VecDeque<u64> = Default::default();
            loop {
                let next = answers.front().copied().unwrap_or(t_end).min(t_end);
                let (end, pings) = s.run_react(next, Some(*delay)).await;
                if s.failed {
                    break;
                }
                for p in pings {
                    answers.push_back(p + delay);
                }
                while let Some(a) = answers.front().copied() {
                    if a <= end {
                        s.op("in pingresp").await;
                        answers.pop_front();
                    } else {
                        break;
                    }
                }
                if end >= t_end {
                    break;
                }
            }
            s.finish().await
        }
        Spec::Loop { v5, max, ma, thr, script, cut, mid, sp, second, race_queue, rmax, late } => {
            let ver = if *v5 { "v5" } else { "v4" };
            let rm = rmax.map(|r| format!(" rmax={r}")).unwrap_or_default();
            let mut s = Sess::new(&format!("new {ver} ka=60 ct=5 max={max} cap=10 thr={thr} ma={}", *ma as u8)).await;
            s.op("xport ok").await;
            s.op("run 0").await;
            s.op(&format!("in connack sp=0{rm}")).await;
            let mut t = 10u64;
            s.op(&format!("run {t}")).await;
            for st in script.iter().take(*cut) {
                if s.failed {
                    break;
                }
                do_step(&mut s, st).await;
                t += 10;
                s.op(&format!("run {t}")).await;
            }
            if !s.failed {
                if *race_queue {
                    // requests queued in the channel at failure time with the request branch enabled
                    s.op("req pub 1 rq1").await;
                    s.op("req sub 1").await;
                }
                if *mid > 0 {
                    s.op(&format!("inraw {}", PUBACK1[*mid as usize])).await;
                }
                s.op("close").await;
                t += 10;
                s.op(&format!("run {t}")).await;
            }
            // reconnect
            s.op("xport ok").await;
            t += 10;
            s.op(&format!("run {t}")).await;
            s.op(&format!("in connack sp={}{rm}", *sp as u8)).await;
            if let Some(j) = second {
                // second failure while the carried-over requests are being replayed
                t += j * thr + thr / 2;
                s.op(&format!("run {t}")).await;
                if *late && s.last_pending > 0 {
                    // issued during the replay: it waits in the channel behind `pending`
                    // (with `pending` already empty it would race with the EOF in select!)
                    s.op("req pub 1 late").await;
                }
                s.op("close").await;
                t += 1;
                s.op(&format!("run {t}")).await;
                s.op("xport ok").await;
                t += 10;
                s.op(&format!("run {t}")).await;
                s.op(&format!("in connack sp=1{rm}")).await;
            }
            t += 40 + 16 * thr;
            s.op(&format!("run {t}")).await;
            // a request issued after the failure
            s.op("req pub 1 znew").await;
            t += 10;
            s.op(&format!("run {t}")).await;
            // the broker acknowledges what it has seen, oldest first
            do_step(&mut s, &Step::AckAll).await;
            t += 10;
            s.op(&format!("run {t}")).await;
            s.finish().await
        }
    }
}

async fn do_step(s: &mut Sess, st: &Step) {
    match st {
        Step::U(q, tag) => {
            s.op(&format!("req pub {q} {tag}")).await;
        }
        Step::Sub => {
            s.op("req sub 1").await;
        }
        Step::Unsub => {
            s.op("req unsub").await;
        }
        Step::AckOld => {
            if let Some(i) = s.unacked.iter().position(|u| u.1 == 1) {
                let id = s.unacked.remove(i).0;
                s.op(&format!("in puback {id}")).await;
            }
        }
        Step::AckNew => {
            if let Some(i) = s.unacked.iter().rposition(|u| u.1 == 1) {
                let id = s.unacked.remove(i).0;
                s.op(&format!("in puback {id}")).await;
            }
        }
        Step::AckAll => {
            let ids: Vec<u16> = s.unacked.iter().filter(|u| u.1 == 1).map(|u| u.0).collect();
            s.unacked.retain(|u| u.1 != 1);
            for id in ids {
                s.op(&format!("in puback {id}")).await;
            }
        }
        Step::RecOld => {
            if let Some(u) = s.unacked.iter_mut().find(|u| u.1 == 2 && !u.2) {
                u.2 = true;
                let id = u.0;
                s.op(&format!("in pubrec {id}")).await;
            }
        }
        Step::CompOld => {
            if let Some(i) = s.unacked.iter().position(|u| u.1 == 2 && u.2) {
                let id = s.unacked.remove(i).0;
                s.op(&format!("in pubcomp {id}")).await;
            }
        }
        Step::SubAck => {
            let id = s.last_sub;
            if id != 0 {
                s.op(&format!("in suback {id}")).await;
            }
        }
        Step::In(q, id, tag) => {
            s.op(&format!("in publish {q} {id} {tag}")).await;
        }
        Step::InRel(id) => {
            s.op(&format!("in pubrel {id}")).await;
        }
        Step::Batch(n) => {
            for i in 1..=*n {
                s.op(&format!("in publish 1 {i} b{i}")).await;
            }
        }
        Step::Bogus => {
            s.op("in puback 9").await;
        }
        Step::MAck(q, id) => {
            s.op(&format!("req ack {q} {id}")).await;
        }
    }
}

pub fn run_spec(spec: &Spec) -> Vec<String> {
    let rt = paused_rt();
    let r = std::panic::catch_unwind(std::panic::AssertUnwindSafe(|| rt.block_on(play(spec))));
    match r {
        Ok(l) => l,
        Err(_) => vec![format!("new v4 => PANIC {}", last_panic().replace(" => ", " -> "))],
    }
}

fn u(q: u8, t: &str) -> Step {
    Step::U(q, t.to_string())
}

/// the hand-written sessions (every one is cut at every position)
fn base_scripts() -> Vec<(u16, Vec<Step>)> {
    use Step::*;
    let mut v: Vec<(u16, Vec<Step>)> = vec![
        (10, vec![u(1, "a"), u(1, "b"), u(1, "c")]),
        (10, vec![u(1, "a"), u(1, "b"), AckOld, u(1, "c"), AckOld]),
        (10, vec![u(2, "a"), RecOld, CompOld, u(2, "b"), RecOld]),
        (10, vec![u(1, "a"), u(2, "b"), u(1, "c"), RecOld, AckOld, CompOld]),
        (10, vec![u(1, "a"), u(1, "b"), AckNew, u(1, "c")]),
        (2, vec![u(1, "a"), u(1, "b"), u(1, "c"), u(1, "d"), AckOld, AckOld, AckOld]),
        (2, vec![u(1, "a"), u(1, "b"), AckNew, u(1, "c"), u(1, "d"), AckOld, AckOld]),
        (3, vec![u(1, "a"), u(1, "b"), AckOld, AckOld, u(1, "c"), u(1, "d"), u(1, "e"), AckOld, u(1, "f")]),
        (10, vec![In(1, 1, "x".into()), In(2, 2, "y".into()), InRel(2), u(1, "a")]),
        (10, vec![Batch(3), u(1, "a")]),
        (10, vec![Batch(9), u(1, "a")]),
        (10, vec![Batch(10), u(1, "a")]),
        (10, vec![Batch(12), u(1, "a"), Batch(1)]),
        (10, vec![Sub, SubAck, u(1, "a"), In(1, 5, "m".into()), AckOld]),
        (10, vec![u(0, "a"), u(0, "b"), u(1, "c"), Unsub]),
        (10, vec![u(1, "a"), Bogus, u(1, "b")]),
        (10, vec![u(2, "a"), u(2, "b"), RecOld, RecOld, CompOld, u(1, "c")]),
        (2, vec![u(2, "a"), u(2, "b"), u(1, "c"), RecOld, CompOld, RecOld]),
        (10, vec![u(1, "a"), u(1, "b"), u(1, "c"), AckAll, u(1, "d")]),
        (1, vec![u(1, "a"), u(1, "b"), AckOld, AckOld, u(1, "c")]),
        (3, vec![u(1, "a"), u(2, "b"), u(1, "c"), u(1, "d"), AckOld, RecOld, AckOld, CompOld]),
        (5, vec![u(1, "a"), u(1, "b"), u(1, "c"), u(1, "d"), u(1, "e"), u(1, "f"), AckOld, AckOld]),
        // manual acknowledgements (1000 + max = manual_acks on): acks queued behind a full window at
        // failure time: `clean` drops the PubAck and keeps the PubRec
        (1001, vec![In(1, 1, "x".into()), MAck(1, 1), u(1, "a"), In(1, 2, "y".into()), MAck(1, 2), In(2, 3, "z".into()), MAck(2, 3)]),
        (1002, vec![u(1, "a"), In(2, 4, "x".into()), MAck(2, 4), InRel(4), u(1, "b"), In(1, 5, "y".into()), MAck(1, 5), u(1, "c")]),
    ];
    // the same traffic under other window sizes
    let more: Vec<(u16, Vec<Step>)> = v
        .iter()
        .filter(|(m, _)| *m == 10)
        .take(11)
        .flat_map(|(_, s)| [(2u16, s.clone()), (3u16, s.clone())])
        .collect();
    v.extend(more);
    v
}

fn random_script(rng: &mut Rng) -> (u16, Vec<Step>) {
    use Step::*;
    let max = *rng.pick(&[1u16, 2, 2, 3, 3, 4, 5, 10]);
    let n = rng.range(3, 12);
    let mut v = vec![];
    let mut tag = 0;
    for _ in 0..n {
        let st = match rng.weighted(&[30, 12, 4, 12, 6, 3, 8, 8, 2, 4, 3, 3, 1, 1]) {
            0 => {
                tag += 1;
                u(1, &format!("m{tag}"))
            }
            1 => {
                tag += 1;
                u(2, &format!("m{tag}"))
            }
            2 => {
                tag += 1;
                u(0, &format!("m{tag}"))
            }
            3 => AckOld,
            4 => AckNew,
            5 => AckAll,
            6 => RecOld,
            7 => CompOld,
            8 => Sub,
            9 => {
                tag += 1;
                In(rng.range(0, 2) as u8, rng.range(1, 4) as u16, format!("i{tag}"))
            }
            10 => InRel(rng.range(1, 4) as u16),
            11 => Batch(rng.range(0, 12) as u16),
            12 => SubAck,
            _ => Bogus,
        };
        v.push(st);
    }
    (max, v)
}

/// grid of reply delays inside (0, k): `n` interior points plus 1 ms and k-1 ms
fn delay_grid(k_ms: u64, n: u64) -> Vec<u64> {
    let mut v: Vec<u64> = (1..=n).map(|i| k_ms * i / (n + 1)).collect();
    v.push(1);
    v.push(k_ms - 1);
    v.sort();
    v.dedup();
    v
}

pub fn all_specs(o: &Opts) -> Vec<Spec> {
    let th = o.thorough();
    let mut v: Vec<Spec> = vec![];
    // --- C18 keep-alive: k x reply delay x answered x traffic x version ----------------------
    let ks: [u64; 3] = [5, 10, 60];
    // --- keep-alive across a reconnect: the previous connection ended with a PINGREQ outstanding ---
    // (first in the output: the driver prints at most 200 verdict lines, and a defect in the
    // carried-over ping flag makes every keep-alive schedule diverge at its first error snapshot)
    for v5 in [false, true] {
        for k in ks {
            let km = k * 1000;
            for (cause, fs) in [(0u8, vec![1u64, km / 2, km - 1]), (1u8, vec![10u64])] {
                for f in fs {
                    let ds: Vec<u64> = if th { delay_grid(km, 8) } else { vec![1, km / 2, km - 1] };
                    for delay in ds {
                        v.push(Spec::KaRe { v5, k, cause, f, delay });
                    }
                }
            }
        }
    }
    let t0s: &[u64] = if th { &[0, 137] } else { &[0] };
    let phases: &[u64] = if th { &[0, 911, 2503] } else { &[0] };
    for v5 in [false, true] {
        for k in ks {
            let mut delays: Vec<Delay> = delay_grid(k * 1000, if th { 48 } else { 16 }).into_iter().map(Delay::Ms).collect();
            delays.push(Delay::Ms(0));
            delays.push(Delay::AtDeadline);
            delays.push(Delay::Race);
            for (di, delay) in delays.iter().enumerate() {
                for answered in 0..=3u32 {
                    for (ti, traffic) in [Traffic::None, Traffic::Up, Traffic::Down].into_iter().enumerate() {
                        // quick: every (k, delay) with every `answered`, traffic rotating with the index
                        if !th && (di + answered as usize) % 3 != ti {
                            continue;
                        }
                        for t0 in t0s {
                            for phase in phases {
                                if traffic == Traffic::None && *phase != 0 {
                                    continue;
                                }
                                v.push(Spec::Ka { v5, k, delay: delay.clone(), answered, traffic, t0: *t0, phase: *phase, ska: None });
                            }
                        }
                    }
                }
            }
        }
    }
    // v5: the broker's server_keep_alive replaces the configured value
    for ska in [1u16, 2, 7, 30] {
        for answered in 0..=2u32 {
            for d in [1u64, (ska as u64) * 500, (ska as u64) * 1000 - 1] {
                v.push(Spec::Ka { v5: true, k: 10, delay: Delay::Ms(d), answered, traffic: Traffic::None, t0: 0, phase: 0, ska: Some(ska) });
            }
        }
    }
    // --- keep-alive zero ---------------------------------------------------------------------
    for traffic in [Traffic::None, Traffic::Up, Traffic::Down] {
        v.push(Spec::Zero { v5: false, ska: None, traffic });
        v.push(Spec::Zero { v5: true, ska: Some(0), traffic });
    }
    // --- connection timeout ------------------------------------------------------------------
    for v5 in [false, true] {
        for ct in [1u64, 3, 5] {
            let ctm = ct * 1000;
            let mut scs = vec![Conn::Silent, Conn::Refuse, Conn::AckRace];
            let offs: Vec<u64> = if th { delay_grid(ctm, 16) } else { vec![1, ctm / 2, ctm - 1] };
            for d in offs {
                scs.push(Conn::AckAt(d));
                scs.push(Conn::Partial(d));
                if th || d == ctm / 2 {
                    scs.push(Conn::BadCode(d));
                    scs.push(Conn::NotConnAck(d));
                    scs.push(Conn::CloseAt(d));
                }
            }
            scs.push(Conn::AckAt(0));
            scs.push(Conn::AckAt(ctm));
            scs.push(Conn::AckAt(ctm + 1));
            for sc in scs {
                v.push(Spec::Conn { v5, ct, sc });
            }
        }
    }
    // --- MQTT 5 receive maximum below the client's limit: the window is the negotiated one -------
    for rmax in [1u16, 2, 3] {
        use Step::*;
        let mut sc: Vec<Step> = (0..rmax).map(|i| u(1, &format!("w{i}"))).collect();
        // requests beyond the negotiated window: publishes of every QoS, SUBSCRIBE, UNSUBSCRIBE
        sc.extend([u(1, "x1"), Sub, u(0, "x0"), u(2, "x2"), Unsub, AckOld, AckOld, AckOld, RecOld, CompOld, AckAll, u(1, "y")]);
        for cut in 0..=sc.len() {
            for sp in [true, false] {
                v.push(Spec::Loop { v5: true, max: 10, ma: false, thr: 0, script: sc.clone(), cut, mid: 0, sp, second: None, race_queue: false, rmax: Some(rmax), late: false });
            }
        }
        for j in [0u64, 1] {
            v.push(Spec::Loop { v5: true, max: 10, ma: false, thr: 10, script: sc.clone(), cut: sc.len() / 2, mid: 0, sp: true, second: Some(j), race_queue: false, rmax: Some(rmax), late: true });
        }
    }
    // --- loop clauses: scripts x every cut x session_present x (mid-frame) x (second failure) ---
    let mut scripts = base_scripts();
    if th {
        let mut rng = Rng::new(o.seed ^ 0xC100_9);
        for _ in 0..1400 {
            scripts.push(random_script(&mut rng));
        }
    }
    for (si, (max, script)) in scripts.iter().enumerate() {
        let (ma, max) = (*max >= 1000, &(*max % 1000));
        for v5 in [false, true] {
            // quick: the hand-written sessions alternate between the two loops, thorough: both
            if !th && (si % 2 == 1) != v5 && si >= 24 {
                continue;
            }
            if th && si >= 46 && (si % 2 == 1) != v5 {
                continue;
            }
            for cut in 0..=script.len() {
                for sp in [true, false] {
                    let mid = ((cut + si) % 3) as u8;
                    v.push(Spec::Loop { v5, max: *max, ma, thr: 0, script: script.clone(), cut, mid: 0, sp, second: None, race_queue: false, rmax: None, late: false });
                    if mid > 0 {
                        v.push(Spec::Loop { v5, max: *max, ma, thr: 0, script: script.clone(), cut, mid, sp, second: None, race_queue: false, rmax: None, late: false });
                    }
                }
                // repeated failure during the replay (throttle 10 ms so that the replay has a duration)
                if cut == script.len() || cut == script.len() / 2 + 1 || (th && si < 46) {
                    for j in [0u64, 1, 2] {
                        v.push(Spec::Loop { v5, max: *max, ma, thr: 10, script: script.clone(), cut, mid: 0, sp: true, second: Some(j), race_queue: false, rmax: None, late: false });
                    }
                }
                // a request issued while the replay is under way sits in the channel at the second failure
                if cut == script.len() || (th && si < 46) {
                    for j in [0u64, 1, 2] {
                        v.push(Spec::Loop { v5, max: *max, ma, thr: 10, script: script.clone(), cut, mid: 0, sp: true, second: Some(j), race_queue: false, rmax: None, late: true });
                    }
                }
                if cut == script.len() && si < 24 {
                    v.push(Spec::Loop { v5, max: *max, ma, thr: 0, script: script.clone(), cut, mid: 0, sp: true, second: None, race_queue: true, rmax: None, late: false });
                }
            }
        }
    }
    v
}

pub fn run(o: &Opts) {
    let mut w = o.writer();
    if let Some(p) = &o.replay {
        let mut cur: Vec<String> = vec![];
        let flush = |cur: &mut Vec<String>, w: &mut dyn Write| {
            if !cur.is_empty() {
                for l in run_case(cur) {
                    writeln!(w, "{l}").unwrap();
                }
                cur.clear();
            }
        };
        for line in std::fs::read_to_string(p).expect("replay file").lines() {
            let op = line.split(" => ").next().unwrap().trim();
            if op.is_empty() || op.starts_with('#') {
                continue;
            }
            if op.starts_with("case ") {
                flush(&mut cur, &mut *w);
                writeln!(w, "{op}").unwrap();
                continue;
            }
            cur.push(op.to_string());
        }
        flush(&mut cur, &mut *w);
        w.flush().unwrap();
        return;
    }
    let mut st = Stats::new(
        "one evaluation = one scripted schedule of the real EventLoop (v4 / v5) under paused time; non-trivial = the schedule produced at least one PINGREQ, error, retransmission or blocked request (every schedule here does); distinct by the executed op list",
    );
    let specs = all_specs(o);
    let only: Option<&String> = o.extra.iter().position(|x| x == "--only").and_then(|i| o.extra.get(i + 1));
    // --profile c18  : keep-alive, keep-alive zero, connection timeout schedules (property C18)
    // --profile loop : scripted sessions x cut positions (loop clauses of C02 / C07 / C10 / C11)
    let profile: Option<&String> = o.extra.iter().position(|x| x == "--profile").and_then(|i| o.extra.get(i + 1));
    for (i, spec) in specs.iter().enumerate() {
        if (i as u64) % o.shards != o.shard {
            continue;
        }
        let id = spec.id();
        if let Some(f) = only {
            if !id.starts_with(f.as_str()) {
                continue;
            }
        }
        match profile.map(|x| x.as_str()) {
            Some("c18") if id.starts_with("loop-") => continue,
            Some("loop") if !id.starts_with("loop-") => continue,
            _ => {}
        }
        let lines = run_spec(spec);
        st.eval();
        // determinism: the same schedule again must give the same transcript (the racing
        // schedules excepted: there tokio's select! is allowed to differ)
        let mut nondet = None;
        if !spec.race() && (!o.thorough() || i % 8 == 0) {
            let again = run_spec(spec);
            if again != lines {
                let k = lines.iter().zip(again.iter()).position(|(a, b)| a != b).unwrap_or(lines.len().min(again.len()));
                nondet = Some(format!(
                    "run 0 => NONDET line {k}: first=[{}] second=[{}]",
                    lines.get(k).cloned().unwrap_or_default().replace(" => ", " -> "),
                    again.get(k).cloned().unwrap_or_default().replace(" => ", " -> ")
                ));
                st.tag("NONDETERMINISTIC");
            }
        }
        writeln!(w, "case {id}").unwrap();
        let mut errs = 0;
        let mut pings = 0;
        let mut rexmit = false;
        for l in &lines {
            writeln!(w, "{l}").unwrap();
            if l.contains(" => PANIC") {
                st.impl_panics += 1;
            }
            if let Some(out) = l.split(" => ").nth(1) {
                for o in out.split(' ') {
                    let mut it = o.splitn(3, ':');
                    let (_, k, b) = (it.next(), it.next().unwrap_or(""), it.next().unwrap_or(""));
                    match k {
                        "x" => {
                            errs += 1;
                            st.tag(&format!("err:{b}"));
                        }
                        "w" if b == "pingreq" => pings += 1,
                        "s" if errs > 0 && b.split('/').count() > 4 => rexmit = true,
                        _ => {}
                    }
                }
            }
        }
        if let Some(n) = nondet {
            writeln!(w, "{n}").unwrap();
        }
        let fam = id.split('-').take(2).collect::<Vec<_>>().join("-");
        st.tag(&format!("family:{fam}"));
        st.tag(&format!("pings:{}", pings.min(5)));
        st.tag(&format!("errors:{}", errs.min(4)));
        if rexmit {
            st.tag("carried-over-nonempty");
        }
        if spec.race() {
            st.tag("race-schedule");
        }
        st.tagn("ops", lines.len() as u64);
        if pings > 0 || errs > 0 || rexmit {
            st.nontrivial(&lines.iter().map(|l| l.split(" => ").next().unwrap_or("").to_string()).collect::<Vec<_>>());
        }
        if i % 97 == 0 {
            st.sample(format!("{id}: {}", lines.iter().rev().take(3).rev().cloned().collect::<Vec<_>>().join(" | ")));
        }
    }
    st.exhaustive = false;
    w.flush().unwrap();
    if let Some(p) = &o.stats {
        st.write(p);
    }
}
